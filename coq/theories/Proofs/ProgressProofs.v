(* Proofs about Model/Progress.v (C18): the progress accounting of the boss never panics.

   Method: an "ideal" (unbounded) account of what the calls add up to ([ieff]); the concrete state is
   its clamp to the u64 range ([clamp]: saturating work / byte totals, u32 counters that never get near
   their limit); the three assertions are statements about the ideal account, proved by induction over
   the plan and over the chunk list of every file. *)
From RJ Require Import Base.Prelude Model.Chunk Model.Bincode Model.Progress Proofs.ChunkProofs.
Local Open Scope N_scope.

(* ---------------------------------------------------------------------------------------------- *)
(* ideal account *)
Definition ipv_add (x y : pv) : pv :=
  mkPV (pv_work x + pv_work y) (pv_delete x + pv_delete y) (pv_copy x + pv_copy y) (pv_bytes x + pv_bytes y).
Definition clamp (x : pv) : pv :=
  mkPV (N.min u64_max (pv_work x)) (pv_delete x) (pv_copy x) (N.min u64_max (pv_bytes x)).

Lemma pv_ext x y : pv_work x = pv_work y -> pv_delete x = pv_delete y -> pv_copy x = pv_copy y ->
  pv_bytes x = pv_bytes y -> x = y.
Proof. destruct x, y; cbn; intros; subst; reflexivity. Qed.

Ltac pv_lia := apply pv_ext; cbn [ipv_add clamp pv_zero pv_work pv_delete pv_copy pv_bytes]; lia.

Lemma ipv_add_assoc x y z : ipv_add (ipv_add x y) z = ipv_add x (ipv_add y z).
Proof. pv_lia. Qed.
Lemma ipv_add_0_l x : ipv_add pv_zero x = x.
Proof. pv_lia. Qed.
Lemma ipv_add_0_r x : ipv_add x pv_zero = x.
Proof. pv_lia. Qed.

Fixpoint isum (l : list pv) : pv := match l with [] => pv_zero | x :: t => ipv_add x (isum t) end.
Lemma isum_app a b : isum (a ++ b) = ipv_add (isum a) (isum b).
Proof. induction a as [|x a IH]; cbn [isum app]; [now rewrite ipv_add_0_l | now rewrite IH, ipv_add_assoc]. Qed.

Definition fits (x : pv) : Prop := pv_work x <= u64_max /\ pv_bytes x <= u64_max.

(* what for_copy_partial returns when its own addition does not overflow *)
Definition ipartial (st sz fs : N) : pv :=
  if st + sz <? fs then mkPV (if min_file_size <? fs then sz else 0) 0 0 sz
  else mkPV (if min_file_size <? fs then sz else min_file_size) 0 1 sz.

Lemma for_copy_partial_ok st sz fs : st + sz <= u64_max -> for_copy_partial st sz fs = Ok (ipartial st sz fs).
Proof.
  intros H. unfold for_copy_partial, add64_plain, ipartial.
  destruct (st + sz <=? u64_max) eqn:E; [|lia]. cbn [obind].
  destruct (st + sz <? fs); reflexivity.
Qed.

Definition ieff1 (c : call) : pv :=
  match c with
  | KDelete => for_delete
  | KCopy e => for_copy e
  | KPartial st sz fs => ipartial st sz fs
  | KLimited | KMarker | KAllSent => pv_zero
  end.
Fixpoint ieff (cs : list call) : pv := match cs with [] => pv_zero | c :: t => ipv_add (ieff1 c) (ieff t) end.
Lemma ieff_app a b : ieff (a ++ b) = ipv_add (ieff a) (ieff b).
Proof. induction a as [|x a IH]; cbn [ieff app]; [now rewrite ipv_add_0_l | now rewrite IH, ipv_add_assoc]. Qed.

(* ---------------------------------------------------------------------------------------------- *)
(* one saturating addition keeps the clamp relation *)
Lemma u64_max_val : u64_max = 18446744073709551615. Proof. reflexivity. Qed.
Lemma u32_lim_val : u32_lim = 4294967296. Proof. reflexivity. Qed.

Lemma add64_sat x y : y <= u64_max ->
  add64 Saturating (N.min u64_max x) y = Ok (N.min u64_max (x + y)).
Proof.
  intros Hy. unfold add64. rewrite u64_max_val in *.
  destruct (N.min 18446744073709551615 x + y <=? 18446744073709551615) eqn:E; f_equal; lia.
Qed.

Lemma pv_add_sat I y : fits y ->
  pv_delete I + pv_delete y < u32_lim -> pv_copy I + pv_copy y < u32_lim ->
  pv_add Saturating (clamp I) y = Ok (clamp (ipv_add I y)).
Proof.
  intros [Hw Hb] Hd Hc. unfold pv_add. cbn [clamp pv_work pv_delete pv_copy pv_bytes].
  rewrite add64_sat by assumption. cbn [obind]. unfold add32.
  destruct (pv_delete I + pv_delete y <? u32_lim) eqn:E1; [|lia]. cbn [obind].
  destruct (pv_copy I + pv_copy y <? u32_lim) eqn:E2; [|lia]. cbn [obind].
  rewrite add64_sat by assumption. cbn [obind]. reflexivity.
Qed.

Lemma sum_pv_sat l : forall I, Forall fits l ->
  pv_delete I + pv_delete (isum l) < u32_lim -> pv_copy I + pv_copy (isum l) < u32_lim ->
  sum_pv Saturating (clamp I) l = Ok (clamp (ipv_add I (isum l))).
Proof.
  induction l as [|x l IH]; intros I HF Hd Hc; cbn [sum_pv isum].
  - now rewrite ipv_add_0_r.
  - inversion HF as [|? ? Hx HF']; subst. cbn [isum ipv_add pv_delete pv_copy] in Hd, Hc.
    rewrite pv_add_sat; [|assumption|lia|lia]. cbn [obind].
    rewrite IH; [|assumption|cbn [ipv_add pv_delete]; lia|cbn [ipv_add pv_copy]; lia].
    now rewrite ipv_add_assoc.
Qed.

(* ---------------------------------------------------------------------------------------------- *)
(* a call list that the concrete state executes without a panic: relative to the ideal total T and
   the ideal amount I sent so far *)
Definition entry_fits (e : entry_details) : Prop := match e with EDFile _ size => size <= u64_max | _ => True end.

(* the constants are u64 values (a computation on the generated facts) *)
Lemma consts_fit_ok : min_file_size <= u64_max /\ delete_work <= u64_max.
Proof.
  assert (H : consts_fit = true) by (vm_compute; reflexivity).
  unfold consts_fit in H. apply andb_true_iff in H as [H _]. apply andb_true_iff in H as [H1 H2].
  split; now apply N.leb_le.
Qed.
Global Opaque min_file_size delete_work marker_threshold.

Lemma for_copy_fits e : entry_fits e -> fits (for_copy e).
Proof.
  destruct e as [mt size| |k t]; cbn [entry_fits for_copy]; unfold fits; cbn [pv_work pv_bytes];
    pose proof consts_fit_ok; intros; lia.
Qed.
Lemma for_delete_fits : fits for_delete.
Proof. unfold fits, for_delete; cbn [pv_work pv_bytes]; pose proof consts_fit_ok; lia. Qed.
Lemma ipartial_fits st sz fs : sz <= u64_max -> fits (ipartial st sz fs).
Proof.
  intros H. unfold ipartial, fits. pose proof consts_fit_ok.
  destruct (st + sz <? fs); destruct (min_file_size <? fs); cbn [pv_work pv_bytes]; lia.
Qed.

Definition call_ok (T I : pv) (c : call) : Prop :=
  match c with
  | KLimited | KMarker => pv_delete I <= pv_delete T /\ pv_copy I <= pv_copy T
  | KAllSent => I = T
  | KPartial st sz fs => st + sz <= u64_max
  | KCopy e => entry_fits e
  | KDelete => True
  end.

Fixpoint safe (T I : pv) (cs : list call) : Prop :=
  match cs with
  | [] => True
  | c :: t =>
    call_ok T I c /\
    let I' := ipv_add I (ieff1 c) in
    pv_delete I' < u32_lim /\ pv_copy I' < u32_lim /\ safe T I' t
  end.

Lemma safe_app T a : forall I b, safe T I (a ++ b) <-> safe T I a /\ safe T (ipv_add I (ieff a)) b.
Proof.
  induction a as [|c a IH]; intros I b; cbn [app safe ieff].
  - rewrite ipv_add_0_r. tauto.
  - rewrite IH, ipv_add_assoc. tauto.
Qed.

Definition linked (T I : pv) (s : pstate) : Prop :=
  ps_total s = clamp T /\ ps_sent s = clamp I /\ ps_last s <= pv_work (ps_sent s).

Lemma clamp_work_mono I x : pv_work (clamp I) <= pv_work (clamp (ipv_add I x)).
Proof. cbn [clamp ipv_add pv_work]. lia. Qed.

Lemma get_marker_ok T I s : linked T I s -> pv_delete I <= pv_delete T -> pv_copy I <= pv_copy T ->
  exists s' m, get_marker s = Ok (s', m) /\ linked T I s'.
Proof.
  intros (Ht & Hs & Hl) Hd Hc. unfold get_marker. rewrite Ht, Hs.
  cbn [clamp pv_delete pv_copy pv_work pv_bytes].
  destruct (pv_delete I <=? pv_delete T) eqn:E1; [|lia].
  destruct (pv_copy I <=? pv_copy T) eqn:E2; [|lia]. cbn [negb].
  eexists _, _. split; [reflexivity|].
  unfold linked; cbn [ps_total ps_sent ps_last clamp pv_work]. repeat split; lia.
Qed.

Lemma sent_plus_ok T I s x : linked T I s -> fits x ->
  pv_delete I + pv_delete x < u32_lim -> pv_copy I + pv_copy x < u32_lim ->
  exists s', sent_plus Saturating s x = Ok (s', None) /\ linked T (ipv_add I x) s'.
Proof.
  intros (Ht & Hs & Hl) Hf Hd Hc. unfold sent_plus. rewrite Hs, pv_add_sat by assumption. cbn [obind].
  eexists. split; [reflexivity|]. unfold linked, set_sent; cbn [ps_total ps_sent ps_last].
  repeat split; try assumption. rewrite Hs in Hl. pose proof (clamp_work_mono I x). lia.
Qed.

Lemma exec_call_safe T I s c : linked T I s -> call_ok T I c ->
  pv_delete (ipv_add I (ieff1 c)) < u32_lim -> pv_copy (ipv_add I (ieff1 c)) < u32_lim ->
  (forall st sz fs, c = KPartial st sz fs -> sz <= u64_max) ->
  exists s' om, exec_call Saturating s c = Ok (s', om) /\ linked T (ipv_add I (ieff1 c)) s'.
Proof.
  intros HL Hok Hd Hc Hsz. destruct c as [| | |e|st sz fs|]; cbn [exec_call ieff1 call_ok] in *.
  - (* KLimited *)
    rewrite ipv_add_0_r. unfold get_marker_limited. destruct (ps_detailed s); cbn [negb].
    + destruct HL as (Ht & Hs & Hl).
      destruct (pv_work (ps_sent s) <? ps_last s) eqn:E; [lia|].
      destruct (pv_work (ps_sent s) - ps_last s <? marker_threshold).
      * eexists _, _. split; [reflexivity|]. repeat split; assumption.
      * destruct (get_marker_ok T I s) as (s' & m & Hg & HL'); [repeat split; assumption|tauto|tauto|].
        rewrite Hg. cbn [obind fst snd]. eexists _, _. split; [reflexivity|assumption].
    + eexists _, _. split; [reflexivity|assumption].
  - (* KMarker *)
    rewrite ipv_add_0_r.
    destruct (get_marker_ok T I s) as (s' & m & Hg & HL'); [assumption|tauto|tauto|].
    rewrite Hg. cbn [obind fst snd]. eexists _, _. split; [reflexivity|assumption].
  - (* KDelete *)
    cbn [ipv_add pv_delete pv_copy] in Hd, Hc.
    destruct (sent_plus_ok T I s for_delete HL for_delete_fits Hd Hc) as (s' & H1 & H2).
    eexists _, _. split; eassumption.
  - (* KCopy *)
    cbn [ipv_add pv_delete pv_copy] in Hd, Hc.
    destruct (sent_plus_ok T I s (for_copy e) HL (for_copy_fits e Hok) Hd Hc) as (s' & H1 & H2).
    eexists _, _. split; eassumption.
  - (* KPartial *)
    rewrite for_copy_partial_ok by assumption. cbn [obind].
    cbn [ipv_add pv_delete pv_copy] in Hd, Hc.
    destruct (sent_plus_ok T I s (ipartial st sz fs) HL (ipartial_fits st sz fs (Hsz _ _ _ eq_refl)) Hd Hc) as (s' & H1 & H2).
    eexists _, _. split; eassumption.
  - (* KAllSent *)
    rewrite ipv_add_0_r. subst I. destruct HL as (Ht & Hs & Hl). unfold all_work_sent. rewrite Ht, Hs.
    assert (E : pv_eqb (clamp T) (clamp T) = true).
    { unfold pv_eqb. rewrite !N.eqb_refl. reflexivity. }
    rewrite E. cbn [obind]. eexists _, _. split; [reflexivity|]. repeat split; assumption.
Qed.

Definition sizes_fit (cs : list call) : Prop := forall st sz fs, In (KPartial st sz fs) cs -> sz <= u64_max.

Lemma exec_calls_safe T cs : forall I s, linked T I s -> safe T I cs -> sizes_fit cs ->
  exists s' ms, exec_calls Saturating s cs = Ok (s', ms) /\ linked T (ipv_add I (ieff cs)) s'.
Proof.
  induction cs as [|c cs IH]; intros I s HL HS HF; cbn [exec_calls ieff].
  - rewrite ipv_add_0_r. eexists _, _. split; [reflexivity|assumption].
  - cbn [safe] in HS. destruct HS as (Hok & Hd & Hc & HS').
    destruct (exec_call_safe T I s c HL Hok Hd Hc) as (s1 & om & H1 & HL1).
    { intros st sz fs ->. apply (HF st sz fs). now left. }
    rewrite H1. cbn [obind fst snd].
    destruct (IH _ s1 HL1 HS') as (s2 & ms & H2 & HL2).
    { intros st sz fs Hin. apply (HF st sz fs). now right. }
    rewrite H2. cbn [obind fst snd]. rewrite <- ipv_add_assoc. eexists _, _. split; [reflexivity|assumption].
Qed.

Lemma exec_calls_app a s pre post :
  exec_calls a s (pre ++ post) =
  obind (exec_calls a s pre) (fun r => obind (exec_calls a (fst r) post) (fun r' => Ok (fst r', snd r ++ snd r'))).
Proof.
  revert s. induction pre as [|c pre IH]; intros s; cbn [app exec_calls obind fst snd].
  - destruct (exec_calls a s post) as [[s' ms]| |]; reflexivity.
  - destruct (exec_call a s c) as [[s1 om]| |]; cbn [obind fst snd]; try reflexivity.
    rewrite IH. destruct (exec_calls a s1 pre) as [[s2 ms]| |]; cbn [obind fst snd]; try reflexivity.
    destruct (exec_calls a s2 post) as [[s3 ms']| |]; cbn [obind fst snd]; try reflexivity.
    destruct om; reflexivity.
Qed.

Lemma exec_calls_prefix_ok a s pre post r : exec_calls a s (pre ++ post) = Ok r -> exists r', exec_calls a s pre = Ok r'.
Proof.
  rewrite exec_calls_app. destruct (exec_calls a s pre) as [r'| |]; cbn [obind]; intros H; try discriminate.
  now exists r'.
Qed.

(* ---------------------------------------------------------------------------------------------- *)
(* safety from a budget: a list without KAllSent whose whole effect stays within the total *)
Fixpoint wf_calls (cs : list call) : Prop :=
  match cs with
  | [] => True
  | c :: t =>
    match c with
    | KPartial st sz fs => st + sz <= u64_max
    | KCopy e => entry_fits e
    | KAllSent => False
    | _ => True
    end /\ wf_calls t
  end.

Lemma wf_calls_app a b : wf_calls (a ++ b) <-> wf_calls a /\ wf_calls b.
Proof. induction a as [|c a IH]; cbn [app wf_calls]; [tauto | rewrite IH; tauto]. Qed.

Lemma wf_sizes_fit cs : wf_calls cs -> sizes_fit cs.
Proof.
  induction cs as [|c cs IH]; intros H st sz fs Hin; [destruct Hin|].
  cbn [wf_calls] in H. destruct H as [Hc Ht]. destruct Hin as [->|Hin]; [lia | now apply (IH Ht st sz fs)].
Qed.

Lemma safe_of_budget T cs : forall I, wf_calls cs ->
  pv_delete T < u32_lim -> pv_copy T < u32_lim ->
  pv_delete I + pv_delete (ieff cs) <= pv_delete T -> pv_copy I + pv_copy (ieff cs) <= pv_copy T ->
  safe T I cs.
Proof.
  induction cs as [|c cs IH]; intros I Hwf HT1 HT2 Hd Hc; cbn [safe]; [exact Logic.I|].
  cbn [wf_calls] in Hwf. destruct Hwf as [Hc0 Hwf].
  cbn [ieff ipv_add pv_delete pv_copy] in Hd, Hc.
  split; [|split; [|split]].
  - destruct c; cbn [call_ok]; try exact Logic.I; try assumption; try contradiction; lia.
  - cbn [ipv_add pv_delete]. lia.
  - cbn [ipv_add pv_copy]. lia.
  - apply IH; try assumption; cbn [ipv_add pv_delete pv_copy]; lia.
Qed.

(* ---------------------------------------------------------------------------------------------- *)
(* the chunk loop of one file *)
Definition nonempty (c : N * bool) : Prop := fst c <> 0.
(* every chunk after the first one is non-empty (the premise on the source doer's answer) *)
Definition tail_nonempty (ans : answer) : Prop := Forall nonempty (List.tl ans).

(* what the non-final chunks up to offset [off] have added *)
Definition acc (size off : N) : pv := mkPV (if min_file_size <? size then off else 0) 0 0 off.
Definition file_pv (size : N) : pv := mkPV (N.max size min_file_size) 0 1 size.

Lemma Forall_tl {A} (P : A -> Prop) l : Forall P l -> Forall P (List.tl l).
Proof. intros H. destruct l; [constructor | now inversion H]. Qed.

(* once the file is complete, a further non-empty chunk only ends the transfer with an error *)
Lemma file_calls_done size ans : Forall nonempty ans -> exists e, file_calls size size ans = ([KLimited], Err e).
Proof.
  intros H. destruct ans as [|[n more] tl]; cbn [file_calls]; [eexists; reflexivity|].
  inversion H as [|? ? Hn ?]; subst. unfold nonempty in Hn; cbn [fst] in Hn.
  destruct (size <? size + n) eqn:E; [eexists; reflexivity|lia].
Qed.

Lemma file_calls_acct size : size <= u64_max -> forall ans off,
  Forall nonempty (List.tl ans) -> (off < size \/ off = 0) ->
  let r := file_calls size off ans in
  wf_calls (fst r) /\ pv_delete (ieff (fst r)) = 0 /\ pv_copy (ieff (fst r)) <= 1 /\
  (is_ok (snd r) = true -> ipv_add (acc size off) (ieff (fst r)) = file_pv size).
Proof.
  intros Hsize. induction ans as [|[n more] tl IH]; intros off Htl Hoff; cbn [file_calls].
  - cbn [fst snd wf_calls ieff ieff1 is_ok ipv_add pv_zero pv_delete pv_copy]. repeat split; try lia; try discriminate.
  - cbn [List.tl] in Htl.
    destruct (size <? off + n) eqn:E.
    { cbn [fst snd wf_calls ieff ieff1 is_ok ipv_add pv_zero pv_delete pv_copy]. repeat split; try lia; try discriminate. }
    assert (Hle : off + n <= size) by lia.
    destruct more.
    + (* more chunks follow *)
      cbn [fst snd].
      destruct (N.eq_dec (off + n) size) as [Heq|Hne].
      * (* this chunk completes the file: whatever follows only ends in an error *)
        destruct (file_calls_done size tl Htl) as (e & Hdone). rewrite Heq, Hdone. cbn [fst snd].
        cbn [wf_calls ieff ieff1 is_ok ipv_add pv_zero pv_delete pv_copy pv_work pv_bytes].
        unfold ipartial. destruct (off + n <? size) eqn:E2; [lia|].
        cbn [pv_delete pv_copy]. repeat split; try lia; try discriminate.
      * (* not complete yet *)
        assert (Hlt : off + n < size) by lia.
        specialize (IH (off + n) (Forall_tl _ _ Htl) (or_introl Hlt)).
        cbn zeta in IH. destruct IH as (W & D & C & A).
        cbn [wf_calls ieff ieff1].
        assert (Ep : ipartial off n size = mkPV (if min_file_size <? size then n else 0) 0 0 n).
        { unfold ipartial. destruct (off + n <? size) eqn:E2; [reflexivity|lia]. }
        rewrite Ep. cbn [ipv_add pv_zero pv_delete pv_copy pv_work pv_bytes].
        repeat split; try lia; try assumption.
        intros Hok. specialize (A Hok). rewrite <- A. unfold acc.
        apply pv_ext; cbn [ipv_add pv_zero pv_work pv_delete pv_copy pv_bytes];
          destruct (min_file_size <? size); lia.
    + (* the last chunk *)
      cbn [fst snd wf_calls ieff ieff1].
      unfold ipartial. destruct (off + n <? size) eqn:E2.
      * destruct (off + n =? size) eqn:E3; [lia|].
        cbn [ipv_add pv_zero pv_delete pv_copy pv_work pv_bytes is_ok]. repeat split; try lia; try discriminate.
      * assert (Heq : off + n = size) by lia.
        cbn [ipv_add pv_zero pv_delete pv_copy pv_work pv_bytes]. repeat split; try lia.
        intros _. unfold acc, file_pv.
        apply pv_ext; cbn [ipv_add pv_zero pv_work pv_delete pv_copy pv_bytes];
          destruct (min_file_size <? size) eqn:E4; lia.
Qed.

Lemma acc_zero size : acc size 0 = pv_zero.
Proof. unfold acc. destruct (min_file_size <? size); reflexivity. Qed.

Lemma copy_file_calls_acct dry size ans : size <= u64_max ->
  (forall an, ans = Some an -> tail_nonempty an) ->
  let r := copy_file_calls dry size ans in
  wf_calls (fst r) /\ pv_delete (ieff (fst r)) = 0 /\ pv_copy (ieff (fst r)) <= 1 /\
  (is_ok (snd r) = true -> ieff (fst r) = file_pv size).
Proof.
  intros Hsize Hans. unfold copy_file_calls. destruct dry.
  - cbn [fst snd wf_calls ieff ieff1 is_ok]. unfold ipartial. destruct (0 + size <? size) eqn:E; [lia|].
    cbn [ipv_add pv_zero pv_delete pv_copy pv_work pv_bytes]. repeat split; try lia.
    intros _. unfold file_pv.
    apply pv_ext; cbn [ipv_add pv_zero pv_work pv_delete pv_copy pv_bytes]; destruct (min_file_size <? size) eqn:E4; lia.
  - destruct ans as [an|].
    + pose proof (file_calls_acct size Hsize an 0 (Hans an eq_refl) (or_intror eq_refl)) as H.
      cbn zeta in H. destruct H as (W & D & C & A). cbn [fst snd wf_calls ieff ieff1].
      rewrite ipv_add_0_l. repeat split; try assumption.
      intros Hok. specialize (A Hok). now rewrite acc_zero, ipv_add_0_l in A.
    + cbn [fst snd wf_calls ieff ieff1 is_ok ipv_add pv_zero pv_delete pv_copy]. repeat split; try lia; try discriminate.
Qed.

(* ---------------------------------------------------------------------------------------------- *)
(* the loops over the plan *)
Lemma lenN_cons' {A} (x : A) l : lenN (x :: l) = lenN l + 1.
Proof. rewrite lenN_cons. lia. Qed.

Lemma for_copy_file mt size : for_copy (EDFile mt size) = file_pv size.
Proof. reflexivity. Qed.

Lemma copies_calls_acct dry : forall copies answers,
  Forall entry_fits copies -> Forall tail_nonempty answers ->
  let r := copies_calls dry copies answers in
  wf_calls (fst r) /\ pv_delete (ieff (fst r)) = 0 /\ pv_copy (ieff (fst r)) <= lenN copies /\
  (is_ok (snd r) = true -> ieff (fst r) = isum (map for_copy copies)).
Proof.
  induction copies as [|e tl IH]; intros answers HF HA; cbn [copies_calls].
  - cbn [fst snd wf_calls ieff map isum pv_zero pv_delete pv_copy]. repeat split; try reflexivity; apply N.le_0_l.
  - inversion HF as [|? ? He HF']; subst. rewrite lenN_cons'.
    destruct e as [mt size| |k t].
    + (* a file *)
      cbn [entry_fits] in He.
      set (ans := if dry then None else hd_error answers).
      assert (Hans : forall an, ans = Some an -> tail_nonempty an).
      { intros an. unfold ans. destruct dry; [discriminate|].
        destruct answers as [|a0 rest]; cbn [hd_error]; [discriminate|].
        intros [= ->]. now inversion HA. }
      pose proof (copy_file_calls_acct dry size ans He Hans) as H. cbn zeta in H.
      destruct H as (W & D & C & A).
      destruct (snd (copy_file_calls dry size ans)) as [u|err|p] eqn:Eo.
      * (* the file went through: the rest of the plan follows *)
        set (answers' := if dry then answers else List.tl answers).
        assert (HA' : Forall tail_nonempty answers').
        { unfold answers'. destruct dry; [assumption|]. destruct answers; [constructor|now inversion HA]. }
        specialize (IH answers' HF' HA'). cbn zeta in IH. destruct IH as (W2 & D2 & C2 & A2).
        cbn [fst snd]. rewrite wf_calls_app, ieff_app. cbn [ipv_add pv_delete pv_copy].
        repeat split; try assumption; try lia.
        intros Hok. cbn [map isum]. rewrite for_copy_file, A, A2 by (assumption || reflexivity). reflexivity.
      * repeat split; try assumption; try lia. rewrite Eo. discriminate.
      * repeat split; try assumption; try lia. rewrite Eo. discriminate.
    + (* a folder *)
      specialize (IH answers HF' HA). cbn zeta in IH. destruct IH as (W2 & D2 & C2 & A2).
      cbn [fst snd wf_calls ieff ieff1 for_copy ipv_add pv_zero pv_delete pv_copy entry_fits].
      repeat split; try assumption; try lia.
      intros Hok. cbn [map isum for_copy]. rewrite ipv_add_0_l, A2 by assumption. reflexivity.
    + (* a symlink *)
      specialize (IH answers HF' HA). cbn zeta in IH. destruct IH as (W2 & D2 & C2 & A2).
      cbn [fst snd wf_calls ieff ieff1 for_copy ipv_add pv_zero pv_delete pv_copy entry_fits].
      repeat split; try assumption; try lia.
      intros Hok. cbn [map isum for_copy]. rewrite ipv_add_0_l, A2 by assumption. reflexivity.
Qed.

Lemma delete_calls_acct (dels : list entry_details) :
  wf_calls (delete_calls dels) /\ ieff (delete_calls dels) = isum (map (fun _ => for_delete) dels).
Proof.
  induction dels as [|d tl [W E]]; cbn [delete_calls wf_calls ieff ieff1 map isum]; [split; [exact Logic.I|reflexivity]|].
  split; [tauto|]. now rewrite ipv_add_0_l, E.
Qed.

Lemma isum_deletes (dels : list entry_details) : pv_delete (isum (map (fun _ => for_delete) dels)) = lenN dels /\
  pv_copy (isum (map (fun _ => for_delete) dels)) = 0.
Proof.
  induction dels as [|d tl [IH1 IH2]]; cbn [map isum]; [split; reflexivity|].
  rewrite lenN_cons'. cbn [ipv_add for_delete pv_delete pv_copy]. split; lia.
Qed.

Lemma isum_copies copies : pv_delete (isum (map for_copy copies)) = 0 /\
  pv_copy (isum (map for_copy copies)) = lenN copies.
Proof.
  induction copies as [|e tl [IH1 IH2]]; cbn [map isum]; [split; reflexivity|].
  rewrite lenN_cons'. destruct e; cbn [ipv_add for_copy pv_delete pv_copy]; split; lia.
Qed.

Definition itotal (dels copies : list entry_details) : pv :=
  isum (map (fun _ => for_delete) dels ++ map for_copy copies).

Lemma itotal_counts dels copies :
  pv_delete (itotal dels copies) = lenN dels /\ pv_copy (itotal dels copies) = lenN copies.
Proof.
  unfold itotal. rewrite isum_app. cbn [ipv_add pv_delete pv_copy].
  destruct (isum_deletes dels), (isum_copies copies). split; lia.
Qed.

(* Progress::new succeeds and yields the clamp of the ideal total *)
Lemma progress_new_ok detailed dels copies :
  lenN dels < u32_lim -> lenN copies < u32_lim -> Forall entry_fits copies ->
  progress_new Saturating detailed dels copies = Ok (mkPS (clamp (itotal dels copies)) pv_zero 0 detailed).
Proof.
  intros Hd Hc HF. unfold progress_new.
  change pv_zero with (clamp pv_zero) at 1.
  destruct (itotal_counts dels copies) as [E1 E2]. unfold itotal in *.
  rewrite sum_pv_sat.
  - cbn [obind]. now rewrite ipv_add_0_l.
  - apply Forall_app. split.
    + apply Forall_forall. intros x Hin. apply in_map_iff in Hin as (? & <- & _). exact for_delete_fits.
    + apply Forall_forall. intros x Hin. apply in_map_iff in Hin as (e & <- & Hin).
      apply for_copy_fits. now apply (proj1 (Forall_forall _ _) HF).
  - cbn [pv_zero pv_delete]. lia.
  - cbn [pv_zero pv_copy]. lia.
Qed.

(* The call list of the boss is safe from the initial state. *)
Lemma boss_calls_safe dry dels copies answers :
  lenN dels < u32_lim -> lenN copies < u32_lim -> Forall entry_fits copies -> Forall tail_nonempty answers ->
  safe (itotal dels copies) pv_zero (fst (boss_calls dry dels copies answers)) /\
  sizes_fit (fst (boss_calls dry dels copies answers)) /\
  pv_delete (ieff (fst (boss_calls dry dels copies answers))) <= lenN dels /\
  pv_copy (ieff (fst (boss_calls dry dels copies answers))) <= lenN copies.
Proof.
  intros Hd Hc HF HA. unfold boss_calls. cbn [fst].
  set (T := itotal dels copies).
  destruct (itotal_counts dels copies) as [ET1 ET2]. fold T in ET1, ET2.
  destruct (delete_calls_acct dels) as [WD ED].
  destruct (isum_deletes dels) as [SD1 SD2].
  pose proof (copies_calls_acct dry copies answers HF HA) as H. cbn zeta in H.
  destruct H as (WC & DC & CC & AC).
  set (r := copies_calls dry copies answers) in *.
  set (body := delete_calls dels ++ KMarker :: fst r).
  assert (Wb : wf_calls body).
  { unfold body. rewrite wf_calls_app. cbn [wf_calls]. tauto. }
  assert (Eb : ieff body = ipv_add (isum (map (fun _ => for_delete) dels)) (ieff (fst r))).
  { unfold body. rewrite ieff_app. cbn [ieff ieff1]. now rewrite ipv_add_0_l, ED. }
  assert (Sb : safe T pv_zero body).
  { apply safe_of_budget; try assumption; try lia; rewrite Eb; cbn [ipv_add pv_zero pv_delete pv_copy]; lia. }
  change (delete_calls dels ++ KMarker :: fst r ++ (if is_ok (snd r) then [KAllSent] else []))
    with (delete_calls dels ++ (KMarker :: fst r) ++ (if is_ok (snd r) then [KAllSent] else [])).
  rewrite app_assoc. fold body.
  split; [|split].
  - apply safe_app. split; [assumption|].
    destruct (is_ok (snd r)) eqn:Eok; [|exact Logic.I].
    cbn [safe call_ok ieff1]. rewrite ipv_add_0_l, ipv_add_0_r, Eb, (AC eq_refl).
    unfold T, itotal. rewrite isum_app. repeat split; try reflexivity.
    + rewrite <- isum_app. fold (itotal dels copies). fold T. lia.
    + rewrite <- isum_app. fold (itotal dels copies). fold T. lia.
  - intros st sz fs Hin. apply in_app_or in Hin as [Hin|Hin].
    + now apply (wf_sizes_fit body Wb st sz fs).
    + destruct (is_ok (snd r)); [destruct Hin as [Hin|[]]; discriminate | destruct Hin].
  - rewrite ieff_app, Eb.
    assert (Z : ieff (if is_ok (snd r) then [KAllSent] else []) = pv_zero) by (destruct (is_ok (snd r)); reflexivity).
    rewrite Z. cbn [ipv_add pv_zero pv_delete pv_copy]. lia.
Qed.

(* ---------------------------------------------------------------------------------------------- *)
(* Main results *)

(* Every prefix of the boss's calls executes without a panic, and in the state it reaches the two
   marker assertions hold (at every point, whether or not a marker is requested there). *)
Theorem progress_prefix_invariant detailed dry dels copies answers :
  lenN dels < u32_lim -> lenN copies < u32_lim -> Forall entry_fits copies -> Forall tail_nonempty answers ->
  exists s0, progress_new Saturating detailed dels copies = Ok s0 /\
  forall pre post, fst (boss_calls dry dels copies answers) = pre ++ post ->
  exists s ms, exec_calls Saturating s0 pre = Ok (s, ms) /\
    ps_total s = ps_total s0 /\
    pv_delete (ps_sent s) <= pv_delete (ps_total s) /\ pv_copy (ps_sent s) <= pv_copy (ps_total s).
Proof.
  intros Hd Hc HF HA. eexists. split; [apply progress_new_ok; assumption|].
  intros pre post Hsplit.
  destruct (boss_calls_safe dry dels copies answers Hd Hc HF HA) as (HS & HZ & B1 & B2).
  rewrite Hsplit in HS, HZ, B1, B2. apply safe_app in HS as [HSpre _].
  set (T := itotal dels copies) in *.
  assert (HL : linked T pv_zero (mkPS (clamp T) pv_zero 0 detailed)).
  { unfold linked; cbn [ps_total ps_sent ps_last clamp pv_zero pv_work pv_delete pv_copy pv_bytes].
    repeat split; try reflexivity; lia. }
  destruct (exec_calls_safe T pre pv_zero _ HL HSpre) as (s & ms & He & (Lt & Ls & Ll)).
  { intros st sz fs Hin. apply (HZ st sz fs). apply in_or_app. now left. }
  exists s, ms. split; [assumption|]. split; [now rewrite Lt|].
  rewrite Lt, Ls, ipv_add_0_l. cbn [clamp pv_delete pv_copy].
  destruct (itotal_counts dels copies) as [ET1 ET2]. fold T in ET1, ET2.
  rewrite ieff_app in B1, B2. cbn [ipv_add pv_delete pv_copy] in B1, B2. lia.
Qed.

(* the boss-side outcome is an error or Ok, never a panic of its own *)
Lemma file_calls_no_panic size : forall ans off, is_panic (snd (file_calls size off ans)) = false.
Proof.
  induction ans as [|[n more] tl IH]; intros off; cbn [file_calls]; [reflexivity|].
  destruct (size <? off + n); [reflexivity|]. destruct more; cbn [snd]; [apply IH|].
  destruct (off + n =? size); reflexivity.
Qed.

Lemma copies_calls_no_panic dry : forall copies answers, is_panic (snd (copies_calls dry copies answers)) = false.
Proof.
  induction copies as [|e tl IH]; intros answers; cbn [copies_calls]; [reflexivity|].
  destruct e as [mt size| |k t]; try (cbn [snd]; apply IH).
  set (here := copy_file_calls dry size (if dry then None else hd_error answers)).
  assert (Hh : is_panic (snd here) = false).
  { unfold here, copy_file_calls. destruct dry; [reflexivity|].
    destruct (hd_error answers); [cbn [snd]; apply file_calls_no_panic | reflexivity]. }
  destruct (snd here) eqn:E; [cbn [snd]; apply IH | rewrite E; reflexivity | rewrite E; exact Hh].
Qed.

(* No panic: for every plan and every answer of the source doer in which only a first chunk may be empty. *)
Theorem progress_no_panic detailed dry dels copies answers :
  lenN dels < u32_lim -> lenN copies < u32_lim -> Forall entry_fits copies -> Forall tail_nonempty answers ->
  is_panic (boss_run Saturating detailed dry dels copies answers) = false.
Proof.
  intros Hd Hc HF HA.
  destruct (progress_prefix_invariant detailed dry dels copies answers Hd Hc HF HA) as (s0 & Hn & Hp).
  destruct (Hp (fst (boss_calls dry dels copies answers)) [] (eq_sym (app_nil_r _))) as (s & ms & He & _).
  unfold boss_run. rewrite Hn. cbn [obind]. rewrite He. cbn [obind snd].
  pose proof (copies_calls_no_panic dry copies answers) as Hnp.
  unfold boss_calls. cbn [snd]. destruct (snd (copies_calls dry copies answers)); [reflexivity|reflexivity|exact Hnp].
Qed.

(* At all_work_sent: the state reached by everything before it has total = sent, and the call succeeds. *)
Theorem progress_all_sent detailed dry dels copies answers :
  lenN dels < u32_lim -> lenN copies < u32_lim -> Forall entry_fits copies -> Forall tail_nonempty answers ->
  is_ok (snd (boss_calls dry dels copies answers)) = true ->
  exists s0 body s ms m,
    progress_new Saturating detailed dels copies = Ok s0 /\
    fst (boss_calls dry dels copies answers) = body ++ [KAllSent] /\
    exec_calls Saturating s0 body = Ok (s, ms) /\
    ps_total s = ps_sent s /\
    exec_call Saturating s KAllSent = Ok (s, Some m) /\ pm_phase m = PDone.
Proof.
  intros Hd Hc HF HA Hok.
  destruct (boss_calls_safe dry dels copies answers Hd Hc HF HA) as (HS & HZ & _ & _).
  set (T := itotal dels copies) in *.
  unfold boss_calls in *. cbn [fst snd] in *. rewrite Hok in *.
  set (r := copies_calls dry copies answers) in *.
  set (body := delete_calls dels ++ KMarker :: fst r).
  assert (Eb : delete_calls dels ++ KMarker :: fst r ++ [KAllSent] = body ++ [KAllSent]).
  { unfold body. now rewrite <- app_assoc. }
  rewrite Eb in HS, HZ.
  apply safe_app in HS as [HSb HSe]. cbn [safe call_ok] in HSe. destruct HSe as (HIT & _).
  rewrite ipv_add_0_l in HIT.
  assert (HL : linked T pv_zero (mkPS (clamp T) pv_zero 0 detailed)).
  { unfold linked; cbn [ps_total ps_sent ps_last clamp pv_zero pv_work pv_delete pv_copy pv_bytes].
    repeat split; try reflexivity; lia. }
  destruct (exec_calls_safe T body pv_zero _ HL HSb) as (s & ms & He & (Lt & Ls & Ll)).
  { intros st sz fs Hin. apply (HZ st sz fs). apply in_or_app. now left. }
  rewrite ipv_add_0_l, HIT in Ls.
  exists (mkPS (clamp T) pv_zero 0 detailed), body, s, ms, (mkMarker (pv_work (ps_sent s)) PDone).
  split; [apply progress_new_ok; assumption|]. split; [exact Eb|]. split; [exact He|].
  split; [now rewrite Lt, Ls|].
  cbn [exec_call]. unfold all_work_sent. rewrite Lt, Ls.
  assert (E : pv_eqb (clamp T) (clamp T) = true) by (unfold pv_eqb; now rewrite !N.eqb_refl).
  rewrite E. cbn [obind]. split; reflexivity.
Qed.

(* ---------------------------------------------------------------------------------------------- *)
(* The real reader (Model/Chunk.v read_chunks = handle_get_file_contents) satisfies the premise, and
   for a file whose length is the listed size the transfer is accepted. *)
Lemma reader_tail_nonempty (file : list ascii) (sched : list N) cs :
  read_chunks file sched = Some cs -> tail_nonempty (answer_of cs).
Proof.
  intros H. destruct (C11_chunks_proof file sched) as (cs' & H' & _ & _ & _ & Hne & Hnil).
  rewrite H in H'. injection H' as <-.
  unfold tail_nonempty, answer_of.
  destruct file as [|b file].
  - rewrite (Hnil eq_refl). cbn [map List.tl]. constructor.
  - assert (Hall : Forall (fun c : chunk => fst c <> []) cs) by (apply Hne; discriminate).
    destruct cs as [|c tl]; cbn [map List.tl]; [constructor|].
    inversion Hall as [|? ? _ Htl]; subst. apply Forall_forall. intros x Hin.
    apply in_map_iff in Hin as (c' & <- & Hin). unfold nonempty. cbn [fst].
    intros Hz. apply lenN_zero in Hz. exact (proj1 (Forall_forall _ _) Htl c' Hin Hz).
Qed.

Lemma file_calls_reader_ok size (cs : list chunk) : forall off, flags_ok cs -> off + total cs = size ->
  snd (file_calls size off (answer_of cs)) = Ok tt.
Proof.
  induction cs as [|c tl IH]; intros off Hf Ht; [destruct Hf|].
  rewrite total_cons in Ht. unfold answer_of. cbn [map file_calls]. fold (answer_of tl).
  destruct (N.ltb_spec size (off + lenN (fst c))) as [Hlt|Hge]; [lia|].
  destruct tl as [|d tl].
  - cbn [flags_ok] in Hf. rewrite Hf. unfold total in Ht. cbn [map concat] in Ht. rewrite lenN_nil in Ht.
    cbn [snd]. destruct (N.eqb_spec (off + lenN (fst c)) size) as [E|E]; [reflexivity | lia].
  - apply flags_ok_cons in Hf; [|discriminate]. destruct Hf as [Hc Hf]. rewrite Hc. cbn [snd].
    apply (IH (off + lenN (fst c)) Hf). lia.
Qed.

Theorem reader_file_accepted (file : list ascii) (sched : list N) cs :
  read_chunks file sched = Some cs ->
  tail_nonempty (answer_of cs) /\ snd (file_calls (lenN file) 0 (answer_of cs)) = Ok tt.
Proof.
  intros H. split; [exact (reader_tail_nonempty file sched cs H)|].
  destruct (read_chunks_spec file sched) as (cs' & H' & Hfl & (Hcat & _)).
  rewrite H in H'. injection H' as <-.
  apply file_calls_reader_ok; [assumption|]. unfold total. now rewrite Hcat.
Qed.

(* ---------------------------------------------------------------------------------------------- *)
(* the byte totals of the statistics *)
Lemma stats_total_sat sizes : forall acc, Forall (fun x => x <= u64_max) sizes ->
  stats_total Saturating (N.min u64_max acc) sizes = Ok (N.min u64_max (acc + fold_right N.add 0 sizes)).
Proof.
  induction sizes as [|x t IH]; intros acc HF; cbn [stats_total fold_right].
  - now rewrite N.add_0_r.
  - inversion HF as [|? ? Hx HF']; subst. rewrite add64_sat by assumption. cbn [obind].
    rewrite IH by assumption. now rewrite N.add_assoc.
Qed.

Theorem stats_total_no_panic sizes : Forall (fun x => x <= u64_max) sizes ->
  stats_total Saturating 0 sizes = Ok (N.min u64_max (fold_right N.add 0 sizes)).
Proof.
  intros HF. change 0 with (N.min u64_max 0) at 1. now rewrite stats_total_sat.
Qed.

(* ---------------------------------------------------------------------------------------------- *)
(* Why the premises are needed: witnesses (finite computations). *)
Definition t0 : time := mkTime 0 0.

(* an EMPTY chunk after the file is complete counts the file twice: all_work_sent's assertion fails *)
Lemma trailing_empty_chunk_refuted :
  Forall entry_fits [EDFile t0 5] /\ ~ tail_nonempty [(5, true); (0, false)] /\
  boss_run Saturating false false [] [EDFile t0 5] [[(5, true); (0, false)]] = Panic e_assert_total.
Proof.
  split; [repeat (apply Forall_cons; [cbn [entry_fits]; rewrite u64_max_val; lia|]); apply Forall_nil|]. split.
  - unfold tail_nonempty. cbn [List.tl]. intros H. inversion H as [|? ? Hn _]; subst. now apply Hn.
  - vm_compute. reflexivity.
Qed.

(* ... and with a visible progress bar the marker assertion `sent.copy <= total.copy` fails first *)
(* finite computations that depend on the values of the constants are stated for the usual values *)
Definition usual_constants : Prop := min_file_size = 1048576 /\ delete_work = 1048576 /\ marker_threshold = 1048576.
Ltac by_constants := intros (H1 & H2 & H3); first
  [ vm_compute; reflexivity
  | exfalso; vm_compute in H1, H2, H3; first [discriminate H1 | discriminate H2 | discriminate H3] ].

Lemma trailing_empty_chunk_marker_refuted : usual_constants ->
  boss_run Saturating true false [] [EDFile t0 10] [[(10, true); (0, true); (0, false)]] = Panic e_assert_copy.
Proof. by_constants. Qed.

(* the code before the repair of the byte totals: three maximal sparse files *)
Lemma unfixed_totals_refuted :
  let big := EDFile t0 9223372036854775807 in
  Forall entry_fits [big; big; big] /\
  progress_new Checked false [] [big; big; big] = Panic e_add_overflow /\
  boss_run Checked false true [] [big; big; big] [] = Panic e_add_overflow /\
  stats_total Checked 0 [9223372036854775807; 9223372036854775807; 9223372036854775807] = Panic e_add_overflow /\
  (exists ms, boss_run Saturating false true [] [big; big; big] [] = Ok ms) /\
  stats_total Saturating 0 [9223372036854775807; 9223372036854775807; 9223372036854775807] = Ok u64_max.
Proof.
  cbn zeta. split; [repeat (apply Forall_cons; [cbn [entry_fits]; rewrite u64_max_val; lia|]); apply Forall_nil|].
  repeat split; try (vm_compute; reflexivity). eexists. vm_compute. reflexivity.
Qed.

(* non-vacuity: a plan with deletes, a folder, a symlink, an empty file, a small and a large file in
   several chunks; the markers of a run with a visible bar *)
Example progress_example :
  let dels := [EDFolder; EDFile t0 7] in
  let copies := [EDFolder; EDSymlink SKFile (STNormalized []); EDFile t0 0; EDFile t0 10; EDFile t0 3145728] in
  let answers := [[(0, false)]; [(4, true); (6, false)]; [(1048576, true); (2097152, false)]] in
  Forall tail_nonempty answers /\
  is_ok (boss_run Saturating true false dels copies answers) = true /\
  (usual_constants ->
   boss_run Saturating true false dels copies answers =
    Ok [mkMarker 1048576 (PDeleting 1); mkMarker 2097152 (PCopying 0 0); mkMarker 3145728 (PCopying 1 0);
        mkMarker 4194304 (PCopying 2 0); mkMarker 5242880 (PCopying 3 0); mkMarker 6291456 (PCopying 4 10);
        mkMarker 7340032 (PCopying 4 1048586); mkMarker 9437184 PDone]).
Proof.
  cbn zeta. split; [|split].
  - repeat constructor; unfold nonempty; cbn [fst]; lia.
  - vm_compute. reflexivity.
  - by_constants.
Qed.
