(* When is a destination command free of side effects outside the tree?  Path resolution stays inside
   when every strict prefix is a folder; the delete phase and the copy phase of a sync whose commands
   all succeed keep that invariant (children are deleted before parents, parents created before
   children), so no Through event is ever logged. *)
From RJ Require Import Base.Prelude Base.OrderedPlan Model.Settings Model.Core Model.Fs Model.Sync
  Spec.PlanSpec Proofs.PlanCProofs Proofs.FsProofs Proofs.SyncProofs Proofs.DryProofs Proofs.ExecProofs Proofs.PathLemmas.

(* ---- resolution ---- *)
Lemma check_above_ok f : forall rest pre,
  rest <> [] ->
  (forall k, k < length rest -> fget f (pre ++ firstn k rest) = Some NFolder) ->
  check_above f pre rest = PROk.
Proof.
  induction rest as [|c rest IH]; intros pre Hne H; [congruence|].
  destruct rest as [|c1 rest].
  - cbn [check_above]. specialize (H 0 ltac:(cbn; lia)). cbn [firstn] in H. rewrite app_nil_r in H. rewrite H. reflexivity.
  - change (check_above f pre (c :: c1 :: rest)) with
      (match fget f pre with
       | Some NFolder => check_above f (pre ++ [c]) (c1 :: rest)
       | Some (NLink _ SKFolder) => PRThrough pre
       | Some (NLink _ SKFile) => PRErr ENotDir
       | Some (NLink _ SKUnknown) => PRErr ENoEnt
       | Some (NFile _ _) => PRErr ENotDir
       | None => PRErr ENoEnt end).
    pose proof (H 0 ltac:(cbn; lia)) as H0. cbn [firstn] in H0. rewrite app_nil_r in H0. rewrite H0.
    apply IH; [discriminate|]. intros k Hk.
    specialize (H (S k) ltac:(cbn [length] in *; lia)).
    change (firstn (S k) (c :: c1 :: rest)) with (c :: firstn k (c1 :: rest)) in H.
    rewrite <- app_assoc. exact H.
Qed.

Lemma resolve_above_ok st p :
  p <> [] -> (forall q, is_strict_prefix q p = true -> fget (d_fs st) q = Some NFolder) -> resolve_above st p = PROk.
Proof.
  intros Hp H. unfold resolve_above. destruct p as [|c p]; [congruence|].
  apply check_above_ok; [discriminate|]. intros k Hk. cbn [app]. apply H. apply strict_prefix_iff. exists k. auto.
Qed.

Lemma resolve_above_root st : resolve_above st [] <> PRThrough [] /\ forall q, resolve_above st [] <> PRThrough q.
Proof. unfold resolve_above. destruct (d_anc st); split; try discriminate; intros; discriminate. Qed.

Definition quiet_at (st : dstate) (p : path) : Prop :=
  p = [] \/ forall q, is_strict_prefix q p = true -> fget (d_fs st) q = Some NFolder.

Lemma quiet_resolve st p : quiet_at st p -> forall q, resolve_above st p <> PRThrough q.
Proof.
  intros [->|H] q; [apply resolve_above_root|].
  destruct p as [|c p]; [apply resolve_above_root|]. rewrite resolve_above_ok; [discriminate|discriminate|exact H].
Qed.

(* ---- single commands ---- *)
Lemma delete_quiet fl st c p :
  (c = CDeleteFile p \/ c = CDeleteFolder p \/ exists k, c = CDeleteSymlink p k) ->
  quiet_at st p -> d_events (fst (doer_exec fl st c)) = d_events st.
Proof.
  intros Hc Hq. pose proof (quiet_resolve st p Hq) as Hr.
  destruct (doer_exec fl st c) as [st' e] eqn:H. cbn [fst].
  destruct Hc as [->|[->|(k & ->)]]; cbn [doer_exec] in H;
    repeat (break_match_hyp H; try discriminate); inv_pair H; dsimpl; try reflexivity;
    exfalso; eapply Hr; eauto.
Qed.

Lemma create_folder_quiet fl st p : quiet_at st p -> d_events (fst (doer_exec fl st (CCreateFolder p))) = d_events st.
Proof.
  intros Hq. pose proof (quiet_resolve st p Hq) as Hr.
  destruct (doer_exec fl st (CCreateFolder p)) as [st' e] eqn:H. cbn [fst]. cbn [doer_exec] in H.
  repeat (break_match_hyp H; try discriminate); inv_pair H; dsimpl; try reflexivity; exfalso; eapply Hr; eauto.
Qed.
Lemma create_symlink_quiet fl st p k t : quiet_at st p -> d_events (fst (doer_exec fl st (CCreateSymlink p k t))) = d_events st.
Proof.
  intros Hq. pose proof (quiet_resolve st p Hq) as Hr.
  destruct (doer_exec fl st (CCreateSymlink p k t)) as [st' e] eqn:H. cbn [fst]. cbn [doer_exec] in H.
  repeat (break_match_hyp H; try discriminate); inv_pair H; dsimpl; try reflexivity; exfalso; eapply Hr; eauto.
Qed.

Definition not_link (st : dstate) (p : path) : Prop := forall t k, fget (d_fs st) p <> Some (NLink t k).

Lemma chunk_quiet fl st p data mt more :
  (d_open st = None /\ quiet_at st p /\ not_link st p) \/ (d_open st = Some p /\ exists m old, fget (d_fs st) p = Some (NFile m old)) ->
  d_events (fst (doer_exec fl st (CCreateOrUpdateFile p data mt more))) = d_events st.
Proof.
  intros Hc. cbn [doer_exec]. destruct (blocked_at st p); [reflexivity|]. destruct (refuses st p); [reflexivity|].
  set (st0 := with_failed st (if more then Some p else None)).
  unfold open_for_write.
  change (d_open st0) with (d_open st). change (resolve_above st0 p) with (resolve_above st p). change (d_fs st0) with (d_fs st).
  destruct Hc as [(Ho & Hq & Hnl)|(Ho & m & old & Ep)]; rewrite Ho.
  - pose proof (quiet_resolve st p Hq) as Hr.
    destruct (resolve_above st p) as [|q|e] eqn:Er; [|exfalso; eapply Hr; eauto|reflexivity].
    destruct (fget (d_fs st) p) as [[m old| |t k]|] eqn:Ep.
    + destruct (write_fails _); destruct mt; unfold stamp_file, write_chunk; reflexivity.
    + reflexivity.
    + exfalso. eapply Hnl; eauto.
    + destruct (write_fails _); destruct mt; unfold stamp_file, write_chunk; reflexivity.
  - unfold path_eqb. destruct (path_eq_dec p p); [|congruence]. rewrite Ep.
    destruct (write_fails _); destruct mt; unfold stamp_file, write_chunk; reflexivity.
Qed.

Lemma chunks_quiet fl p mt : forall chunks st,
  all_ok fl st (chunk_cmd_list p mt chunks) ->
  (d_open st = None /\ quiet_at st p /\ not_link st p) \/ (d_open st = Some p /\ exists m old, fget (d_fs st) p = Some (NFile m old)) ->
  d_events (exec_all fl st (chunk_cmd_list p mt chunks)) = d_events st.
Proof.
  induction chunks as [|c r IH]; intros st Hok Hc; [reflexivity|].
  destruct r as [|c2 r].
  - cbn [chunk_cmd_list exec_all]. apply chunk_quiet. exact Hc.
  - change (chunk_cmd_list p mt (c :: c2 :: r)) with (CCreateOrUpdateFile p c None true :: chunk_cmd_list p mt (c2 :: r)) in *.
    cbn [all_ok exec_all] in *. destruct Hok as [Hok1 Hok2].
    set (st1 := fst (doer_exec fl st (CCreateOrUpdateFile p c None true))) in *.
    assert (E1 : d_events st1 = d_events st) by (apply chunk_quiet; exact Hc).
    assert (Hn1 : ~ new_through st st1).
    { intros (l & El & Hl). rewrite E1 in El. rewrite <- (app_nil_r (d_events st)) in El at 1. apply app_inv_head in El. subst l. discriminate. }
    assert (Hopen : d_open st = None \/ (d_open st = Some p /\ exists m old, fget (d_fs st) p = Some (NFile m old))).
    { destruct Hc as [(Ho & _)|Hc]; [left; exact Ho|right; exact Hc]. }
    destruct (chunk_effect fl st p c None true Hok1 Hn1 Hopen) as [(k & E) Ho]. fold st1 in E, Ho.
    rewrite IH; [exact E1|exact Hok2|]. right. split; [exact Ho|]. eexists; eexists; exact E.
Qed.

(* ---- the delete phase ---- *)
Definition deletes_invariant (st : dstate) (dl : list (path * (entry * dreason))) : Prop :=
  forall p, In p (map fst dl) -> p <> [] ->
    forall q, is_strict_prefix q p = true -> fget (d_fs st) q = Some NFolder /\ (In q (map fst dl) -> before p q (map fst dl)).

Lemma deletes_quiet fl : forall (dl : list (path * (entry * dreason))) st,
  NoDup (map fst dl) -> deletes_invariant st dl ->
  d_events (exec_all fl st (map delete_cmd dl)) = d_events st.
Proof.
  induction dl as [|e dl IH]; intros st Hnd Hinv; [reflexivity|].
  cbn [map exec_all]. inversion Hnd as [|? ? Hnin Hnd']; subst.
  set (st1 := fst (doer_exec fl st (delete_cmd e))).
  assert (Hq0 : quiet_at st (fst e)).
  { destruct (fst e) as [|c p] eqn:Ep; [left; reflexivity|]. right. intros q Hq.
    apply (Hinv (fst e)); [left; reflexivity|rewrite Ep; discriminate|rewrite Ep; exact Hq]. }
  assert (E1 : d_events st1 = d_events st) by (apply (delete_quiet fl st (delete_cmd e) (fst e)); [apply delete_cmd_shape|exact Hq0]).
  rewrite IH; [exact E1|exact Hnd'|].
  intros p Hp Hpne q Hq.
  destruct (Hinv p (or_intror Hp) Hpne q Hq) as [Hf Hb].
  assert (Hqne : q <> fst e).
  { intros ->. specialize (Hb (or_introl eq_refl)). cbn [map] in Hb.
    (* p is before (fst e) in (fst e :: rest): impossible, (fst e) is the head and occurs once *)
    inversion Hb; subst.
    - apply Hnin. exact Hp.
    - apply before_in_r in H0. contradiction. }
  split.
  - unfold st1. destruct (doer_exec fl st (delete_cmd e)) as [st1' er] eqn:Ed. cbn [fst].
    rewrite (doer_exec_frame fl st (delete_cmd e) st1' er q Ed); [exact Hf|].
    rewrite cmd_path_delete. intro Heq. inversion Heq. congruence.
  - intros Hqin. specialize (Hb (or_intror Hqin)). cbn [map] in Hb. inversion Hb; subst.
    + exfalso. apply Hnin. exact Hp.
    + assumption.
Qed.

(* ---- the copy phase ---- *)
Section CopiesQuiet.
Variable chunker : str -> list str.
Hypothesis chunker_ok : forall d, chunker d <> [] /\ concat (chunker d) = d.

Definition copies_invariant (st : dstate) (cl : list (path * (entry * creason))) : Prop :=
  forall p e r, In (p, (e, r)) cl ->
    (p <> [] -> forall q, is_strict_prefix q p = true ->
       (fget (d_fs st) q = Some NFolder /\ ~ In q (map fst cl)) \/
       ((exists rq, In (q, (EFolder, rq)) cl) /\ before q p (map fst cl))) /\
    (match e with EFile _ _ => not_link st p | _ => True end).

Lemma copy_quiet fl S st p e r :
  file_listed S p e -> d_open st = None -> quiet_at st p ->
  (match e with EFile _ _ => not_link st p | _ => True end) ->
  all_ok fl st (dest_cmds (copy_steps chunker S (p, (e, r)))) ->
  d_events (exec_all fl st (dest_cmds (copy_steps chunker S (p, (e, r))))) = d_events st.
Proof.
  intros Hl Ho Hq Hnl Hok. destruct e as [mt sz| |k t]; cbn [copy_steps] in *.
  - destruct Hl as (m & d & ES). rewrite ES in *. cbn [dest_cmds flat_map app] in *.
    fold (dest_cmds (chunk_cmds p mt (chunker d))) in *. rewrite dest_cmds_chunk_cmds in *.
    apply chunks_quiet; [exact Hok|]. left. auto.
  - cbn [dest_cmds flat_map app exec_all]. apply create_folder_quiet. exact Hq.
  - cbn [dest_cmds flat_map app exec_all]. apply create_symlink_quiet. exact Hq.
Qed.

Lemma copies_quiet fl S : forall (cl : list (path * (entry * creason))) st,
  NoDup (map fst cl) ->
  (forall p e r, In (p, (e, r)) cl -> file_listed S p e) ->
  d_open st = None -> no_through (d_events st) ->
  all_ok fl st (dest_cmds (flat_map (copy_steps chunker S) cl)) ->
  copies_invariant st cl ->
  d_events (exec_all fl st (dest_cmds (flat_map (copy_steps chunker S) cl))) = d_events st.
Proof.
  induction cl as [|[p0 [e0 r0]] cl IH]; intros st Hnd Hl Ho Hnt Hok Hinv; [reflexivity|].
  cbn [flat_map] in *. rewrite dest_cmds_app in *. rewrite exec_all_app. apply all_ok_app in Hok as [Hok1 Hok2].
  inversion Hnd as [|? ? Hnin Hnd']; subst.
  set (cmds0 := dest_cmds (copy_steps chunker S (p0, (e0, r0)))) in *.
  set (st1 := exec_all fl st cmds0) in *.
  destruct (Hinv p0 e0 r0 (or_introl eq_refl)) as [Hpre Hfin].
  assert (Hq0 : quiet_at st p0).
  { destruct p0 as [|c p']; [left; reflexivity|]. right. intros q Hq.
    destruct (Hpre ltac:(discriminate) q Hq) as [[Hf _]|[_ Hb]]; [exact Hf|].
    exfalso. cbn [map fst] in Hb. inversion Hb; subst.
    - apply strict_prefix_neq in Hq. congruence.
    - apply before_in_r in H0. contradiction. }
  assert (Hfl0 : file_listed S p0 e0) by (eapply Hl; left; reflexivity).
  assert (E1 : d_events st1 = d_events st) by (apply (copy_quiet fl S st p0 e0 r0); auto).
  assert (Hnt1 : no_through (d_events st1)) by (rewrite E1; exact Hnt).
  destruct (copy_effect chunker chunker_ok fl S st p0 e0 r0 Hfl0 Ho Hok1 Hnt1) as [Eff O1].
  fold cmds0 in Eff, O1. fold st1 in Eff, O1.
  rewrite IH; [exact E1|exact Hnd'| |exact O1|exact Hnt1|exact Hok2|].
  { intros; eapply Hl; right; eauto. }
  (* the invariant for the rest, in the new state *)
  assert (Hframe : forall q, q <> p0 -> fget (d_fs st1) q = fget (d_fs st) q).
  { intros q Hq. unfold st1. apply exec_all_frame. intros c Hc. unfold cmds0 in Hc.
    rewrite (copy_cmds_paths chunker S p0 e0 r0 c Hc). congruence. }
  intros p e r Hin. destruct (Hinv p e r (or_intror Hin)) as [Hpre' Hfin'].
  assert (Hpne : p <> p0).
  { intros ->. apply Hnin. change p0 with (fst (p0, (e, r))). apply in_map. exact Hin. }
  split.
  - intros Hp q Hq. destruct (Hpre' Hp q Hq) as [[Hf Hni]|[(rq & Hqin) Hb]].
    + left. split; [|intro Hx; apply Hni; right; exact Hx].
      rewrite Hframe; [exact Hf|]. intros ->. apply Hni. left. reflexivity.
    + destruct Hqin as [Heq|Hqin].
      * (* the prefix is the folder just created *)
        inversion Heq; subst. left. split; [rewrite Eff; reflexivity|exact Hnin].
      * right. split; [exists rq; exact Hqin|].
        cbn [map fst] in Hb. inversion Hb; subst.
        -- exfalso. apply Hnin. change p0 with (fst (p0, (EFolder, rq))). apply in_map. exact Hqin.
        -- assumption.
  - destruct e; auto. intros t k. rewrite Hframe by exact Hpne. apply Hfin'.
Qed.
End CopiesQuiet.
