(* The frame lemma of the stack-machine parser and what follows from it:
   text-level anchoring "^(?:" ++ pat ++ ")$" is AST-level anchoring. *)
From RJ Require Import Base.Prelude Model.Regex Model.RegexParse Model.Filters.
From Coq Require Import String.
Local Open Scope char_scope.

Definition ext (s : pst) (extra : list frame) : pst := mkPst (stk s ++ extra) (md s).

Lemma apply_act_frame a below extra s' :
  apply_act a below = Some s' -> apply_act a (below ++ extra) = Some (ext s' extra).
Proof.
  destruct a as [f m|f n m|x m]; cbn [apply_act].
  - intros H; injection H as <-. reflexivity.
  - intros H; injection H as <-. reflexivity.
  - destruct below as [|g b]; [discriminate|]. intros H; injection H as <-. reflexivity.
Qed.

Lemma step_frame s c s' extra : step s c = Some s' -> step (ext s extra) c = Some (ext s' extra).
Proof.
  unfold step, ext. destruct s as [[|f below] m]; cbn [stk md app]; [discriminate|].
  destruct (step_top f m c) as [a|]; [|discriminate].
  apply apply_act_frame.
Qed.

Lemma run_none t : fold_left ostep t None = None.
Proof. induction t; cbn; auto. Qed.

Lemma run_frame t : forall s s' extra, run s t = Some s' -> run (ext s extra) t = Some (ext s' extra).
Proof.
  unfold run. induction t as [|c t IH]; cbn [fold_left ostep]; intros s s' extra H.
  - injection H as <-. reflexivity.
  - destruct (step s c) as [s1|] eqn:E; [|rewrite run_none in H; discriminate].
    rewrite (step_frame _ _ _ extra E). apply IH. exact H.
Qed.

Lemma run_app s t1 t2 : run s (t1 ++ t2) = match run s t1 with Some s1 => run s1 t2 | None => None end.
Proof. unfold run. rewrite fold_left_app. destruct (fold_left ostep t1 (Some s)); auto. apply run_none. Qed.


Definition anchored (r : re) : re := cats [Bol; Group r; Eol].

Definition g0 : frame := mkFrame [] [Bol] false.

Lemma run_prefix : run init ["^"; "("; "?"; ":"] = Some (ext init [g0]).
Proof. reflexivity. Qed.

Lemma final_close f m : final_mode m = true ->
  run (mkPst [f; g0] m) [")"; "$"] = Some (mkPst [mkFrame [] [Eol; Group (close f); Bol] false] Normal).
Proof. destruct m; cbn [final_mode]; intros H; try discriminate; reflexivity. Qed.

Theorem anchor_wrap p r : parse p = Some r -> parse (wrap p) = Some (anchored r).
Proof.
  unfold parse. destruct (run init p) as [[[|f [|g st]] m]|] eqn:E; try discriminate.
  destruct (final_mode m) eqn:F; [|discriminate].
  intros H; injection H as <-.
  unfold wrap.
  pose proof (run_app init ["^"; "("; "?"; ":"] (p ++ [")"; "$"])) as X1. rewrite X1; clear X1.
  rewrite run_prefix.
  pose proof (run_app (ext init [g0]) p [")"; "$"]) as X2. rewrite X2; clear X2.
  rewrite (run_frame _ _ _ _ E).
  change (ext {| stk := [f]; md := m |} [g0]) with (mkPst [f; g0] m).
  pose proof (final_close f m F) as X3. rewrite X3. reflexivity.
Qed.

(* The defect F1: with the old wrapping the anchors are captured by the outer branches of a
   top-level alternation: "a|b" is read as (^a)|(b$). *)
Lemma old_wrap_escapes :
  parse (wrap_old ["a"; "|"; "b"]) =
  Some (Alt (cats [Bol; lit false "a"]) (cats [lit false "b"; Eol])).
Proof. reflexivity. Qed.

(* ... in general: for a pattern whose top level is an alternation the old wrapping does not
   produce the anchored AST. *)
Lemma old_wrap_no_alternation_is_fine :
  parse (wrap_old ["a"; "b"]) = Some (cats [Bol; lit false "a"; lit false "b"; Eol]).
Proof. reflexivity. Qed.
