(* The executable matcher computes the relational semantics (so the fuel |s| used for unbounded
   repetition is sufficient), and the two derived predicates are what they say. *)
From RJ Require Import Base.Prelude Model.Regex.
Local Open Scope nat_scope.

Lemma dedup_In l x : In x (dedup l) <-> In x l.
Proof. unfold dedup. apply nodup_In. Qed.

(* ---- powers of a relation ---- *)
Lemma ipow_app (R : nat -> nat -> Prop) a b i m j : ipow R a i m -> ipow R b m j -> ipow R (a + b) i j.
Proof.
  intros H; revert j. induction H as [i|k i x l Hr Hp IH]; intros j Hb; cbn [Nat.add]; auto.
  econstructor; eauto.
Qed.

Lemma ipow_split (R : nat -> nat -> Prop) a : forall b i j, ipow R (a + b) i j -> exists m, ipow R a i m /\ ipow R b m j.
Proof.
  induction a as [|a IH]; cbn [Nat.add]; intros b i j H.
  - exists i; split; [constructor | exact H].
  - inversion H as [|k i' x l Hr Hp]; subst. destruct (IH _ _ _ Hp) as (m & H1 & H2).
    exists m; split; auto. econstructor; eauto.
Qed.

Lemma ipow_range (R : nat -> nat -> Prop) n :
  (forall i j, R i j -> i <= j /\ j <= Nat.max i n) ->
  forall k i j, ipow R k i j -> i <= j /\ j <= Nat.max i n.
Proof.
  intros HR k i j H. induction H as [i|k i x l Hr Hp IH]; [lia|].
  apply HR in Hr. lia.
Qed.

(* empty iterations can be dropped: at most j - i productive rounds are needed *)
Lemma ipow_short (R : nat -> nat -> Prop) :
  (forall i j, R i j -> i <= j) ->
  forall k i j, ipow R k i j -> i <= j /\ exists k', k' <= j - i /\ ipow R k' i j.
Proof.
  intros HR k i j H. induction H as [i|k i x l Hr Hp (Hle & k' & Hk & Hp')].
  - split; [lia|]. exists 0; split; [lia | constructor].
  - pose proof (HR _ _ Hr) as Hix. split; [lia|].
    destruct (Nat.eq_dec x i) as [->|Hne].
    + exists k'; split; [lia | exact Hp'].
    + exists (S k'); split; [lia|]. econstructor; eauto.
Qed.

Section Iter.
  Variable R : nat -> nat -> Prop.
  Variable f : nat -> list nat.
  Hypothesis Hf : forall i j, In j (f i) <-> R i j.

  Lemma sstep_In X j : In j (sstep f X) <-> exists i, In i X /\ R i j.
  Proof.
    unfold sstep. rewrite dedup_In, in_flat_map.
    split; intros (i & Hi & H); exists i; split; auto; now apply Hf.
  Qed.

  Lemma iter_step_In k : forall X j, In j (iter_step f k X) <-> exists i, In i X /\ ipow R k i j.
  Proof.
    induction k as [|k IH]; cbn [iter_step]; intros X j.
    - split.
      + intros H; exists j; split; auto; constructor.
      + intros (i & Hi & Hp). inversion Hp; subst. auto.
    - rewrite IH. split.
      + intros (m & Hm & Hp). apply sstep_In in Hm as (i & Hi & Hr). exists i; split; auto. econstructor; eauto.
      + intros (i & Hi & Hp). inversion Hp as [|k' i' x l Hr Hp']; subst. exists x. split; auto. apply sstep_In. eauto.
  Qed.

  Lemma upto_In d : forall X j, In j (upto f d X) <-> exists k i, k <= d /\ In i X /\ ipow R k i j.
  Proof.
    induction d as [|d IH]; cbn [upto]; intros X j.
    - split.
      + intros H. exists 0, j. repeat split; auto. constructor.
      + intros (k & i & Hk & Hi & Hp). assert (k = 0) by lia; subst. inversion Hp; subst; auto.
    - rewrite in_app_iff, IH. split.
      + intros [H | (k & m & Hk & Hm & Hp)].
        * exists 0, j. repeat split; auto; try lia. constructor.
        * apply sstep_In in Hm as (i & Hi & Hr). exists (S k), i. repeat split; auto; try lia. econstructor; eauto.
      + intros (k & i & Hk & Hi & Hp). destruct k as [|k].
        * inversion Hp; subst. left; auto.
        * inversion Hp as [|k' i' x l Hr Hp']; subst. right. exists k, x. repeat split; auto; try lia. apply sstep_In; eauto.
  Qed.
End Iter.

(* ---- matches only move forward and stay inside the text ---- *)
Lemma mt_range s r : forall i j, mt s r i j -> i <= j /\ j <= Nat.max i (length s).
Proof.
  induction r as [|c| | |a IHa b IHb|a IHa b IHb|r IH lo hi|r IH]; intros i j H; inversion H; subst; clear H;
    repeat match goal with
    | IH : forall i j, mt s ?a i j -> _, H : mt s ?a _ _ |- _ => apply IH in H
    end; try lia.
  - assert (i < length s) by (apply nth_error_Some; congruence). lia.
  - eapply ipow_range; eauto.
Qed.

Theorem ends_correct s r : forall i j, In j (ends r s i) <-> mt s r i j.
Proof.
  induction r as [|c| | |a IHa b IHb|a IHa b IHb|r IH lo hi|r IH]; intros i j; cbn [ends].
  - split; [intros [<-|[]]; constructor | intros H; inversion H; subst; left; reflexivity].
  - destruct (nth_error s i) as [x|] eqn:E.
    + destruct (cls_mem c x) eqn:M.
      * split; [intros [<-|[]]; econstructor; eauto | intros H; inversion H; subst; left; reflexivity].
      * split; [intros [] | intros H; inversion H; subst; congruence].
    + split; [intros [] | intros H; inversion H; subst; congruence].
  - destruct (Nat.eqb_spec i 0) as [->|Hne].
    + split; [intros [<-|[]]; constructor | intros H; inversion H; subst; left; reflexivity].
    + split; [intros [] | intros H; inversion H; subst; congruence].
  - destruct (Nat.eqb_spec i (length s)) as [->|Hne].
    + split; [intros [<-|[]]; constructor | intros H; inversion H; subst; left; reflexivity].
    + split; [intros [] | intros H; inversion H; subst; congruence].
  - rewrite dedup_In, in_flat_map. split.
    + intros (m & H1 & H2). apply IHa in H1. apply IHb in H2. econstructor; eauto.
    + intros H; inversion H; subst. exists j0. split; [apply IHa | apply IHb]; assumption.
  - rewrite in_app_iff, IHa, IHb. split.
    + intros [H|H]; [apply MAltL | apply MAltR]; assumption.
    + intros H; inversion H; subst; auto.
  - assert (HX : forall m, In m (iter_step (ends r s) lo [i]) <-> ipow (mt s r) lo i m).
    { intros m. rewrite (iter_step_In (mt s r) (ends r s) IH). split.
      - intros (i0 & [<-|[]] & Hp). exact Hp.
      - intros Hp. exists i; split; [left; reflexivity | exact Hp]. }
    destruct hi as [h|].
    + destruct (Nat.ltb_spec h lo) as [Hlt|Hge].
      * split; [intros [] | intros H; inversion H; subst; cbn [hi_ok] in *; lia].
      * rewrite dedup_In, (upto_In (mt s r) (ends r s) IH). split.
        -- intros (k & m & Hk & Hm & Hp). apply HX in Hm.
           apply (MRep s r lo (Some h) (lo + k)); [lia | cbn [hi_ok]; lia | eapply ipow_app; eauto].
        -- intros H; inversion H as [| | | | | | |r' lo' hi' k i' j' Hlo Hhi Hp|]; subst. cbn [hi_ok] in Hhi.
           replace k with (lo + (k - lo)) in Hp by lia.
           apply ipow_split in Hp as (m & H1 & H2).
           exists (k - lo), m. repeat split; [lia | apply HX; exact H1 | exact H2].
    + rewrite dedup_In, (upto_In (mt s r) (ends r s) IH). split.
      * intros (k & m & Hk & Hm & Hp). apply HX in Hm.
        apply (MRep s r lo None (lo + k)); [lia | exact I | eapply ipow_app; eauto].
      * intros H; inversion H as [| | | | | | |r' lo' hi' k i' j' Hlo Hhi Hp|]; subst.
        replace k with (lo + (k - lo)) in Hp by lia.
        apply ipow_split in Hp as (m & H1 & H2).
        destruct (ipow_short (mt s r) (fun a b Hab => proj1 (mt_range s r a b Hab)) _ _ _ H2) as (Hmj & k' & Hk' & Hp').
        pose proof (ipow_range (mt s r) (length s) (mt_range s r) _ _ _ H2) as Hr2.
        exists k', m. repeat split; [lia | apply HX; exact H1 | exact Hp'].
  - rewrite IH. split; [intros H; constructor; exact H | intros H; inversion H; subst; assumption].
Qed.

Theorem fullmatch_correct r s : fullmatch r s = true <-> matches_whole r s.
Proof.
  unfold fullmatch, matches_whole. rewrite existsb_exists. split.
  - intros (j & Hj & E). apply Nat.eqb_eq in E. subst j. apply ends_correct. exact Hj.
  - intros H. exists (length s). split; [apply ends_correct; exact H | apply Nat.eqb_refl].
Qed.

Lemma nonempty_In {A} (l : list A) : nonempty l = true <-> exists x, In x l.
Proof.
  destruct l as [|a l]; cbn [nonempty]; split.
  - discriminate.
  - intros (x & []).
  - intros _; exists a; left; reflexivity.
  - reflexivity.
Qed.

Theorem search_correct r s : search r s = true <-> matches_somewhere r s.
Proof.
  unfold search, matches_somewhere. rewrite existsb_exists. split.
  - intros (i & Hi & Hn). apply in_seq in Hi. apply nonempty_In in Hn as (j & Hj).
    exists i, j. split; [lia | apply ends_correct; exact Hj].
  - intros (i & j & Hi & H). exists i. split; [apply in_seq; lia|].
    apply nonempty_In. exists j. apply ends_correct. exact H.
Qed.

(* AST-level anchoring: a search for ^(r)$ is a whole-text match of r *)
Lemma anchored_somewhere_iff_whole r s :
  matches_somewhere (cats [Bol; Group r; Eol]) s <-> matches_whole r s.
Proof.
  unfold matches_somewhere, matches_whole, cats; cbn [fold_right]. split.
  - intros (i & j & Hi & H).
    inversion H as [| | | |a b i1 j1 k1 Hb Hrest| | | |]; subst.
    inversion Hb; subst.
    inversion Hrest as [| | | |a b i1 j1 k1 Hg Hrest2| | | |]; subst.
    inversion Hg as [| | | | | | | |r' i1 j1' Hr]; subst.
    inversion Hrest2 as [| | | |a b i1 j1' k1 He Heps| | | |]; subst.
    inversion He; subst. exact Hr.
  - intros H. exists 0, (length s). split; [lia|].
    econstructor; [constructor|]. econstructor; [constructor; exact H|].
    econstructor; constructor.
Qed.

Theorem search_anchored_is_fullmatch r s : search (cats [Bol; Group r; Eol]) s = fullmatch r s.
Proof.
  apply eq_true_iff_eq. rewrite search_correct, fullmatch_correct. apply anchored_somewhere_iff_whole.
Qed.
