(* Remote session model: structural invariants that hold in every reachable state (whatever the faults). *)
From RJ Require Import Base.Prelude Model.RemoteSession Proofs.RemoteSessionBase Proofs.RemoteSessionFlow.

Local Open Scope nat_scope.

Fixpoint cmd_ids (l : list msg) : list N :=
  match l with [] => [] | MCmd id _ :: t => id :: cmd_ids t | _ :: t => cmd_ids t end.
Definition is_b2d (m : msg) : bool := match m with MCmd _ _ | MShut => true | _ => false end.
Definition is_rsp (m : msg) : bool := match m with MResp _ | MErr _ => true | _ => false end.
Definition pre_shut (p : bpc) : bool := match p with BApp | BShut => true | _ => false end.
Definition pre_final (p : bpc) : bool := match p with BApp | BShut | BFinal => true | _ => false end.
Definition post_drops (p : bpc) : bool := match p with BApp | BShut | BFinal | BDropS => false | _ => true end.
Definition post_dropr (p : bpc) : bool := match p with BJoinR | BClose | BWait | BEnd => true | _ => false end.
Definition post_joinr (p : bpc) : bool := match p with BClose | BWait | BEnd => true | _ => false end.
Definition is_dexit (p : dpc) : bool := match p with DExit _ => true | _ => false end.

Lemma cmd_ids_app l1 l2 : cmd_ids (l1 ++ l2) = cmd_ids l1 ++ cmd_ids l2.
Proof. induction l1 as [|m t IH]; [reflexivity|]. destruct m; cbn [cmd_ids app]; try exact IH. now rewrite IH. Qed.

(* appending to a list without m: m can only be the new last element *)
Lemma last_only_snoc {A} (m x : A) l pre post : ~ In m l -> l ++ [x] = pre ++ m :: post -> post = [].
Proof.
  intros N E. destruct post as [|p post] using rev_ind; [reflexivity|]. exfalso.
  rewrite app_comm_cons, app_assoc in E. apply app_inj_tail in E as [E _]. apply N. rewrite E.
  apply in_or_app. right. left. reflexivity.
Qed.

Record AInv (s : st) : Prop := {
  a_exec : dexec (dm s) = cmd_ids (hgot (de s));
  a_bmsg : Forall (fun m => is_b2d m = true) (hsent (be s));
  a_shut1 : pre_shut (pc (bm s)) = true -> ~ In MShut (hsent (be s));
  a_shut2 : forall pre post, hsent (be s) = pre ++ MShut :: post -> post = [];
  a_dshut1 : dp (dm s) = DLoop -> ~ In MShut (hgot (de s));
  a_dshut2 : forall pre post, hgot (de s) = pre ++ MShut :: post -> post = [];
  a_pend : Forall (fun m => is_rsp m = true) (dpend (dm s));
  a_dfin1 : is_dexit (dp (dm s)) = false -> ~ In MFinal (hsent (de s));
  a_dfin2 : forall pre post, hsent (de s) = pre ++ MFinal :: post -> post = [];
  a_bfin1 : pre_final (pc (bm s)) = true -> bfin (bm s) = false;
  a_bfin2 : bfin (bm s) = true -> exists zs, hgot (be s) = zs ++ [MFinal];
  a_rb : rcv_ended (rcv_t (be s)) = true -> txa (inc (be s)) = false;
  a_rd : txa (inc (de s)) = false -> rcv_ended (rcv_t (de s)) = true;
  a_sd : rxa (outc (de s)) = false -> snd_ended (snd_t (de s)) = true;
  a_sok : snd_t (de s) = SOk -> txa (outc (de s)) = false;
  a_pcS : post_drops (pc (bm s)) = true -> txa (outc (be s)) = false;
  a_pcR : post_dropr (pc (bm s)) = true -> rxa (inc (be s)) = false;
  a_dloop : dp (dm s) = DLoop -> txa (outc (de s)) = true /\ rxa (inc (de s)) = true;
  a_bsock : bsock (ev s) = false -> post_joinr (pc (bm s)) = true }.

Lemma ainv_init x : AInv (init x).
Proof.
  constructor; unfold init; projs; cbn [ch0 q rxa txa cmd_ids pre_shut pre_final is_dexit rcv_ended snd_ended]; auto;
    try discriminate; try (intros; discriminate).
  - intros [|? ?] ? E; discriminate E.
  - intros [|? ?] ? E; discriminate E.
  - intros [|? ?] ? E; discriminate E.
Qed.

Ltac simp := projs; cbn [pre_shut pre_final post_drops post_dropr post_joinr is_dexit rcv_ended snd_ended cmd_ids is_b2d is_rsp] in *.
Ltac spec_refl := repeat match goal with Hx : ?a = ?a -> _ |- _ => specialize (Hx eq_refl) end.
Ltac fwd := repeat match goal with Hx : ?P -> _, Hp : ?P |- _ => specialize (Hx Hp) end.
Ltac done := simp; spec_refl; try assumption; try discriminate; try congruence; try tauto; auto;
  try (intros; exfalso; congruence); try (intros; fwd; congruence); try (intros; fwd; tauto).

Lemma in_snoc {A} (x y : A) l : In x (l ++ [y]) -> In x l \/ x = y.
Proof. intros H. apply in_app_or in H as [H|[H|[]]]; auto. Qed.

Lemma boss_step_ainv c s s' : boss_step c s = Some s' -> FInv s -> AInv s -> AInv s'.
Proof.
  unfold boss_step, main_send, main_recv, app_took.
  intros H FI [X1 X2 X3 X4 X5 X6 X7 X8 X9 X10 X11 X12 X13 X14 X15 X16 X17 X18 X19].
  destruct s as [b e d e2 w1 w2 v]. destruct b as [p ops er fi]. simp.
  destruct p; simp.
  - (* BApp *)
    destruct ops as [|[id rs| |] t].
    + (simp; inv_some H). constructor; done.
    + destruct (can_send c (outc e)) eqn:?; [|discriminate H]. destruct (rxa (outc e)) eqn:?; (simp; inv_some H); constructor; done.
      all: try (apply Forall_app; split; [assumption | constructor; [reflexivity | constructor]]).
      all: try (intros _ Hin; apply in_snoc in Hin as [Hin|Hin]; [contradiction | discriminate Hin]).
      all: try (intros pre post E; eapply last_only_snoc; [eassumption | exact E]).
    + destruct (q (inc e)) as [|m t'] eqn:Q; [destruct (txa (inc e)) eqn:?; (simp; inv_some H); constructor; done|].
      (simp; inv_some H). destruct (is_resp m); constructor; done.
    + destruct (q (inc e)) as [|m t'] eqn:Q; [destruct (txa (inc e)) eqn:?; (simp; inv_some H); constructor; done|].
      (simp; inv_some H). destruct (is_resp m); constructor; done.
  - (* BShut *)
    destruct (can_send c (outc e)) eqn:?; [|discriminate H]. destruct (rxa (outc e)) eqn:?; (simp; inv_some H); constructor; done.
    all: try (apply Forall_app; split; [assumption | constructor; [reflexivity | constructor]]).
    all: try (intros pre post E; eapply last_only_snoc; [eassumption | exact E]).
  - (* BFinal *)
    destruct (q (inc e)) as [|m t'] eqn:Q; [destruct (txa (inc e)) eqn:?; (simp; inv_some H); constructor; done|].
    (simp; inv_some H). constructor; done.
    all: try (intros Hm; exists (hgot e); destruct m; try discriminate Hm; reflexivity).
  - (simp; inv_some H). constructor; done.
  - destruct (snd_ended (snd_t e)) eqn:?; (simp; inv_some H). constructor; done.
  - (simp; inv_some H). constructor; done.
  - destruct (rcv_ended (rcv_t e)) eqn:?; (simp; inv_some H). constructor; done.
  - (simp; inv_some H). constructor; done.
  - destruct (dalive v) eqn:?; (simp; inv_some H). constructor; done.
  - discriminate H.
Qed.

Lemma snd_step_flags c e w br bad e' w' bad' :
  snd_step c e w br bad = Some (e', w', bad') ->
  txa (outc e') = txa (outc e) /\
  ((rxa (outc e) = false -> snd_ended (snd_t e) = true) -> rxa (outc e') = false -> snd_ended (snd_t e') = true) /\
  ((snd_t e = SOk -> txa (outc e) = false) -> snd_t e' = SOk -> txa (outc e') = false).
Proof.
  unfold snd_step. intros H. destruct e as [st rt oc ic s r hs hg]. simp.
  destruct st; try discriminate H.
  - destruct oc as [qq rx1 tx1]; simp. destruct qq as [|m t].
    + destruct tx1 eqn:?; inv_some H; simp. repeat split; auto.
    + inv_some H. simp. repeat split; auto. intros; discriminate.
  - destruct br; [inv_some H; simp; repeat split; auto; intros; discriminate|].
    destruct (has_space c w); inv_some H. simp. repeat split; auto. intros; discriminate.
Qed.

Lemma rcv_step_flags c e w eof e' w' :
  rcv_step c e w eof = Some (e', w') ->
  rxa (inc e') = rxa (inc e) /\
  ((rcv_ended (rcv_t e) = true -> txa (inc e) = false) -> rcv_ended (rcv_t e') = true -> txa (inc e') = false) /\
  ((txa (inc e) = false -> rcv_ended (rcv_t e) = true) -> txa (inc e') = false -> rcv_ended (rcv_t e') = true).
Proof.
  unfold rcv_step. intros H. destruct e as [st rt oc ic s r hs hg]. simp.
  destruct rt; try discriminate H.
  - destruct w as [|f t]; [destruct eof | destruct (fgood f && (fnonce f =? r)%N)]; inv_some H; simp; repeat split; auto.
  - destruct (can_send c ic); [|discriminate H]. destruct (rxa ic) eqn:?; [destruct (is_final m)|]; inv_some H; simp;
      repeat split; auto.
Qed.

Lemma doer_step_ainv c s s' : doer_step c s = Some s' -> FInv s -> AInv s -> AInv s'.
Proof.
  unfold doer_step, main_send, main_recv.
  intros H FI [X1 X2 X3 X4 X5 X6 X7 X8 X9 X10 X11 X12 X13 X14 X15 X16 X17 X18 X19].
  destruct s as [b e d e2 w1 w2 v]. destruct d as [p pend pl ex]. simp.
  destruct p; simp.
  - (* DLoop *)
    destruct pend as [|r rest].
    + destruct (q (inc e2)) as [|m t'] eqn:Q; [destruct (txa (inc e2)) eqn:?; (simp; inv_some H); constructor; done|].
      destruct m; (simp; inv_some H); constructor; done.
      all: try (rewrite cmd_ids_app; cbn [cmd_ids]; rewrite ?app_nil_r; congruence).
      all: try (intros _ Hin; apply in_snoc in Hin as [Hin|Hin]; [contradiction | discriminate Hin]).
      all: try (intros pre post E; eapply last_only_snoc; [|exact E]; assumption).
      all: try (destruct (plan_hd pl); [constructor; [reflexivity | constructor] |
                 apply Forall_forall; intros y Hy; apply in_map_iff in Hy as (z & <- & _); reflexivity]).
    + destruct (can_send c (outc e2)) eqn:?; [|discriminate H].
      destruct (rxa (outc e2)) eqn:?; (simp; inv_some H); constructor; done.
      all: try (now inversion X7).
      all: try (intros Hd Hin; apply in_snoc in Hin as [Hin|Hin]; [now apply X8 | inversion X7; subst; discriminate]).
      all: try (intros pre post E; eapply last_only_snoc; [|exact E]; auto).
  - (simp; inv_some H). constructor; done.
  - destruct (snd_ended (snd_t e2)) eqn:?; (simp; inv_some H). constructor; done.
  - (simp; inv_some H). constructor; done.
  - destruct (rcv_ended (rcv_t e2)) eqn:?; (simp; inv_some H). constructor; done.
  - destruct (snd_t e2) eqn:Es; try ((simp; inv_some H); constructor; done; try (intros; rewrite Es; try reflexivity; try discriminate); fail).
    unfold d_broken in H. simp. destruct (cut v || negb (bsock v)); [(simp; inv_some H); constructor; done; try (intros; rewrite Es; reflexivity)|].
    destruct (has_space c w2); (simp; inv_some H). constructor; done.
    all: try (intros pre post E; eapply last_only_snoc; [|exact E]; auto).
    all: try (intros; rewrite Es; reflexivity).
  - (simp; inv_some H). constructor; done.
Qed.

Theorem ainv_step c a s s' : next c a s = Some s' -> FInv s -> AInv s -> AInv s'.
Proof.
  unfold next. intros H FI I. destruct (final s); [discriminate H|].
  destruct a.
  - eapply boss_step_ainv; eauto.
  - destruct (at_end s); [discriminate H|].
    destruct (snd_step c (be s) (b2d s) (b_broken s) (bad_b2d (ev s))) as [[[e' wr] bad']|] eqn:E; inv_some H.
    destruct (snd_step_frame _ _ _ _ _ _ _ _ E) as (A1 & A2 & A3 & A4 & _).
    destruct (snd_step_flags _ _ _ _ _ _ _ _ E) as (B1 & B2 & B3).
    destruct I. constructor; simp; rewrite ?A1, ?A2, ?A3, ?A4, ?B1; auto.
    all: try (intros; rewrite <- ?B1; first [apply B2 | apply B3]; auto; fail).
  - destruct (at_end s); [discriminate H|].
    destruct (rcv_step c (be s) (d2b s) (b_broken s)) as [[e' wr]|] eqn:E; inv_some H.
    destruct (rcv_step_frame _ _ _ _ _ _ E) as (A1 & A2 & A3 & A4 & _).
    destruct (rcv_step_flags _ _ _ _ _ _ E) as (B1 & B2 & B3).
    destruct I. constructor; simp; rewrite ?A1, ?A2, ?A3, ?A4, ?B1; auto.
    all: try (intros; rewrite <- ?B1; first [apply B2 | apply B3]; auto; fail).
  - destruct (dalive (ev s)); [|discriminate H]. eapply doer_step_ainv; eauto.
  - destruct (dalive (ev s)); [|discriminate H].
    destruct (snd_step c (de s) (d2b s) (d_broken s) (bad_d2b (ev s))) as [[[e' wr] bad']|] eqn:E; inv_some H.
    destruct (snd_step_frame _ _ _ _ _ _ _ _ E) as (A1 & A2 & A3 & A4 & _).
    destruct (snd_step_flags _ _ _ _ _ _ _ _ E) as (B1 & B2 & B3).
    destruct I. constructor; simp; rewrite ?A1, ?A2, ?A3, ?A4, ?B1; auto.
    all: try (intros; rewrite <- ?B1; first [apply B2 | apply B3]; auto; fail).
  - destruct (dalive (ev s)); [|discriminate H].
    destruct (rcv_step c (de s) (b2d s) (d_broken s)) as [[e' wr]|] eqn:E; inv_some H.
    destruct (rcv_step_frame _ _ _ _ _ _ E) as (A1 & A2 & A3 & A4 & _).
    destruct (rcv_step_flags _ _ _ _ _ _ E) as (B1 & B2 & B3).
    destruct I. constructor; simp; rewrite ?A1, ?A2, ?A3, ?A4, ?B1; auto.
    all: try (intros; rewrite <- ?B1; first [apply B2 | apply B3]; auto; fail).
  - destruct (dalive (ev s) && negb (stdin_open (ev s))); inv_some H. destruct I. constructor; simp; auto.
  - destruct (f_cut (ev s) && negb (cut (ev s))); inv_some H. destruct I. constructor; simp; auto.
  - destruct (f_kill (ev s) && dalive (ev s)); inv_some H. destruct I. constructor; simp; auto.
  - destruct (f_stdin (ev s) && stdin_open (ev s)); inv_some H. destruct I. constructor; simp; auto.
  - destruct (f_bad (ev s)); [discriminate H|].
    destruct (if d2b_dir then bad_d2b (ev s) else bad_b2d (ev s)); inv_some H. destruct I. constructor; simp; auto.
    all: destruct d2b_dir; auto.
Qed.

Lemma reach_ainv c x s : reach c x s -> AInv s.
Proof.
  induction 1 as [|s s' R IH [a Ha]]; [apply ainv_init | eapply ainv_step; eauto using reach_finv].
Qed.
