(* Remote session model: tactics, termination (every step decreases mu), soundness of the executable runs. *)
From RJ Require Import Base.Prelude Model.RemoteSession.

Local Open Scope nat_scope.

Ltac bm H := match type of H with context [match ?x with _ => _ end] => destruct x eqn:? end.
Ltac inv_some H := first [discriminate H | (injection H; try clear H; intros; subst)].
Ltac projs := cbn [bm be dm de b2d d2b ev pc bops berr bfin dp dpend eplan dexec
                   snd_t rcv_t outc inc sn rn hsent hgot q rxa txa
                   cut dalive dstat stdin_open bsock bad_b2d bad_d2b f_cut f_kill f_stdin f_bad nfault
                   set_bm set_be set_dm set_de set_b2d set_d2b set_ev
                   set_snd set_rcv set_outc set_inc set_sn set_rn add_sent add_got
                   push setq drop_rx drop_tx goto bfail setops gotfinal dgoto setpend exec app_took
                   ev_cut ev_end ev_kill ev_stdin ev_fstdin ev_bsock ev_badb ev_badd ev_fbad
                   fst snd fnonce fpay fgood wframe] in *.

Lemma lw_app k l1 l2 : lw k (l1 ++ l2) = lw k l1 + lw k l2.
Proof. induction l1 as [|x l IH]; cbn [lw app]; [reflexivity | rewrite IH; lia]. Qed.

Lemma fw_app l1 l2 : fw (l1 ++ l2) = fw l1 + fw l2.
Proof. induction l1 as [|x l IH]; cbn [fw app]; [reflexivity | rewrite IH; lia]. Qed.

Lemma lw_map_resp k rs : lw k (map MResp rs) = k * length rs.
Proof. induction rs as [|r t IH]; cbn [lw map length mw]; [lia | rewrite IH; lia]. Qed.

(* ---- the four generic operations and the measure *)
Lemma snd_step_mu c e wire br bad e' wire' bad' :
  snd_step c e wire br bad = Some (e', wire', bad') -> epw e' + fw wire' < epw e + fw wire.
Proof.
  unfold snd_step, epw. intros H. destruct e as [st rt oc ic s r hs hg]. projs.
  destruct st; try discriminate H.
  - destruct oc as [qq rx tx]; projs. destruct qq as [|m t].
    + destruct tx; inv_some H. projs. cbn [sthw lw]. lia.
    + inv_some H. projs. cbn [sthw lw]. lia.
  - destruct br; [inv_some H; projs; cbn [sthw]; lia|].
    destruct (has_space c wire); inv_some H. projs. rewrite fw_app. cbn [sthw fw fpay wframe].
    destruct bad; cbn [mw]; lia.
Qed.

Lemma rcv_step_mu c e wire eof e' wire' :
  rcv_step c e wire eof = Some (e', wire') -> epw e' + fw wire' < epw e + fw wire.
Proof.
  unfold rcv_step, epw. intros H. destruct e as [st rt oc ic s r hs hg]. projs.
  destruct rt; try discriminate H.
  - destruct wire as [|f t].
    + destruct eof; inv_some H. projs. cbn [rthw fw]. lia.
    + destruct (fgood f && (fnonce f =? r)%N); inv_some H; projs; cbn [rthw fw]; lia.
  - destruct (can_send c ic); [|discriminate H]. destruct (rxa ic); [|inv_some H; projs; cbn [rthw]; lia].
    destruct (is_final m); inv_some H; projs; rewrite lw_app; cbn [rthw lw]; lia.
Qed.

Lemma main_send_mu c e m e' : main_send c e m = Some (Some e') -> epw e' = epw e + 6 + mw m.
Proof.
  unfold main_send, epw. intros H. destruct (can_send c (outc e)); [|discriminate H].
  destruct (rxa (outc e)); inv_some H. projs. rewrite lw_app. cbn [lw]. lia.
Qed.

Lemma main_recv_mu e m e' : main_recv e = Some (Some (m, e')) -> epw e = epw e' + 2 + mw m.
Proof.
  unfold main_recv, epw. intros H. destruct (q (inc e)) as [|x t] eqn:E; [destruct (txa (inc e)); discriminate H|].
  inv_some H. projs. cbn [lw]. lia.
Qed.

Lemma epw_set_outc_flags e : epw (set_outc e (drop_tx (outc e))) = epw e.
Proof. reflexivity. Qed.
Lemma epw_set_inc_flags e : epw (set_inc e (drop_rx (inc e))) = epw e.
Proof. reflexivity. Qed.

(* ---- the main threads *)
Lemma boss_step_mu c s s' : boss_step c s = Some s' -> mu s' < mu s.
Proof.
  unfold boss_step. intros H. destruct s as [b e d e2 w1 w2 v]. destruct b as [p ops er fi]. projs.
  destruct p; projs.
  - (* BApp *)
    destruct ops as [|[id rs| |] t].
    + inv_some H. unfold mu. projs. cbn [bpcw opsw]. lia.
    + destruct (main_send c e (MCmd id rs)) as [[e'|]|] eqn:E; inv_some H; unfold mu; projs.
      * apply main_send_mu in E. cbn [bpcw opsw opw]. lia.
      * cbn [bpcw opsw opw]. lia.
    + destruct (main_recv e) as [[[m e']|]|] eqn:E; inv_some H; unfold mu; projs.
      * apply main_recv_mu in E. unfold app_took. destruct (is_resp m); projs; cbn [bpcw opsw opw]; lia.
      * cbn [bpcw opsw opw]. lia.
    + destruct (main_recv e) as [[[m e']|]|] eqn:E; inv_some H; unfold mu; projs.
      * apply main_recv_mu in E. unfold app_took. destruct (is_resp m); projs; cbn [bpcw opsw opw]; lia.
      * cbn [bpcw opsw opw]. lia.
      * cbn [bpcw opsw opw]. lia.
  - destruct (main_send c e MShut) as [[e'|]|] eqn:E; inv_some H; unfold mu; projs.
    + apply main_send_mu in E. cbn [bpcw mw] in *. lia.
    + cbn [bpcw]. lia.
  - destruct (main_recv e) as [[[m e']|]|] eqn:E; inv_some H; unfold mu; projs.
    + apply main_recv_mu in E. cbn [bpcw]. lia.
    + cbn [bpcw]. lia.
  - inv_some H. unfold mu. projs. rewrite epw_set_outc_flags. cbn [bpcw]. lia.
  - destruct (snd_ended (snd_t e)); inv_some H. unfold mu. projs. cbn [bpcw]. lia.
  - inv_some H. unfold mu. projs. rewrite epw_set_inc_flags. cbn [bpcw]. lia.
  - destruct (rcv_ended (rcv_t e)); inv_some H. unfold mu, envw. projs. cbn [bpcw]. lia.
  - inv_some H. unfold mu, envw. projs. cbn [bpcw]. lia.
  - destruct (dalive v); inv_some H. unfold mu. projs. cbn [bpcw]. lia.
  - discriminate H.
Qed.

Lemma doer_step_mu c s s' : dalive (ev s) = true -> doer_step c s = Some s' -> mu s' < mu s.
Proof.
  unfold doer_step. intros Ha H. destruct s as [b e d e2 w1 w2 v]. destruct d as [p pend pl ex]. projs.
  destruct p; projs.
  - destruct pend as [|r rest].
    + destruct (main_recv e2) as [[[m e']|]|] eqn:E; [| inv_some H; unfold mu; projs; cbn [dpcw lw]; lia | discriminate H].
      apply main_recv_mu in E.
      destruct m; inv_some H; unfold mu; projs; cbn [dpcw lw mw] in *; try lia.
      destruct (plan_hd pl); [cbn [lw mw]; lia | rewrite lw_map_resp; lia].
    + destruct (main_send c e2 r) as [[e'|]|] eqn:E; inv_some H; unfold mu; projs.
      * apply main_send_mu in E. cbn [dpcw lw]. lia.
      * cbn [dpcw lw]. lia.
  - inv_some H. unfold mu. projs. rewrite epw_set_outc_flags. cbn [dpcw]. lia.
  - destruct (snd_ended (snd_t e2)); inv_some H. unfold mu. projs. cbn [dpcw]. lia.
  - inv_some H. unfold mu. projs. rewrite epw_set_inc_flags. cbn [dpcw]. lia.
  - destruct (rcv_ended (rcv_t e2)); inv_some H. unfold mu. projs. cbn [dpcw]. lia.
  - destruct (snd_t e2) eqn:Es; try (inv_some H; unfold mu; projs; cbn [dpcw]; lia).
    unfold d_broken in H. projs.
    destruct (cut v || negb (bsock v)); [inv_some H; unfold mu; projs; cbn [dpcw]; lia|].
    destruct (has_space c w2); inv_some H. unfold mu, envw, epw. projs. rewrite Es, fw_app.
    cbn [dpcw fw fpay sthw wframe]. destruct (bad_d2b v); cbn [mw]; lia.
  - inv_some H. unfold mu, envw. projs. rewrite Ha. cbn [b2n]. lia.
Qed.

Theorem step_decreases c a s s' : next c a s = Some s' -> mu s' < mu s.
Proof.
  unfold next. intros H. destruct (final s); [discriminate H|].
  destruct a.
  - now apply boss_step_mu in H.
  - destruct (at_end s); [discriminate H|].
    destruct (snd_step c (be s) (b2d s) (b_broken s) (bad_b2d (ev s))) as [[[e' wr] bad']|] eqn:E; inv_some H.
    apply snd_step_mu in E. unfold mu, envw in *. projs. lia.
  - destruct (at_end s); [discriminate H|].
    destruct (rcv_step c (be s) (d2b s) (b_broken s)) as [[e' wr]|] eqn:E; inv_some H.
    apply rcv_step_mu in E. unfold mu in *. projs. lia.
  - destruct (dalive (ev s)) eqn:Ha; [|discriminate H]. now apply doer_step_mu in H.
  - destruct (dalive (ev s)); [|discriminate H].
    destruct (snd_step c (de s) (d2b s) (d_broken s) (bad_d2b (ev s))) as [[[e' wr] bad']|] eqn:E; inv_some H.
    apply snd_step_mu in E. unfold mu, envw in *. projs. lia.
  - destruct (dalive (ev s)); [|discriminate H].
    destruct (rcv_step c (de s) (b2d s) (d_broken s)) as [[e' wr]|] eqn:E; inv_some H.
    apply rcv_step_mu in E. unfold mu in *. projs. lia.
  - destruct (dalive (ev s)) eqn:Ha; [|discriminate H]. destruct (negb (stdin_open (ev s))); inv_some H.
    unfold mu, envw. projs. rewrite Ha. cbn [b2n]. lia.
  - destruct (f_cut (ev s)) eqn:Hf; [|discriminate H]. destruct (negb (cut (ev s))); inv_some H.
    unfold mu, envw. projs. rewrite Hf. cbn [b2n]. lia.
  - destruct (f_kill (ev s)) eqn:Hf; [|discriminate H]. destruct (dalive (ev s)) eqn:Ha; inv_some H.
    unfold mu, envw. projs. rewrite Hf, Ha. cbn [b2n]. lia.
  - destruct (f_stdin (ev s)) eqn:Hf; [|discriminate H]. destruct (stdin_open (ev s)); inv_some H.
    unfold mu, envw. projs. rewrite Hf. cbn [b2n]. lia.
  - destruct (f_bad (ev s)) eqn:Hf; [discriminate H|].
    destruct (if d2b_dir then bad_d2b (ev s) else bad_b2d (ev s)); inv_some H.
    unfold mu, envw. projs. rewrite Hf. cbn [pred]. lia.
Qed.

Theorem terminates c s : Acc (fun a b => step c b a) s.
Proof. apply (well_founded_lt_compat _ mu). intros a b [x H]. eapply step_decreases; exact H. Qed.

(* ---- executable runs only visit reachable states *)
Lemma run_sched_reach c x l : forall s, reach c x s -> reach c x (run_sched c s l).
Proof.
  induction l as [|a r IH]; intros s Hs; cbn [run_sched]; [exact Hs|].
  destruct (next c a s) as [s'|] eqn:E; [|now apply IH].
  apply IH. eapply reach_step; [exact Hs | exists a; exact E].
Qed.

Lemma first_enabled_step c s ord s' : first_enabled c s ord = Some s' -> step c s s'.
Proof.
  induction ord as [|a r IH]; cbn [first_enabled]; [discriminate|].
  destruct (next c a s) as [t|] eqn:E; [|exact IH].
  intros H; injection H as <-. now exists a.
Qed.

Lemma first_enabled_none c s ord : first_enabled c s ord = None -> forall a, In a ord -> next c a s = None.
Proof.
  induction ord as [|b r IH]; cbn [first_enabled]; [intros _ a []|].
  destruct (next c b s) as [t|] eqn:E; [discriminate|].
  intros H a [<-|Hin]; [exact E | now apply IH].
Qed.

Lemma run_prio_reach c x ord n : forall s, reach c x s -> reach c x (run_prio c n ord s).
Proof.
  induction n as [|n IH]; intros s Hs; cbn [run_prio]; [exact Hs|].
  destruct (first_enabled c s ord) as [s'|] eqn:E; [|exact Hs].
  apply IH. eapply reach_step; [exact Hs | eapply first_enabled_step; exact E].
Qed.

Lemma run_prio_quiescent c ord n : forall s, mu s < n ->
  forall a, In a ord -> next c a (run_prio c n ord s) = None.
Proof.
  induction n as [|n IH]; intros s Hlt; [lia|]. cbn [run_prio].
  destruct (first_enabled c s ord) as [s'|] eqn:E.
  - apply IH. destruct (first_enabled_step _ _ _ _ E) as [a Ha]. apply step_decreases in Ha. lia.
  - now apply first_enabled_none.
Qed.

Lemma run_plan_reach c x ord n : forall pl k s, reach c x s -> reach c x (run_plan c n ord pl k s).
Proof.
  induction n as [|n IH]; intros pl k s Hs; cbn [run_plan]; [exact Hs|].
  destruct pl as [|[t a] rest].
  - destruct (first_enabled c s ord) as [s'|] eqn:E; [|exact Hs].
    apply IH. eapply reach_step; [exact Hs | eapply first_enabled_step; exact E].
  - destruct (trig_ok t s k).
    + destruct (next c a s) as [s'|] eqn:E; [|now apply IH].
      apply IH. eapply reach_step; [exact Hs | exists a; exact E].
    + destruct (first_enabled c s ord) as [s'|] eqn:E; [|exact Hs].
      apply IH. eapply reach_step; [exact Hs | eapply first_enabled_step; exact E].
Qed.

Theorem run_sound c x ord : reach c x (run_to_end c ord (init x)) /\
  forall a, In a ord -> next c a (run_to_end c ord (init x)) = None.
Proof. split; [apply run_prio_reach; constructor | apply run_prio_quiescent; lia]. Qed.

Theorem run_plan_sound c x ord pl : reach c x (run_plan_to_end c ord pl (init x)).
Proof. apply run_plan_reach; constructor. Qed.

Lemma stuck_sound c s : stuck c s = true -> final s = false /\ forall s', ~ step c s s'.
Proof.
  unfold stuck. intros H. apply andb_true_iff in H as [H1 H2]. split; [now destruct (final s)|].
  intros s' [a Ha]. rewrite forallb_forall in H2.
  assert (Hin : In a all_actions) by (destruct a as [| | | | | | | | | | []]; cbn; auto 14).
  specialize (H2 a Hin). rewrite Ha in H2. discriminate.
Qed.
