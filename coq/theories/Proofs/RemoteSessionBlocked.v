(* Remote session model: what must hold when a thread cannot move (one lemma per thread kind), for states with the
   link up.  The skeleton of the exhaustive no-stuck analysis (C09). *)
From RJ Require Import Base.Prelude Model.RemoteSession Proofs.RemoteSessionBase Proofs.RemoteSessionFlow
  Proofs.RemoteSessionAInv Proofs.RemoteSessionComplete Proofs.RemoteSessionLinkDown.

Local Open Scope nat_scope.

Definition link_up (s : st) : Prop :=
  cut (ev s) = false /\ bsock (ev s) = true /\ stdin_open (ev s) = true /\ dalive (ev s) = true.

Lemma link_up_not_down s : link_down s = false -> link_up s.
Proof.
  unfold link_down, link_up. intros H. repeat (apply orb_false_iff in H as [H ?]).
  repeat split; [exact H | | |]; now apply negb_false_iff.
Qed.

Definition over (c : config) (ch : chan) : Prop := rxa ch = true /\ (cap c < qsum (w c) (q ch))%N /\ q ch <> [].
Definition full (c : config) (wr : list frame) : Prop := has_space c wr = false /\ wr <> [].

Lemma can_send_over c ch : can_send c ch = false -> over c ch.
Proof.
  intros H. destruct (can_send_false _ _ H) as [A B]. split; [exact A|]. split; [|exact B].
  unfold can_send in H. apply orb_false_iff in H as [H _]. apply N.leb_gt in H. exact H.
Qed.

Lemma no_space_full c wr : has_space c wr = false -> full c wr.
Proof. intros H. split; [exact H|]. intros ->. discriminate H. Qed.

(* a sending thread that cannot move (its socket not broken) *)
Inductive snd_blocked (c : config) (e : endpoint) (wr : list frame) : Prop :=
| sb_idle : snd_t e = SIdle -> q (outc e) = [] -> txa (outc e) = true -> snd_blocked c e wr
| sb_hold m : snd_t e = SHold m -> full c wr -> snd_blocked c e wr
| sb_ended : snd_ended (snd_t e) = true -> snd_blocked c e wr.

Lemma snd_none c e wr bad : snd_step c e wr false bad = None -> snd_blocked c e wr.
Proof.
  unfold snd_step. intros H. destruct (snd_t e) eqn:T.
  - destruct (q (outc e)) eqn:Q; [|discriminate H]. destruct (txa (outc e)) eqn:X; [|discriminate H]. now apply sb_idle.
  - destruct (has_space c wr) eqn:S; [discriminate H|]. eapply sb_hold; [exact T | now apply no_space_full].
  - apply sb_ended. rewrite T. reflexivity.
  - apply sb_ended. rewrite T. reflexivity.
Qed.

(* a receiving thread that cannot move (its socket not broken) *)
Inductive rcv_blocked (c : config) (e : endpoint) (wr : list frame) : Prop :=
| rb_idle : rcv_t e = RIdle -> wr = [] -> rcv_blocked c e wr
| rb_hold m : rcv_t e = RHold m -> over c (inc e) -> rcv_blocked c e wr
| rb_ended : rcv_ended (rcv_t e) = true -> rcv_blocked c e wr.

Lemma rcv_none c e wr : rcv_step c e wr false = None -> rcv_blocked c e wr.
Proof.
  unfold rcv_step. intros H. destruct (rcv_t e) eqn:T.
  - destruct wr as [|f t]; [now apply rb_idle|]. destruct (fgood f && (fnonce f =? rn e)%N); discriminate H.
  - destruct (can_send c (inc e)) eqn:C; [destruct (rxa (inc e)); [destruct (is_final m)|]; discriminate H|].
    eapply rb_hold; [exact T | now apply can_send_over].
  - apply rb_ended. rewrite T. reflexivity.
  - apply rb_ended. rewrite T. reflexivity.
Qed.

(* the boss main thread cannot move *)
Inductive boss_blocked (c : config) (s : st) : Prop :=
| bb_send : (pc (bm s) = BShut \/ (pc (bm s) = BApp /\ exists id rs t, bops (bm s) = OSend id rs :: t)) ->
            over c (outc (be s)) -> boss_blocked c s
| bb_recv : (pc (bm s) = BFinal \/ (pc (bm s) = BApp /\ exists t, bops (bm s) = ORecv :: t)) ->
            q (inc (be s)) = [] -> txa (inc (be s)) = true -> boss_blocked c s
| bb_joins : pc (bm s) = BJoinS -> snd_ended (snd_t (be s)) = false -> boss_blocked c s
| bb_joinr : pc (bm s) = BJoinR -> rcv_ended (rcv_t (be s)) = false -> boss_blocked c s
| bb_wait : pc (bm s) = BWait -> dalive (ev s) = true -> boss_blocked c s
| bb_end : pc (bm s) = BEnd -> boss_blocked c s.

Lemma main_send_none c e m : main_send c e m = None -> over c (outc e).
Proof.
  unfold main_send. intros H. destruct (can_send c (outc e)) eqn:C; [destruct (rxa (outc e)); discriminate H|].
  now apply can_send_over.
Qed.

Lemma main_recv_none e : main_recv e = None -> q (inc e) = [] /\ txa (inc e) = true.
Proof.
  unfold main_recv. intros H. destruct (q (inc e)); [|discriminate H]. destruct (txa (inc e)); [auto | discriminate H].
Qed.

Lemma boss_none c s : boss_step c s = None -> boss_blocked c s.
Proof.
  unfold boss_step. intros H. destruct (pc (bm s)) eqn:P; try discriminate H.
  - destruct (bops (bm s)) as [|[id rs| |] t] eqn:O; [discriminate H| | |].
    + destruct (main_send c (be s) (MCmd id rs)) as [[e'|]|] eqn:E; try discriminate H.
      apply bb_send; [right; split; [exact P | eauto] | eapply main_send_none; eauto].
    + destruct (main_recv (be s)) as [[[m e']|]|] eqn:E; try discriminate H.
      destruct (main_recv_none _ E). apply bb_recv; auto. right. split; [exact P | eauto].
    + destruct (main_recv (be s)) as [[[m e']|]|]; discriminate H.
  - destruct (main_send c (be s) MShut) as [[e'|]|] eqn:E; try discriminate H.
    apply bb_send; [now left | eapply main_send_none; eauto].
  - destruct (main_recv (be s)) as [[[m e']|]|] eqn:E; try discriminate H.
    destruct (main_recv_none _ E). apply bb_recv; auto.
  - destruct (snd_ended (snd_t (be s))) eqn:X; [discriminate H|]. now apply bb_joins.
  - destruct (rcv_ended (rcv_t (be s))) eqn:X; [discriminate H|]. now apply bb_joinr.
  - destruct (dalive (ev s)) eqn:X; [|discriminate H]. now apply bb_wait.
  - now apply bb_end.
Qed.

(* the doer main thread cannot move (its socket not broken) *)
Inductive doer_blocked (c : config) (s : st) : Prop :=
| db_send r rest : dp (dm s) = DLoop -> dpend (dm s) = r :: rest -> over c (outc (de s)) -> doer_blocked c s
| db_recv : dp (dm s) = DLoop -> dpend (dm s) = [] -> q (inc (de s)) = [] -> txa (inc (de s)) = true -> doer_blocked c s
| db_joins : dp (dm s) = DJoinS -> snd_ended (snd_t (de s)) = false -> doer_blocked c s
| db_joinr : dp (dm s) = DJoinR -> rcv_ended (rcv_t (de s)) = false -> doer_blocked c s
| db_final : dp (dm s) = DFinal -> snd_t (de s) = SOk -> full c (d2b s) -> doer_blocked c s.

Lemma doer_none c s : d_broken s = false -> doer_step c s = None -> doer_blocked c s.
Proof.
  unfold doer_step. intros Hb H. destruct (dp (dm s)) eqn:P; try discriminate H.
  - destruct (dpend (dm s)) as [|r rest] eqn:D.
    + destruct (main_recv (de s)) as [[[m e']|]|] eqn:E; try discriminate H; [destruct m; discriminate H|].
      destruct (main_recv_none _ E). now apply db_recv.
    + destruct (main_send c (de s) r) as [[e'|]|] eqn:E; try discriminate H.
      eapply db_send; eauto. eapply main_send_none; eauto.
  - destruct (snd_ended (snd_t (de s))) eqn:X; [discriminate H|]. now apply db_joins.
  - destruct (rcv_ended (rcv_t (de s))) eqn:X; [discriminate H|]. now apply db_joinr.
  - destruct (snd_t (de s)) eqn:T; try discriminate H. rewrite Hb in H.
    destruct (has_space c (d2b s)) eqn:S; [discriminate H|]. apply db_final; auto. now apply no_space_full.
Qed.

(* the shape of a stuck state with the link up: every thread is blocked in one of the ways above *)
Theorem stuck_shape c s : final s = false -> at_end s = false -> link_up s -> (forall s', ~ step c s s') ->
  boss_blocked c s /\ snd_blocked c (be s) (b2d s) /\ rcv_blocked c (be s) (d2b s) /\
  doer_blocked c s /\ snd_blocked c (de s) (d2b s) /\ rcv_blocked c (de s) (b2d s).
Proof.
  intros Hf He (U1 & U2 & U3 & U4) N.
  assert (Hb : b_broken s = false) by (unfold b_broken; rewrite U1, U4; reflexivity).
  assert (Hd : d_broken s = false) by (unfold d_broken; rewrite U1, U2; reflexivity).
  assert (X : forall a, next c a s = None).
  { intros a. destruct (next c a s) as [s'|] eqn:E; [|reflexivity]. exfalso. apply (N s'). now exists a. }
  pose proof (X ABoss) as X1. pose proof (X ABSnd) as X2. pose proof (X ABRcv) as X3.
  pose proof (X ADoer) as X4. pose proof (X ADSnd) as X5. pose proof (X ADRcv) as X6.
  unfold next in *. rewrite Hf, ?He, ?U4, ?Hb, ?Hd in *.
  split; [now apply boss_none|].
  split; [destruct (snd_step c (be s) (b2d s) false (bad_b2d (ev s))) as [[[? ?] ?]|] eqn:E; [discriminate X2 | eapply snd_none; eauto]|].
  split; [destruct (rcv_step c (be s) (d2b s) false) as [[? ?]|] eqn:E; [discriminate X3 | eapply rcv_none; eauto]|].
  split; [now apply doer_none|].
  split; [destruct (snd_step c (de s) (d2b s) false (bad_d2b (ev s))) as [[[? ?] ?]|] eqn:E; [discriminate X5 | eapply snd_none; eauto]|].
  destruct (rcv_step c (de s) (b2d s) false) as [[? ?]|] eqn:E; [discriminate X6 | eapply rcv_none; eauto].
Qed.
