(* Remote session model: completeness of the delivery once both final messages have arrived (C14), and the part of
   the no-stuck statement that needs no premise: after the doer process has ended (C09). *)
From RJ Require Import Base.Prelude Model.RemoteSession Proofs.RemoteSessionBase Proofs.RemoteSessionFlow Proofs.RemoteSessionAInv.

Local Open Scope nat_scope.

(* the doer took Shutdown: it has taken exactly what the boss handed over, and executed exactly those commands *)
Theorem got_shutdown_complete c x s : reach c x s -> In MShut (hgot (de s)) ->
  hgot (de s) = hsent (be s) /\ dexec (dm s) = cmd_ids (hsent (be s)) /\ q (inc (de s)) = [].
Proof.
  intros R Hin. pose proof (reach_ainv _ _ _ R) as A. destruct (reach_finv _ _ _ R) as [(r1 & E1 & _) _ _ _].
  apply in_split in Hin as (l1 & l2 & E). pose proof (a_dshut2 _ A _ _ E) as ->.
  rewrite E in E1. rewrite <- app_assoc in E1. cbn [app] in E1.
  pose proof (a_shut2 _ A _ _ E1) as Z. apply app_eq_nil in Z as [Z1 Z2].
  assert (X : hgot (de s) = hsent (be s)) by (rewrite E1, E, Z1, Z2; reflexivity).
  split; [exact X|]. split; [rewrite <- X; apply (a_exec _ A) | exact Z1].
Qed.

(* the boss took the final message as the final message: it has taken exactly what the doer handed over *)
Theorem got_final_complete c x s : reach c x s -> bfin (bm s) = true ->
  hgot (be s) = hsent (de s) /\ q (inc (be s)) = [].
Proof.
  intros R Hf. pose proof (reach_ainv _ _ _ R) as A. destruct (reach_finv _ _ _ R) as [_ (r1 & E1 & _) _ _].
  destruct (a_bfin2 _ A Hf) as (zs & E). rewrite E in E1. rewrite <- app_assoc in E1. cbn [app] in E1.
  pose proof (a_dfin2 _ A _ _ E1) as Z. apply app_eq_nil in Z as [Z1 Z2].
  split; [rewrite E1, E, Z1, Z2; reflexivity | exact Z1].
Qed.

(* (S2, partial) *)
Theorem remote_complete_partial c x s : reach c x s ->
  In MShut (hgot (de s)) -> bfin (bm s) = true ->
  hgot (de s) = hsent (be s) /\ hgot (be s) = hsent (de s) /\ dexec (dm s) = cmd_ids (hsent (be s)) /\
  q (inc (de s)) = [] /\ q (inc (be s)) = [].
Proof.
  intros R H1 H2. destruct (got_shutdown_complete _ _ _ R H1) as (A & B & C).
  destruct (got_final_complete _ _ _ R H2) as (D & E). auto.
Qed.

(* ---------------------------------------------------------------------------------------------- *)
(* no-stuck once the doer process is gone: no premise at all *)
Lemma qsum_nil_le c : (qsum (w c) [] <=? cap c)%N = true.
Proof. cbn [qsum]. apply N.leb_le. lia. Qed.

Lemma bs_live c e wr bad : snd_ended (snd_t e) = false -> (q (outc e) <> [] \/ txa (outc e) = false) ->
  exists r, snd_step c e wr true bad = Some r.
Proof.
  unfold snd_step. intros H1 H2. destruct (snd_t e); try discriminate H1; [|eauto].
  destruct (q (outc e)); [|eauto]. destruct H2 as [H2|H2]; [now elim H2|]. rewrite H2. eauto.
Qed.

Lemma br_live c e wr : rcv_ended (rcv_t e) = false -> (q (inc e) = [] \/ rxa (inc e) = false) ->
  exists r, rcv_step c e wr true = Some r.
Proof.
  unfold rcv_step, can_send. intros H1 H2. destruct (rcv_t e); try discriminate H1.
  - destruct wr as [|f t]; [eauto|]. destruct (fgood f && (fnonce f =? rn e)%N); eauto.
  - assert (X : (qsum (w c) (q (inc e)) <=? cap c)%N || negb (rxa (inc e)) = true).
    { destruct H2 as [-> | ->]; [rewrite qsum_nil_le; reflexivity | apply orb_true_r]. }
    rewrite X. destruct (rxa (inc e)); [destruct (is_final m)|]; eauto.
Qed.

Lemma can_send_false c ch : can_send c ch = false -> rxa ch = true /\ q ch <> [].
Proof.
  unfold can_send. intros H. apply orb_false_iff in H as [H1 H2]. split; [now destruct (rxa ch)|].
  intros E. rewrite E, qsum_nil_le in H1. discriminate H1.
Qed.

Theorem no_stuck_doer_gone c x s : reach c x s -> dalive (ev s) = false ->
  final s = true \/ exists s', step c s s'.
Proof.
  intros R Hd. destruct (final s) eqn:Hf; [now left|right].
  pose proof (reach_ainv _ _ _ R) as A. destruct (reach_finv _ _ _ R) as [_ _ [S1 _] _].
  assert (He : at_end s = false) by (unfold final in Hf; rewrite Hd in Hf; cbn in Hf; now rewrite andb_true_r in Hf).
  assert (Hb : b_broken s = true) by (unfold b_broken; rewrite Hd; apply orb_true_r).
  assert (SND : snd_ended (snd_t (be s)) = false -> (q (outc (be s)) <> [] \/ txa (outc (be s)) = false) ->
                exists s', step c s s').
  { intros H1 H2. destruct (bs_live c (be s) (b2d s) (bad_b2d (ev s)) H1 H2) as ([[e' wr] bad'] & E).
    eexists. exists ABSnd. unfold next. rewrite Hf, He, Hb, E. reflexivity. }
  assert (RCV : rcv_ended (rcv_t (be s)) = false -> (q (inc (be s)) = [] \/ rxa (inc (be s)) = false) ->
                exists s', step c s s').
  { intros H1 H2. destruct (br_live c (be s) (d2b s) H1 H2) as ([e' wr] & E).
    eexists. exists ABRcv. unfold next. rewrite Hf, He, Hb, E. reflexivity. }
  assert (SENDB : forall m, main_send c (be s) m = None -> exists s', step c s s').
  { intros m E. unfold main_send in E. destruct (can_send c (outc (be s))) eqn:C; [destruct (rxa (outc (be s))); discriminate E|].
    apply can_send_false in C as [C1 C2]. apply SND; [|now left].
    apply Bool.not_true_is_false. intros X. rewrite (S1 X) in C1. discriminate C1. }
  assert (RECVB : main_recv (be s) = None -> exists s', step c s s').
  { intros E. unfold main_recv in E. destruct (q (inc (be s))) eqn:Q; [|discriminate E].
    destruct (txa (inc (be s))) eqn:T; [|discriminate E]. apply RCV; [|now left].
    apply Bool.not_true_is_false. intros X. rewrite (a_rb _ A X) in T. discriminate T. }
  destruct (boss_step c s) as [s1|] eqn:B.
  { exists s1. exists ABoss. unfold next. rewrite Hf. exact B. }
  unfold boss_step in B. unfold at_end in He.
  destruct (pc (bm s)) eqn:P; try discriminate He; try discriminate B.
  - destruct (bops (bm s)) as [|[id rs| |] t]; [discriminate B| | |].
    + destruct (main_send c (be s) (MCmd id rs)) as [[e'|]|] eqn:E; try discriminate B. eapply SENDB; eauto.
    + destruct (main_recv (be s)) as [[[m e']|]|] eqn:E; try discriminate B. now apply RECVB.
    + destruct (main_recv (be s)) as [[[m e']|]|] eqn:E; discriminate B.
  - destruct (main_send c (be s) MShut) as [[e'|]|] eqn:E; try discriminate B. eapply SENDB; eauto.
  - destruct (main_recv (be s)) as [[[m e']|]|] eqn:E; try discriminate B. now apply RECVB.
  - destruct (snd_ended (snd_t (be s))) eqn:X in B; [discriminate B|]. apply SND; [exact X|].
    right. apply (a_pcS _ A). rewrite P. reflexivity.
  - destruct (rcv_ended (rcv_t (be s))) eqn:X in B; [discriminate B|]. apply RCV; [exact X|].
    right. apply (a_pcR _ A). rewrite P. reflexivity.
  - rewrite Hd in B. discriminate B.
Qed.
