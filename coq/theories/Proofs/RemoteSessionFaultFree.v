(* Remote session model, runs without fault steps: no comms thread of the doer ends with Err while the boss still holds
   its socket; a doer that leaves its message loop without having seen the Shutdown does so only after the boss gave up
   waiting for the final message.  Consequence (C14): fault-free + final + "the boss took the final message" =>
   the doer took the Shutdown. *)
From RJ Require Import Base.Prelude Model.RemoteSession Model.RemoteSessionLog Proofs.RemoteSessionBase Proofs.RemoteSessionFlow
  Proofs.RemoteSessionNonce Proofs.RemoteSessionAInv Proofs.RemoteSessionComplete.

Local Open Scope nat_scope.

Definition is_shut (m : msg) : bool := match m with MShut => true | _ => false end.
Definition gotshut (s : st) : bool := existsb is_shut (hgot (de s)).

Lemma gotshut_in l : existsb is_shut l = true <-> In MShut l.
Proof.
  rewrite existsb_exists. split.
  - intros (m & Hin & Hm). destruct m; try discriminate Hm. exact Hin.
  - intros H. exists MShut. split; [exact H | reflexivity].
Qed.

(* ---- small facts about the thread steps *)
Lemma snd_step_err c e w br bad e' w' bad' :
  snd_step c e w br bad = Some (e', w', bad') ->
  (snd_t e' = SErr -> snd_t e = SErr \/ br = true) /\ (bad' = bad \/ bad' = false).
Proof.
  unfold snd_step. intros H. destruct e as [st rt oc ic s r hs hg]. simp.
  destruct st; try discriminate H.
  - destruct (q oc); [destruct (txa oc)|]; inv_some H; simp; split; auto; intros R; discriminate R.
  - destruct br; [inv_some H; simp; auto|]. destruct (has_space c w); inv_some H. simp. split; auto. intros R; discriminate R.
Qed.

Lemma rcv_step_err c e w eof e' w' :
  rcv_step c e w eof = Some (e', w') -> rcv_t e' = RErr ->
  rcv_t e = RErr \/ eof = true \/ rxa (inc e) = false \/
  (exists f t, w = f :: t /\ rcv_t e = RIdle /\ (fgood f = false \/ fnonce f <> rn e)).
Proof.
  unfold rcv_step. intros H R. destruct e as [st rt oc ic s r hs hg]. simp.
  destruct rt; try discriminate H.
  - destruct w as [|f t].
    + destruct eof; inv_some H. auto.
    + destruct (fgood f && (fnonce f =? r)%N) eqn:E; inv_some H; simp; [discriminate R|].
      right; right; right. eexists _, _. split; [reflexivity|]. split; [reflexivity|].
      apply andb_false_iff in E as [E|E]; [now left | right; now apply N.eqb_neq].
  - destruct (can_send c ic); [|discriminate H]. destruct (rxa ic) eqn:Rx; [destruct (is_final m)|]; inv_some H; simp;
      try discriminate R. auto.
Qed.

Lemma rcv_step_ok c e w eof e' w' :
  rcv_step c e w eof = Some (e', w') -> rcv_t e' = ROk ->
  (rcv_t e = ROk /\ inc e' = inc e) \/
  (exists m, rcv_t e = RHold m /\ is_final m = true /\ q (inc e') = q (inc e) ++ [m]).
Proof.
  unfold rcv_step. intros H R. destruct e as [st rt oc ic s r hs hg]. simp.
  destruct rt; try discriminate H.
  - destruct w as [|f t]; [destruct eof | destruct (fgood f && (fnonce f =? r)%N)]; inv_some H; simp; discriminate R.
  - destruct (can_send c ic); [|discriminate H]. destruct (rxa ic) eqn:Rx; [destruct (is_final m) eqn:F|]; inv_some H; simp;
      try discriminate R. right. exists m. auto.
Qed.

Lemma allgood_eff tx w rx tx' w' rx' : Eff tx w rx false tx' w' rx' -> allgood w = true -> allgood w' = true.
Proof.
  intros [(-> & _)|[(f & -> & _ & _ & _ & _ & G)|(f & -> & _)]] H; [exact H | |].
  - rewrite allgood_app, H. cbn [allgood forallb]. rewrite G. reflexivity.
  - cbn [allgood forallb] in H. apply andb_true_iff in H as [_ H]. exact H.
Qed.

(* what a boss step leaves alone *)
Lemma boss_step_mono c s s' : boss_step c s = Some s' ->
  cut (ev s') = cut (ev s) /\ bad_b2d (ev s') = bad_b2d (ev s) /\ nfault (ev s') = nfault (ev s) /\
  (bsock (ev s) = false -> bsock (ev s') = false) /\
  (pre_final (pc (bm s)) = false -> pre_final (pc (bm s')) = false /\ bfin (bm s') = bfin (bm s)).
Proof.
  unfold boss_step, main_send, main_recv, app_took. intros H.
  destruct s as [b e d e2 w1 w2 v]. destruct b as [p ops er fi]. simp.
  destruct p; simp.
  - destruct ops as [|[id rs| |] t].
    + inv_some H. simp. repeat split; auto; discriminate.
    + destruct (can_send c (outc e)); [|discriminate H]. destruct (rxa (outc e)); inv_some H; simp; repeat split; auto; discriminate.
    + destruct (q (inc e)) as [|m t']; [destruct (txa (inc e)); (simp; inv_some H); simp; repeat split; auto; discriminate|].
      (simp; inv_some H). destruct (is_resp m); simp; repeat split; auto; discriminate.
    + destruct (q (inc e)) as [|m t']; [destruct (txa (inc e)); (simp; inv_some H); simp; repeat split; auto; discriminate|].
      (simp; inv_some H). destruct (is_resp m); simp; repeat split; auto; discriminate.
  - destruct (can_send c (outc e)); [|discriminate H]. destruct (rxa (outc e)); inv_some H; simp; repeat split; auto; discriminate.
  - destruct (q (inc e)) as [|m t']; [destruct (txa (inc e)); (simp; inv_some H); simp; repeat split; auto; discriminate|].
    (simp; inv_some H). simp. repeat split; auto; discriminate.
  - inv_some H. simp. repeat split; auto.
  - destruct (snd_ended (snd_t e)); inv_some H. simp. repeat split; auto.
  - inv_some H. simp. repeat split; auto.
  - destruct (rcv_ended (rcv_t e)); inv_some H. simp. repeat split; auto.
  - inv_some H. simp. repeat split; auto.
  - destruct (dalive v); inv_some H. simp. repeat split; auto.
  - discriminate H.
Qed.

(* ---- the invariant of fault-free runs *)
Record FFA (s : st) : Prop := {
  k_cut : cut (ev s) = false;
  k_bad : bad_b2d (ev s) = false;
  k_good : allgood (b2d s) = true;
  k_i7 : snd_t (de s) = SErr -> bsock (ev s) = false;
  k_i2 : rcv_t (de s) = RErr -> rxa (inc (de s)) = false \/ bsock (ev s) = false;
  k_j1 : rcv_t (de s) = ROk -> In MShut (hgot (de s) ++ q (inc (de s)));
  k_i1 : gotshut s = false -> dp (dm s) <> DLoop -> pre_final (pc (bm s)) = false /\ bfin (bm s) = false }.

Lemma ffa_init x : FFA (init x).
Proof. constructor; unfold init, gotshut; simp; try reflexivity; try discriminate. intros _ H. now elim H. Qed.

(* while the doer is in its loop the boss cannot have taken the final message *)
Lemma bfin_false_in_loop s : FInv s -> AInv s -> dp (dm s) = DLoop -> bfin (bm s) = false.
Proof.
  intros [_ (r1 & E1 & _) _ _] A L. destruct (bfin (bm s)) eqn:B; [exfalso|reflexivity].
  destruct (a_bfin2 _ A B) as (zs & E). apply (a_dfin1 _ A); [rewrite L; reflexivity|].
  rewrite E1, E. apply in_or_app. left. apply in_or_app. right. left. reflexivity.
Qed.

Lemma gave_up s : AInv s -> FInv s -> dp (dm s) = DLoop -> bsock (ev s) = false ->
  pre_final (pc (bm s)) = false /\ bfin (bm s) = false.
Proof.
  intros A F L B. split; [|now apply bfin_false_in_loop].
  pose proof (a_bsock _ A B) as X. destruct (pc (bm s)); try discriminate X; reflexivity.
Qed.

Ltac fsimp := unfold gotshut in *; simp; rewrite ?app_nil_r in *.

Lemma doer_step_ffa c s s' : doer_step c s = Some s' -> FInv s -> AInv s -> FFA s -> FFA s'.
Proof.
  intros H FI A [K1 K2 K3 K4 K5 K6 K7].
  pose proof (gave_up s A FI) as GU.
  destruct FI as [(r1 & E1 & _) _ _ _].
  destruct A as [X1 X2 X3 X4 X5 X6 X7 X8 X9 X10 X11 X12 X13 X14 X15 X16 X17 X18 X19].
  unfold doer_step, main_send, main_recv in H. unfold gotshut in *.
  destruct s as [b e d e2 w1 w2 v]. destruct d as [p pend pl ex]. simp.
  destruct p; simp.
  1: { (* DLoop *)
    specialize (GU eq_refl). destruct (X18 eq_refl) as [L1 L2].
    destruct pend as [|r rest].
    + destruct (q (inc e2)) as [|m t'] eqn:Q.
      * destruct (txa (inc e2)) eqn:T; (simp; inv_some H). constructor; fsimp; auto.
        { rewrite Q, ?app_nil_r. exact K6. }
        intros G _. specialize (X13 eq_refl).
        destruct (rcv_t e2) eqn:Rt; try discriminate X13.
        -- exfalso. specialize (K6 eq_refl). apply gotshut_in in K6. congruence.
        -- destruct (K5 eq_refl) as [Z|Z]; [congruence | now apply GU].
      * assert (Hm : is_b2d m = true).
        { rewrite Forall_forall in X2. apply X2. rewrite E1. apply in_or_app. right. left. reflexivity. }
        destruct m; try discriminate Hm; (simp; inv_some H); constructor; fsimp; auto.
        all: try (intros Z; destruct (K5 Z) as [Y|Y]; auto; fail).
        all: try (intros Z; specialize (K6 Z); rewrite <- app_assoc; exact K6).
        all: try (intros _ Z; now elim Z).
        all: try (intros G; rewrite existsb_app in G; cbn in G; rewrite orb_true_r in G; discriminate G).
    + destruct (can_send c (outc e2)) eqn:?; [|discriminate H].
      destruct (rxa (outc e2)) eqn:Rx; (simp; inv_some H); constructor; fsimp; auto.
      all: try (intros _ Z; now elim Z).
      intros G _. specialize (X14 eq_refl). destruct (snd_t e2) eqn:St; try discriminate X14.
      * specialize (X15 eq_refl). congruence.
      * apply GU. now apply K4.
  }
  - (simp; inv_some H). constructor; fsimp; auto.
    all: try (intros Z; destruct (K5 Z); auto; fail).
    all: try (intros Z; left; reflexivity).
    all: try (intros G _; apply K7; [exact G | discriminate]).
    all: try (intros; discriminate).
  - destruct (snd_ended (snd_t e2)) eqn:?; (simp; inv_some H). constructor; fsimp; auto.
    all: try (intros Z; destruct (K5 Z); auto; fail).
    all: try (intros Z; left; reflexivity).
    all: try (intros G _; apply K7; [exact G | discriminate]).
    all: try (intros; discriminate).
  - (simp; inv_some H). constructor; fsimp; auto.
    all: try (intros Z; destruct (K5 Z); auto; fail).
    all: try (intros Z; left; reflexivity).
    all: try (intros G _; apply K7; [exact G | discriminate]).
    all: try (intros; discriminate).
  - destruct (rcv_ended (rcv_t e2)) eqn:?; (simp; inv_some H). constructor; fsimp; auto.
    all: try (intros Z; destruct (K5 Z); auto; fail).
    all: try (intros Z; left; reflexivity).
    all: try (intros G _; apply K7; [exact G | discriminate]).
    all: try (intros; discriminate).
  - destruct (snd_t e2) eqn:Es; unfold d_broken in H; simp;
      try (destruct (cut v || negb (bsock v))); try (destruct (has_space c w2));
      (simp; inv_some H); constructor; fsimp; auto.
    all: try (intros Z; rewrite Es in Z; first [discriminate Z | apply K4; reflexivity]).
    all: try (intros Z; destruct (K5 Z); auto; fail).
    all: try (intros Z; left; reflexivity).
    all: try (intros G _; apply K7; [exact G | discriminate]).
    all: try (intros; discriminate).
  - (simp; inv_some H). constructor; fsimp; auto.
    all: try (intros Z; destruct (K5 Z); auto; fail).
    all: try (intros Z; left; reflexivity).
    all: try (intros G _; apply K7; [exact G | discriminate]).
    all: try (intros; discriminate).
Qed.

Lemma final_b2d_is_shut m : is_final m = true -> is_b2d m = true -> m = MShut.
Proof. destruct m; try discriminate; reflexivity. Qed.

Theorem ffa_step c a s s' : next c a s = Some s' -> nfault (ev s') = 0 ->
  FInv s -> NInv s -> AInv s -> FFA s -> FFA s'.
Proof.
  unfold next. intros H NF FI NI A I. destruct (final s); [discriminate H|].
  destruct a.
  - destruct (boss_step_frame _ _ _ H) as (A1 & A2 & A3 & A4 & _).
    destruct (boss_step_mono _ _ _ H) as (M1 & M2 & M3 & M4 & M5).
    destruct I as [K1 K2 K3 K4 K5 K6 K7]. constructor; unfold gotshut in *; rewrite ?A1, ?A3, ?A4, ?M1, ?M2; auto.
    + intros Z. destruct (K5 Z); auto.
    + intros G Z. destruct (K7 G Z) as [Y1 Y2]. destruct (M5 Y1) as [Y3 Y4]. split; congruence.
  - destruct (at_end s); [discriminate H|].
    destruct (snd_step c (be s) (b2d s) (b_broken s) (bad_b2d (ev s))) as [[[e' wr] bad']|] eqn:E; inv_some H.
    destruct (snd_step_err _ _ _ _ _ _ _ _ E) as (_ & B).
    pose proof (snd_step_eff _ _ _ _ _ _ _ _ (de s) E) as EF.
    destruct I as [K1 K2 K3 K4 K5 K6 K7]. rewrite K2 in *. constructor; unfold gotshut in *; simp; auto.
    + destruct B; congruence.
    + eapply allgood_eff; eauto.
  - destruct (at_end s); [discriminate H|].
    destruct (rcv_step c (be s) (d2b s) (b_broken s)) as [[e' wr]|] eqn:E; inv_some H.
    destruct I. constructor; unfold gotshut in *; simp; auto.
  - destruct (dalive (ev s)); [|discriminate H]. eapply doer_step_ffa; eauto.
  - destruct (dalive (ev s)); [|discriminate H].
    destruct (snd_step c (de s) (d2b s) (d_broken s) (bad_d2b (ev s))) as [[[e' wr] bad']|] eqn:E; inv_some H.
    destruct (snd_step_frame _ _ _ _ _ _ _ _ E) as (A1 & A2 & A3 & A4 & _).
    destruct (snd_step_err _ _ _ _ _ _ _ _ E) as (B & _).
    destruct I as [K1 K2 K3 K4 K5 K6 K7]. constructor; unfold gotshut in *; simp; rewrite ?A1, ?A2, ?A3; auto.
    intros Z. destruct (B Z) as [Y|Y]; [auto|]. unfold d_broken in Y. rewrite K1 in Y. cbn [orb] in Y.
    now destruct (bsock (ev s)).
  - destruct (dalive (ev s)); [|discriminate H].
    destruct (rcv_step c (de s) (b2d s) (d_broken s)) as [[e' wr]|] eqn:E; inv_some H.
    destruct (rcv_step_frame _ _ _ _ _ _ E) as (A1 & A2 & A3 & A4 & _).
    destruct (rcv_step_flags _ _ _ _ _ _ E) as (B1 & _ & _).
    pose proof (rcv_step_eff _ _ _ _ _ _ (be s) E) as EF.
    destruct I as [K1 K2 K3 K4 K5 K6 K7]. constructor; unfold gotshut in *; simp; rewrite ?A1, ?A4, ?B1; auto.
    + eapply allgood_eff; eauto.
    + intros Z. destruct (rcv_step_err _ _ _ _ _ _ E Z) as [Y|[Y|[Y|(f & t & Y1 & Y2 & Y3)]]].
      * auto.
      * right. unfold d_broken in Y. rewrite K1 in Y. cbn [orb] in Y. now destruct (bsock (ev s)).
      * now left.
      * exfalso. rewrite Y1 in K3. cbn [allgood forallb] in K3. apply andb_true_iff in K3 as [G _].
        destruct Y3 as [Y3|Y3]; [congruence|].
        destruct NI as [(a0 & C & _ & Ra) _]. rewrite Y1 in C. cbn [chained] in C. destruct C as [C _].
        apply Y3. rewrite C. apply Ra. rewrite Y2. reflexivity.
    + intros Z. destruct (rcv_step_ok _ _ _ _ _ _ E Z) as [(Y1 & Y2)|(m & Y1 & Y2 & Y3)].
      * rewrite Y2. auto.
      * rewrite Y3. destruct FI as [(r1 & E1 & H2) _ _ _]. rewrite Y1 in H2. destruct (H2 eq_refl) as (r2 & E2 & _).
        assert (Hm : is_b2d m = true).
        { pose proof (a_bmsg _ A) as X. rewrite Forall_forall in X. apply X. rewrite E1, E2. cbn [rheld].
          apply in_or_app. right. apply in_or_app. right. left. reflexivity. }
        rewrite (final_b2d_is_shut _ Y2 Hm). apply in_or_app. right. apply in_or_app. right. left. reflexivity.
  - destruct (dalive (ev s) && negb (stdin_open (ev s))); inv_some H. destruct I. constructor; unfold gotshut in *; simp; auto.
  - destruct (f_cut (ev s) && negb (cut (ev s))); inv_some H. simp. discriminate NF.
  - destruct (f_kill (ev s) && dalive (ev s)); inv_some H. simp. discriminate NF.
  - destruct (f_stdin (ev s) && stdin_open (ev s)); inv_some H. simp. discriminate NF.
  - destruct (f_bad (ev s)); [discriminate H|].
    destruct (if d2b_dir then bad_d2b (ev s) else bad_b2d (ev s)); inv_some H. simp. discriminate NF.
Qed.

Lemma next_nfault c a s s' : next c a s = Some s' -> nfault (ev s) <= nfault (ev s').
Proof.
  unfold next. intros H. destruct (final s); [discriminate H|].
  destruct a.
  - destruct (boss_step_mono _ _ _ H) as (_ & _ & M & _). lia.
  - destruct (at_end s); [discriminate H|].
    destruct (snd_step c (be s) (b2d s) (b_broken s) (bad_b2d (ev s))) as [[[e' wr] bad']|]; inv_some H. simp. lia.
  - destruct (at_end s); [discriminate H|].
    destruct (rcv_step c (be s) (d2b s) (b_broken s)) as [[e' wr]|]; inv_some H. simp. lia.
  - destruct (dalive (ev s)); [|discriminate H]. unfold doer_step in H.
    destruct (dp (dm s)).
    + destruct (dpend (dm s)).
      * destruct (main_recv (de s)) as [[[m e']|]|]; try discriminate H; [destruct m|]; inv_some H; simp; lia.
      * destruct (main_send c (de s) m) as [[e'|]|]; inv_some H; simp; lia.
    + inv_some H; simp; lia.
    + destruct (snd_ended (snd_t (de s))); inv_some H; simp; lia.
    + inv_some H; simp; lia.
    + destruct (rcv_ended (rcv_t (de s))); inv_some H; simp; lia.
    + destruct (snd_t (de s)); try (inv_some H; simp; lia).
      destruct (d_broken s); [inv_some H; simp; lia|]. destruct (has_space c (d2b s)); inv_some H; simp; lia.
    + inv_some H; simp; lia.
  - destruct (dalive (ev s)); [|discriminate H].
    destruct (snd_step c (de s) (d2b s) (d_broken s) (bad_d2b (ev s))) as [[[e' wr] bad']|]; inv_some H. simp. lia.
  - destruct (dalive (ev s)); [|discriminate H].
    destruct (rcv_step c (de s) (b2d s) (d_broken s)) as [[e' wr]|]; inv_some H. simp. lia.
  - destruct (dalive (ev s) && negb (stdin_open (ev s))); inv_some H. simp. lia.
  - destruct (f_cut (ev s) && negb (cut (ev s))); inv_some H. simp. lia.
  - destruct (f_kill (ev s) && dalive (ev s)); inv_some H. simp. lia.
  - destruct (f_stdin (ev s) && stdin_open (ev s)); inv_some H. simp. lia.
  - destruct (f_bad (ev s)); [discriminate H|].
    destruct (if d2b_dir then bad_d2b (ev s) else bad_b2d (ev s)); inv_some H. simp. lia.
Qed.

Lemma reach_ffa c x s : reach c x s -> nfault (ev s) = 0 -> FFA s.
Proof.
  induction 1 as [|s s' R IH [a Ha]]; intros NF; [apply ffa_init|].
  pose proof (next_nfault _ _ _ _ Ha) as M.
  eapply ffa_step; eauto using reach_finv, reach_ninv, reach_ainv. apply IH. lia.
Qed.

(* fault-free: a boss that took the final message as its final message => the doer took the Shutdown *)
Theorem faultfree_final_taken c x s : reach c x s -> nfault (ev s) = 0 -> bfin (bm s) = true ->
  In MShut (hgot (de s)).
Proof.
  intros R NF B. pose proof (reach_ffa _ _ _ R NF) as F. pose proof (reach_ainv _ _ _ R) as A.
  pose proof (reach_finv _ _ _ R) as FI.
  apply gotshut_in. destruct (existsb is_shut (hgot (de s))) eqn:G; [reflexivity|exfalso].
  assert (L : dp (dm s) <> DLoop).
  { intros L. rewrite (bfin_false_in_loop s FI A L) in B. discriminate B. }
  destruct (k_i1 _ F G L) as [_ Y]. congruence.
Qed.

(* (S2) with "the boss took the final message" as the premise about the protocol *)
Theorem remote_complete_faultfree_bfin c x s : reach c x s -> nfault (ev s) = 0 -> bfin (bm s) = true ->
  hgot (de s) = hsent (be s) /\ hgot (be s) = hsent (de s) /\ dexec (dm s) = cmd_ids (hsent (be s)) /\
  q (inc (de s)) = [] /\ q (inc (be s)) = [].
Proof.
  intros R NF B. apply (remote_complete_partial c x); auto. eapply faultfree_final_taken; eauto.
Qed.

(* ---------------------------------------------------------------------------------------------- *)
(* A decidable premise on the boss's protocol under which the boss takes the final message as its final message in
   every fault-free run that ends (NOT proved - see design.d/C14.md): every answer a command produces is received
   (blocking) before the final wait; polls are allowed anywhere and are not counted on to drain anything. *)
Fixpoint reads_all (out : nat) (l : list op) : bool :=
  match l with
  | [] => Nat.eqb out 0
  | OSend _ rs :: t => reads_all (out + length rs) t
  | ORecv :: t => match out with O => false | S n => reads_all n t end
  | OTry :: t => reads_all out t
  end.
Definition reads_all_answers (l : list op) : bool := reads_all 0 l.
