(* Remote session model, safety of the composed link (C14 for the encrypted TCP channel):
   channel -> sending thread -> socket -> receiving thread -> channel, per direction, under every interleaving,
   capacity and fault plan: what the receiving application took ++ what is queued for it is a prefix of what the
   sending application handed over. *)
From RJ Require Import Base.Prelude Model.RemoteSession Proofs.RemoteSessionBase.

Local Open Scope nat_scope.

Fixpoint wpre (w : list frame) : list msg :=
  match w with [] => [] | f :: t => if fgood f then fpay f :: wpre t else [] end.
Definition allgood (w : list frame) : bool := forallb fgood w.
Definition rheld (t : rth) : list msg := match t with RHold m => [m] | _ => [] end.
Definition sheld (t : sth) : list msg := match t with SHold m => [m] | _ => [] end.

(* one direction: sender side (history, sending thread, queue of its channel), the wire, receiver side *)
Definition flowP (hs : list msg) (st : sth) (qo : list msg) (w : list frame) (rt : rth) (qi hg : list msg) : Prop :=
  exists r1, hs = hg ++ qi ++ r1 /\
    (rcv_ended rt = false -> exists r2, r1 = rheld rt ++ wpre w ++ r2 /\
        (allgood w = true -> st <> SErr -> r2 = sheld st ++ qo)).

Definition flow (tx : endpoint) (w : list frame) (rx : endpoint) : Prop :=
  flowP (hsent tx) (snd_t tx) (q (outc tx)) w (rcv_t rx) (q (inc rx)) (hgot rx).

Lemma wpre_app_good w l : allgood w = true -> wpre (w ++ l) = wpre w ++ wpre l.
Proof.
  induction w as [|f t IH]; cbn [wpre allgood forallb app]; [reflexivity|].
  intros H. apply andb_true_iff in H as [H1 H2]. rewrite H1. cbn [app]. now rewrite IH.
Qed.

Lemma wpre_app_bad w l : allgood w = false -> wpre (w ++ l) = wpre w.
Proof.
  induction w as [|f t IH]; cbn [wpre allgood forallb app]; [discriminate|].
  intros H. destruct (fgood f); [|reflexivity]. cbn [andb] in H. now rewrite IH.
Qed.

Lemma allgood_app w l : allgood (w ++ l) = allgood w && allgood l.
Proof. apply forallb_app. Qed.

Lemma f_push hs st qo w rt qi hg m :
  flowP hs st qo w rt qi hg -> flowP (hs ++ [m]) st (qo ++ [m]) w rt qi hg.
Proof.
  intros (r1 & E1 & H2). exists (r1 ++ [m]). split; [rewrite E1; now rewrite <- !app_assoc|].
  intros Hr. destruct (H2 Hr) as (r2 & E2 & H3). exists (r2 ++ [m]). split; [rewrite E2; now rewrite <- !app_assoc|].
  intros Hg Hs. rewrite (H3 Hg Hs). now rewrite <- app_assoc.
Qed.

Lemma f_take hs st qo w rt m t hg :
  flowP hs st qo w rt (m :: t) hg -> flowP hs st qo w rt t (hg ++ [m]).
Proof.
  intros (r1 & E1 & H2). exists r1. split; [rewrite E1; rewrite <- !app_assoc; reflexivity | exact H2].
Qed.

Lemma f_pop hs m t w rt qi hg :
  flowP hs SIdle (m :: t) w rt qi hg -> flowP hs (SHold m) t w rt qi hg.
Proof.
  intros (r1 & E1 & H2). exists r1. split; [exact E1|]. intros Hr. destruct (H2 Hr) as (r2 & E2 & H3).
  exists r2. split; [exact E2|]. intros Hg _. rewrite (H3 Hg); [reflexivity | discriminate].
Qed.

Lemma f_write hs m qo w rt qi hg n (bad : bool) :
  flowP hs (SHold m) qo w rt qi hg ->
  flowP hs SIdle qo (w ++ [mkFr n (if bad then MGarb else m) (negb bad)]) rt qi hg.
Proof.
  intros (r1 & E1 & H2). exists r1. split; [exact E1|]. intros Hr. destruct (H2 Hr) as (r2 & E2 & H3).
  destruct (allgood w) eqn:Hg.
  - assert (E3 : r2 = [m] ++ qo) by (apply H3; [first [exact Hg | reflexivity] | discriminate]).
    destruct bad; cbn [negb].
    + exists r2. rewrite wpre_app_good by exact Hg. cbn [wpre fgood]. rewrite app_nil_r. split; [exact E2|].
      rewrite allgood_app. cbn [allgood forallb fgood]. rewrite andb_false_r. discriminate.
    + exists qo. rewrite wpre_app_good by exact Hg. cbn [wpre fgood fpay]. split.
      * rewrite E2, E3. now rewrite <- !app_assoc.
      * reflexivity.
  - exists r2. rewrite wpre_app_bad by exact Hg. split; [exact E2|].
    rewrite allgood_app, Hg. discriminate.
Qed.

Lemma f_snd_err hs st qo w rt qi hg : flowP hs st qo w rt qi hg -> flowP hs SErr qo w rt qi hg.
Proof.
  intros (r1 & E1 & H2). exists r1. split; [exact E1|]. intros Hr. destruct (H2 Hr) as (r2 & E2 & _).
  exists r2. split; [exact E2|]. intros _ X. now elim X.
Qed.

Lemma f_snd_ok hs w rt qi hg : flowP hs SIdle [] w rt qi hg -> flowP hs SOk [] w rt qi hg.
Proof.
  intros (r1 & E1 & H2). exists r1. split; [exact E1|]. intros Hr. destruct (H2 Hr) as (r2 & E2 & H3).
  exists r2. split; [exact E2|]. intros Hg _. apply H3; [first [exact Hg | reflexivity] | discriminate].
Qed.

Lemma f_accept hs st qo f t qi hg :
  flowP hs st qo (f :: t) RIdle qi hg -> fgood f = true -> flowP hs st qo t (RHold (fpay f)) qi hg.
Proof.
  intros (r1 & E1 & H2) Hf. exists r1. split; [exact E1|]. intros _. destruct (H2 eq_refl) as (r2 & E2 & H3).
  exists r2. cbn [wpre] in E2. rewrite Hf in E2. split; [exact E2|].
  intros Hg. apply H3. cbn [allgood forallb]. rewrite Hf. exact Hg.
Qed.

Lemma f_rcv_end hs st qo w w' rt rt' qi hg :
  flowP hs st qo w rt qi hg -> rcv_ended rt' = true -> flowP hs st qo w' rt' qi hg.
Proof. intros (r1 & E1 & _) H. exists r1. split; [exact E1|]. rewrite H. discriminate. Qed.

Lemma f_rcv_push hs st qo w m qi hg :
  flowP hs st qo w (RHold m) qi hg -> flowP hs st qo w RIdle (qi ++ [m]) hg.
Proof.
  intros (r1 & E1 & H2). destruct (H2 eq_refl) as (r2 & E2 & H3). exists (wpre w ++ r2). split.
  - rewrite E1, E2. cbn [rheld]. now rewrite <- !app_assoc.
  - intros _. exists r2. split; [reflexivity | exact H3].
Qed.

Lemma f_final hs w rt qi hg n (bad : bool) :
  flowP hs SOk [] w rt qi hg ->
  flowP (hs ++ [MFinal]) SOk [] (w ++ [mkFr n (if bad then MGarb else MFinal) (negb bad)]) rt qi hg.
Proof.
  intros (r1 & E1 & H2). exists (r1 ++ [MFinal]). split; [rewrite E1; now rewrite <- !app_assoc|].
  intros Hr. destruct (H2 Hr) as (r2 & E2 & H3).
  destruct (allgood w) eqn:Hg.
  - assert (E3 : r2 = []) by (apply H3; [first [exact Hg | reflexivity] | discriminate]). subst r2.
    destruct bad; cbn [negb].
    + exists [MFinal]. rewrite wpre_app_good by exact Hg. cbn [wpre fgood]. rewrite !app_nil_r in *. split.
      * rewrite E2. now rewrite <- !app_assoc.
      * rewrite allgood_app. cbn [allgood forallb fgood]. rewrite andb_false_r. discriminate.
    + exists []. rewrite wpre_app_good by exact Hg. cbn [wpre fgood fpay]. rewrite !app_nil_r in *. split.
      * rewrite E2. now rewrite <- !app_assoc.
      * reflexivity.
  - exists (r2 ++ [MFinal]). rewrite wpre_app_bad by exact Hg. split.
    + rewrite E2. now rewrite <- !app_assoc.
    + rewrite allgood_app, Hg. discriminate.
Qed.

(* ---- the generic thread steps keep the flow of the direction they belong to and do not touch the other one *)
Definition sinv (e : endpoint) : Prop :=
  (snd_ended (snd_t e) = true -> rxa (outc e) = false) /\ (snd_t e = SOk -> q (outc e) = []).

Lemma snd_step_flow c tx w br bad tx' w' bad' rx :
  snd_step c tx w br bad = Some (tx', w', bad') -> flow tx w rx -> flow tx' w' rx.
Proof.
  unfold snd_step, flow. intros H F. destruct tx as [st rt oc ic s r hs hg]. projs.
  destruct st; try discriminate H.
  - destruct oc as [qq rx1 tx1]; projs. destruct qq as [|m t].
    + destruct tx1; inv_some H. projs. now apply f_snd_ok.
    + inv_some H. projs. now apply f_pop.
  - destruct br; [inv_some H; projs; eapply f_snd_err; eassumption|].
    destruct (has_space c w); inv_some H. projs. now apply f_write.
Qed.

Lemma snd_step_frame c e w br bad e' w' bad' :
  snd_step c e w br bad = Some (e', w', bad') ->
  rcv_t e' = rcv_t e /\ inc e' = inc e /\ hgot e' = hgot e /\ hsent e' = hsent e /\ rn e' = rn e.
Proof.
  unfold snd_step. intros H. destruct e as [st rt oc ic s r hs hg]. projs.
  destruct st; try discriminate H.
  - destruct (q oc); [destruct (txa oc)|]; inv_some H; projs; auto.
  - destruct br; [inv_some H; projs; auto|]. destruct (has_space c w); inv_some H. projs. auto.
Qed.

Lemma snd_step_sinv c e w br bad e' w' bad' :
  snd_step c e w br bad = Some (e', w', bad') -> sinv e -> sinv e'.
Proof.
  unfold snd_step, sinv. intros H [S1 S2]. destruct e as [st rt oc ic s r hs hg]. projs.
  destruct st; try discriminate H.
  - destruct oc as [qq rx1 tx1]; projs. destruct qq as [|m t].
    + destruct tx1; inv_some H. projs. cbn [snd_ended]. auto.
    + inv_some H. projs. cbn [snd_ended]. split; intros; discriminate.
  - destruct br; [inv_some H; projs; cbn [snd_ended]; split; [auto | discriminate]|].
    destruct (has_space c w); inv_some H. projs. cbn [snd_ended]. split; intros; discriminate.
Qed.

Lemma rcv_step_flow c rx w eof rx' w' tx :
  rcv_step c rx w eof = Some (rx', w') -> flow tx w rx -> flow tx w' rx'.
Proof.
  unfold rcv_step, flow. intros H F. destruct rx as [st rt oc ic s r hs hg]. projs.
  destruct rt; try discriminate H.
  - destruct w as [|f t].
    + destruct eof; inv_some H. projs. eapply f_rcv_end; [exact F | reflexivity].
    + destruct (fgood f && (fnonce f =? r)%N) eqn:E; inv_some H; projs.
      * apply andb_true_iff in E as [E _]. now apply f_accept.
      * eapply f_rcv_end; [exact F | reflexivity].
  - destruct (can_send c ic); [|discriminate H]. destruct (rxa ic).
    + destruct (is_final m); inv_some H; projs.
      * eapply f_rcv_end; [apply f_rcv_push; exact F | reflexivity].
      * now apply f_rcv_push.
    + inv_some H. projs. eapply f_rcv_end; [exact F | reflexivity].
Qed.

Lemma rcv_step_frame c e w eof e' w' :
  rcv_step c e w eof = Some (e', w') ->
  snd_t e' = snd_t e /\ outc e' = outc e /\ hsent e' = hsent e /\ hgot e' = hgot e /\ sn e' = sn e.
Proof.
  unfold rcv_step. intros H. destruct e as [st rt oc ic s r hs hg]. projs.
  destruct rt; try discriminate H.
  - destruct w as [|f t]; [destruct eof | destruct (fgood f && (fnonce f =? r)%N)]; inv_some H; projs; auto.
  - destruct (can_send c ic); [|discriminate H]. destruct (rxa ic); [destruct (is_final m)|]; inv_some H; projs; auto.
Qed.

Lemma main_send_flow c tx m tx' w rx :
  main_send c tx m = Some (Some tx') -> flow tx w rx -> flow tx' w rx.
Proof.
  unfold main_send, flow. intros H F. destruct (can_send c (outc tx)); [|discriminate H].
  destruct (rxa (outc tx)); inv_some H. projs. now apply f_push.
Qed.

Lemma main_send_frame c e m e' :
  main_send c e m = Some (Some e') ->
  rcv_t e' = rcv_t e /\ inc e' = inc e /\ hgot e' = hgot e /\ snd_t e' = snd_t e /\ sn e' = sn e /\ rn e' = rn e.
Proof.
  unfold main_send. intros H. destruct (can_send c (outc e)); [|discriminate H].
  destruct (rxa (outc e)); inv_some H. projs. auto 7.
Qed.

Lemma main_send_sinv c e m e' : main_send c e m = Some (Some e') -> sinv e -> sinv e'.
Proof.
  unfold main_send, sinv. intros H [S1 S2]. destruct (can_send c (outc e)); [|discriminate H].
  destruct (rxa (outc e)) eqn:R; inv_some H. projs. split.
  - intros X. apply S1 in X. discriminate X.
  - intros Hs. assert (X : snd_ended (snd_t e) = true) by (rewrite Hs; reflexivity).
    apply S1 in X. discriminate X.
Qed.

Lemma main_recv_flow rx m rx' w tx :
  main_recv rx = Some (Some (m, rx')) -> flow tx w rx -> flow tx w rx'.
Proof.
  unfold main_recv, flow. intros H F. destruct (q (inc rx)) as [|x t] eqn:E; [destruct (txa (inc rx)); discriminate H|].
  inv_some H. projs. now apply f_take.
Qed.

Lemma main_recv_frame e m e' :
  main_recv e = Some (Some (m, e')) ->
  snd_t e' = snd_t e /\ outc e' = outc e /\ hsent e' = hsent e /\ rcv_t e' = rcv_t e /\ sn e' = sn e /\ rn e' = rn e.
Proof.
  unfold main_recv. intros H. destruct (q (inc e)) as [|x t]; [destruct (txa (inc e)); discriminate H|].
  inv_some H. projs. auto 7.
Qed.

(* frame rules: flow / sinv only look at some fields *)
Lemma flow_tx_eq tx tx' w rx : hsent tx' = hsent tx -> snd_t tx' = snd_t tx -> q (outc tx') = q (outc tx) ->
  flow tx w rx -> flow tx' w rx.
Proof. unfold flow. intros -> -> ->. auto. Qed.
Lemma flow_rx_eq tx w rx rx' : hgot rx' = hgot rx -> rcv_t rx' = rcv_t rx -> q (inc rx') = q (inc rx) ->
  flow tx w rx -> flow tx w rx'.
Proof. unfold flow. intros -> -> ->. auto. Qed.
Lemma sinv_eq e e' : snd_t e' = snd_t e -> outc e' = outc e -> sinv e -> sinv e'.
Proof. unfold sinv. intros -> ->. auto. Qed.

Record FInv (s : st) : Prop := {
  fi_b2d : flow (be s) (b2d s) (de s);
  fi_d2b : flow (de s) (d2b s) (be s);
  fi_sb : sinv (be s);
  fi_sd : sinv (de s) }.

Lemma finv_init x : FInv (init x).
Proof.
  constructor; unfold flow, sinv, init; projs; cbn [ch0 q rxa snd_ended].
  - exists []. split; [reflexivity|]. intros _. exists []. split; reflexivity.
  - exists []. split; [reflexivity|]. intros _. exists []. split; reflexivity.
  - split; intros; discriminate.
  - split; intros; discriminate.
Qed.

Ltac frame_tx := eapply flow_tx_eq; [| | | eassumption]; projs; try reflexivity; try congruence.
Ltac frame_rx := eapply flow_rx_eq; [| | | eassumption]; projs; try reflexivity; try congruence.

Lemma boss_step_finv c s s' : boss_step c s = Some s' -> FInv s -> FInv s'.
Proof.
  unfold boss_step. intros H [F1 F2 S1 S2]. destruct s as [b e d e2 w1 w2 v]. destruct b as [p ops er fi]. projs.
  assert (Hsend : forall m e', main_send c e m = Some (Some e') ->
            flow e' w1 e2 /\ flow e2 w2 e' /\ sinv e').
  { intros m e' E. destruct (main_send_frame _ _ _ _ E) as (A1 & A2 & A3 & _).
    split; [eapply main_send_flow; eauto|]. split; [|eapply main_send_sinv; eauto].
    eapply flow_rx_eq; [| | | exact F2]; congruence. }
  assert (Hrecv : forall m e', main_recv e = Some (Some (m, e')) ->
            flow e' w1 e2 /\ flow e2 w2 e' /\ sinv e').
  { intros m e' E. destruct (main_recv_frame _ _ _ E) as (A1 & A2 & A3 & _).
    split; [eapply flow_tx_eq; [| | | exact F1]; congruence|]. split; [eapply main_recv_flow; eauto|].
    eapply sinv_eq; eauto. }
  destruct p; projs.
  - destruct ops as [|[id rs| |] t].
    + inv_some H. constructor; projs; auto.
    + destruct (main_send c e (MCmd id rs)) as [[e'|]|] eqn:E; inv_some H.
      * edestruct Hsend as (X1 & X2 & X3); [first [exact E | reflexivity]|]. constructor; projs; auto.
      * constructor; projs; auto.
    + destruct (main_recv e) as [[[m e']|]|] eqn:E; inv_some H.
      * edestruct Hrecv as (X1 & X2 & X3); [first [exact E | reflexivity]|]. constructor; projs; auto.
      * constructor; projs; auto.
    + destruct (main_recv e) as [[[m e']|]|] eqn:E; inv_some H.
      * edestruct Hrecv as (X1 & X2 & X3); [first [exact E | reflexivity]|]. constructor; projs; auto.
      * constructor; projs; auto.
      * constructor; projs; auto.
  - destruct (main_send c e MShut) as [[e'|]|] eqn:E; inv_some H.
    + edestruct Hsend as (X1 & X2 & X3); [first [exact E | reflexivity]|]. constructor; projs; auto.
    + constructor; projs; auto.
  - destruct (main_recv e) as [[[m e']|]|] eqn:E; inv_some H.
    + edestruct Hrecv as (X1 & X2 & X3); [first [exact E | reflexivity]|]. constructor; projs; auto.
    + constructor; projs; auto.
  - inv_some H. constructor; projs; auto; try (destruct S1 as [A B]; split; projs; auto; fail).
  - destruct (snd_ended (snd_t e)); inv_some H. constructor; projs; auto.
  - inv_some H. constructor; projs; auto.
  - destruct (rcv_ended (rcv_t e)); inv_some H. constructor; projs; auto.
  - inv_some H. constructor; projs; auto.
  - destruct (dalive v); inv_some H. constructor; projs; auto.
  - discriminate H.
Qed.

Lemma doer_step_finv c s s' : doer_step c s = Some s' -> FInv s -> FInv s'.
Proof.
  unfold doer_step. intros H [F1 F2 S1 S2]. destruct s as [b e d e2 w1 w2 v]. destruct d as [p pend pl ex]. projs.
  assert (Hsend : forall m e', main_send c e2 m = Some (Some e') ->
            flow e' w2 e /\ flow e w1 e' /\ sinv e').
  { intros m e' E. destruct (main_send_frame _ _ _ _ E) as (A1 & A2 & A3 & _).
    split; [eapply main_send_flow; eauto|]. split; [|eapply main_send_sinv; eauto].
    eapply flow_rx_eq; [| | | exact F1]; congruence. }
  assert (Hrecv : forall m e', main_recv e2 = Some (Some (m, e')) ->
            flow e' w2 e /\ flow e w1 e' /\ sinv e').
  { intros m e' E. destruct (main_recv_frame _ _ _ E) as (A1 & A2 & A3 & _).
    split; [eapply flow_tx_eq; [| | | exact F2]; congruence|]. split; [eapply main_recv_flow; eauto|].
    eapply sinv_eq; eauto. }
  destruct p; projs.
  - destruct pend as [|r rest].
    + destruct (main_recv e2) as [[[m e']|]|] eqn:E; [| inv_some H; constructor; projs; auto | discriminate H].
      edestruct Hrecv as (X1 & X2 & X3); [first [exact E | reflexivity]|].
      destruct m; inv_some H; constructor; projs; auto.
    + destruct (main_send c e2 r) as [[e'|]|] eqn:E; inv_some H.
      * edestruct Hsend as (X1 & X2 & X3); [first [exact E | reflexivity]|]. constructor; projs; auto.
      * constructor; projs; auto.
  - inv_some H. constructor; projs; auto; try (destruct S2 as [A B]; split; projs; auto; fail).
  - destruct (snd_ended (snd_t e2)); inv_some H. constructor; projs; auto.
  - inv_some H. constructor; projs; auto.
  - destruct (rcv_ended (rcv_t e2)); inv_some H. constructor; projs; auto.
  - destruct (snd_t e2) eqn:Es; try (inv_some H; constructor; projs; auto; fail).
    destruct (d_broken _); [inv_some H; constructor; projs; auto|].
    destruct (has_space c w2); inv_some H. constructor; projs; auto.
    all: try (unfold sinv in *; projs; exact S2).
    unfold flow in *. projs. rewrite Es in *. destruct S2 as [_ B]. rewrite (B Es) in *.
    unfold wframe. projs. now apply f_final.
  - inv_some H. constructor; projs; auto.
Qed.

Theorem finv_step c a s s' : next c a s = Some s' -> FInv s -> FInv s'.
Proof.
  unfold next. intros H I. destruct (final s); [discriminate H|].
  destruct a.
  - eapply boss_step_finv; eauto.
  - destruct (at_end s); [discriminate H|].
    destruct (snd_step c (be s) (b2d s) (b_broken s) (bad_b2d (ev s))) as [[[e' wr] bad']|] eqn:E; inv_some H.
    destruct I as [F1 F2 S1 S2]. destruct (snd_step_frame _ _ _ _ _ _ _ _ E) as (A1 & A2 & A3 & A4 & _).
    constructor; projs; auto.
    + eapply snd_step_flow; eauto.
    + eapply flow_rx_eq; [| | | exact F2]; congruence.
    + eapply snd_step_sinv; eauto.
  - destruct (at_end s); [discriminate H|].
    destruct (rcv_step c (be s) (d2b s) (b_broken s)) as [[e' wr]|] eqn:E; inv_some H.
    destruct I as [F1 F2 S1 S2]. destruct (rcv_step_frame _ _ _ _ _ _ E) as (A1 & A2 & A3 & A4 & _).
    constructor; projs; auto.
    + eapply flow_tx_eq; [| | | exact F1]; congruence.
    + eapply rcv_step_flow; eauto.
    + eapply sinv_eq; eauto.
  - destruct (dalive (ev s)); [|discriminate H]. eapply doer_step_finv; eauto.
  - destruct (dalive (ev s)); [|discriminate H].
    destruct (snd_step c (de s) (d2b s) (d_broken s) (bad_d2b (ev s))) as [[[e' wr] bad']|] eqn:E; inv_some H.
    destruct I as [F1 F2 S1 S2]. destruct (snd_step_frame _ _ _ _ _ _ _ _ E) as (A1 & A2 & A3 & A4 & _).
    constructor; projs; auto.
    + eapply flow_rx_eq; [| | | exact F1]; congruence.
    + eapply snd_step_flow; eauto.
    + eapply snd_step_sinv; eauto.
  - destruct (dalive (ev s)); [|discriminate H].
    destruct (rcv_step c (de s) (b2d s) (d_broken s)) as [[e' wr]|] eqn:E; inv_some H.
    destruct I as [F1 F2 S1 S2]. destruct (rcv_step_frame _ _ _ _ _ _ E) as (A1 & A2 & A3 & A4 & _).
    constructor; projs; auto.
    + eapply rcv_step_flow; eauto.
    + eapply flow_tx_eq; [| | | exact F2]; congruence.
    + eapply sinv_eq; eauto.
  - destruct (dalive (ev s) && negb (stdin_open (ev s))); inv_some H. destruct I. constructor; projs; auto.
  - destruct (f_cut (ev s) && negb (cut (ev s))); inv_some H. destruct I. constructor; projs; auto.
  - destruct (f_kill (ev s) && dalive (ev s)); inv_some H. destruct I. constructor; projs; auto.
  - destruct (f_stdin (ev s) && stdin_open (ev s)); inv_some H. destruct I. constructor; projs; auto.
  - destruct (f_bad (ev s)); [discriminate H|].
    destruct (if d2b_dir then bad_d2b (ev s) else bad_b2d (ev s)); inv_some H. destruct I. constructor; projs; auto.
Qed.

Lemma reach_finv c x s : reach c x s -> FInv s.
Proof. induction 1 as [|s s' _ IH [a Ha]]; [apply finv_init | eapply finv_step; eauto]. Qed.

(* (S1) C14_remote_delivery *)
Theorem remote_delivery c x s : reach c x s ->
  (exists rest, hsent (be s) = (hgot (de s) ++ q (inc (de s))) ++ rest) /\
  (exists rest, hsent (de s) = (hgot (be s) ++ q (inc (be s))) ++ rest).
Proof.
  intros R. destruct (reach_finv _ _ _ R) as [(r1 & E1 & _) (r2 & E2 & _) _ _].
  split; [exists r1 | exists r2]; rewrite <- app_assoc; assumption.
Qed.

(* what is held by the receiving thread and what is still on the wire before the first bad frame continues the
   same sequence: nothing is lost in the middle, duplicated or reordered anywhere in the pipeline *)
Theorem remote_pipeline c x s : reach c x s ->
  (rcv_ended (rcv_t (de s)) = false ->
     exists rest, hsent (be s) = hgot (de s) ++ q (inc (de s)) ++ rheld (rcv_t (de s)) ++ wpre (b2d s) ++ rest) /\
  (rcv_ended (rcv_t (be s)) = false ->
     exists rest, hsent (de s) = hgot (be s) ++ q (inc (be s)) ++ rheld (rcv_t (be s)) ++ wpre (d2b s) ++ rest).
Proof.
  intros R. destruct (reach_finv _ _ _ R) as [(r1 & E1 & H1) (r2 & E2 & H2) _ _].
  split; intros Hr.
  - destruct (H1 Hr) as (r & E & _). exists r. now rewrite E1, E.
  - destruct (H2 Hr) as (r & E & _). exists r. now rewrite E2, E.
Qed.
