(* Remote session model, no-stuck (C09) for every reachable state in which the link is down in some way:
   the TCP connection is cut, or the boss has closed its end of the socket, or the doer's stdin is closed, or the
   doer process is gone.  No premise about capacities or the protocol. *)
From RJ Require Import Base.Prelude Model.RemoteSession Proofs.RemoteSessionBase Proofs.RemoteSessionFlow
  Proofs.RemoteSessionNonce Proofs.RemoteSessionAInv Proofs.RemoteSessionComplete.

Local Open Scope nat_scope.

Definition d_post_drops (p : dpc) : bool := match p with DJoinS | DDropR | DJoinR | DFinal => true | _ => false end.
Definition d_post_dropr (p : dpc) : bool := match p with DJoinR | DFinal => true | _ => false end.

(* the doer-side mirror of a_rb / a_pcS / a_pcR *)
Record DInv (s : st) : Prop := {
  d_rd : rcv_ended (rcv_t (de s)) = true -> txa (inc (de s)) = false;
  d_pcS : d_post_drops (dp (dm s)) = true -> txa (outc (de s)) = false;
  d_pcR : d_post_dropr (dp (dm s)) = true -> rxa (inc (de s)) = false }.

Lemma dinv_init x : DInv (init x).
Proof. constructor; unfold init; simp; cbn [ch0 d_post_drops d_post_dropr]; intros; discriminate. Qed.

Ltac dsimp := simp; cbn [d_post_drops d_post_dropr] in *.

Lemma doer_step_dinv c s s' : doer_step c s = Some s' -> DInv s -> DInv s'.
Proof.
  unfold doer_step, main_send, main_recv. intros H [X1 X2 X3].
  destruct s as [b e d e2 w1 w2 v]. destruct d as [p pend pl ex]. dsimp.
  destruct p; dsimp.
  - destruct pend as [|r rest].
    + destruct (q (inc e2)) as [|m t'] eqn:Q; [destruct (txa (inc e2)) eqn:?; (dsimp; inv_some H); constructor; dsimp; auto; try discriminate|].
      destruct m; (dsimp; inv_some H); constructor; dsimp; auto; try discriminate.
    + destruct (can_send c (outc e2)) eqn:?; [|discriminate H].
      destruct (rxa (outc e2)) eqn:?; (dsimp; inv_some H); constructor; dsimp; auto; try discriminate.
  - (dsimp; inv_some H). constructor; dsimp; auto.
  - destruct (snd_ended (snd_t e2)) eqn:?; (dsimp; inv_some H). constructor; dsimp; auto.
  - (dsimp; inv_some H). constructor; dsimp; auto.
  - destruct (rcv_ended (rcv_t e2)) eqn:?; (dsimp; inv_some H). constructor; dsimp; auto.
  - destruct (snd_t e2) eqn:Es; try ((dsimp; inv_some H); constructor; dsimp; auto; fail).
    unfold d_broken in H. dsimp. destruct (cut v || negb (bsock v)); [(dsimp; inv_some H); constructor; dsimp; auto|].
    destruct (has_space c w2); (dsimp; inv_some H). constructor; dsimp; auto.
  - (dsimp; inv_some H). constructor; dsimp; auto.
Qed.

Theorem dinv_step c a s s' : next c a s = Some s' -> DInv s -> DInv s'.
Proof.
  unfold next. intros H I. destruct (final s); [discriminate H|].
  destruct a.
  - destruct (boss_step_frame _ _ _ H) as (_ & _ & A3 & A4 & _). destruct I. constructor; rewrite ?A3, ?A4; auto.
  - destruct (at_end s); [discriminate H|].
    destruct (snd_step c (be s) (b2d s) (b_broken s) (bad_b2d (ev s))) as [[[e' wr] bad']|] eqn:E; inv_some H.
    destruct I. constructor; dsimp; auto.
  - destruct (at_end s); [discriminate H|].
    destruct (rcv_step c (be s) (d2b s) (b_broken s)) as [[e' wr]|] eqn:E; inv_some H.
    destruct I. constructor; dsimp; auto.
  - destruct (dalive (ev s)); [|discriminate H]. eapply doer_step_dinv; eauto.
  - destruct (dalive (ev s)); [|discriminate H].
    destruct (snd_step c (de s) (d2b s) (d_broken s) (bad_d2b (ev s))) as [[[e' wr] bad']|] eqn:E; inv_some H.
    destruct (snd_step_frame _ _ _ _ _ _ _ _ E) as (A1 & A2 & _).
    destruct (snd_step_flags _ _ _ _ _ _ _ _ E) as (B1 & _ & _).
    destruct I. constructor; dsimp; rewrite ?A1, ?A2, ?B1; auto.
  - destruct (dalive (ev s)); [|discriminate H].
    destruct (rcv_step c (de s) (b2d s) (d_broken s)) as [[e' wr]|] eqn:E; inv_some H.
    destruct (rcv_step_frame _ _ _ _ _ _ E) as (A1 & A2 & _).
    destruct (rcv_step_flags _ _ _ _ _ _ E) as (B1 & B2 & _).
    destruct I. constructor; dsimp; rewrite ?A1, ?A2, ?B1; auto.
  - destruct (dalive (ev s) && negb (stdin_open (ev s))); inv_some H. destruct I. constructor; dsimp; auto.
  - destruct (f_cut (ev s) && negb (cut (ev s))); inv_some H. destruct I. constructor; dsimp; auto.
  - destruct (f_kill (ev s) && dalive (ev s)); inv_some H. destruct I. constructor; dsimp; auto.
  - destruct (f_stdin (ev s) && stdin_open (ev s)); inv_some H. destruct I. constructor; dsimp; auto.
  - destruct (f_bad (ev s)); [discriminate H|].
    destruct (if d2b_dir then bad_d2b (ev s) else bad_b2d (ev s)); inv_some H. destruct I. constructor; dsimp; auto.
Qed.

Lemma reach_dinv c x s : reach c x s -> DInv s.
Proof. induction 1 as [|s s' _ IH [a Ha]]; [apply dinv_init | eapply dinv_step; eauto]. Qed.

(* the doer process lives and its socket is broken (cut, or closed by the boss): some thread of the doer can move *)
Theorem doer_moves_when_broken c x s : reach c x s -> final s = false ->
  dalive (ev s) = true -> d_broken s = true -> exists s', step c s s'.
Proof.
  intros R Hf Hd Hb.
  pose proof (reach_dinv _ _ _ R) as D. destruct (reach_finv _ _ _ R) as [_ _ _ [S1 _]].
  assert (SND : snd_ended (snd_t (de s)) = false -> (q (outc (de s)) <> [] \/ txa (outc (de s)) = false) ->
                exists s', step c s s').
  { intros H1 H2. destruct (bs_live c (de s) (d2b s) (bad_d2b (ev s)) H1 H2) as ([[e' wr] bad'] & E).
    eexists. exists ADSnd. unfold next. rewrite Hf, Hd, Hb, E. reflexivity. }
  assert (RCV : rcv_ended (rcv_t (de s)) = false -> (q (inc (de s)) = [] \/ rxa (inc (de s)) = false) ->
                exists s', step c s s').
  { intros H1 H2. destruct (br_live c (de s) (b2d s) H1 H2) as ([e' wr] & E).
    eexists. exists ADRcv. unfold next. rewrite Hf, Hd, Hb, E. reflexivity. }
  destruct (doer_step c s) as [s1|] eqn:B.
  { exists s1. exists ADoer. unfold next. rewrite Hf, Hd. exact B. }
  unfold doer_step in B.
  destruct (dp (dm s)) eqn:P; try discriminate B.
  - destruct (dpend (dm s)) as [|r rest].
    + unfold main_recv in B. destruct (q (inc (de s))) eqn:Q; [|destruct m; discriminate B].
      destruct (txa (inc (de s))) eqn:T; [|discriminate B]. apply RCV; [|now left].
      apply Bool.not_true_is_false. intros X. rewrite (d_rd _ D X) in T. discriminate T.
    + unfold main_send in B. destruct (can_send c (outc (de s))) eqn:C; [destruct (rxa (outc (de s))); discriminate B|].
      apply can_send_false in C as [C1 C2]. apply SND; [|now left].
      apply Bool.not_true_is_false. intros X. rewrite (S1 X) in C1. discriminate C1.
  - destruct (snd_ended (snd_t (de s))) eqn:X in B; [discriminate B|]. apply SND; [exact X|].
    right. apply (d_pcS _ D). rewrite P. reflexivity.
  - destruct (rcv_ended (rcv_t (de s))) eqn:X in B; [discriminate B|]. apply RCV; [exact X|].
    right. apply (d_pcR _ D). rewrite P. reflexivity.
  - destruct (snd_t (de s)); try discriminate B. rewrite Hb in B. discriminate B.
Qed.

(* (S3, second piece) no-stuck whenever the link is down *)
Definition link_down (s : st) : bool :=
  cut (ev s) || negb (bsock (ev s)) || negb (stdin_open (ev s)) || negb (dalive (ev s)).

Theorem no_stuck_link_down c x s : reach c x s -> link_down s = true ->
  final s = true \/ exists s', step c s s'.
Proof.
  intros R L. destruct (dalive (ev s)) eqn:Hd; [|now apply (no_stuck_doer_gone c x)].
  destruct (final s) eqn:Hf; [now left|right].
  unfold link_down in L. rewrite Hd in L. cbn [negb] in L. rewrite orb_false_r in L.
  destruct (stdin_open (ev s)) eqn:Hs.
  - cbn [negb] in L. rewrite orb_false_r in L. eapply doer_moves_when_broken; eauto.
  - eexists. exists AWatch. unfold next. rewrite Hf, Hd, Hs. reflexivity.
Qed.
