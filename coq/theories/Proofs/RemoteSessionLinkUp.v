(* Remote session model, link-up half of the no-stuck analysis (C09): pieces that close.
   ff_bs : in a run without fault steps the boss's sending thread ends with Err only after the doer process ended.
   no_stuck_ff_final_wait : fault-free, the boss waits for the final message (BFinal) or joins its receiving thread
   (BJoinR): the state is not stuck.  No premise about capacities or the protocol. *)
From RJ Require Import Base.Prelude Model.RemoteSession Proofs.RemoteSessionBase Proofs.RemoteSessionFlow
  Proofs.RemoteSessionNonce Proofs.RemoteSessionAInv Proofs.RemoteSessionComplete Proofs.RemoteSessionLinkDown
  Proofs.RemoteSessionFaultFree Proofs.RemoteSessionBlocked Proofs.RemoteSessionSInv.

Local Open Scope nat_scope.

Lemma doer_step_dalive c s s' : doer_step c s = Some s' -> dalive (ev s) = false -> dalive (ev s') = false.
Proof.
  unfold doer_step. intros H D.
  destruct (dp (dm s)).
  - destruct (dpend (dm s)).
    + destruct (main_recv (de s)) as [[[m e']|]|]; try discriminate H; [destruct m|]; inv_some H; simp; auto.
    + destruct (main_send c (de s) m) as [[e'|]|]; inv_some H; simp; auto.
  - inv_some H; simp; auto.
  - destruct (snd_ended (snd_t (de s))); inv_some H; simp; auto.
  - inv_some H; simp; auto.
  - destruct (rcv_ended (rcv_t (de s))); inv_some H; simp; auto.
  - destruct (snd_t (de s)); try (inv_some H; simp; auto; fail).
    destruct (d_broken s); [inv_some H; simp; auto|]. destruct (has_space c (d2b s)); inv_some H; simp; auto.
  - inv_some H; simp; auto.
Qed.

Lemma boss_step_dalive c s s' : boss_step c s = Some s' -> dalive (ev s') = dalive (ev s).
Proof.
  unfold boss_step, main_send, main_recv, app_took. intros H.
  destruct s as [b e d e2 w1 w2 v]. destruct b as [p ops er fi]. simp.
  destruct p; simp.
  - destruct ops as [|[id rs| |] t].
    + inv_some H. reflexivity.
    + destruct (can_send c (outc e)); [|discriminate H]. destruct (rxa (outc e)); inv_some H; reflexivity.
    + destruct (q (inc e)) as [|m t']; [destruct (txa (inc e)); (simp; inv_some H); reflexivity|].
      (simp; inv_some H). destruct (is_resp m); reflexivity.
    + destruct (q (inc e)) as [|m t']; [destruct (txa (inc e)); (simp; inv_some H); reflexivity|].
      (simp; inv_some H). destruct (is_resp m); reflexivity.
  - destruct (can_send c (outc e)); [|discriminate H]. destruct (rxa (outc e)); inv_some H; reflexivity.
  - destruct (q (inc e)) as [|m t']; [destruct (txa (inc e)); (simp; inv_some H); reflexivity|].
    (simp; inv_some H). reflexivity.
  - inv_some H. reflexivity.
  - destruct (snd_ended (snd_t e)); inv_some H. reflexivity.
  - inv_some H. reflexivity.
  - destruct (rcv_ended (rcv_t e)); inv_some H. reflexivity.
  - inv_some H. reflexivity.
  - destruct (dalive v) eqn:Dv; inv_some H. simp. congruence.
  - discriminate H.
Qed.

(* the boss-side mirror of FFA.k_i7 *)
Lemma ffb_step c a s s' : next c a s = Some s' -> cut (ev s) = false ->
  (snd_t (be s) = SErr -> dalive (ev s) = false) -> snd_t (be s') = SErr -> dalive (ev s') = false.
Proof.
  unfold next. intros H K I Z. destruct (final s); [discriminate H|].
  destruct a.
  - destruct (boss_step_frame _ _ _ H) as (_ & _ & _ & _ & _ & _ & _ & A8). rewrite A8 in Z.
    rewrite (boss_step_dalive _ _ _ H). auto.
  - destruct (at_end s); [discriminate H|].
    destruct (snd_step c (be s) (b2d s) (b_broken s) (bad_b2d (ev s))) as [[[e' wr] bad']|] eqn:E; inv_some H. simp.
    destruct (snd_step_err _ _ _ _ _ _ _ _ E) as (B & _). destruct (B Z) as [Y|Y]; [auto|].
    unfold b_broken in Y. rewrite K in Y. cbn [orb] in Y. now destruct (dalive (ev s)).
  - destruct (at_end s); [discriminate H|].
    destruct (rcv_step c (be s) (d2b s) (b_broken s)) as [[e' wr]|] eqn:E; inv_some H. simp.
    destruct (rcv_step_frame _ _ _ _ _ _ E) as (A1 & _). rewrite A1 in Z. auto.
  - destruct (dalive (ev s)) eqn:D; [|discriminate H].
    destruct (doer_step_frame _ _ _ H) as (_ & A2 & _). rewrite A2 in Z. specialize (I Z). discriminate I.
  - destruct (dalive (ev s)) eqn:D; [|discriminate H].
    destruct (snd_step c (de s) (d2b s) (d_broken s) (bad_d2b (ev s))) as [[[e' wr] bad']|] eqn:E; inv_some H. simp.
    specialize (I Z). discriminate I.
  - destruct (dalive (ev s)) eqn:D; [|discriminate H].
    destruct (rcv_step c (de s) (b2d s) (d_broken s)) as [[e' wr]|] eqn:E; inv_some H. simp.
    specialize (I Z). discriminate I.
  - destruct (dalive (ev s) && negb (stdin_open (ev s))); inv_some H. simp. auto.
  - destruct (f_cut (ev s) && negb (cut (ev s))); inv_some H. simp. auto.
  - destruct (f_kill (ev s) && dalive (ev s)); inv_some H. simp. auto.
  - destruct (f_stdin (ev s) && stdin_open (ev s)); inv_some H. simp. auto.
  - destruct (f_bad (ev s)); [discriminate H|].
    destruct (if d2b_dir then bad_d2b (ev s) else bad_b2d (ev s)); inv_some H. simp. auto.
Qed.

Theorem ff_bs c x s : reach c x s -> nfault (ev s) = 0 -> snd_t (be s) = SErr -> dalive (ev s) = false.
Proof.
  induction 1 as [|s s' R IH [a Ha]]; intros NF; [unfold init; simp; discriminate|].
  pose proof (next_nfault _ _ _ _ Ha) as M. assert (NF0 : nfault (ev s) = 0) by lia.
  eapply ffb_step; eauto. apply (k_cut _ (reach_ffa _ _ _ R NF0)).
Qed.

Lemma over_nonempty c ch : over c ch -> q ch <> [].
Proof. intros (_ & _ & H). exact H. Qed.

(* fault-free, the boss waits for the final message or joins its receiving thread: not stuck *)
Theorem no_stuck_ff_final_wait c x s : reach c x s -> nfault (ev s) = 0 ->
  pc (bm s) = BFinal \/ pc (bm s) = BJoinR ->
  final s = true \/ exists s', step c s s'.
Proof.
  intros R NF PC.
  destruct (link_down s) eqn:LD; [now apply (no_stuck_link_down c x)|].
  destruct (final s) eqn:Hf; [now left|right].
  apply link_up_not_down in LD. pose proof LD as (U1 & U2 & U3 & U4).
  pose proof (reach_ainv _ _ _ R) as A. pose proof (reach_finv _ _ _ R) as FI. pose proof (reach_dinv _ _ _ R) as D.
  pose proof (reach_sinv _ _ _ R) as SI. pose proof (reach_ffa _ _ _ R NF) as FF. pose proof (ff_bs _ _ _ R NF) as FB.
  assert (He : at_end s = false) by (unfold at_end; destruct PC as [-> | ->]; reflexivity).
  (* classical-free: decide by the executable [stuck] *)
  destruct (stuck c s) eqn:ST.
  2:{ unfold stuck in ST. rewrite Hf in ST. cbn [negb andb] in ST.
      assert (X : exists a, In a all_actions /\ is_none (next c a s) = false).
      { clear -ST. induction all_actions as [|a l IH]; [discriminate ST|]. cbn [forallb] in ST.
        destruct (is_none (next c a s)) eqn:E; [destruct (IH ST) as (b & B1 & B2); exists b; split; [now right | exact B2] |
          exists a; split; [now left | exact E]]. }
      destruct X as (a & _ & E). destruct (next c a s) as [s'|] eqn:N; [|discriminate E]. exists s'. now exists a. }
  exfalso. destruct (stuck_sound _ _ ST) as [_ NS].
  destruct (stuck_shape c s Hf He LD NS) as (BB & SB & RB & DB & SD & RD).
  destruct FI as [(r1 & E1 & H2) _ [S1b S2b] [S1d S2d]].
  (* 1. the boss's receiving thread is idle on an empty wire *)
  assert (W2 : d2b s = []).
  { destruct RB as [_ Hw | m Hm Ho | He'].
    - exact Hw.
    - exfalso. destruct PC as [P|P].
      + destruct BB as [[P'|[P' _]] _ | _ Q _ | P' _ | P' _ | P' _ | P']; try congruence.
        apply (over_nonempty _ _ Ho). exact Q.
      + destruct Ho as (Rx & _). rewrite (a_pcR _ A) in Rx; [discriminate Rx | rewrite P; reflexivity].
    - exfalso. destruct PC as [P|P].
      + destruct BB as [[P'|[P' _]] _ | _ _ T | P' _ | P' _ | P' _ | P']; try congruence.
        rewrite (a_rb _ A He') in T. discriminate T.
      + destruct BB as [[P'|[P' _]] _ | [P'|[P' _]] _ _ | P' _ | _ Al | P' _ | P']; try congruence. }
  (* 2. the doer main thread can only be blocked in its receive; then the wire boss->doer is empty too *)
  assert (NF2 : ~ full c (d2b s)) by (intros [_ X]; now apply X).
  assert (DL : dp (dm s) = DLoop /\ q (inc (de s)) = [] /\ b2d s = [] /\ rcv_ended (rcv_t (de s)) = false).
  { destruct DB as [r rest P Dp Ho | P Dp Q T | P Al | P Al | P So Fu].
    - exfalso. destruct Ho as (Rx & _ & Ne).
      destruct SD as [_ Q _ | m Hm Fu | He']; [now apply Ne | now apply NF2 | rewrite (S1d He') in Rx; discriminate Rx].
    - split; [exact P|]. split; [exact Q|].
      assert (AL : rcv_ended (rcv_t (de s)) = false).
      { apply Bool.not_true_is_false. intros X. rewrite (d_rd _ D X) in T. discriminate T. }
      split; [|exact AL].
      destruct RD as [_ Hw | m Hm Ho | He']; [exact Hw | exfalso; apply (over_nonempty _ _ Ho); exact Q | congruence].
    - exfalso. destruct SD as [_ _ T | m Hm Fu | He']; [| now apply NF2 | congruence].
      rewrite (d_pcS _ D) in T; [discriminate T | rewrite P; reflexivity].
    - exfalso. rewrite (s_past _ SI) in Al; [discriminate Al | rewrite P; reflexivity].
    - exfalso. now apply NF2. }
  destruct DL as (P & Q & W1 & DRA).
  (* 3. the boss's sending thread holds nothing and has not failed *)
  assert (NF1 : ~ full c (b2d s)) by (intros [_ X]; now apply X).
  assert (BS : snd_t (be s) <> SErr /\ sheld (snd_t (be s)) ++ q (outc (be s)) = []).
  { split; [intros Z; rewrite (FB Z) in U4; discriminate U4|].
    destruct SB as [I Qo _ | m Hm Fu | He']; [rewrite I, Qo; reflexivity | exfalso; now apply NF1 |].
    destruct (snd_t (be s)) eqn:St; try discriminate He'.
    - rewrite (S2b eq_refl). reflexivity.
    - exfalso. rewrite (FB eq_refl) in U4. discriminate U4. }
  destruct BS as (BS1 & BS2).
  (* 4. the pipeline boss->doer is exact and empty: the doer has taken everything, the Shutdown included *)
  destruct (H2 DRA) as (r2 & E2 & H3). rewrite W1 in *. cbn [wpre allgood forallb] in *.
  specialize (H3 eq_refl BS1). rewrite BS2 in H3. subst r2.
  assert (RH : rheld (rcv_t (de s)) = []).
  { destruct RD as [I _ | m Hm Ho | He']; [rewrite I; reflexivity | exfalso; apply (over_nonempty _ _ Ho); exact Q | congruence]. }
  rewrite RH in E2. cbn [app] in E2. subst r1. rewrite Q, !app_nil_r in E1.
  destruct (s_sent _ SI) as [Y|Y]; [destruct PC as [-> | ->]; reflexivity | | contradiction].
  rewrite E1 in Y. apply (a_dshut1 _ A P Y).
Qed.
