(* Remote session model: the nonce counters (C10 for the composed session, and the synchronisation invariant the
   completeness theorem of C14 needs). *)
From RJ Require Import Base.Prelude Model.RemoteSession Model.RemoteSessionLog Proofs.RemoteSessionBase Proofs.RemoteSessionFlow.

Local Open Scope N_scope.

(* ---- what one step does to one direction (tx, wire, rx) *)
Definition Eff (tx : endpoint) (w : list frame) (rx : endpoint) (bad : bool)
               (tx' : endpoint) (w' : list frame) (rx' : endpoint) : Prop :=
  (w' = w /\ sn tx' = sn tx /\ rn rx' = rn rx /\ (rcv_ended (rcv_t rx') = false -> rcv_ended (rcv_t rx) = false))
  \/ (exists f, w' = w ++ [f] /\ fnonce f = sn tx /\ sn tx' = sn tx + 2 /\ rn rx' = rn rx /\ rcv_t rx' = rcv_t rx /\
                fgood f = negb bad)
  \/ (exists f, w = f :: w' /\ sn tx' = sn tx /\ rcv_ended (rcv_t rx) = false /\
                ((fgood f = true /\ fnonce f = rn rx /\ rn rx' = rn rx + 2) \/ rcv_ended (rcv_t rx') = true)).

Lemma eff_same tx w rx bad tx' rx' :
  sn tx' = sn tx -> rn rx' = rn rx -> rcv_t rx' = rcv_t rx -> Eff tx w rx bad tx' w rx'.
Proof. intros A B C. left. rewrite C. auto. Qed.

Lemma snd_step_eff c tx w br bad tx' w' bad' rx :
  snd_step c tx w br bad = Some (tx', w', bad') -> Eff tx w rx bad tx' w' rx.
Proof.
  unfold snd_step. intros H. destruct tx as [st rt oc ic s r hs hg]. projs.
  destruct st; try discriminate H.
  - destruct (q oc); [destruct (txa oc)|]; inv_some H; apply eff_same; reflexivity.
  - destruct br; [inv_some H; apply eff_same; reflexivity|].
    destruct (has_space c w); inv_some H. right; left. eexists. projs. repeat split; reflexivity.
Qed.

Lemma rcv_step_eff c rx w eof rx' w' tx :
  rcv_step c rx w eof = Some (rx', w') -> Eff tx w rx false tx w' rx'.
Proof.
  unfold rcv_step. intros H. destruct rx as [st rt oc ic s r hs hg]. projs.
  destruct rt; try discriminate H.
  - destruct w as [|f t].
    + destruct eof; inv_some H. left. projs. cbn [rcv_ended]. repeat split; auto.
    + right; right. exists f. projs. cbn [rcv_ended].
      destruct (fgood f && (fnonce f =? r)) eqn:E; inv_some H; projs; repeat split; auto.
      apply andb_true_iff in E as [E1 E2]. apply N.eqb_eq in E2. left. auto.
  - destruct (can_send c ic); [|discriminate H]. destruct (rxa ic); [destruct (is_final m)|]; inv_some H;
      left; projs; cbn [rcv_ended]; repeat split; auto.
Qed.

Lemma boss_step_frame c s s' : boss_step c s = Some s' ->
  b2d s' = b2d s /\ d2b s' = d2b s /\ de s' = de s /\ dm s' = dm s /\
  sn (be s') = sn (be s) /\ rn (be s') = rn (be s) /\ rcv_t (be s') = rcv_t (be s) /\ snd_t (be s') = snd_t (be s).
Proof.
  unfold boss_step. intros H. destruct s as [b e d e2 w1 w2 v]. destruct b as [p ops er fi]. projs.
  destruct p; projs.
  - destruct ops as [|[id rs| |] t].
    + inv_some H. projs. auto 9.
    + destruct (main_send c e (MCmd id rs)) as [[e'|]|] eqn:E; inv_some H; projs; auto 9.
      destruct (main_send_frame _ _ _ _ E) as (A1 & A2 & A3 & A4 & A5 & A6). auto 9.
    + destruct (main_recv e) as [[[m e']|]|] eqn:E; inv_some H; projs; auto 9.
      destruct (main_recv_frame _ _ _ E) as (A1 & A2 & A3 & A4 & A5 & A6). auto 9.
    + destruct (main_recv e) as [[[m e']|]|] eqn:E; inv_some H; projs; auto 9.
      destruct (main_recv_frame _ _ _ E) as (A1 & A2 & A3 & A4 & A5 & A6). auto 9.
  - destruct (main_send c e MShut) as [[e'|]|] eqn:E; inv_some H; projs; auto 9.
    destruct (main_send_frame _ _ _ _ E) as (A1 & A2 & A3 & A4 & A5 & A6). auto 9.
  - destruct (main_recv e) as [[[m e']|]|] eqn:E; inv_some H; projs; auto 9.
    destruct (main_recv_frame _ _ _ E) as (A1 & A2 & A3 & A4 & A5 & A6). auto 9.
  - inv_some H. projs. auto 9.
  - destruct (snd_ended (snd_t e)); inv_some H. projs. auto 9.
  - inv_some H. projs. auto 9.
  - destruct (rcv_ended (rcv_t e)); inv_some H. projs. auto 9.
  - inv_some H. projs. auto 9.
  - destruct (dalive v); inv_some H. projs. auto 9.
  - discriminate H.
Qed.

Lemma doer_step_frame c s s' : doer_step c s = Some s' ->
  b2d s' = b2d s /\ be s' = be s /\ bm s' = bm s /\
  rn (de s') = rn (de s) /\ rcv_t (de s') = rcv_t (de s) /\ snd_t (de s') = snd_t (de s) /\
  ((d2b s' = d2b s /\ sn (de s') = sn (de s)) \/
   (exists f, d2b s' = d2b s ++ [f] /\ fnonce f = sn (de s) /\ sn (de s') = sn (de s) + 2 /\
              fgood f = negb (bad_d2b (ev s)) /\ dp (dm s) = DFinal)).
Proof.
  unfold doer_step. intros H. destruct s as [b e d e2 w1 w2 v]. destruct d as [p pend pl ex]. projs.
  destruct p; projs.
  - destruct pend as [|r rest].
    + destruct (main_recv e2) as [[[m e']|]|] eqn:E; [| inv_some H; projs; auto 9 | discriminate H].
      destruct (main_recv_frame _ _ _ E) as (A1 & A2 & A3 & A4 & A5 & A6).
      destruct m; inv_some H; projs; auto 9.
    + destruct (main_send c e2 r) as [[e'|]|] eqn:E; inv_some H; projs; auto 9.
      destruct (main_send_frame _ _ _ _ E) as (A1 & A2 & A3 & A4 & A5 & A6). auto 9.
  - inv_some H. projs. auto 9.
  - destruct (snd_ended (snd_t e2)); inv_some H. projs. auto 9.
  - inv_some H. projs. auto 9.
  - destruct (rcv_ended (rcv_t e2)); inv_some H. projs. auto 9.
  - destruct (snd_t e2) eqn:Es; try (inv_some H; projs; auto 9; fail).
    destruct (d_broken _); [inv_some H; projs; auto 9|].
    destruct (has_space c w2); inv_some H. projs. repeat split; auto.
    right. eexists. repeat split; reflexivity.
  - inv_some H. projs. auto 9.
Qed.

(* every step, seen from each direction *)
Lemma next_eff_b2d c a s s' : next c a s = Some s' ->
  Eff (be s) (b2d s) (de s) (bad_b2d (ev s)) (be s') (b2d s') (de s').
Proof.
  unfold next. intros H. destruct (final s); [discriminate H|].
  destruct a.
  - destruct (boss_step_frame _ _ _ H) as (A1 & A2 & A3 & A4 & A5 & _). rewrite A1, A3. now apply eff_same.
  - destruct (at_end s); [discriminate H|].
    destruct (snd_step c (be s) (b2d s) (b_broken s) (bad_b2d (ev s))) as [[[e' wr] bad']|] eqn:E; inv_some H. projs.
    eapply snd_step_eff; eauto.
  - destruct (at_end s); [discriminate H|].
    destruct (rcv_step c (be s) (d2b s) (b_broken s)) as [[e' wr]|] eqn:E; inv_some H. projs.
    destruct (rcv_step_frame _ _ _ _ _ _ E) as (_ & _ & _ & _ & A). now apply eff_same.
  - destruct (dalive (ev s)); [|discriminate H].
    destruct (doer_step_frame _ _ _ H) as (A1 & A2 & A3 & A4 & A5 & _). rewrite A1, A2. now apply eff_same.
  - destruct (dalive (ev s)); [|discriminate H].
    destruct (snd_step c (de s) (d2b s) (d_broken s) (bad_d2b (ev s))) as [[[e' wr] bad']|] eqn:E; inv_some H. projs.
    destruct (snd_step_frame _ _ _ _ _ _ _ _ E) as (A1 & _ & _ & _ & A5). now apply eff_same.
  - destruct (dalive (ev s)); [|discriminate H].
    destruct (rcv_step c (de s) (b2d s) (d_broken s)) as [[e' wr]|] eqn:E; inv_some H. projs.
    pose proof (rcv_step_eff _ _ _ _ _ _ (be s) E) as X. unfold Eff in *.
    destruct X as [X|[(f & X)|X]]; [left; exact X | right; left; exists f | right; right; exact X].
    destruct X as (X1 & X2 & X3 & X4 & X5 & X6). repeat split; auto. lia.
  - destruct (dalive (ev s) && negb (stdin_open (ev s))); inv_some H. now apply eff_same.
  - destruct (f_cut (ev s) && negb (cut (ev s))); inv_some H. now apply eff_same.
  - destruct (f_kill (ev s) && dalive (ev s)); inv_some H. now apply eff_same.
  - destruct (f_stdin (ev s) && stdin_open (ev s)); inv_some H. now apply eff_same.
  - destruct (f_bad (ev s)); [discriminate H|].
    destruct (if d2b_dir then bad_d2b (ev s) else bad_b2d (ev s)); inv_some H. now apply eff_same.
Qed.

Lemma next_eff_d2b c a s s' : next c a s = Some s' ->
  Eff (de s) (d2b s) (be s) (bad_d2b (ev s)) (de s') (d2b s') (be s').
Proof.
  unfold next. intros H. destruct (final s); [discriminate H|].
  destruct a.
  - destruct (boss_step_frame _ _ _ H) as (A1 & A2 & A3 & A4 & A5 & A6 & A7 & _). rewrite A2, A3. now apply eff_same.
  - destruct (at_end s); [discriminate H|].
    destruct (snd_step c (be s) (b2d s) (b_broken s) (bad_b2d (ev s))) as [[[e' wr] bad']|] eqn:E; inv_some H. projs.
    destruct (snd_step_frame _ _ _ _ _ _ _ _ E) as (A1 & _ & _ & _ & A5). now apply eff_same.
  - destruct (at_end s); [discriminate H|].
    destruct (rcv_step c (be s) (d2b s) (b_broken s)) as [[e' wr]|] eqn:E; inv_some H. projs.
    pose proof (rcv_step_eff _ _ _ _ _ _ (de s) E) as X. unfold Eff in *.
    destruct X as [X|[(f & X)|X]]; [left; exact X | right; left; exists f | right; right; exact X].
    destruct X as (X1 & X2 & X3 & X4 & X5 & X6). repeat split; auto. lia.
  - destruct (dalive (ev s)); [|discriminate H].
    destruct (doer_step_frame _ _ _ H) as (A1 & A2 & A3 & A4 & A5 & A6 & [[B1 B2]|(f & B1 & B2 & B3 & B4 & _)]).
    + rewrite B1, A2. now apply eff_same.
    + right; left. exists f. rewrite A2. repeat split; auto.
  - destruct (dalive (ev s)); [|discriminate H].
    destruct (snd_step c (de s) (d2b s) (d_broken s) (bad_d2b (ev s))) as [[[e' wr] bad']|] eqn:E; inv_some H. projs.
    eapply snd_step_eff; eauto.
  - destruct (dalive (ev s)); [|discriminate H].
    destruct (rcv_step c (de s) (b2d s) (d_broken s)) as [[e' wr]|] eqn:E; inv_some H. projs.
    destruct (rcv_step_frame _ _ _ _ _ _ E) as (_ & _ & _ & _ & A). now apply eff_same.
  - destruct (dalive (ev s) && negb (stdin_open (ev s))); inv_some H. now apply eff_same.
  - destruct (f_cut (ev s) && negb (cut (ev s))); inv_some H. now apply eff_same.
  - destruct (f_kill (ev s) && dalive (ev s)); inv_some H. now apply eff_same.
  - destruct (f_stdin (ev s) && stdin_open (ev s)); inv_some H. now apply eff_same.
  - destruct (f_bad (ev s)); [discriminate H|].
    destruct (if d2b_dir then bad_d2b (ev s) else bad_b2d (ev s)); inv_some H. now apply eff_same.
Qed.

(* ---- the synchronisation invariant of one direction *)
Definition NDir (tx : endpoint) (w : list frame) (rx : endpoint) : Prop :=
  exists a, chained a w /\ nend a w = sn tx /\ (rcv_ended (rcv_t rx) = false -> a = rn rx).

Lemma chained_app a w f : chained a w -> fnonce f = nend a w -> chained a (w ++ [f]).
Proof.
  revert a. induction w as [|g t IH]; intros a H E; cbn [chained app] in *.
  - unfold nend in E. cbn [length] in E. split; [lia | exact I].
  - destruct H as [H1 H2]. split; [exact H1|]. apply IH; [exact H2|]. unfold nend in *. cbn [length] in E. lia.
Qed.

Lemma nend_app a w f : nend a (w ++ [f]) = nend a w + 2.
Proof. unfold nend. rewrite app_length. cbn [length]. lia. Qed.

Lemma ndir_eff tx w rx bad tx' w' rx' : Eff tx w rx bad tx' w' rx' -> NDir tx w rx -> NDir tx' w' rx'.
Proof.
  intros E (a & C & N1 & R).
  destruct E as [(-> & E1 & E2 & E3)|[(f & -> & F1 & F2 & F3 & F4 & _)|(f & -> & P1 & P2 & P3)]].
  - exists a. rewrite E1, E2. auto.
  - exists a. split; [apply chained_app; [exact C | congruence]|]. split; [rewrite nend_app; lia|].
    rewrite F3, F4. exact R.
  - cbn [chained] in C. destruct C as [C1 C2]. exists (a + 2). split; [exact C2|].
    split; [unfold nend in *; cbn [length] in N1; lia|].
    intros Hr. destruct P3 as [(G1 & G2 & G3)|G]; [|congruence]. rewrite G3, <- (R P2). reflexivity.
Qed.

Record NInv (s : st) : Prop := { ni_b2d : NDir (be s) (b2d s) (de s); ni_d2b : NDir (de s) (d2b s) (be s) }.

Lemma ninv_init x : NInv (init x).
Proof. constructor; unfold NDir, init; projs; [exists 0 | exists 1]; cbn [chained]; unfold nend; cbn [length]; auto. Qed.

Lemma ninv_step c a s s' : next c a s = Some s' -> NInv s -> NInv s'.
Proof.
  intros H [A B]. constructor.
  - eapply ndir_eff; [eapply next_eff_b2d; eauto | exact A].
  - eapply ndir_eff; [eapply next_eff_d2b; eauto | exact B].
Qed.

Lemma reach_ninv c x s : reach c x s -> NInv s.
Proof. induction 1 as [|s s' _ IH [a Ha]]; [apply ninv_init | eapply ninv_step; eauto]. Qed.

(* the receiving thread's expected counter is the nonce of the next frame on the wire: an honest frame is never
   rejected for its nonce *)
Theorem expected_nonce c x s : reach c x s ->
  (rcv_ended (rcv_t (de s)) = false -> forall f t, b2d s = f :: t -> fnonce f = rn (de s)) /\
  (rcv_ended (rcv_t (be s)) = false -> forall f t, d2b s = f :: t -> fnonce f = rn (be s)).
Proof.
  intros R. destruct (reach_ninv _ _ _ R) as [(a & C1 & _ & R1) (b & C2 & _ & R2)].
  split; intros Hr f t E; rewrite E in *; cbn [chained] in *; [rewrite <- (R1 Hr) | rewrite <- (R2 Hr)]; tauto.
Qed.

(* ---- the log *)
Lemma appended_same w : appended w w = [].
Proof. unfold appended. apply skipn_all. Qed.
Lemma appended_app w l : appended w (w ++ l) = l.
Proof. unfold appended. rewrite skipn_app, skipn_all, Nat.sub_diag. reflexivity. Qed.
Lemma appended_pop f w : appended (f :: w) w = [].
Proof. unfold appended. apply skipn_all2. cbn [length]. lia. Qed.

Record LDir (lsb : N) (lg : list frame) (tx : endpoint) (w : list frame) : Prop := {
  ld_chain : chained lsb lg;
  ld_end : nend lsb lg = sn tx;
  ld_wire : exists pre, lg = pre ++ w }.

Lemma ldir_eff lsb lg tx w rx bad tx' w' rx' :
  Eff tx w rx bad tx' w' rx' -> LDir lsb lg tx w -> LDir lsb (lg ++ appended w w') tx' w'.
Proof.
  intros E [C N1 (pre & P)].
  destruct E as [(-> & E1 & _)|[(f & -> & F1 & F2 & _)|(f & -> & P1 & _)]].
  - rewrite appended_same, app_nil_r. constructor; [exact C | congruence | exists pre; exact P].
  - rewrite appended_app. constructor.
    + apply chained_app; [exact C | congruence].
    + rewrite nend_app. lia.
    + exists pre. rewrite P. now rewrite app_assoc.
  - rewrite appended_pop, app_nil_r. constructor; [exact C | congruence|].
    exists (pre ++ [f]). rewrite P. now rewrite <- app_assoc.
Qed.

Record LInv (l : lst) : Prop := {
  li_b : LDir 0 (lb2d l) (be (base l)) (b2d (base l));
  li_d : LDir 1 (ld2b l) (de (base l)) (d2b (base l)) }.

Lemma linv_init x : LInv (linit x).
Proof. constructor; constructor; cbn; auto; exists []; reflexivity. Qed.

Lemma linv_step c a l l' : lnext c a l = Some l' -> LInv l -> LInv l'.
Proof.
  unfold lnext. intros H [A B]. destruct (next c a (base l)) as [s'|] eqn:E; inv_some H. constructor; cbn [base lb2d ld2b].
  - eapply ldir_eff; [eapply next_eff_b2d; eauto | exact A].
  - eapply ldir_eff; [eapply next_eff_d2b; eauto | exact B].
Qed.

Lemma lreach_linv c x l : lreach c x l -> LInv l.
Proof. induction 1 as [|l l' _ IH [a Ha]]; [apply linv_init | eapply linv_step; eauto]. Qed.

(* the logged system is the base system with a log attached *)
Lemma lreach_base c x l : lreach c x l -> reach c x (base l).
Proof.
  induction 1 as [|l l' _ IH [a Ha]]; [constructor|]. unfold lnext in Ha.
  destruct (next c a (base l)) as [s'|] eqn:E; inv_some Ha. cbn [base]. eapply reach_step; [exact IH | exists a; exact E].
Qed.

Lemma reach_has_log c x s : reach c x s -> exists l, lreach c x l /\ base l = s.
Proof.
  induction 1 as [|s s' _ (l & L & <-) [a Ha]]; [exists (linit x); split; [constructor | reflexivity]|].
  eexists. split; [eapply lreach_step; [exact L | exists a; unfold lnext; rewrite Ha; reflexivity] | reflexivity].
Qed.

(* ---- consequences of [chained] *)
Lemma chained_nth a w : chained a w -> forall i f, nth_error w i = Some f -> fnonce f = a + 2 * N.of_nat i.
Proof.
  revert a. induction w as [|g t IH]; intros a C i f E; [destruct i; discriminate|].
  cbn [chained] in C. destruct C as [C1 C2]. destruct i as [|i]; cbn [nth_error] in E.
  - injection E as <-. lia.
  - rewrite (IH _ C2 _ _ E). lia.
Qed.

Lemma chained_ge a w : chained a w -> Forall (fun f => a <= fnonce f /\ (fnonce f) mod 2 = a mod 2) w.
Proof.
  revert a. induction w as [|g t IH]; intros a C; constructor; cbn [chained] in C; destruct C as [C1 C2].
  - split; [lia | now rewrite C1].
  - specialize (IH _ C2). eapply Forall_impl; [|exact IH]. intros f [F1 F2]. split; [lia|].
    rewrite F2. replace (a + 2) with (a + 1 * 2) by lia. apply N.mod_add. discriminate.
Qed.

Lemma chained_nodup a w : chained a w -> NoDup (map fnonce w).
Proof.
  revert a. induction w as [|g t IH]; intros a C; cbn [map]; constructor; cbn [chained] in C; destruct C as [C1 C2].
  - intros Hin. apply in_map_iff in Hin as (f & E & Hin).
    pose proof (chained_ge _ _ C2) as G. rewrite Forall_forall in G. destruct (G _ Hin). lia.
  - eapply IH; exact C2.
Qed.

Lemma nodup_app {A} (l1 l2 : list A) : NoDup l1 -> NoDup l2 -> (forall x, In x l1 -> ~ In x l2) -> NoDup (l1 ++ l2).
Proof.
  induction l1 as [|x t IH]; intros H1 H2 D; cbn [app]; [exact H2|].
  inversion H1 as [|? ? N1 N2]; subst. constructor.
  - intros Hin. apply in_app_or in Hin as [Hin|Hin]; [contradiction | exact (D x (or_introl eq_refl) Hin)].
  - apply IH; auto. intros y Hy. apply D. now right.
Qed.

(* (S6) C10_remote_nonces_distinct *)
Theorem nonces_distinct c x l : lreach c x l ->
  NoDup (map fnonce (lb2d l ++ ld2b l)) /\
  (forall i f, nth_error (lb2d l) i = Some f -> fnonce f = 0 + 2 * N.of_nat i) /\
  (forall i f, nth_error (ld2b l) i = Some f -> fnonce f = 1 + 2 * N.of_nat i) /\
  (exists pre, lb2d l = pre ++ b2d (base l)) /\ (exists pre, ld2b l = pre ++ d2b (base l)) /\
  sn (be (base l)) = nend 0 (lb2d l) /\ sn (de (base l)) = nend 1 (ld2b l).
Proof.
  intros R. destruct (lreach_linv _ _ _ R) as [[C1 N1 W1] [C2 N2 W2]].
  split; [|split; [exact (chained_nth _ _ C1) | split; [exact (chained_nth _ _ C2) | repeat split; auto]]].
  rewrite map_app. apply nodup_app; [eapply chained_nodup; eauto | eapply chained_nodup; eauto|].
  intros n H1 H2. apply in_map_iff in H1 as (f & <- & H1). apply in_map_iff in H2 as (g & E & H2).
  pose proof (chained_ge _ _ C1) as G1. pose proof (chained_ge _ _ C2) as G2. rewrite Forall_forall in G1, G2.
  destruct (G1 _ H1) as [_ P1]. destruct (G2 _ H2) as [_ P2]. rewrite E in P2. rewrite P1 in P2. discriminate P2.
Qed.
