(* Remote session model: under resp_ok the boss's receiving thread never waits for capacity (C09).
   rpot bounds everything that can still arrive in the boss's receive channel; it never grows. *)
From RJ Require Import Base.Prelude Model.RemoteSession Proofs.RemoteSessionBase.

Local Open Scope N_scope.

Definition cw (c : config) (m : msg) : N := match m with MCmd id rs => cmdw c id rs | _ => 0 end.
Definition hs (f : msg -> N) (t : sth) : N := match t with SHold m => f m | _ => 0 end.
Definition hr (f : msg -> N) (t : rth) : N := match t with RHold m => f m | _ => 0 end.
Fixpoint wsum (g : frame -> N) (l : list frame) : N := match l with [] => 0 | f :: t => g f + wsum g t end.
Definition fwt (c : config) (f : frame) : N := if fgood f then w c (fpay f) else 0.
Definition fcw (c : config) (f : frame) : N := cw c (fpay f).
Definition epot_out (f : msg -> N) (e : endpoint) : N := qsum f (q (outc e)) + hs f (snd_t e).
Definition epot_in (f : msg -> N) (e : endpoint) : N := hr f (rcv_t e) + qsum f (q (inc e)).
Definition finw (c : config) (p : dpc) : N := match p with DExit _ => 0 | _ => w c MFinal end.

Definition rpot (c : config) (s : st) : N :=
  epot_in (w c) (be s) + wsum (fwt c) (d2b s) + epot_out (w c) (de s) + qsum (w c) (dpend (dm s)) + finw c (dp (dm s))
  + epot_in (cw c) (de s) + wsum (fcw c) (b2d s) + epot_out (cw c) (be s) + opsrw c (bops (bm s)).

Lemma qsum_app f l1 l2 : qsum f (l1 ++ l2) = qsum f l1 + qsum f l2.
Proof. induction l1 as [|x l IH]; cbn [qsum app]; [lia | rewrite IH; lia]. Qed.
Lemma wsum_app g l1 l2 : wsum g (l1 ++ l2) = wsum g l1 + wsum g l2.
Proof. induction l1 as [|x l IH]; cbn [wsum app]; [lia | rewrite IH; lia]. Qed.

Lemma snd_step_pot c f g e wr br bad e' wr' bad' :
  (forall m, g (wframe e m bad) <= f m) ->
  snd_step c e wr br bad = Some (e', wr', bad') ->
  epot_out f e' + wsum g wr' <= epot_out f e + wsum g wr /\ forall f', epot_in f' e' = epot_in f' e.
Proof.
  unfold snd_step, epot_out, epot_in. intros G H. destruct e as [st rt oc ic s r hs0 hg]. projs.
  destruct st; try discriminate H.
  - destruct oc as [qq rx tx]; projs. destruct qq as [|m t].
    + destruct tx; inv_some H. projs. cbn [hs qsum]. split; [lia | reflexivity].
    + inv_some H. projs. cbn [hs qsum]. split; [lia | reflexivity].
  - destruct br; [inv_some H; projs; cbn [hs]; split; [lia | reflexivity]|].
    destruct (has_space c wr); inv_some H. projs. rewrite wsum_app. cbn [hs wsum]. specialize (G m). split; [lia | reflexivity].
Qed.

Lemma rcv_step_pot c f g e wr eof e' wr' :
  (forall fr, fgood fr = true -> f (fpay fr) <= g fr) ->
  rcv_step c e wr eof = Some (e', wr') ->
  epot_in f e' + wsum g wr' <= epot_in f e + wsum g wr /\ forall f', epot_out f' e' = epot_out f' e.
Proof.
  unfold rcv_step, epot_out, epot_in. intros G H. destruct e as [st rt oc ic s r hs0 hg]. projs.
  destruct rt; try discriminate H.
  - destruct wr as [|fr t].
    + destruct eof; inv_some H. projs. cbn [hr wsum]. split; [lia | reflexivity].
    + destruct (fgood fr && (fnonce fr =? r)) eqn:E; inv_some H; projs; cbn [hr wsum]; (split; [|reflexivity]); [|lia].
      apply andb_true_iff in E as [E _]. specialize (G _ E). lia.
  - destruct (can_send c ic); [|discriminate H]. destruct (rxa ic); [destruct (is_final m)|]; inv_some H; projs;
      rewrite ?qsum_app; cbn [hr qsum]; (split; [lia | reflexivity]).
Qed.

Lemma main_send_pot c e m e' : main_send c e m = Some (Some e') ->
  (forall f, epot_out f e' = epot_out f e + f m) /\ (forall f, epot_in f e' = epot_in f e).
Proof.
  unfold main_send, epot_out, epot_in. intros H. destruct (can_send c (outc e)); [|discriminate H].
  destruct (rxa (outc e)); inv_some H. projs. split; intros f; [rewrite qsum_app; cbn [qsum]; lia | reflexivity].
Qed.

Lemma main_recv_pot e m e' : main_recv e = Some (Some (m, e')) ->
  (forall f, epot_in f e = epot_in f e' + f m) /\ (forall f, epot_out f e' = epot_out f e).
Proof.
  unfold main_recv, epot_out, epot_in. intros H. destruct (q (inc e)) as [|x t] eqn:E; [destruct (txa (inc e)); discriminate H|].
  inv_some H. projs. split; intros f; [cbn [qsum]; lia | reflexivity].
Qed.

Lemma respw_map c id rs : qsum (w c) (map MResp rs) = respw c id rs.
Proof. induction rs as [|r t IH]; cbn [map qsum respw]; [reflexivity | rewrite IH; reflexivity]. Qed.

Lemma boss_step_pot c s s' : boss_step c s = Some s' -> rpot c s' <= rpot c s.
Proof.
  unfold boss_step. intros H. destruct s as [b e d e2 w1 w2 v]. destruct b as [p ops er fi]. projs.
  unfold rpot. projs.
  destruct p; projs.
  - destruct ops as [|[id rs| |] t].
    + inv_some H. projs. lia.
    + destruct (main_send c e (MCmd id rs)) as [[e'|]|] eqn:E; inv_some H; projs; [|lia].
      destruct (main_send_pot _ _ _ _ E) as [A B]. rewrite (A (cw c)), (B (w c)). cbn [opsrw cw]. lia.
    + destruct (main_recv e) as [[[m e']|]|] eqn:E; inv_some H; projs; [|lia].
      destruct (main_recv_pot _ _ _ E) as [A B]. rewrite (A (w c)), (B (cw c)). unfold app_took.
      destruct (is_resp m); projs; cbn [opsrw]; lia.
    + destruct (main_recv e) as [[[m e']|]|] eqn:E; inv_some H; projs; [|lia|cbn [opsrw]; lia].
      destruct (main_recv_pot _ _ _ E) as [A B]. rewrite (A (w c)), (B (cw c)). unfold app_took.
      destruct (is_resp m); projs; cbn [opsrw]; lia.
  - destruct (main_send c e MShut) as [[e'|]|] eqn:E; inv_some H; projs; [|lia].
    destruct (main_send_pot _ _ _ _ E) as [A B]. rewrite (A (cw c)), (B (w c)). cbn [cw]. lia.
  - destruct (main_recv e) as [[[m e']|]|] eqn:E; inv_some H; projs; [|lia].
    destruct (main_recv_pot _ _ _ E) as [A B]. rewrite (A (w c)), (B (cw c)). lia.
  - inv_some H. projs. unfold epot_out, epot_in. projs. lia.
  - destruct (snd_ended (snd_t e)); inv_some H. projs. lia.
  - inv_some H. projs. unfold epot_out, epot_in. projs. lia.
  - destruct (rcv_ended (rcv_t e)); inv_some H. projs. lia.
  - inv_some H. projs. lia.
  - destruct (dalive v); inv_some H. projs. lia.
  - discriminate H.
Qed.

Lemma doer_step_pot c s s' : doer_step c s = Some s' -> rpot c s' <= rpot c s.
Proof.
  unfold doer_step. intros H. destruct s as [b e d e2 w1 w2 v]. destruct d as [p pend pl ex]. projs.
  unfold rpot. projs.
  destruct p; projs.
  - destruct pend as [|r rest].
    + destruct (main_recv e2) as [[[m e']|]|] eqn:E; [| inv_some H; projs; cbn [finw]; lia | discriminate H].
      destruct (main_recv_pot _ _ _ E) as [A B]. rewrite (A (cw c)).
      destruct m; inv_some H; projs; rewrite ?(B (w c)); cbn [finw cw qsum]; try lia.
      destruct (plan_hd pl); [cbn [qsum]; unfold cmdw, zerr; lia | rewrite (respw_map c id); unfold cmdw; lia].
    + destruct (main_send c e2 r) as [[e'|]|] eqn:E; inv_some H; projs; [|cbn [finw qsum]; lia].
      destruct (main_send_pot _ _ _ _ E) as [A B]. rewrite (A (w c)), (B (cw c)). cbn [qsum finw]. lia.
  - inv_some H. projs. unfold epot_out, epot_in. projs. cbn [finw]. lia.
  - destruct (snd_ended (snd_t e2)); inv_some H. projs. cbn [finw]. lia.
  - inv_some H. projs. unfold epot_out, epot_in. projs. cbn [finw]. lia.
  - destruct (rcv_ended (rcv_t e2)); inv_some H. projs. cbn [finw]. lia.
  - destruct (snd_t e2) eqn:Es; try (inv_some H; projs; cbn [finw]; lia).
    destruct (d_broken _); [inv_some H; projs; cbn [finw]; lia|].
    destruct (has_space c w2); inv_some H. projs. rewrite wsum_app. unfold epot_out, epot_in. projs. rewrite Es.
    cbn [finw wsum hs]. unfold fwt, wframe. projs. destruct (bad_d2b v); cbn [negb]; lia.
  - inv_some H. projs. lia.
Qed.

Lemma fcw_wframe c e m bad : fcw c (wframe e m bad) <= cw c m.
Proof. unfold fcw, wframe. projs. destruct bad; cbn [cw]; lia. Qed.
Lemma fwt_wframe c e m bad : fwt c (wframe e m bad) <= w c m.
Proof. unfold fwt, wframe. projs. destruct bad; cbn [negb]; lia. Qed.
Lemma fwt_good c fr : fgood fr = true -> w c (fpay fr) <= fwt c fr.
Proof. intros G. unfold fwt. rewrite G. lia. Qed.
Lemma fcw_good c fr : fgood fr = true -> cw c (fpay fr) <= fcw c fr.
Proof. intros _. unfold fcw. lia. Qed.

Theorem pot_step c a s s' : next c a s = Some s' -> rpot c s' <= rpot c s.
Proof.
  unfold next. intros H. destruct (final s); [discriminate H|].
  destruct a.
  - now apply boss_step_pot.
  - destruct (at_end s); [discriminate H|].
    destruct (snd_step c (be s) (b2d s) (b_broken s) (bad_b2d (ev s))) as [[[e' wr] bad']|] eqn:E; inv_some H.
    destruct (snd_step_pot c (cw c) (fcw c) _ _ _ _ _ _ _ (fun m => fcw_wframe c _ m _) E) as [A B].
    unfold rpot. projs. rewrite (B (w c)). lia.
  - destruct (at_end s); [discriminate H|].
    destruct (rcv_step c (be s) (d2b s) (b_broken s)) as [[e' wr]|] eqn:E; inv_some H.
    destruct (rcv_step_pot c (w c) (fwt c) _ _ _ _ _ (fwt_good c) E) as [A B].
    unfold rpot. projs. rewrite (B (cw c)). lia.
  - destruct (dalive (ev s)); [|discriminate H]. now apply doer_step_pot.
  - destruct (dalive (ev s)); [|discriminate H].
    destruct (snd_step c (de s) (d2b s) (d_broken s) (bad_d2b (ev s))) as [[[e' wr] bad']|] eqn:E; inv_some H.
    destruct (snd_step_pot c (w c) (fwt c) _ _ _ _ _ _ _ (fun m => fwt_wframe c _ m _) E) as [A B].
    unfold rpot. projs. rewrite (B (cw c)). lia.
  - destruct (dalive (ev s)); [|discriminate H].
    destruct (rcv_step c (de s) (b2d s) (d_broken s)) as [[e' wr]|] eqn:E; inv_some H.
    destruct (rcv_step_pot c (cw c) (fcw c) _ _ _ _ _ (fcw_good c) E) as [A B].
    unfold rpot. projs. rewrite (B (w c)). lia.
  - destruct (dalive (ev s) && negb (stdin_open (ev s))); inv_some H. unfold rpot. projs. lia.
  - destruct (f_cut (ev s) && negb (cut (ev s))); inv_some H. unfold rpot. projs. lia.
  - destruct (f_kill (ev s) && dalive (ev s)); inv_some H. unfold rpot. projs. lia.
  - destruct (f_stdin (ev s) && stdin_open (ev s)); inv_some H. unfold rpot. projs. lia.
  - destruct (f_bad (ev s)); [discriminate H|].
    destruct (if d2b_dir then bad_d2b (ev s) else bad_b2d (ev s)); inv_some H. unfold rpot. projs. lia.
Qed.

Lemma reach_pot c x s : reach c x s -> rpot c s <= opsrw c (sc_ops x) + w c MFinal.
Proof.
  induction 1 as [|s s' _ IH [a Ha]].
  - unfold rpot, init, epot_in, epot_out. projs. cbn [ch0 q qsum hr hs wsum finw]. lia.
  - pose proof (pot_step _ _ _ _ Ha). lia.
Qed.

(* under resp_ok the boss's receiving thread never waits for capacity: whatever it holds can be pushed *)
Theorem receiver_never_waits c x s : resp_ok c x -> reach c x s -> can_send c (inc (be s)) = true.
Proof.
  unfold resp_ok, can_send. intros O R. pose proof (reach_pot _ _ _ R) as P. unfold rpot, epot_in in P.
  apply orb_true_iff. left. apply N.leb_le. lia.
Qed.
