(* Remote session model: more structural invariants of every reachable state (whatever the faults), used by the
   link-up half of the no-stuck analysis. *)
From RJ Require Import Base.Prelude Model.RemoteSession Proofs.RemoteSessionBase Proofs.RemoteSessionFlow
  Proofs.RemoteSessionNonce Proofs.RemoteSessionAInv Proofs.RemoteSessionComplete Proofs.RemoteSessionLinkDown.

Local Open Scope nat_scope.

Definition d_past_loop (p : dpc) : bool := match p with DDropS | DJoinS | DDropR | DJoinR | DFinal => true | _ => false end.
Definition is_d2b (m : msg) : bool := match m with MResp _ | MErr _ | MFinal => true | _ => false end.

Record SInv (s : st) : Prop := {
  s_past : d_past_loop (dp (dm s)) = true -> rcv_ended (rcv_t (de s)) = true;
  s_rxd : rcv_ended (rcv_t (de s)) = false -> rxa (inc (de s)) = true;
  s_shut : In MShut (hgot (de s) ++ q (inc (de s))) -> rcv_t (de s) = ROk;
  s_rxb : rxa (inc (be s)) = false -> post_dropr (pc (bm s)) = true;
  s_sok : snd_t (be s) = SOk -> post_drops (pc (bm s)) = true;
  s_txb : txa (outc (be s)) = false -> post_drops (pc (bm s)) = true;
  s_sb : rxa (outc (be s)) = false -> snd_ended (snd_t (be s)) = true;
  s_sent : pre_shut (pc (bm s)) = false -> In MShut (hsent (be s)) \/ snd_t (be s) = SErr;
  s_bsock : post_joinr (pc (bm s)) = true -> bsock (ev s) = false;
  s_dmsg : Forall (fun m => is_d2b m = true) (hsent (de s)) }.

Lemma sinv_init x : SInv (init x).
Proof.
  constructor; unfold init; simp; cbn [ch0 q d_past_loop app In]; auto; try discriminate; try tauto.
Qed.

Ltac ssimp := simp; cbn [d_past_loop is_d2b] in *.
Ltac sdone := ssimp; spec_refl; try assumption; try discriminate; try congruence; try tauto; auto;
  try (intros; exfalso; congruence); try (intros; fwd; congruence); try (intros; fwd; tauto).

Lemma boss_step_sinv c s s' : boss_step c s = Some s' -> FInv s -> AInv s -> SInv s -> SInv s'.
Proof.
  unfold boss_step, main_send, main_recv, app_took.
  intros H [_ _ [S1 S2] _] A [X1 X2 X3 X4 X5 X6 X7 X8 X9 X10].
  destruct s as [b e d e2 w1 w2 v]. destruct b as [p ops er fi]. ssimp.
  destruct p; ssimp.
  - destruct ops as [|[id rs| |] t].
    + (ssimp; inv_some H). constructor; sdone.
    + destruct (can_send c (outc e)) eqn:?; [|discriminate H]. destruct (rxa (outc e)) eqn:?; (ssimp; inv_some H); constructor; sdone.
    + destruct (q (inc e)) as [|m t'] eqn:Q; [destruct (txa (inc e)) eqn:?; (ssimp; inv_some H); constructor; sdone|].
      (ssimp; inv_some H). destruct (is_resp m); constructor; sdone.
    + destruct (q (inc e)) as [|m t'] eqn:Q; [destruct (txa (inc e)) eqn:?; (ssimp; inv_some H); constructor; sdone|].
      (ssimp; inv_some H). destruct (is_resp m); constructor; sdone.
  - destruct (can_send c (outc e)) eqn:?; [|discriminate H]. destruct (rxa (outc e)) eqn:Rx; (ssimp; inv_some H); constructor; sdone.
    + intros _. left. apply in_or_app. right. left. reflexivity.
    + intros _. right. destruct (snd_t e) eqn:St; sdone.
  - destruct (q (inc e)) as [|m t'] eqn:Q; [destruct (txa (inc e)) eqn:?; (ssimp; inv_some H); constructor; sdone|].
    (ssimp; inv_some H). constructor; sdone.
  - (ssimp; inv_some H). constructor; sdone.
  - destruct (snd_ended (snd_t e)) eqn:?; (ssimp; inv_some H). constructor; sdone.
  - (ssimp; inv_some H). constructor; sdone.
  - destruct (rcv_ended (rcv_t e)) eqn:?; (ssimp; inv_some H). constructor; sdone.
  - (ssimp; inv_some H). constructor; sdone.
  - destruct (dalive v) eqn:?; (ssimp; inv_some H). constructor; sdone.
  - discriminate H.
Qed.

Lemma snd_step_alive c e w br bad r : snd_step c e w br bad = Some r -> snd_ended (snd_t e) = false.
Proof. unfold snd_step. destruct (snd_t e); try discriminate; reflexivity. Qed.
Lemma rcv_step_alive c e w eof r : rcv_step c e w eof = Some r -> rcv_ended (rcv_t e) = false.
Proof. unfold rcv_step. destruct (rcv_t e); try discriminate; reflexivity. Qed.

Lemma snd_step_sok c e w br bad e' w' bad' :
  snd_step c e w br bad = Some (e', w', bad') -> snd_t e' = SOk -> txa (outc e) = false.
Proof.
  unfold snd_step. intros H R. destruct e as [st rt oc ic s r hs0 hg]. simp.
  destruct st; try discriminate H.
  - destruct (q oc); [destruct (txa oc) eqn:T|]; inv_some H; simp; try discriminate R. reflexivity.
  - destruct br; [inv_some H; simp; discriminate R|]. destruct (has_space c w); inv_some H. simp. discriminate R.
Qed.

Lemma rcv_step_push c e w eof e' w' :
  rcv_step c e w eof = Some (e', w') ->
  q (inc e') = q (inc e) \/
  (exists m, rcv_t e = RHold m /\ q (inc e') = q (inc e) ++ [m] /\ rcv_t e' = if is_final m then ROk else RIdle).
Proof.
  unfold rcv_step. intros H. destruct e as [st rt oc ic s r hs0 hg]. simp.
  destruct rt; try discriminate H.
  - destruct w as [|f t]; [destruct eof | destruct (fgood f && (fnonce f =? r)%N)]; inv_some H; simp; auto.
  - destruct (can_send c ic); [|discriminate H]. destruct (rxa ic).
    + right. exists m. destruct (is_final m) eqn:F; inv_some H; simp; auto.
    + inv_some H. simp. auto.
Qed.

Lemma doer_step_sinv c s s' : doer_step c s = Some s' -> AInv s -> SInv s -> SInv s'.
Proof.
  unfold doer_step, main_send, main_recv.
  intros H A [X1 X2 X3 X4 X5 X6 X7 X8 X9 X10].
  pose proof (a_rd _ A) as ARD. pose proof (a_pend _ A) as APE.
  destruct s as [b e d e2 w1 w2 v]. destruct d as [p pend pl ex]. ssimp.
  destruct p; ssimp.
  - destruct pend as [|r rest].
    + destruct (q (inc e2)) as [|m t'] eqn:Q; [destruct (txa (inc e2)) eqn:?; (ssimp; inv_some H); constructor; sdone; try (rewrite Q; assumption)|].
      assert (Y : In MShut (hgot e2 ++ m :: t') -> In MShut ((hgot e2 ++ [m]) ++ t')) by (now rewrite <- app_assoc).
      assert (Y' : In MShut ((hgot e2 ++ [m]) ++ t') -> In MShut (hgot e2 ++ m :: t')) by (now rewrite <- app_assoc).
      destruct m; (ssimp; inv_some H); constructor; sdone.
      all: try (intros _; rewrite X3; [reflexivity | apply in_or_app; right; left; reflexivity]).
    + destruct (can_send c (outc e2)) eqn:?; [|discriminate H].
      destruct (rxa (outc e2)) eqn:?; (ssimp; inv_some H); constructor; sdone.
      apply Forall_app. split; [assumption|]. constructor; [|constructor]. inversion APE; subst. destruct r; try discriminate; reflexivity.
  - (ssimp; inv_some H). constructor; sdone.
  - destruct (snd_ended (snd_t e2)) eqn:?; (ssimp; inv_some H). constructor; sdone.
  - (ssimp; inv_some H). constructor; sdone.
  - destruct (rcv_ended (rcv_t e2)) eqn:?; (ssimp; inv_some H). constructor; sdone.
  - destruct (snd_t e2) eqn:Es; try ((ssimp; inv_some H); constructor; sdone; fail).
    unfold d_broken in H. ssimp. destruct (cut v || negb (bsock v)); [(ssimp; inv_some H); constructor; sdone|].
    destruct (has_space c w2); (ssimp; inv_some H). constructor; sdone.
    apply Forall_app. split; [assumption|]. constructor; [reflexivity | constructor].
  - (ssimp; inv_some H). constructor; sdone.
Qed.

Theorem sinv_step c a s s' : next c a s = Some s' -> FInv s -> AInv s -> SInv s -> SInv s'.
Proof.
  unfold next. intros H FI A I. destruct (final s); [discriminate H|].
  destruct a.
  - eapply boss_step_sinv; eauto.
  - destruct (at_end s); [discriminate H|].
    destruct (snd_step c (be s) (b2d s) (b_broken s) (bad_b2d (ev s))) as [[[e' wr] bad']|] eqn:E; inv_some H.
    destruct (snd_step_frame _ _ _ _ _ _ _ _ E) as (A1 & A2 & A3 & A4 & _).
    destruct (snd_step_flags _ _ _ _ _ _ _ _ E) as (B1 & B2 & B3).
    pose proof (snd_step_alive _ _ _ _ _ _ E) as AL. pose proof (snd_step_sok _ _ _ _ _ _ _ _ E) as SK.
    destruct I as [X1 X2 X3 X4 X5 X6 X7 X8 X9 X10]. constructor; ssimp; rewrite ?A1, ?A2, ?A3, ?A4, ?B1; auto.
    all: try (intros Z; apply X6; now apply SK).
    all: try (intros Z; destruct (X8 Z) as [Y|Y]; [now left | rewrite Y in AL; discriminate AL]).
    all: try (apply B2; assumption).
  - destruct (at_end s); [discriminate H|].
    destruct (rcv_step c (be s) (d2b s) (b_broken s)) as [[e' wr]|] eqn:E; inv_some H.
    destruct (rcv_step_frame _ _ _ _ _ _ E) as (A1 & A2 & A3 & A4 & _).
    destruct (rcv_step_flags _ _ _ _ _ _ E) as (B1 & B2 & B3).
    destruct I. constructor; ssimp; rewrite ?A1, ?A2, ?A3, ?A4, ?B1; auto.
  - destruct (dalive (ev s)); [|discriminate H]. eapply doer_step_sinv; eauto.
  - destruct (dalive (ev s)); [|discriminate H].
    destruct (snd_step c (de s) (d2b s) (d_broken s) (bad_d2b (ev s))) as [[[e' wr] bad']|] eqn:E; inv_some H.
    destruct (snd_step_frame _ _ _ _ _ _ _ _ E) as (A1 & A2 & A3 & A4 & _).
    destruct I. constructor; ssimp; rewrite ?A1, ?A2, ?A3, ?A4; auto.
  - destruct (dalive (ev s)); [|discriminate H].
    destruct (rcv_step c (de s) (b2d s) (d_broken s)) as [[e' wr]|] eqn:E; inv_some H.
    destruct (rcv_step_frame _ _ _ _ _ _ E) as (A1 & A2 & A3 & A4 & _).
    destruct (rcv_step_flags _ _ _ _ _ _ E) as (B1 & B2 & B3).
    pose proof (rcv_step_alive _ _ _ _ _ E) as AL.
    destruct I as [X1 X2 X3 X4 X5 X6 X7 X8 X9 X10]. constructor; ssimp; rewrite ?A1, ?A2, ?A3, ?A4, ?B1; auto.
    all: try (intros Z; specialize (X1 Z); congruence).
    all: try (intros Z; apply X2; destruct (rcv_ended (rcv_t (de s))); [discriminate AL | reflexivity]).
    intros Z. destruct (rcv_step_push _ _ _ _ _ _ E) as [Y|(m & Y1 & Y2 & Y3)].
    + rewrite Y in Z. specialize (X3 Z). rewrite X3 in AL. discriminate AL.
    + rewrite Y2, app_assoc in Z. apply in_app_or in Z as [Z|[Z|[]]].
      * specialize (X3 Z). rewrite X3 in AL. discriminate AL.
      * subst m. rewrite Y3. reflexivity.
  - destruct (dalive (ev s) && negb (stdin_open (ev s))); inv_some H. destruct I. constructor; ssimp; auto.
  - destruct (f_cut (ev s) && negb (cut (ev s))); inv_some H. destruct I. constructor; ssimp; auto.
  - destruct (f_kill (ev s) && dalive (ev s)); inv_some H. destruct I. constructor; ssimp; auto.
  - destruct (f_stdin (ev s) && stdin_open (ev s)); inv_some H. destruct I. constructor; ssimp; auto.
  - destruct (f_bad (ev s)); [discriminate H|].
    destruct (if d2b_dir then bad_d2b (ev s) else bad_b2d (ev s)); inv_some H. destruct I. constructor; ssimp; auto.
Qed.

Lemma reach_sinv c x s : reach c x s -> SInv s.
Proof.
  induction 1 as [|s s' R IH [a Ha]]; [apply sinv_init | eapply sinv_step; eauto using reach_finv, reach_ainv].
Qed.
