(* Remote session model: closed witnesses (vm_compute): premises are needed, statements that are false of the
   faithful model, non-trivial states for the Examples of Props/C09.v and Props/C14.v. *)
From RJ Require Import Base.Prelude Model.RemoteSession Proofs.RemoteSessionBase Proofs.RemoteSessionFlow.

Local Open Scope N_scope.

Definition w1 (m : msg) : N :=
  match m with MCmd _ _ => 500 | MShut => 4 | MResp _ => 40 | MErr _ => 100 | MFinal => 12 | MGarb => 0 end.
Definition cfg (cp : N) (k : nat) : config := mkCfg cp k w1.
Arguments cfg cp k%nat.
Definition eager_boss : list action := [ABoss; ABSnd; ABRcv; ADoer; ADSnd; ADRcv; AWatch].
Definition eager_doer : list action := [ADoer; ADSnd; ADRcv; ABRcv; ABSnd; ABoss; AWatch].

(* a small complete protocol: two commands with answers, one without, a poll, the blocking waits *)
Definition sc_small : scenario :=
  mkSc [OSend 1 [11; 12]; ORecv; OSend 2 []; OTry; ORecv; OSend 3 [31]; ORecv] [] false false false 0%nat.

(* fault-free run, capacity 0, socket of one frame: everything arrives, the doer executed the three commands *)
Example clean_run :
  let s := run_to_end (cfg 0 0) eager_boss (init sc_small) in
  final s = true /\ bexit (bm s) = 0 /\ dstat (ev s) = Some 0 /\ dexec (dm s) = [1; 2; 3] /\
  hgot (de s) = hsent (be s) /\ hgot (be s) = hsent (de s) /\
  hsent (be s) = [MCmd 1 [11; 12]; MCmd 2 []; MCmd 3 [31]; MShut] /\
  hsent (de s) = [MResp 11; MResp 12; MResp 31; MFinal] /\ bfin (bm s) = true.
Proof. vm_compute. repeat split. Qed.

(* the race at the very end of a clean run: the boss closes the doer's stdin before the doer process has returned
   from main - the watchdog thread ends the process with status 65 instead of 0 *)
Example clean_run_status_65 :
  let s := run_to_end (cfg 1000 3) [ABoss; ABSnd; ABRcv; ADSnd; ADRcv; AWatch; ADoer] (init sc_small) in
  final s = true /\ bexit (bm s) = 0 /\ dstat (ev s) = Some 65 /\ nfault (ev s) = 0%nat /\ bfin (bm s) = true /\
  dexec (dm s) = [1; 2; 3].
Proof. vm_compute. repeat split. Qed.

(* resp_ok is needed: the boss sends without reading, the answers exceed the capacity, every buffer fills up *)
Definition sc_flood : scenario :=
  mkSc [OSend 1 [11; 12; 13]; OSend 2 [21; 22; 23]; OSend 3 [31; 32; 33]; OSend 4 [41; 42; 43]; OSend 5 [51]; OSend 6 [61]; OSend 7 [71];
        OSend 8 [81]; OSend 9 [91]; OSend 10 [101]; OSend 11 [111]; OSend 12 [121]; ORecv] [] false false false 0%nat.
Example needs_resp_ok :
  let c := cfg 30 0 in
  let s := run_to_end c eager_doer (init sc_flood) in
  covered 0%nat (sc_ops sc_flood) = true /\ ~ resp_ok c sc_flood /\ reach c sc_flood s /\ stuck c s = true.
Proof.
  cbv zeta. split; [vm_compute; reflexivity|]. split; [unfold resp_ok; vm_compute; intros H; apply H; reflexivity|].
  split; [apply run_prio_reach; constructor | vm_compute; reflexivity].
Qed.

(* covered is needed: a boss that waits for an answer no command produces waits for ever (so does the real one) *)
Definition sc_orphan : scenario := mkSc [OSend 1 []; ORecv] [] false false false 0%nat.
Example needs_covered :
  let c := cfg 1000 0 in
  let s := run_to_end c eager_boss (init sc_orphan) in
  resp_ok c sc_orphan /\ covered 0%nat (sc_ops sc_orphan) = false /\ reach c sc_orphan s /\ stuck c s = true.
Proof.
  cbv zeta. split; [unfold resp_ok; vm_compute; discriminate|]. split; [reflexivity|].
  split; [apply run_prio_reach; constructor | vm_compute; reflexivity].
Qed.

(* "a fault before the boss has the final message => the boss reports an error" is FALSE of the faithful model:
   the connection is cut after the last response was written; the response still arrives, the application protocol
   is complete, Comms::shutdown only logs "Unexpected response as final message" and the exit status is 0.
   (Same on the real binary: tools/remote_session_lib.py, cut of the last frames doer->boss, exit status 0 -
   the sync is complete and correctly reported.) *)
Definition sc_latecut : scenario := mkSc [OSend 1 [11]; ORecv] [] true false false 0%nat.
Theorem exit_refuted : exists c x s,
  reach c x s /\ final s = true /\ (0 < nfault (ev s))%nat /\ bfin (bm s) = false /\ bexit (bm s) = 0 /\
  dstat (ev s) = Some 0 /\ dexec (dm s) = [1].
Proof.
  exists (cfg 1000 3), sc_latecut, (run_plan_to_end (cfg 1000 3) eager_boss [(TFrames true 1, FCut)] (init sc_latecut)).
  split; [apply run_plan_sound | vm_compute; repeat split; lia].
Qed.

(* faults that the application notices: exit status 12; doer statuses 20, 65, 137 *)
Example cut_mid_run :
  let s := run_plan_to_end (cfg 1000 0) eager_doer [(TFrames false 2, FCut)] (init (mkSc (sc_ops sc_small) [] true false false 0%nat)) in
  final s = true /\ bexit (bm s) = 12 /\ (0 < nfault (ev s))%nat.
Proof. vm_compute. repeat split; lia. Qed.

Example doer_status_20 :
  let s := run_plan_to_end (cfg 0 0) [ADoer; ADSnd; ADRcv; AWatch; ABSnd; ABRcv; ABoss] [(TExec 1%nat, FCut)]
             (init (mkSc [OSend 1 [11; 12; 13]; ORecv; ORecv; ORecv] [] true false false 0%nat)) in
  final s = true /\ bexit (bm s) = 12 /\ dstat (ev s) = Some 20.
Proof. vm_compute. repeat split. Qed.

Example doer_killed :
  let s := run_plan_to_end (cfg 1000 0) eager_boss [(TExec 2%nat, FKill)] (init (mkSc (sc_ops sc_small) [] false true false 0%nat)) in
  final s = true /\ bexit (bm s) = 12 /\ dstat (ev s) = Some 137 /\ dexec (dm s) = [1; 2].
Proof. vm_compute. repeat split. Qed.

Example stdin_closed_early :
  let s := run_plan_to_end (cfg 1000 0) [AWatch; ABoss; ABSnd; ABRcv; ADoer; ADSnd; ADRcv] [(TExec 1%nat, FStdin)]
             (init (mkSc (sc_ops sc_small) [] false false true 0%nat)) in
  final s = true /\ bexit (bm s) = 12 /\ dstat (ev s) = Some 65.
Proof. vm_compute. repeat split. Qed.

(* a bad frame ends the stream at that point: nothing after it is delivered *)
Example bad_frame_ends_stream :
  let s := run_plan_to_end (cfg 1000 3) eager_boss [(TFrames false 1, FBad false)] (init (mkSc (sc_ops sc_small) [] false false false 1%nat)) in
  final s = true /\ bexit (bm s) = 12 /\ hgot (de s) = [MCmd 1 [11; 12]] /\ dexec (dm s) = [1].
Proof. vm_compute. repeat split. Qed.

(* an Error answer makes the sync fail *)
Example error_reply :
  let s := run_to_end (cfg 1000 3) eager_boss (init (mkSc (sc_ops sc_small) [false; true] false false false 0%nat)) in
  final s = true /\ bexit (bm s) = 12 /\ dstat (ev s) = Some 0 /\ nfault (ev s) = 0%nat.
Proof. vm_compute. repeat split. Qed.
