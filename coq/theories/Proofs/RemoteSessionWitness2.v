(* Remote session model: closed witnesses for the nonce log (C10) and the completeness statement (C14). *)
From RJ Require Import Base.Prelude Model.RemoteSession Model.RemoteSessionLog Proofs.RemoteSessionBase
  Proofs.RemoteSessionNonce Proofs.RemoteSessionWitness.

Local Open Scope N_scope.

Lemma run_sched_l_reach c x sch : forall l, lreach c x l -> lreach c x (run_sched_l c l sch).
Proof.
  induction sch as [|a r IH]; intros l Hl; cbn [run_sched_l]; [exact Hl|].
  destruct (lnext c a l) as [l'|] eqn:E; [|now apply IH].
  apply IH. eapply lreach_step; [exact Hl | exists a; exact E].
Qed.

(* a protocol that reads all its answers, run round-robin at capacity 0 over a one-frame socket: the log of a
   complete session - four frames each way, the doer's last one is the final message written by its MAIN thread
   under the counter its sending thread returned (7 = 1 + 2*3) *)
Definition sc_cov : scenario :=
  mkSc [OSend 1 [11; 12]; ORecv; ORecv; OSend 2 []; OTry; OSend 3 [31]; ORecv] [] false false false 0%nat.
Definition round_robin : list action := concat (repeat [ABoss; ABSnd; ABRcv; ADoer; ADSnd; ADRcv; AWatch] 60).
Definition l_cov : lst := run_sched_l (cfg 0 0) (linit sc_cov) round_robin.

Example log_of_a_complete_session :
  lreach (cfg 0 0) sc_cov l_cov /\ final (base l_cov) = true /\
  map fnonce (lb2d l_cov) = [0; 2; 4; 6] /\ map fnonce (ld2b l_cov) = [1; 3; 5; 7] /\
  map fpay (ld2b l_cov) = [MResp 11; MResp 12; MResp 31; MFinal] /\
  map fpay (lb2d l_cov) = [MCmd 1 [11; 12]; MCmd 2 []; MCmd 3 [31]; MShut] /\
  bfin (bm (base l_cov)) = true /\ In MShut (hgot (de (base l_cov))) /\ nfault (ev (base l_cov)) = 0%nat /\
  covered 0 (sc_ops sc_cov) = true.
Proof.
  split; [apply run_sched_l_reach; constructor|]. vm_compute. repeat split; auto.
Qed.

(* the completeness statement WITHOUT "the boss took the final message as its final message" is false of the model:
   a boss that never reads its answers takes the first answer for the final message, drops its receiver, closes the
   doer's stdin, and the doer's watchdog ends the process (65) before the doer has seen the Shutdown - no fault step,
   boss exit status 0, the Shutdown and the second answer are never delivered.  (The real boss's protocols read
   every answer before the shutdown unless the sync has already failed; not a reproduction on the binary.) *)
Definition sc_noread : scenario := mkSc [OSend 1 [11; 12]] [] false false false 0%nat.
Theorem complete_needs_final : exists c x s,
  reach c x s /\ final s = true /\ nfault (ev s) = 0%nat /\ Forall (fun b => b = false) (sc_eplan x) /\
  bexit (bm s) = 0 /\ bfin (bm s) = false /\ dstat (ev s) = Some 65 /\
  hsent (be s) = [MCmd 1 [11; 12]; MShut] /\ hgot (de s) = [MCmd 1 [11; 12]] /\
  hsent (de s) = [MResp 11; MResp 12] /\ hgot (be s) = [MResp 11].
Proof.
  exists (cfg 1000 3), sc_noread,
    (run_to_end (cfg 1000 3) [ABoss; ABRcv; ABSnd; ADSnd; AWatch; ADoer; ADRcv] (init sc_noread)).
  split; [apply run_sound|]. vm_compute. repeat split; auto.
Qed.

(* a reachable, non-final state with the connection cut (the boss has queued its first command) *)
Definition sc_cut : scenario := mkSc (sc_ops sc_cov) [] true false false 0%nat.
Definition s_cut : st := run_sched (cfg 1000 0) (init sc_cut) [ABoss; ABSnd; FCut].
Example cut_state : reach (cfg 1000 0) sc_cut s_cut /\ cut (ev s_cut) = true /\ final s_cut = false /\
  dalive (ev s_cut) = true /\ stdin_open (ev s_cut) = true.
Proof. split; [apply run_sched_reach; constructor | vm_compute; repeat split]. Qed.

(* a fault-free reachable state in which the boss waits for the final message *)
Definition sc_empty : scenario := mkSc [] [] false false false 0%nat.
Definition s_wait : st := run_sched (cfg 1000 0) (init sc_empty) [ABoss; ABoss].
Example wait_state : reach (cfg 1000 0) sc_empty s_wait /\ pc (bm s_wait) = BFinal /\ nfault (ev s_wait) = 0%nat /\
  final s_wait = false.
Proof. split; [apply run_sched_reach; constructor | vm_compute; repeat split]. Qed.

Example resp_ok_cov : resp_ok (cfg 1000 0) sc_cov /\ covered 0 (sc_ops sc_cov) = true.
Proof. split; [unfold resp_ok; apply N.leb_le; vm_compute; reflexivity | reflexivity]. Qed.
