(* C08 for the executable instance, with every listing hypothesis discharged: whatever state an interrupted
   or failed run leaves behind is a well-formed tree satisfying Good, so the executable sync run again
   from it (sorted listings of the real trees, real chunk ladder) mirrors the source whenever it returns Ok. *)
From RJ Require Import Base.Prelude Base.OrderedPlan Model.Settings Model.Core Model.Fs Model.Paths Model.Sync Model.SyncTop
  Spec.PlanSpec Spec.Mirror Proofs.FsProofs Proofs.ExecProofs Proofs.MirrorProofs Proofs.PathsProofs Proofs.InstanceProofs
  Proofs.IdemProofs Proofs.IdemMain Proofs.ConfinedMain Proofs.CrashProofs Proofs.CrashMain Proofs.WfProofs.

Theorem kill_states_well_formed cfg S D a fw ans bits ls ld ft :
  unique_keys D -> wf_fs D ->
  (forall s, In s (sync_kill_states now_far normalize_unix chunk_real cfg S (world D a fw) ans bits ls ld ft) ->
     wf_fs (d_fs s) /\ unique_keys (d_fs s)) /\
  (wf_fs (d_fs (r_dest (run_orders_w cfg S D a fw ans bits ls ld ft))) /\
   unique_keys (d_fs (r_dest (run_orders_w cfg S D a fw ans bits ls ld ft)))).
Proof.
  intros Hu Hw. unfold sync_kill_states, run_orders_w. rewrite (sync_one_runs_plan now_far normalize_unix chunk_real).
  apply (steps_wfu (cf_fl cfg) ft). rewrite (sync_plan_start now_far normalize_unix chunk_real). split; assumption.
Qed.

Theorem rerun_repairs_executable cfg S D a fw ans bits ls ld ft s :
  unique_keys D -> wf_fs D ->
  (In s (sync_kill_states now_far normalize_unix chunk_real cfg S (world D a fw) ans bits ls ld ft) \/
   s = r_dest (run_orders_w cfg S D a fw ans bits ls ld ft)) ->
  no_through (d_events s) ->
  forall cfg2 ans2 bits2 ex ft2,
  unique_keys S -> wf_fs S -> src_times_set S -> links_utf8 S ->
  let r2 := run_top cfg2 S (d_fs s) (d_anc s) ans2 bits2 ex ft2 in
  r_ok r2 = true -> r_skipped r2 = [] -> r_root_skipped r2 = false -> cf_dry cfg2 = false -> cf_fl cfg2 = Unix ->
  mirror now_far (excl_incl ex) normalize_unix (cf_diff cfg2) Unix S (d_fs s) (d_fs (r_dest r2)) /\
  forall p t b, takes_part (excl_incl ex) S p -> fget S p = Some (NFile (TSet t) b) -> (t < 4000000000000000000)%Z ->
    fget (d_fs (r_dest r2)) p = Some (NFile (TSet t) b) \/
    exists b0, fget D p = Some (NFile (TSet t) b0) /\ fget (d_fs (r_dest r2)) p = Some (NFile (TSet t) b0).
Proof.
  intros HuD HwD Hs Hnt cfg2 ans2 bits2 ex ft2 HuS HwS Hts Hlk r2 Hok Hsk Hrs Hdry Hfl.
  destruct (kill_states_well_formed cfg S D a fw ans bits ls ld ft HuD HwD) as [K1 K2].
  destruct (crash_safe now_far normalize_unix chunk_real chunk_real_ok cfg S (world D a fw) ans bits ls ld ft eq_refl) as [G1 G2].
  assert (Hwf : wf_fs (d_fs s) /\ unique_keys (d_fs s)) by (destruct Hs as [Hs| ->]; [apply K1; exact Hs|exact K2]).
  assert (HG : Good S D s) by (destruct Hs as [Hs| ->]; [apply G1; assumption|apply G2; exact Hnt]).
  destruct Hwf as [Hw Hu].
  assert (Hm : mirror now_far (excl_incl ex) normalize_unix (cf_diff cfg2) Unix S (d_fs s) (d_fs (r_dest r2)))
    by (apply run_top_mirror_unconditional; auto).
  split; [exact Hm|]. intros p t b Htp HS Hlt.
  apply (mirror_files_repaired now_far (excl_incl ex) normalize_unix Unix (cf_diff cfg2) S D s (d_fs (r_dest r2)) HG Hm p t b Htp HS).
  intros k. unfold now_far. lia.
Qed.

(* C04 for the executable instance, closed: run the executable sync, then run it again on what it left -
   nothing assumed about the second listing (the tree it left is well-formed, so its sorted listing is valid). *)
Theorem run_top_twice cfg S D a ans bits ex ft ans2 bits2 ft2 :
  unique_keys S -> wf_fs S -> unique_keys D -> wf_fs D -> src_times_set S -> links_utf8 S ->
  let r := run_top cfg S D a ans bits ex ft in
  r_ok r = true -> r_skipped r = [] -> r_root_skipped r = false -> cf_dry cfg = false -> cf_fl cfg = Unix ->
  b_same (cf_b cfg) = BSkip ->
  let r2 := run_top cfg S (d_fs (r_dest r)) (d_anc (r_dest r)) ans2 bits2 ex ft2 in
  r_ok r2 = true /\ d_fs (r_dest r2) = d_fs (r_dest r) /\ filter mutating (r_dest_trace r2) = [] /\
  (forall p, ~ In (CGetFileContent p) (r_src_trace r2)) /\ r_prompts r2 = [] /\ stats_nothing (r_stats r2) = true.
Proof.
  intros HuS HwS HuD HwD Hts Hlk. cbv zeta. intros Hok Hsk Hrs Hdry Hfl Hsame.
  pose proof (run_top_confined cfg S D a ans bits ex ft HuS HwS HuD HwD Hok Hsk Hrs Hdry) as Hnt.
  destruct (kill_states_well_formed cfg S D a [] ans bits
              (list_fs now_far (excl_incl ex) normalize_unix S) (list_fs now_far (excl_incl ex) normalize_unix D) ft HuD HwD) as [_ [Hw' Hu']].
  change (run_orders_w cfg S D a [] ans bits (list_fs now_far (excl_incl ex) normalize_unix S)
            (list_fs now_far (excl_incl ex) normalize_unix D) ft) with (run_top cfg S D a ans bits ex ft) in Hw', Hu'.
  set (r := run_top cfg S D a ans bits ex ft) in *.
  destruct (sync_twice_from now_far (excl_incl ex) normalize_unix chunk_real chunk_real_ok Unix
              cfg S (world D a []) ans bits _ _ ft (world (d_fs (r_dest r)) (d_anc (r_dest r)) []) ans2 bits2
              (list_fs now_far (excl_incl ex) normalize_unix (d_fs (r_dest r))) ft2
              (list_fs_valid now_far (excl_incl ex) normalize_unix S HuS HwS)
              (list_fs_valid now_far (excl_incl ex) normalize_unix D HuD HwD)
              HwS HwD Hts (links_utf8_roundtrip S Hlk) eq_refl Hok Hsk Hrs Hdry Hnt Hfl Hsame eq_refl
              (list_fs_valid now_far (excl_incl ex) normalize_unix (d_fs (r_dest r)) Hu' Hw'))
    as (T1 & T2 & T3 & T4 & T5 & T6).
  unfold run_top. repeat split; try assumption. rewrite T2. reflexivity.
Qed.

(* C02 for the executable instance and EVERY outcome: nothing is skipped => no path is ever resolved through a
   destination link, whatever fails (Proofs/ConfineAll.v). *)
From RJ Require Import Proofs.ConfineAll.
Theorem run_top_all_confined cfg S D a ans bits ex ft :
  unique_keys S -> wf_fs S -> unique_keys D -> wf_fs D ->
  let r := run_top cfg S D a ans bits ex ft in
  r_skipped r = [] -> no_through (d_events (r_dest r)).
Proof.
  intros HuS HwS HuD HwD. cbv zeta. unfold run_top. intros Hsk.
  exact (all_runs_confined now_far (excl_incl ex) normalize_unix chunk_real
           cfg S (world D a []) ans bits _ _ ft
           (list_fs_valid now_far (excl_incl ex) normalize_unix S HuS HwS)
           (list_fs_valid now_far (excl_incl ex) normalize_unix D HuD HwD)
           (list_fs_parents_first now_far (excl_incl ex) normalize_unix S)
           (list_fs_parents_first now_far (excl_incl ex) normalize_unix D)
           HwD eq_refl Hsk).
Qed.

(* ... and without any premise about skips (Proofs/ConfineAll.no_run_goes_through_a_link) *)
Theorem run_top_never_through cfg S D a ans bits ex ft :
  unique_keys S -> wf_fs S -> unique_keys D -> wf_fs D ->
  no_through (d_events (r_dest (run_top cfg S D a ans bits ex ft))).
Proof.
  intros HuS HwS HuD HwD. unfold run_top.
  exact (no_run_goes_through_a_link now_far (excl_incl ex) normalize_unix chunk_real
           cfg S (world D a []) ans bits _ _ ft
           (list_fs_valid now_far (excl_incl ex) normalize_unix S HuS HwS)
           (list_fs_valid now_far (excl_incl ex) normalize_unix D HuD HwD)
           (list_fs_parents_first now_far (excl_incl ex) normalize_unix S)
           (list_fs_parents_first now_far (excl_incl ex) normalize_unix D)
           HwD eq_refl).
Qed.
