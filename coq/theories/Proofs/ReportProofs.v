(* C07: what exit status 0 means, that no error reply is ever dropped, and that the summary of a
   successful run is the census of the commands that were carried out. *)
From RJ Require Import Base.Prelude Base.OrderedPlan Model.Settings Model.Core Model.Fs Model.Sync
  Proofs.FsProofs Proofs.ExecProofs Proofs.DryProofs Proofs.MirrorProofs Proofs.CrashProofs Proofs.CrashMain.

(* ---- errors are never dropped, however late the failing command sits ---- *)
Section Errors.
Variable fl : flavour.
Variable ft : faults.

Lemma run_steps_keeps_errors steps r e : In e (rs_errs r) -> In e (rs_errs (run_steps fl ft r steps)).
Proof.
  intros H. destruct (run_steps_errs fl ft steps r) as (l & E). rewrite E. apply in_or_app. left; exact H.
Qed.

Lemma executed_error_recorded r s c e :
  executes ft r s = Some c -> snd (doer_exec fl (rs_d r) c) = Some e -> In e (rs_errs (run_step fl ft r s)).
Proof.
  intros Hx He. pose proof (executes_some ft r s c Hx) as ->. unfold executes in Hx. unfold run_step.
  destruct (rs_srcfail r); [discriminate|].
  assert (Hdo : In e (rs_errs (do_step fl ft r (DestCmd c)))).
  { unfold do_step. cbv zeta.
    destruct (rs_budget r) as [[|k]|]; try discriminate;
      unfold stopped, injected in Hx;
      destruct (mutating c && match ft_stop ft with Some n => Nat.leb n (rs_mut r) | None => false end); try discriminate;
      destruct (mutating c && negb (is_chunk c) && mem_nat (rs_mut r) (ft_dest ft)); try discriminate;
      rewrite He; cbn [rs_errs]; apply in_or_app; right; left; reflexivity. }
  destruct (rs_budget r) as [[|k]|]; [discriminate|exact Hdo|exact Hdo].
Qed.

(* a step that is reached, executed and answered with an error leaves its mark on the final error list *)
Theorem error_reaches_the_end pre s rest r c e :
  executes ft (run_steps fl ft r pre) s = Some c ->
  snd (doer_exec fl (rs_d (run_steps fl ft r pre)) c) = Some e ->
  In e (rs_errs (run_steps fl ft r (pre ++ s :: rest))).
Proof.
  intros Hx He. rewrite run_steps_app.
  change (run_steps fl ft (run_steps fl ft r pre) (s :: rest))
    with (run_steps fl ft (run_step fl ft (run_steps fl ft r pre) s) rest).
  apply run_steps_keeps_errors. eapply executed_error_recorded; eauto.
Qed.

End Errors.

(* ---- the census of a command list ---- *)
Definition nobytes (s : stats) : stats :=
  mkStats (st_files_deleted s) 0 (st_folders_deleted s) (st_symlinks_deleted s)
          (st_files_copied s) 0 (st_folders_created s) (st_symlinks_copied s).
Definition dummy_target : target := TRaw [].
Definition census_step (s : stats) (c : cmd) : stats :=
  match c with
  | CDeleteFile _ => stats_delete s (EFile 0 0)
  | CDeleteFolder _ => stats_delete s EFolder
  | CDeleteSymlink _ k => stats_delete s (ESymlink k dummy_target)
  | CCreateOrUpdateFile _ _ _ false => stats_copy s (EFile 0 0)        (* the chunk that completes a file *)
  | CCreateFolder _ => stats_copy s EFolder
  | CCreateSymlink _ k t => stats_copy s (ESymlink k t)
  | _ => s
  end.
Definition census (cmds : list cmd) : stats := fold_left census_step cmds stats0.

Lemma nobytes_delete s e :
  nobytes (stats_delete s e) = match e with
                               | EFile _ _ => stats_delete (nobytes s) (EFile 0 0)
                               | EFolder => stats_delete (nobytes s) EFolder
                               | ESymlink k t => stats_delete (nobytes s) (ESymlink k t)
                               end.
Proof. destruct e; reflexivity. Qed.
Lemma nobytes_copy s e :
  nobytes (stats_copy s e) = match e with
                             | EFile _ _ => stats_copy (nobytes s) (EFile 0 0)
                             | EFolder => stats_copy (nobytes s) EFolder
                             | ESymlink k t => stats_copy (nobytes s) (ESymlink k t)
                             end.
Proof. destruct e; reflexivity. Qed.

Section Census.
Variable chunker : str -> list str.
Hypothesis chunker_ok : forall d, chunker d <> [] /\ concat (chunker d) = d.
Notation exec_steps := (exec_steps chunker).
Notation copy_steps := (copy_steps chunker).

Lemma census_chunks p mt chunks : chunks <> [] -> forall acc,
  fold_left census_step (dest_cmds (chunk_cmds p mt chunks)) acc = stats_copy acc (EFile 0 0).
Proof.
  induction chunks as [|c rest IH]; intros Hne acc; [congruence|].
  destruct rest as [|c2 rest']; [reflexivity|].
  change (chunk_cmds p mt (c :: c2 :: rest')) with (DestCmd (CCreateOrUpdateFile p c None true) :: chunk_cmds p mt (c2 :: rest')).
  cbn [dest_cmds flat_map app fold_left census_step]. apply IH. discriminate.
Qed.

Lemma census_deletes dl : forall acc,
  fold_left census_step (map delete_cmd dl) (nobytes acc) =
  nobytes (fold_left (fun s e => stats_delete s (fst (snd e))) dl acc).
Proof.
  induction dl as [|[p [e r]] dl IH]; intros acc; cbn [map fold_left fst snd]; [reflexivity|].
  rewrite <- IH. f_equal. rewrite nobytes_delete. destruct e; reflexivity.
Qed.

Lemma census_copies S cl :
  (forall p mt sz r, In (p, (EFile mt sz, r)) cl -> exists m d, fget S p = Some (NFile m d)) ->
  forall acc,
  fold_left census_step (dest_cmds (flat_map (copy_steps S) cl)) (nobytes acc) =
  nobytes (fold_left (fun s e => stats_copy s (fst (snd e))) cl acc).
Proof.
  induction cl as [|[p [e r]] cl IH]; intros Hsrc acc; cbn [flat_map fold_left fst snd]; [reflexivity|].
  unfold dest_cmds in *. rewrite flat_map_app, fold_left_app.
  rewrite <- IH by (intros; eapply Hsrc; right; eauto). f_equal.
  rewrite nobytes_copy. destruct e as [mt sz| |k t]; cbn [Sync.copy_steps].
  - destruct (Hsrc p mt sz r (or_introl eq_refl)) as (m & d & ->).
    cbn [flat_map app]. apply (census_chunks p mt (chunker d)). apply chunker_ok.
  - reflexivity.
  - reflexivity.
Qed.

Theorem plan_stats_is_census S a :
  (forall p mt sz r, In (p, (EFile mt sz, r)) (a_copy a) -> exists m d, fget S p = Some (NFile m d)) ->
  nobytes (plan_stats a) = census (dest_cmds (exec_steps S a)).
Proof.
  intros Hsrc. unfold plan_stats, census, Sync.exec_steps, dest_cmds. rewrite flat_map_app, fold_left_app.
  rewrite <- (census_copies S (a_copy a) Hsrc). f_equal.
  assert (Hm : flat_map (fun s => match s with DestCmd c => [c] | SrcFetch _ => [] end)
                 (map (fun e => DestCmd (delete_cmd e)) (a_delete a)) = map delete_cmd (a_delete a)).
  { induction (a_delete a) as [|e l IHl]; cbn; [reflexivity|]. f_equal. exact IHl. }
  rewrite Hm. symmetry. exact (census_deletes (a_delete a) stats0).
Qed.

End Census.

(* ---- exit status 0 ---- *)
Section SyncReport.
Variable now_z : N -> Z.
Variable normalize : str -> target.
Variable chunker : str -> list str.
Notation sync_one := (sync_one now_z normalize chunker).
Notation sync_plan := (sync_plan now_z normalize chunker).
Notation exec_steps := (exec_steps chunker).

Lemma clean_run_all fl ft D t0 s0 steps :
  let r0 := mkR D t0 s0 [] false 0 0 None in
  rs_errs (run_steps fl ft r0 steps) = [] -> rs_srcfail (run_steps fl ft r0 steps) = false ->
  rs_d (run_steps fl ft r0 steps) = exec_all fl D (dest_cmds steps) /\ all_ok fl D (dest_cmds steps) /\
  rs_sent (run_steps fl ft r0 steps) = t0 ++ dest_cmds steps /\
  rs_src (run_steps fl ft r0 steps) = s0 ++ src_fetches steps.
Proof.
  intros r0 He Hs.
  destruct (run_steps_exec fl ft steps r0 eq_refl eq_refl He Hs) as [E1 E2].
  destruct (run_steps_ok fl ft steps r0 eq_refl eq_refl He Hs) as (E3 & E4 & _).
  repeat split; assumption.
Qed.

(* sync() returns Ok (no dry run, the root not skipped) only if EVERY step of the confirmed plan was
   performed: every planned command was sent, executed and answered without an error, every source file
   was fetched, and the destination is exactly the result of executing them all. *)
Theorem exit0_all_applied cfg S D ans bits ls ld ft :
  let r := sync_one cfg S D ans bits ls ld ft in
  let pl := sync_plan cfg S D ans bits ls ld in
  r_ok r = true -> cf_dry cfg = false -> r_root_skipped r = false ->
  exists acts pre,
    snd pl = pre ++ exec_steps S acts /\ (pre = [] \/ pre = [DestCmd CCreateRootAncestors]) /\
    r_stats r = plan_stats acts /\
    r_dest r = exec_all (cf_fl cfg) D (dest_cmds (snd pl)) /\ all_ok (cf_fl cfg) D (dest_cmds (snd pl)) /\
    (exists t0, r_dest_trace r = t0 ++ dest_cmds (snd pl)) /\
    (exists s0, r_src_trace r = s0 ++ src_fetches (snd pl)) /\
    r_errs r = [] /\ r_src_failed r = false.
Proof.
  cbv zeta. unfold Sync.sync_one, CrashMain.sync_plan, fail_result. cbv zeta. intros Hok Hdry Hrs. revert Hok Hrs. rewrite Hdry.
  destruct (fget S []) as [sn|]; [|cbn; discriminate].
  set (pre := match option_map (entry_of now_z normalize) (fget (d_fs D) []) with
              | None => [DestCmd CCreateRootAncestors] | Some _ => [] end).
  assert (Hpre : pre = [] \/ pre = [DestCmd CCreateRootAncestors]).
  { unfold pre. destruct (option_map _ _); [left|right]; reflexivity. }
  clearbody pre.
  assert (Hmain : forall t0 s0 acts,
            let r0 := mkR D t0 s0 [] false 0 0 None in
            let r2 := run_steps (cf_fl cfg) ft (run_steps (cf_fl cfg) ft r0 pre) (exec_steps S acts) in
            (match rs_errs r2 with [] => negb (rs_srcfail r2) | _ => false end) = true ->
            exists acts0 pre0,
              pre ++ exec_steps S acts = pre0 ++ exec_steps S acts0 /\ (pre0 = [] \/ pre0 = [DestCmd CCreateRootAncestors]) /\
              plan_stats acts = plan_stats acts0 /\
              rs_d r2 = exec_all (cf_fl cfg) D (dest_cmds (pre ++ exec_steps S acts)) /\
              all_ok (cf_fl cfg) D (dest_cmds (pre ++ exec_steps S acts)) /\
              (exists t1, rs_sent r2 = t1 ++ dest_cmds (pre ++ exec_steps S acts)) /\
              (exists s1, rs_src r2 = s1 ++ src_fetches (pre ++ exec_steps S acts)) /\
              rs_errs r2 = [] /\ rs_srcfail r2 = false).
  { intros t0 s0 acts r0 r2 Hok.
    assert (He : rs_errs r2 = []) by (destruct (rs_errs r2); [reflexivity|discriminate]).
    assert (Hs : rs_srcfail r2 = false) by (rewrite He in Hok; destruct (rs_srcfail r2); [discriminate|reflexivity]).
    unfold r2 in *. rewrite <- run_steps_app in *.
    destruct (clean_run_all (cf_fl cfg) ft D t0 s0 (pre ++ exec_steps S acts) He Hs) as (E1 & E2 & E3 & E4).
    exists acts, pre. repeat split; eauto. }
  destruct (option_map (entry_of now_z normalize) (fget (d_fs D) [])) as [d|] eqn:Ed.
  - destruct (needs_delete (cf_diff cfg) (entry_of now_z normalize sn) d).
    + destruct (resolve_root (cf_root cfg) ans) as [[[] ans'] shown]; try (cbn; discriminate);
        try (cbn [r_ok r_root_skipped andb negb]; intros; discriminate).
      destruct (actions_of _ _ _) as [acts|]; [|cbn; discriminate].
      destruct (confirm _ _ _) as [|acts' ? ? ? ?]; [cbn; discriminate|].
      cbn [r_ok r_root_skipped r_stats r_dest r_dest_trace r_src_trace r_errs r_src_failed fst snd]. intros Hok _.
      eapply Hmain; eauto.
    + destruct (actions_of _ _ _) as [acts|]; [|cbn; discriminate].
      destruct (confirm _ _ _) as [|acts' ? ? ? ?]; [cbn; discriminate|].
      cbn [r_ok r_root_skipped r_stats r_dest r_dest_trace r_src_trace r_errs r_src_failed fst snd]. intros Hok _.
      eapply Hmain; eauto.
  - destruct (actions_of _ _ _) as [acts|]; [|cbn; discriminate].
    destruct (confirm _ _ _) as [|acts' ? ? ? ?]; [cbn; discriminate|].
    cbn [r_ok r_root_skipped r_stats r_dest r_dest_trace r_src_trace r_errs r_src_failed fst snd]. intros Hok _.
    eapply Hmain; eauto.
Qed.

End SyncReport.

Section SyncFailure.
Variable now_z : N -> Z.
Variable normalize : str -> target.
Variable chunker : str -> list str.
Notation sync_one := (sync_one now_z normalize chunker).

(* any recorded error, and any failed source read, makes sync() fail *)
Theorem failure_is_reported cfg S D ans bits ls ld ft :
  let r := sync_one cfg S D ans bits ls ld ft in
  r_errs r <> [] \/ r_src_failed r = true -> r_ok r = false.
Proof.
  cbv zeta. unfold Sync.sync_one, fail_result. cbv zeta.
  repeat match goal with
         | |- context [match ?x with _ => _ end] =>
             match x with
             | rs_errs _ => fail 1
             | _ => destruct x
             end
         end; cbn [r_errs r_src_failed r_ok]; intros [H|H]; try congruence; try discriminate;
    try (destruct (rs_errs _); [congruence|reflexivity]);
    try (destruct (rs_errs _); [rewrite H; reflexivity|reflexivity]).
Qed.

End SyncFailure.
