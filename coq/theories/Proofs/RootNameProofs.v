(* The name under which a file or symlink source is placed inside a trailing-slash destination (Model/RootName.v). *)
From RJ Require Import Base.Prelude Model.RootName.
From Coq Require Import String.
Local Open Scope char_scope.

Lemma last_piece_spec : forall win s acc,
  Forall (fun c => is_sep win c = false) acc ->
  Forall (fun c => is_sep win c = false) (last_piece win s acc) /\
  exists pre, acc ++ s = pre ++ last_piece win s acc /\
              ((pre = [] /\ last_piece win s acc = acc ++ s) \/ exists p c, pre = p ++ [c] /\ is_sep win c = true).
Proof.
  intros win s. induction s as [|c r IH]; intros acc Hacc; cbn [last_piece].
  - split; [exact Hacc|]. exists []. rewrite app_nil_r. split; [reflexivity|]. left. split; reflexivity.
  - destruct (is_sep win c) eqn:Hc.
    + destruct (IH [] (Forall_nil _)) as [Hf [pre [Heq Hpre]]]. split; [exact Hf|].
      exists (acc ++ [c] ++ pre). cbn [app] in Heq. split; [rewrite <- !app_assoc; cbn [app]; do 2 f_equal; exact Heq|].
      right. destruct Hpre as [[Hp _]|[p [c' [Hp Hc']]]].
      * subst pre. exists acc, c. rewrite app_nil_r. split; [reflexivity|exact Hc].
      * subst pre. exists (acc ++ c :: p), c'. rewrite <- app_assoc. cbn [app]. split; [reflexivity|exact Hc'].
    + assert (Hacc' : Forall (fun c0 => is_sep win c0 = false) (acc ++ [c])).
      { apply Forall_app. split; [exact Hacc|]. constructor; [exact Hc|constructor]. }
      destruct (IH (acc ++ [c]) Hacc') as [Hf [pre [Heq Hpre]]]. split; [exact Hf|].
      exists pre. rewrite <- app_assoc in Heq. cbn [app] in Heq. split; [exact Heq|].
      destruct Hpre as [[Hp Hl]|Hr]; [left|right; exact Hr].
      split; [exact Hp|]. rewrite Hl, <- app_assoc. reflexivity.
Qed.

(* the name contains no separator of the source platform ... *)
Theorem src_file_name_no_sep : forall win src, Forall (fun c => is_sep win c = false) (src_file_name win src).
Proof. intros. apply (last_piece_spec win src []). constructor. Qed.

(* ... and is the text after the last separator of the source path (the whole path when it has none) *)
Theorem src_file_name_suffix : forall win src,
  exists pre, src = pre ++ src_file_name win src /\
              (pre = [] \/ exists p c, pre = p ++ [c] /\ is_sep win c = true).
Proof.
  intros win src. destruct (last_piece_spec win src [] (Forall_nil _)) as [_ [pre [Heq Hpre]]].
  exists pre. split; [exact Heq|]. destruct Hpre as [[Hp _]|Hr]; [left; exact Hp|right; exact Hr].
Qed.

(* On a Unix source the name is the POSIX last component: a backslash is part of it. *)
Theorem unix_name_is_basename : forall src, src_file_name false src = posix_basename src.
Proof. reflexivity. Qed.

Lemma is_sep_false_slash : forall c, is_sep false c = false -> c <> "/".
Proof. intros c H E. subst c. discriminate H. Qed.

(* Hence the rewritten destination root is DEST ++ one component: no '/' is added after the dest text, so the root
   stays a direct child of the folder the user named (for a name that is not "", "." or ".." - which the last
   component of a path that names a file or a symlink never is). *)
Theorem C01_inside_root_is_child : forall src dest,
  exists name, inside_root false src dest = dest ++ name /\ name = posix_basename src /\ Forall (fun c => c <> "/") name.
Proof.
  intros src dest. exists (src_file_name false src). split; [reflexivity|]. split; [reflexivity|].
  eapply Forall_impl; [|apply src_file_name_no_sep]. intros c H. apply is_sep_false_slash. exact H.
Qed.

(* A Windows source: both separators split, as before the repair. *)
Theorem windows_name_unchanged : forall src, src_file_name true src = src_file_name_old src.
Proof. reflexivity. Qed.

(* A source path without a backslash: the repair changes nothing. *)
Lemma last_piece_same : forall s acc, Forall (fun c => c <> "\") s -> last_piece false s acc = last_piece true s acc.
Proof.
  induction s as [|c r IH]; intros acc H; cbn [last_piece]; [reflexivity|].
  inversion H as [|c' r' Hc Hr]; subst.
  assert (E : is_sep false c = is_sep true c).
  { unfold is_sep. destruct (Ascii.eqb c "/"); [reflexivity|]. cbn. destruct (Ascii.eqb_spec c "\"); [contradiction|reflexivity]. }
  rewrite E. destruct (is_sep true c); apply IH; exact Hr.
Qed.
Theorem no_backslash_name_unchanged : forall src, Forall (fun c => c <> "\") src -> src_file_name false src = src_file_name_old src.
Proof. intros. apply last_piece_same. assumption. Qed.

(* F14, the pinned tree: a Unix file called  x\..  was placed at DEST/.. - the PARENT of the destination folder - and a file
   called a\b at DEST/b. *)
Definition s_of (s : string) : str := list_ascii_of_string s.
Theorem F14_old_name_escapes :
  exists src dest, posix_basename src = s_of "x\.." /\ inside_root_old src dest = s_of "box/dest/.." /\
                   inside_root false src dest = s_of "box/dest/x\..".
Proof. exists (s_of "s/x\.."), (s_of "box/dest/"). vm_compute. repeat split; reflexivity. Qed.
Theorem F14_old_name_wrong :
  exists src dest, inside_root_old src dest = s_of "d/b" /\ inside_root false src dest = s_of "d/a\b".
Proof. exists (s_of "s/a\b"), (s_of "d/"). vm_compute. split; reflexivity. Qed.

Example src_file_name_examples :
  src_file_name false (s_of "dir/sub/file.txt") = s_of "file.txt" /\ src_file_name false (s_of "plain") = s_of "plain" /\
  src_file_name true (s_of "C:\dir\f.txt") = s_of "f.txt" /\ src_file_name true (s_of "C:\dir/f.txt") = s_of "f.txt".
Proof. vm_compute. repeat split; reflexivity. Qed.
