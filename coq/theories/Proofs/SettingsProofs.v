From RJ Require Import Base.Prelude Model.Settings.
From Coq Require Import String.

(* The documented rule, written from the property text (C16):
   the individual flag if given; otherwise the all-destructive value unless the spec/default
   value is skip; otherwise the spec-file value or documented default ([base]). *)
Definition documented_rule (flag : option beh) (alld : option allb) (base : beh) : beh :=
  match flag with
  | Some v => v
  | None => match alld with
            | Some a => match base with BSkip => BSkip | _ => conv a end
            | None => base
            end
  end.

Lemma resolve_beh_documented flag alld base :
  resolve_beh flag alld base = documented_rule flag alld base.
Proof. destruct flag, alld as [[]|], base; reflexivity. Qed.

(* What holds between a sync before and after resolution. *)
Definition sync_resolved (c : cli) (s s' : sync_spec) : Prop :=
  s_src s' = s_src s /\ s_dest s' = s_dest s /\
  s_filters s' = (match c_filters c with [] => s_filters s | f => f end) /\
  s_newer s' = documented_rule (c_newer c) (c_all c) (s_newer s) /\
  s_older s' = documented_rule (c_older c) (c_all c) (s_older s) /\
  s_same s' = documented_rule (c_same c) (c_all c) (s_same s) /\
  s_entry s' = documented_rule (c_entry c) (c_all c) (s_entry s) /\
  s_root s' = documented_rule (c_root c) (c_all c) (s_root s).

Lemma resolve_sync_ok c s : sync_resolved c s (resolve_sync c s).
Proof.
  unfold sync_resolved, resolve_sync; cbn.
  rewrite !resolve_beh_documented. repeat split; reflexivity.
Qed.

Lemma resolve_over_all_syncs c base :
  Forall2 (sync_resolved c) (sp_syncs base) (sp_syncs (resolve_over c base)).
Proof.
  unfold resolve_over; cbn. induction (sp_syncs base) as [|s l IH]; cbn; constructor; auto.
  apply resolve_sync_ok.
Qed.

Lemma resolve_over_rest c base :
  sp_src_host (resolve_over c base) = sp_src_host base /\
  sp_src_user (resolve_over c base) = sp_src_user base /\
  sp_dest_host (resolve_over c base) = sp_dest_host base /\
  sp_dest_user (resolve_over c base) = sp_dest_user base /\
  sp_deploy (resolve_over c base) = match c_deploy c with Some d => d | None => sp_deploy base end.
Proof. repeat split; reflexivity. Qed.

(* ---- defaults when a key is absent from the spec file ---- *)
Definition key_is (name : string) (kv : yaml * yaml) : bool :=
  match fst kv with YString x => str_eqb x (lit name) | _ => false end.

Ltac sf_step acc k v H :=
  unfold sync_field in H; destruct k as [| |x|]; try discriminate;
  repeat (match type of H with
          | context [if str_eqb ?a ?b then _ else _] => destruct (str_eqb a b) eqn:?
          end);
  repeat (match type of H with
          | context [match ?e with _ => _ end] => destruct e eqn:?; try discriminate
          end);
  try (inversion H; subst; clear H).

Lemma sync_field_preserves acc k v acc' :
  sync_field acc k v = Some acc' ->
  (key_is "dest_file_newer_behaviour" (k, v) = false -> s_newer acc' = s_newer acc) /\
  (key_is "dest_file_older_behaviour" (k, v) = false -> s_older acc' = s_older acc) /\
  (key_is "files_same_time_behaviour" (k, v) = false -> s_same acc' = s_same acc) /\
  (key_is "dest_entry_needs_deleting_behaviour" (k, v) = false -> s_entry acc' = s_entry acc) /\
  (key_is "dest_root_needs_deleting_behaviour" (k, v) = false -> s_root acc' = s_root acc) /\
  (key_is "filters" (k, v) = false -> s_filters acc' = s_filters acc).
Proof.
  intros H. sf_step acc k v H; cbn [key_is fst s_newer s_older s_same s_entry s_root s_filters];
    repeat split; intros; try reflexivity; congruence.
Qed.

Lemma sync_fields_absent kvs : forall acc s,
  sync_fields acc kvs = Some s ->
  (forallb (fun kv => negb (key_is "dest_file_newer_behaviour" kv)) kvs = true -> s_newer s = s_newer acc) /\
  (forallb (fun kv => negb (key_is "dest_file_older_behaviour" kv)) kvs = true -> s_older s = s_older acc) /\
  (forallb (fun kv => negb (key_is "files_same_time_behaviour" kv)) kvs = true -> s_same s = s_same acc) /\
  (forallb (fun kv => negb (key_is "dest_entry_needs_deleting_behaviour" kv)) kvs = true -> s_entry s = s_entry acc) /\
  (forallb (fun kv => negb (key_is "dest_root_needs_deleting_behaviour" kv)) kvs = true -> s_root s = s_root acc) /\
  (forallb (fun kv => negb (key_is "filters" kv)) kvs = true -> s_filters s = s_filters acc).
Proof.
  induction kvs as [|[k v] r IH]; intros acc s H; cbn [sync_fields] in H.
  - inversion H; subst. repeat split; reflexivity.
  - destruct (sync_field acc k v) as [acc'|] eqn:E; [|discriminate].
    destruct (sync_field_preserves _ _ _ _ E) as (P1 & P2 & P3 & P4 & P5 & P6).
    destruct (IH _ _ H) as (Q1 & Q2 & Q3 & Q4 & Q5 & Q6).
    cbn [forallb]. repeat split; intros F; apply andb_true_iff in F as [F1 F2];
      apply negb_true_iff in F1.
    + rewrite Q1, P1; auto.
    + rewrite Q2, P2; auto.
    + rewrite Q3, P3; auto.
    + rewrite Q4, P4; auto.
    + rewrite Q5, P5; auto.
    + rewrite Q6, P6; auto.
Qed.

(* The documented defaults (C16 text): newer prompt, older overwrite, same skip, entry delete,
   root prompt, deploy prompt. *)
Lemma documented_defaults :
  s_newer default_sync = BPrompt /\ s_older default_sync = BAct /\ s_same default_sync = BSkip /\
  s_entry default_sync = BAct /\ s_root default_sync = BPrompt /\ sp_deploy default_spec = DPrompt /\
  s_filters default_sync = [].
Proof. repeat split; reflexivity. Qed.

(* ---- strictness of the spec-file parser ---- *)
Definition known_sync_key (kv : yaml * yaml) : bool :=
  key_is "src" kv || key_is "dest" kv || key_is "filters" kv ||
  key_is "dest_file_newer_behaviour" kv || key_is "dest_file_older_behaviour" kv ||
  key_is "files_same_time_behaviour" kv || key_is "dest_entry_needs_deleting_behaviour" kv ||
  key_is "dest_root_needs_deleting_behaviour" kv.

Definition sync_value_ok (kv : yaml * yaml) : bool :=
  if key_is "filters" kv then
    match snd kv with YArray es => forallb (fun e => match e with YString _ => true | _ => false end) es | _ => false end
  else match snd kv with YString _ => true | _ => false end.

Lemma parse_filters_strings es l : parse_filters es = Some l ->
  forallb (fun e => match e with YString _ => true | _ => false end) es = true.
Proof.
  revert l; induction es as [|e r IH]; intros l H; cbn in *; [reflexivity|].
  destruct e; try discriminate. destruct (parse_filters r) eqn:E; [|discriminate].
  cbn. eapply IH; eauto.
Qed.

Lemma sync_field_strict acc k v acc' :
  sync_field acc k v = Some acc' -> known_sync_key (k, v) = true /\ sync_value_ok (k, v) = true.
Proof.
  intros H. unfold sync_field in H. destruct k as [| |x|]; try discriminate.
  unfold known_sync_key, sync_value_ok, key_is; cbn [fst snd].
  unfold parse_beh_field, parse_string in H.
  repeat (match type of H with
          | context [if str_eqb ?a ?b then _ else _] => destruct (str_eqb a b) eqn:?
          end); try discriminate;
  cbn [orb]; rewrite ?orb_true_r; split; try reflexivity;
  destruct v; try discriminate; try reflexivity.
  all: try (match goal with Ht : str_eqb ?x _ = true |- _ => apply str_eqb_eq in Ht; subst x end; reflexivity).
  match type of H with context [parse_filters ?l] => destruct (parse_filters l) eqn:E; [|discriminate] end.
  eapply parse_filters_strings; eauto.
Qed.

Lemma sync_fields_strict kvs : forall acc s, sync_fields acc kvs = Some s ->
  forallb (fun kv => known_sync_key kv && sync_value_ok kv) kvs = true.
Proof.
  induction kvs as [|[k v] r IH]; intros acc s H; cbn in *; [reflexivity|].
  destruct (sync_field acc k v) eqn:E; [|discriminate].
  apply sync_field_strict in E as [E1 E2]. rewrite E1, E2. cbn. eapply IH; eauto.
Qed.

Lemma parse_sync_spec_strict y s : parse_sync_spec y = Some s ->
  exists kvs, y = YHash kvs /\
    forallb (fun kv => known_sync_key kv && sync_value_ok kv) kvs = true /\
    s_src s <> [] /\ s_dest s <> [].
Proof.
  unfold parse_sync_spec. destruct y; try discriminate. intros H.
  destruct (sync_fields default_sync kvs) as [s0|] eqn:E; [|discriminate].
  exists kvs. split; [reflexivity|]. split; [eapply sync_fields_strict; eauto|].
  destruct (s_src s0) eqn:E1; [discriminate|]. destruct (s_dest s0) eqn:E2; [discriminate|].
  inversion H; subst. rewrite E1, E2. split; discriminate.
Qed.

(* ---- a one-sync spec file is the same as SRC DEST ---- *)
Definition one_sync_doc (sh su dh du p q : str) : yaml :=
  YHash [ (YString (lit "src_hostname"), YString sh); (YString (lit "src_username"), YString su);
          (YString (lit "dest_hostname"), YString dh); (YString (lit "dest_username"), YString du);
          (YString (lit "syncs"), YArray [ YHash [ (YString (lit "src"), YString p); (YString (lit "dest"), YString q) ] ]) ].

Definition with_paths (c : cli) (sh su dh du p q : str) : cli :=
  mkCli (Some (su, sh, p)) (Some (du, dh, q)) (c_filters c) (c_deploy c)
        (c_newer c) (c_older c) (c_same c) (c_entry c) (c_root c) (c_all c).

Lemma resolve_over_ext c c' base :
  c_filters c = c_filters c' -> c_deploy c = c_deploy c' -> c_newer c = c_newer c' ->
  c_older c = c_older c' -> c_same c = c_same c' -> c_entry c = c_entry c' -> c_root c = c_root c' ->
  c_all c = c_all c' -> resolve_over c base = resolve_over c' base.
Proof.
  intros H1 H2 H3 H4 H5 H6 H7 H8. unfold resolve_over. rewrite H2. f_equal.
  apply map_ext. intros s. unfold resolve_sync. rewrite H1, H3, H4, H5, H6, H7, H8. reflexivity.
Qed.

Lemma spec_equiv c sh su dh du p q :
  p <> [] -> q <> [] ->
  resolve_spec c (Some (Some (one_sync_doc sh su dh du p q))) =
  resolve_spec (with_paths c sh su dh du p q) None.
Proof.
  intros Hp Hq. destruct p as [|p0 p]; [contradiction|]. destruct q as [|q0 q]; [contradiction|].
  unfold resolve_spec, with_paths, spec_of_args. cbn [c_src c_dest].
  assert (E : parse_spec_doc (one_sync_doc sh su dh du (p0 :: p) (q0 :: q)) =
              Some (mkSpec sh su dh du (sp_deploy default_spec)
                     [mkSync (p0 :: p) (q0 :: q) [] (s_newer default_sync) (s_older default_sync)
                             (s_same default_sync) (s_entry default_sync) (s_root default_sync)])).
  { vm_compute. reflexivity. }
  rewrite E. apply f_equal. apply resolve_over_ext; reflexivity.
Qed.

(* A spec file that does not parse yields no spec at all, whatever the command line says. *)
Lemma reject_unparsable c doc : parse_spec_doc doc = None -> resolve_spec c (Some (Some doc)) = None.
Proof. intros H. unfold resolve_spec. now rewrite H. Qed.
Lemma reject_unreadable c : resolve_spec c (Some None) = None.
Proof. reflexivity. Qed.
