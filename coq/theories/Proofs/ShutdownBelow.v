(* C09: below capacity the pinned protocol does not get stuck either. *)
From RJ Require Import Base.Prelude Model.Shutdown Proofs.ShutdownProofs Proofs.ShutdownInv Proofs.ShutdownNoStuck.
Local Open Scope nat_scope.

Lemma dpot_step c a s s' : next c a s = Some s' ->
  (rspot c s' <= rspot c s)%N /\ (cdpot c s' <= cdpot c s)%N.
Proof.
  intros H. unfold rspot, cdpot.
  open_state s. cases H a; proj;
  cbn [handw ctlw filesw filesdw qsum length dw spd] in *; unfold filew;
  repeat rewrite ?qsum_app, ?app_length in *;
  cbn [qsum length dw] in *; split; try lia; try nia.
Qed.

Lemma reach_dpot c x s : reach c x s ->
  (rspot c s <= rspot c (init x))%N /\ (cdpot c s <= cdpot c (init x))%N.
Proof.
  induction 1 as [|s s' _ [IH1 IH2] [a Ha]]; [split; lia|].
  destruct (dpot_step _ _ _ _ Ha). split; lia.
Qed.

Lemma can_send_false' {A} c (w : A -> N) ch : can_send c w ch = false -> (cap c < qsum w (q ch))%N.
Proof. unfold can_send. intros H. apply orb_false_iff in H as [H1 H2]. lia. Qed.

Lemma no_stuck_below c s : Inv c s -> (cspot c s <= cap c)%N -> (rdpot c s <= cap c)%N ->
  (rspot c s <= cap c)%N -> (cdpot c s <= cap c)%N ->
  final s = false -> exists a s', next c a s = Some s'.
Proof.
  intros HI Hc Hr Hrs Hcd Hfin.
  destruct (next c ABoss s) eqn:EB; [eauto|].
  destruct (next c ASrc s) eqn:ES; [eauto|].
  destruct (next c ADest s) eqn:ED; [eauto|].
  exfalso.
  destruct HI as [[H1 H1'] [H2 H2'] H3 H4 H5 H6 H7].
  unfold cspot, rdpot, rspot, cdpot in *.
  open_state s. unfold next in *; proj. rewrite Hfin in *.
  destruct p; try discriminate Hfin; unf; proj; cbn [mid] in *;
  repeat (bm EB; proj); try discriminate EB;
  repeat (bm ES; proj); try discriminate ES;
  repeat (bm ED; proj); try discriminate ED.
  all: repeat match goal with
       | H : can_send _ _ _ = false |- _ => apply can_send_false' in H; proj
       end.
  all: cbn [qsum running negb] in *; subst; try lia; try discriminate; try congruence.
  all: unfold toks in *; proj.
  all: repeat match goal with H : ?p = ?p -> _ |- _ => specialize (H eq_refl) end.
  all: repeat match goal with x : life |- _ => destruct x; cbn [running negb] in *; try discriminate; try lia end.
  all: repeat match goal with H : ?p = ?p -> _ |- _ => specialize (H eq_refl) end.
  all: repeat match goal with H : _ /\ _ |- _ => destruct H end.
  all: repeat match goal with H : ?p = ?p -> _ |- _ => specialize (H eq_refl) end.
  all: try discriminate; try congruence.
  all: repeat match goal with
       | H : _ \/ _ |- _ => destruct H
       | H : In _ [] |- _ => destruct H
       | H : [] ++ [] <> [] |- _ => exfalso; apply H; reflexivity
       | H : [] <> [] |- _ => exfalso; apply H; reflexivity
       end.
Qed.

(* Below capacity nothing ever waits for capacity: no reachable state is stuck, with or without the repair. *)
Theorem holds_below_capacity c x s : ctl_ok c x -> data_ok c x -> reach c x s ->
  final s = true \/ exists s', step c s s'.
Proof.
  intros [Hc Hr] [Hrs Hcd] Hs. destruct (final s) eqn:Hfin; [now left|right].
  destruct (reach_pot _ _ _ Hs) as [P1 P2]. destruct (reach_dpot _ _ _ Hs) as [P3 P4].
  destruct (no_stuck_below c s (reach_inv _ _ _ Hs)) as (a & s' & Ha); try lia; auto.
  exists s'. now exists a.
Qed.
