(* C09: which of the two protocols the running code implements is asked of the code itself
   (harness sub-command facts-shutdown -> Gen/Facts_shutdown.v, regenerated on every run). *)
From RJ Require Import Base.Prelude Model.Shutdown Proofs.ShutdownProofs Proofs.ShutdownInv Proofs.ShutdownNoStuck.
From RJ Require Import Gen.Facts_shutdown.

Definition impl_fixed : bool := impl_sender_wakes_on_receiver_drop && impl_local_shutdown_drops_receiver.

(* fails to compile on a tree without the repair *)
Lemma impl_repaired : impl_fixed = true.
Proof. reflexivity. Qed.

Theorem no_stuck_impl c x s : fixed c = impl_fixed -> ctl_ok c x -> reach c x s ->
  final s = true \/ exists s', step c s s'.
Proof. intros H. rewrite impl_repaired in H. now apply no_stuck. Qed.
