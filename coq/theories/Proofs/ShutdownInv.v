(* Invariants of the shutdown protocol model and the no-stuck theorem (C09). *)
From RJ Require Import Base.Prelude Model.Shutdown Proofs.ShutdownProofs.

Local Open Scope nat_scope.

Definition term (r : sresp) : bool := match r with SChunk _ l => l | SErr => true end.
Definition ends_term (l : list sresp) : Prop := forall pre x, l = pre ++ [x] -> term x = true.
Definition mid (p : bpc) : bool := match p with BRecv | BFwd _ false | BPoll false => true | _ => false end.

Record Inv (c : config) (s : st) : Prop := {
  i_ls : rxa (cs s) = running (slife (sd s)) /\ txa (rs s) = running (slife (sd s));
  i_ld : rxa (cd s) = running (dlife (dd s)) /\ txa (rd s) = running (dlife (dd s));
  i_stream : ends_term (q (rs s) ++ spend (sd s));
  i_mid : mid (pc (bo s)) = true -> running (slife (sd s)) = true ->
          q (rs s) ++ spend (sd s) <> [] \/ In SGet (q (cs s));
  i_wait : pc (bo s) = BWait -> running (dlife (dd s)) = true ->
           q (rd s) <> [] \/ dpend (dd s) <> [] \/ In DDone (q (cd s));
  i_js : pc (bo s) = BJoinS -> (fixed c = true -> rxa (rs s) = false) /\
         (running (slife (sd s)) = true -> In SShut (q (cs s)));
  i_jd : pc (bo s) = BJoinD -> (fixed c = true -> rxa (rd s) = false) /\
         (running (dlife (dd s)) = true -> In DShut (q (cd s)))
}.

Lemma ends_term_tail x l : ends_term (x :: l) -> ends_term l.
Proof. intros H pre y E. apply (H (x :: pre) y). now rewrite E. Qed.

Lemma ends_term_nonlast x l : ends_term (x :: l) -> term x = false -> l <> [].
Proof. intros H Hx ->. specialize (H [] x eq_refl). congruence. Qed.

Lemma chunks_ends_term hd tl : ends_term (chunks_from hd tl).
Proof.
  revert hd. induction tl as [|y r IH]; intros hd pre x E; cbn [chunks_from] in E.
  - destruct pre as [|p pre]; cbn in E; [now inversion E|].
    inversion E as [[E1 E2]]. destruct pre; discriminate.
  - destruct pre as [|p pre]; cbn in E.
    + inversion E as [[E1 E2]]. destruct r; discriminate.
    + inversion E as [[E1 E2]]. eapply IH; exact E2.
Qed.

Lemma chunks_nonempty hd tl : chunks_from hd tl <> [].
Proof. destruct tl; discriminate. Qed.

Lemma ends_term_app l1 l2 : l2 <> [] -> ends_term l2 -> ends_term (l1 ++ l2).
Proof.
  intros Hne H pre x E.
  destruct (exists_last Hne) as (l2' & y & ->).
  rewrite app_assoc in E. apply app_inj_tail in E as [_ <-]. now apply (H l2' y).
Qed.

Lemma ends_term_nil : ends_term [].
Proof. intros pre x E. destruct pre; discriminate. Qed.

Lemma inv_init c x : Inv c (init x).
Proof.
  constructor; cbn; auto; try discriminate.
  apply ends_term_nil.
Qed.

Lemma ends_term_single x : term x = true -> ends_term [x].
Proof.
  intros H pre y E. destruct pre as [|p pre]; cbn in E; [now inversion E; subst|].
  inversion E. destruct pre; discriminate.
Qed.

Ltac fin := cbn [running negb andb orb mid] in *; subst;
  repeat match goal with
  | H : _ /\ _ |- _ => destruct H
  | H : negb ?b = false |- _ => destruct b eqn:?; [clear H|discriminate H]
  | H : ?a && ?b = true |- _ => apply andb_true_iff in H
  end.

Lemma p_life c a s s' : Inv c s -> next c a s = Some s' ->
  (rxa (cs s') = running (slife (sd s')) /\ txa (rs s') = running (slife (sd s'))) /\
  (rxa (cd s') = running (dlife (dd s')) /\ txa (rd s') = running (dlife (dd s'))).
Proof.
  intros [H1 H2 _ _ _ _ _] H. open_state s. proj. cases H a; proj; fin; cbn [running] in *;
  try (repeat split; congruence).
Qed.

Lemma p_stream c a s s' : Inv c s -> next c a s = Some s' -> ends_term (q (rs s') ++ spend (sd s')).
Proof.
  intros [_ _ H3 _ _ _ _] H. open_state s. proj. cases H a; proj; fin;
  rewrite <- ?app_assoc in *; cbn [app] in *; try exact H3;
  try (eapply ends_term_tail; exact H3).
  all: try (rewrite app_nil_r in H3).
  all: try (apply ends_term_app; [discriminate || apply chunks_nonempty | try apply chunks_ends_term]).
  all: try (apply ends_term_single; reflexivity).
Qed.

Lemma p_mid c a s s' : Inv c s -> next c a s = Some s' ->
  mid (pc (bo s')) = true -> running (slife (sd s')) = true ->
  q (rs s') ++ spend (sd s') <> [] \/ In SGet (q (cs s')).
Proof.
  intros [[H1 H1'] _ H3 H4 _ _ _] H. open_state s. proj. cases H a; proj; fin; intros Hm Hr;
  try discriminate Hm; try discriminate Hr; cbn [mid running] in *.
  all: try (destruct last; try discriminate Hm).
  all: try (specialize (H4 eq_refl)).
  all: try (specialize (H4 eq_refl)).
  all: try (specialize (H4 Hr)).
  all: try exact H4.
  all: try (left; eapply ends_term_nonlast; [exact H3|reflexivity]).
  all: try (left; unfold fchunks; destruct qrs; [apply chunks_nonempty | discriminate]).
  all: try (left; discriminate).
  all: try (right; apply in_or_app; right; left; reflexivity).
  all: try (left; destruct qrs; discriminate).
  all: try (left; rewrite app_nil_r; apply chunks_nonempty).
Qed.

Lemma p_wait c a s s' : Inv c s -> next c a s = Some s' ->
  pc (bo s') = BWait -> running (dlife (dd s')) = true ->
  q (rd s') <> [] \/ dpend (dd s') <> [] \/ In DDone (q (cd s')).
Proof.
  intros [_ [H2 H2'] _ _ H5 _ _] H. open_state s. proj. cases H a; proj; fin; intros Hm Hr;
  try discriminate Hm; try discriminate Hr; cbn [running] in *.
  all: try (specialize (H5 eq_refl)).
  all: try (specialize (H5 eq_refl)).
  all: try (specialize (H5 Hr)).
  all: try exact H5.
  all: try (right; right; apply in_or_app; right; left; reflexivity).
  all: try (right; left; discriminate).
  all: try (left; destruct qrd; discriminate).
  all: try (destruct H5 as [H5|[H5|[H5|H5]]]; try congruence; try discriminate H5; auto).
Qed.

Lemma p_js c a s s' : Inv c s -> next c a s = Some s' ->
  pc (bo s') = BJoinS -> (fixed c = true -> rxa (rs s') = false) /\
         (running (slife (sd s')) = true -> In SShut (q (cs s'))).
Proof.
  intros [[H1 H1'] _ _ _ _ H6 _] H. open_state s. proj. cases H a; proj; fin; intros Hm;
  try discriminate Hm; cbn [running] in *.
  all: first [ specialize (H6 eq_refl); destruct H6 as [H6 H6'] | clear H6 ].
  all: split.
  all: try exact H6.
  all: try (intros Hf; try reflexivity; try congruence).
  all: try (specialize (H6' Hf)).
  all: try exact H6'.
  all: try (apply in_or_app; right; left; reflexivity).
  all: try (destruct H6' as [H6'|H6']; [discriminate H6' | exact H6']).
  all: try discriminate Hf.
Qed.

Lemma p_jd c a s s' : Inv c s -> next c a s = Some s' ->
  pc (bo s') = BJoinD -> (fixed c = true -> rxa (rd s') = false) /\
         (running (dlife (dd s')) = true -> In DShut (q (cd s'))).
Proof.
  intros [_ [H1 H1'] _ _ _ _ H6] H. open_state s. proj. cases H a; proj; fin; intros Hm;
  try discriminate Hm; cbn [running] in *.
  all: first [ specialize (H6 eq_refl); destruct H6 as [H6 H6'] | clear H6 ].
  all: split.
  all: try exact H6.
  all: try (intros Hf; try reflexivity; try congruence).
  all: try (specialize (H6' Hf)).
  all: try exact H6'.
  all: try (apply in_or_app; right; left; reflexivity).
  all: try (destruct H6' as [H6'|H6']; [discriminate H6' | exact H6']).
  all: try discriminate Hf.
Qed.

Lemma inv_step c a s s' : Inv c s -> next c a s = Some s' -> Inv c s'.
Proof.
  intros HI H. destruct (p_life _ _ _ _ HI H) as [A B]. constructor; auto.
  - eapply p_stream; eauto.
  - eapply p_mid; eauto.
  - eapply p_wait; eauto.
  - eapply p_js; eauto.
  - eapply p_jd; eauto.
Qed.

Lemma reach_inv c x s : reach c x s -> Inv c s.
Proof. induction 1 as [|s s' _ IH [a Ha]]; [apply inv_init | eapply inv_step; eauto]. Qed.
