(* C09: no reachable non-final state of the repaired protocol is stuck; exit status; the refutation
   witness for the pinned tree. *)
From RJ Require Import Base.Prelude Model.Shutdown Proofs.ShutdownProofs Proofs.ShutdownInv.

Local Open Scope nat_scope.

Lemma can_send_false {A} c (w : A -> N) ch : fixed c = true -> can_send c w ch = false ->
  (cap c < qsum w (q ch))%N /\ rxa ch = true.
Proof.
  unfold can_send. intros -> H. apply orb_false_iff in H as [H1 H2]. cbn [andb] in H2.
  split; [lia | now destruct (rxa ch)].
Qed.

(* the control-traffic potentials never grow *)
Lemma pot_step c a s s' : next c a s = Some s' ->
  (cspot c s' <= cspot c s)%N /\ (rdpot c s' <= rdpot c s)%N.
Proof.
  intros H. unfold cspot, rdpot.
  assert (Z1 : (wdr c DErr <= zr c)%N) by (unfold zr; lia).
  assert (Z2 : (wdr c DEcho <= zr c)%N) by (unfold zr; lia).
  assert (Z3 : (wsc c SGet <= zs c)%N) by (unfold zs; lia).
  assert (Z4 : (wsc c SShut <= zs c)%N) by (unfold zs; lia).
  remember (zr c) as ZR. remember (zs c) as ZS. clear HeqZR HeqZS.
  open_state s. cases H a; unfold toks; proj;
  cbn [pend spd hand nchunks qsum length] in *;
  repeat rewrite ?qsum_app, ?app_length, ?chunks_len in *; unfold fchunks; rewrite ?chunks_len;
  cbn [qsum length fhd ftl] in *; split; try lia; try nia.
Qed.

Lemma reach_pot c x s : reach c x s ->
  (cspot c s <= cspot c (init x))%N /\ (rdpot c s <= rdpot c (init x))%N.
Proof.
  induction 1 as [|s s' _ [IH1 IH2] [a Ha]]; [split; lia|].
  destruct (pot_step _ _ _ _ Ha). split; lia.
Qed.

Lemma no_stuck_inv c s : fixed c = true -> Inv c s -> (cspot c s <= cap c)%N -> (rdpot c s <= cap c)%N ->
  final s = false -> exists a s', next c a s = Some s'.
Proof.
  intros Hf HI Hc Hr Hfin.
  destruct (next c ABoss s) eqn:EB; [eauto|].
  destruct (next c ASrc s) eqn:ES; [eauto|].
  destruct (next c ADest s) eqn:ED; [eauto|].
  exfalso.
  destruct HI as [[H1 H1'] [H2 H2'] H3 H4 H5 H6 H7].
  unfold cspot, rdpot in *.
  open_state s. unfold next in *; proj. rewrite Hfin in *.
  destruct p; try discriminate Hfin; unf; proj; cbn [mid] in *;
  repeat (bm EB; proj); try discriminate EB;
  repeat (bm ES; proj); try discriminate ES;
  repeat (bm ED; proj); try discriminate ED.
  all: repeat match goal with
       | H : can_send ?cc _ _ = false, Hf' : fixed ?cc = true |- _ => apply (can_send_false cc _ _ Hf') in H; destruct H; proj
       end.
  all: cbn [qsum running negb] in *; subst; try lia; try discriminate; try congruence.
  all: unfold toks in *; proj.
  all: repeat match goal with H : ?p = ?p -> _ |- _ => specialize (H eq_refl) end.
  all: repeat match goal with x : life |- _ => destruct x; cbn [running negb] in *; try discriminate; try lia end.
  all: repeat match goal with H : ?p = ?p -> _ |- _ => specialize (H eq_refl) end.
  all: repeat match goal with H : _ /\ _ |- _ => destruct H end.
  all: repeat match goal with H : ?p = ?p -> _ |- _ => specialize (H eq_refl) end.
  all: try discriminate; try congruence.
  all: repeat match goal with
       | H : _ \/ _ |- _ => destruct H
       | H : In _ [] |- _ => destruct H
       | H : [] ++ [] <> [] |- _ => exfalso; apply H; reflexivity
       | H : [] <> [] |- _ => exfalso; apply H; reflexivity
       end.
  all: try match goal with H : fixed ?cc = true -> _, Hf' : fixed ?cc = true |- _ => specialize (H Hf'); discriminate end.
Qed.

Theorem no_stuck c x s : fixed c = true -> ctl_ok c x -> reach c x s ->
  final s = true \/ exists s', step c s s'.
Proof.
  intros Hf [Hc Hr] Hs. destruct (final s) eqn:Hfin; [now left|right].
  destruct (reach_pot _ _ _ Hs) as [P1 P2].
  destruct (no_stuck_inv c s Hf (reach_inv _ _ _ Hs)) as (a & s' & Ha); try lia; auto.
  exists s'. now exists a.
Qed.

(* ------------------------------------------------------------------------------------------ *)
(* Exit status. *)
Definition exited (l : life) : bool := match l with ExitOk | ExitErr => true | _ => false end.
Definition EInv (s : st) : Prop :=
  (match pc (bo s) with BShutD | BJoinD => exited (slife (sd s)) = true | _ => True end) /\
  (pc (bo s) = BEnd ->
     (bexit (bo s) = 101%N /\ (is_dead (slife (sd s)) = true \/ is_dead (dlife (dd s)) = true)) \/
     (bexit (bo s) = (if berr (bo s) then 12%N else 0%N) /\ exited (slife (sd s)) = true /\ exited (dlife (dd s)) = true)).

Lemma einv_step c a s s' : EInv s -> next c a s = Some s' -> EInv s'.
Proof.
  intros [E1 E2] H. open_state s. unfold EInv in *. proj. cases H a; proj; cbn [exited is_dead running] in *.
  all: split; [ try exact I; try exact E1; try reflexivity | intros Hp; try discriminate Hp ].
  all: try (left; split; [reflexivity | auto]).
  all: try (right; repeat split; auto; fail).
  all: repeat match goal with x : life |- _ => destruct x; cbn [exited is_dead running negb andb] in *; try discriminate; auto end.
Qed.

Lemma reach_einv c x s : reach c x s -> EInv s.
Proof.
  induction 1 as [|s s' _ IH [a Ha]]; [split; [exact I | discriminate] | eapply einv_step; eauto].
Qed.

Lemma final_pc s : final s = true -> pc (bo s) = BEnd.
Proof. unfold final. destruct (pc (bo s)); try discriminate; reflexivity. Qed.

(* the boss reported a failed sync, or a doer thread died: the exit status is not zero *)
Theorem exit_nonzero c x s : reach c x s -> final s = true ->
  berr (bo s) = true \/ is_dead (slife (sd s)) = true \/ is_dead (dlife (dd s)) = true ->
  bexit (bo s) <> 0%N.
Proof.
  intros Hs Hf Hfault. destruct (reach_einv _ _ _ Hs) as [_ E]. specialize (E (final_pc _ Hf)).
  destruct E as [[E _]|(E & X1 & X2)]; [rewrite E; discriminate|].
  destruct Hfault as [Hb|[Hd|Hd]].
  - rewrite E, Hb. discriminate.
  - destruct (slife (sd s)); discriminate.
  - destruct (dlife (dd s)); discriminate.
Qed.

(* ... and otherwise it is zero *)
Theorem clean_exit_zero c x s : reach c x s -> final s = true ->
  berr (bo s) = false -> is_dead (slife (sd s)) = false -> is_dead (dlife (dd s)) = false ->
  bexit (bo s) = 0%N.
Proof.
  intros Hs Hf Hb H1 H2. destruct (reach_einv _ _ _ Hs) as [_ E]. specialize (E (final_pc _ Hf)).
  destruct E as [[_ [E|E]]|(E & _)]; try congruence. now rewrite E, Hb.
Qed.

(* ------------------------------------------------------------------------------------------ *)
(* The pinned tree (fixed = false): a destination error while the source's responses are above the
   capacity leaves the boss joining a doer that waits for capacity for ever. *)
Definition w_cfg (f : bool) : config :=
  mkCfg f 100%N (fun _ => 1%N) (fun r => match r with SChunk n _ => (n + 13)%N | SErr => 20%N end)
        (fun m => match m with DData n => (n + 50)%N | _ => 10%N end) (fun _ => 1%N).
Definition w_sc : scenario :=
  mkSc [0%N] [mkFile 600 100 [100; 100; 100; 100; 100]%N] [] [false; true] false false.
Definition w_order : list action := [ASrc; ABoss; ADest].

Theorem refuted_unfixed : exists c x s, fixed c = false /\ ctl_ok c x /\ reach c x s /\ stuck c s = true.
Proof.
  exists (w_cfg false), w_sc, (run_to_end (w_cfg false) w_order (init w_sc)).
  split; [reflexivity|]. split; [split; apply N.leb_le; vm_compute; reflexivity|].
  split; [apply run_prio_reach; constructor | vm_compute; reflexivity].
Qed.

(* the same scenario and schedule on the repaired tree: exit status 12 *)
Example repaired_witness :
  let s := run_to_end (w_cfg true) w_order (init w_sc) in
  final s = true /\ bexit (bo s) = 12%N /\ slife (sd s) = ExitErr.
Proof. vm_compute. repeat split. Qed.

Lemma stuck_sound c s : stuck c s = true -> final s = false /\ forall s', ~ step c s s'.
Proof.
  unfold stuck. intros H. apply andb_true_iff in H as [H1 H2]. split; [now destruct (final s)|].
  intros s' [a Ha]. rewrite forallb_forall in H2.
  assert (In a all_actions) by (destruct a; cbn; auto 10).
  specialize (H2 a H). rewrite Ha in H2. discriminate.
Qed.
