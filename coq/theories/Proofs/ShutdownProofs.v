(* Proofs about the shutdown protocol model (C09). *)
From RJ Require Import Base.Prelude Model.Shutdown.

Local Open Scope nat_scope.

(* ------------------------------------------------------------------------------------------ *)
(* case analysis over one transition *)
Ltac bm H := match type of H with context [match ?x with _ => _ end] => destruct x eqn:? end.
Ltac inv_some H := first [discriminate H | (injection H as H; subst)].
Ltac unf := unfold next, boss_step, src_step, dest_step, send_dest, after_file, s_exit, d_exit, with_bo, goto, bfail, bend,
   push, setq, drop_rx, drop_tx in *.
Ltac proj := cbn [bo sd dd cs rs cd rd pc bpre bfiles bexp boff berr bexit slife spend sfiles gplan skill
                  dlife dpend dplan dkill q rxa txa final] in *.

Lemma qsum_app {A} (w : A -> N) (l1 l2 : list A) : (qsum w (l1 ++ l2) = qsum w l1 + qsum w l2)%N.
Proof. induction l1 as [|x l IH]; cbn [qsum app]; [lia | rewrite IH; lia]. Qed.

Lemma chunks_len hd tl : length (chunks_from hd tl) = S (length tl).
Proof. revert hd; induction tl as [|x r IH]; intros hd; cbn [chunks_from length]; [reflexivity | now rewrite IH]. Qed.

Ltac open_state s :=
  destruct s as [[p bp bf be bof ber bex] [sl sp sf gp sk] [dl dp dpl dk] [qcs rcs tcs] [qrs rrs trs] [qcd rcd tcd] [qrd rrd trd]].
Ltac cases H a :=
  unfold next in H; proj; match goal with pp : bpc |- _ => destruct pp end; cbn [final pc bo] in H; try discriminate H;
  destruct a; unf; proj; repeat (bm H; proj); try discriminate H; inv_some H.

(* ------------------------------------------------------------------------------------------ *)
(* Termination: every step decreases mu, for both trees, every capacity, every scenario. *)
Lemma step_decreases c a s s' : next c a s = Some s' -> mu s' < mu s.
Proof.
  intros H. open_state s. cases H a;
  unfold mu; proj; cbn [pcw lw fsw fw running] in *;
  repeat rewrite ?app_length, ?chunks_len in *; cbn [length fchunks fhd ftl] in *;
  unfold fchunks, fw; cbn [fhd ftl]; rewrite ?chunks_len; try lia.
  all: try (destruct sl; cbn [running negb lw andb] in *; try discriminate; lia).
  all: try (destruct dl; cbn [running negb lw andb] in *; try discriminate; lia).
Qed.

Theorem terminates c s : Acc (fun a b => step c b a) s.
Proof. apply (well_founded_lt_compat _ mu). intros a b [x H]. eapply step_decreases; exact H. Qed.

(* ------------------------------------------------------------------------------------------ *)
(* Executable runs only visit reachable states. *)
Lemma run_sched_reach c x l : forall s, reach c x s -> reach c x (run_sched c s l).
Proof.
  induction l as [|a r IH]; intros s Hs; cbn [run_sched]; [exact Hs|].
  destruct (next c a s) as [s'|] eqn:E; [|now apply IH].
  apply IH. eapply reach_step; [exact Hs | exists a; exact E].
Qed.

Lemma first_enabled_step c s ord s' : first_enabled c s ord = Some s' -> step c s s'.
Proof.
  induction ord as [|a r IH]; cbn [first_enabled]; [discriminate|].
  destruct (next c a s) as [t|] eqn:E; [|exact IH].
  intros H; injection H as <-. now exists a.
Qed.

Lemma first_enabled_none c s ord : first_enabled c s ord = None -> forall a, In a ord -> next c a s = None.
Proof.
  induction ord as [|b r IH]; cbn [first_enabled]; [intros _ a []|].
  destruct (next c b s) as [t|] eqn:E; [discriminate|].
  intros H a [<-|Hin]; [exact E | now apply IH].
Qed.

Lemma run_prio_reach c x ord n : forall s, reach c x s -> reach c x (run_prio c n ord s).
Proof.
  induction n as [|n IH]; intros s Hs; cbn [run_prio]; [exact Hs|].
  destruct (first_enabled c s ord) as [s'|] eqn:E; [|exact Hs].
  apply IH. eapply reach_step; [exact Hs | eapply first_enabled_step; exact E].
Qed.

(* with fuel above the measure the priority run ends in a state where no action of the order is enabled *)
Lemma run_prio_quiescent c ord n : forall s, mu s < n ->
  forall a, In a ord -> next c a (run_prio c n ord s) = None.
Proof.
  induction n as [|n IH]; intros s Hlt; [lia|]. cbn [run_prio].
  destruct (first_enabled c s ord) as [s'|] eqn:E.
  - apply IH. destruct (first_enabled_step _ _ _ _ E) as [a Ha]. apply step_decreases in Ha. lia.
  - now apply first_enabled_none.
Qed.

Theorem run_sound c x ord : reach c x (run_to_end c ord (init x)) /\
  forall a, In a ord -> next c a (run_to_end c ord (init x)) = None.
Proof.
  split; [apply run_prio_reach; constructor | apply run_prio_quiescent; lia].
Qed.
