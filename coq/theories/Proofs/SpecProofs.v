(* A spec with several syncs (Model/SpecRun.v): exit status, what ran, what each sync achieved, what is left
   untouched - by composition of the single-sync theorems of the executable instance. *)
From RJ Require Import Base.Prelude Base.OrderedPlan Model.Settings Model.Core Model.Fs Model.Paths Model.Sync Model.SyncTop Model.SpecRun
  Spec.PlanSpec Spec.Mirror Proofs.ExecProofs Proofs.MirrorProofs Proofs.InstanceProofs Proofs.RepairMain Proofs.ConfineAll.

(* each started sync with the store it began with and its result *)
Fixpoint spec_trace (jobs : list job) (st : store) : list (job * store * result) :=
  match jobs with
  | [] => []
  | j :: rest =>
      let r := run_job j st in
      (j, st, r) :: (if r_ok r then spec_trace rest (sset st (j_dst j) (d_fs (r_dest r))) else [])
  end.
Definition t_job (t : job * store * result) : job := fst (fst t).
Definition t_store (t : job * store * result) : store := snd (fst t).
Definition t_res (t : job * store * result) : result := snd t.
Definition apply_t (s : store) (t : job * store * result) : store := sset s (j_dst (t_job t)) (d_fs (r_dest (t_res t))).

(* ---- the store ---- *)
Lemma sget_sset_eq st i f : sget (sset st i f) i = f.
Proof.
  induction st as [|[k g] st IH]; cbn [sset sget].
  - rewrite Nat.eqb_refl. reflexivity.
  - destruct (Nat.eqb i k) eqn:E; cbn [sget]; rewrite E; [reflexivity|exact IH].
Qed.
Lemma sget_sset_ne st i k f : i <> k -> sget (sset st k f) i = sget st i.
Proof.
  intros Hne. induction st as [|[k' g] st IH]; cbn [sset sget].
  - destruct (Nat.eqb i k) eqn:E; [apply Nat.eqb_eq in E; contradiction|reflexivity].
  - destruct (Nat.eqb k k') eqn:E; cbn [sget].
    + apply Nat.eqb_eq in E. subst k'. destruct (Nat.eqb i k) eqn:E2; [apply Nat.eqb_eq in E2; contradiction|reflexivity].
    + destruct (Nat.eqb i k'); [reflexivity|exact IH].
Qed.

(* ---- what ran ---- *)
Lemma runs_of_trace jobs : forall st, sp_runs (run_spec jobs st) = map t_res (spec_trace jobs st).
Proof.
  induction jobs as [|j rest IH]; intros st; cbn [run_spec spec_trace]; [reflexivity|].
  destruct (r_ok (run_job j st)); cbn [sp_runs map t_res snd]; [rewrite IH|]; reflexivity.
Qed.
Lemma store_of_trace jobs : forall st, sp_store (run_spec jobs st) = fold_left apply_t (spec_trace jobs st) st.
Proof.
  induction jobs as [|j rest IH]; intros st; cbn [run_spec spec_trace]; [reflexivity|].
  destruct (r_ok (run_job j st)); cbn [sp_store fold_left]; [rewrite IH|]; reflexivity.
Qed.
Lemma trace_jobs jobs : forall st, map t_job (spec_trace jobs st) = firstn (length (spec_trace jobs st)) jobs.
Proof.
  induction jobs as [|j rest IH]; intros st; cbn [spec_trace]; [reflexivity|].
  cbn [map length firstn t_job fst]. f_equal. destruct (r_ok (run_job j st)); [apply IH|reflexivity].
Qed.
Lemma trace_is_runs jobs : forall st, Forall (fun t => t_res t = run_job (t_job t) (t_store t)) (spec_trace jobs st).
Proof.
  induction jobs as [|j rest IH]; intros st; cbn [spec_trace]; constructor; [reflexivity|].
  destruct (r_ok (run_job j st)); [apply IH|constructor].
Qed.
(* consecutive stores: each sync begins where the one before it ended *)
Lemma trace_chain jobs : forall st pre t1 t2 post, spec_trace jobs st = pre ++ t1 :: t2 :: post ->
  t_store t2 = apply_t (t_store t1) t1 /\ r_ok (t_res t1) = true.
Proof.
  induction jobs as [|j rest IH]; intros st pre t1 t2 post E; cbn [spec_trace] in E; [destruct pre; discriminate|].
  destruct pre as [|t0 pre]; cbn [app] in E; inversion E as [[E1 E2]]; subst.
  - destruct (r_ok (run_job j st)) eqn:Eok; [|discriminate]. split; [|exact Eok].
    destruct rest as [|j2 rest]; cbn [spec_trace] in E2; inversion E2; subst. reflexivity.
  - destruct (r_ok (run_job j st)); [|destruct pre; discriminate]. exact (IH _ _ _ _ _ E2).
Qed.
Lemma trace_first jobs st t post : spec_trace jobs st = t :: post -> t_store t = st.
Proof. destruct jobs; cbn [spec_trace]; intros E; inversion E; reflexivity. Qed.

(* ---- exit status ---- *)
(* 0 exactly when every sync of the spec was started and returned Ok *)
Theorem spec_ok_iff jobs : forall st,
  sp_ok (run_spec jobs st) = true <->
  length (sp_runs (run_spec jobs st)) = length jobs /\ forallb r_ok (sp_runs (run_spec jobs st)) = true.
Proof.
  induction jobs as [|j rest IH]; intros st; cbn [run_spec]; [cbn; tauto|].
  destruct (r_ok (run_job j st)) eqn:Eok; cbn [sp_ok sp_runs length forallb].
  - rewrite Eok, IH. cbn [andb]. split; intros [H1 H2]; split; auto; lia.
  - rewrite Eok. cbn [andb]. split; [discriminate|intros [_ H]; discriminate].
Qed.
(* the first failing sync is the last one started; 12 exactly when there is one *)
Theorem spec_failure_is_last jobs : forall st,
  forallb r_ok (removelast (sp_runs (run_spec jobs st))) = true /\
  length (sp_runs (run_spec jobs st)) <= length jobs /\
  (sp_ok (run_spec jobs st) = false <-> exists r, last (sp_runs (run_spec jobs st)) r = r /\ r_ok r = false /\ sp_runs (run_spec jobs st) <> []).
Proof.
  induction jobs as [|j rest IH]; intros st; cbn [run_spec].
  - cbn. split; [reflexivity|]. split; [lia|]. split; [discriminate|intros (r & _ & _ & H); congruence].
  - destruct (r_ok (run_job j st)) eqn:Eok; cbn [sp_ok sp_runs].
    + destruct (IH (sset st (j_dst j) (d_fs (r_dest (run_job j st))))) as (I1 & I2 & I3).
      set (sr := run_spec rest _) in *. split; [|split].
      * destruct (sp_runs sr) as [|r0 l] eqn:El; [reflexivity|]. cbn [removelast]. cbn [forallb]. rewrite Eok. exact I1.
      * cbn [length]. lia.
      * rewrite I3. split.
        -- intros (r & Hl & Hr & Hne). exists r. split; [|split; [exact Hr|discriminate]].
           destruct (sp_runs sr) as [|r0 l]; [congruence|]. exact Hl.
        -- intros (r & Hl & Hr & _). destruct (sp_runs sr) as [|r0 l] eqn:El.
           ++ cbn in Hl. subst r. congruence.
           ++ exists r. split; [exact Hl|]. split; [exact Hr|discriminate].
    + split; [reflexivity|]. split; [cbn [length]; lia|]. split; [|reflexivity].
      intros _. exists (run_job j st). split; [reflexivity|]. split; [exact Eok|discriminate].
Qed.

(* ---- roots that are nobody's destination are never changed (C02 for a spec) ---- *)
Theorem spec_untouched jobs i : forall st,
  (forall j, In j jobs -> j_dst j <> i) -> sget (sp_store (run_spec jobs st)) i = sget st i.
Proof.
  induction jobs as [|j rest IH]; intros st H; cbn [run_spec]; [reflexivity|].
  assert (Hj : i <> j_dst j) by (intros E; apply (H j); [left; reflexivity|auto]).
  destruct (r_ok (run_job j st)); cbn [sp_store].
  - rewrite IH; [apply sget_sset_ne; exact Hj|]. intros j' Hj'. apply H. right. exact Hj'.
  - apply sget_sset_ne. exact Hj.
Qed.

(* ---- every tree stays a well-formed tree, whatever happens ---- *)
Definition store_ok (st : store) : Prop := forall i, wf_fs (sget st i) /\ unique_keys (sget st i).

Lemma run_top_wfu cfg S D a ans bits ex ft : unique_keys D -> wf_fs D ->
  wf_fs (d_fs (r_dest (run_top cfg S D a ans bits ex ft))) /\ unique_keys (d_fs (r_dest (run_top cfg S D a ans bits ex ft))).
Proof.
  intros Hu Hw.
  exact (proj2 (kill_states_well_formed cfg S D a [] ans bits (list_fs now_far (excl_incl ex) normalize_unix S)
                  (list_fs now_far (excl_incl ex) normalize_unix D) ft Hu Hw)).
Qed.

Lemma store_ok_step st j : store_ok st -> store_ok (sset st (j_dst j) (d_fs (r_dest (run_job j st)))).
Proof.
  intros H i. destruct (Nat.eq_dec i (j_dst j)) as [->|Hne].
  - rewrite sget_sset_eq. destruct (H (j_dst j)) as [Hw Hu]. apply run_top_wfu; assumption.
  - rewrite sget_sset_ne by exact Hne. apply H.
Qed.

Theorem spec_stores_ok jobs : forall st, store_ok st ->
  Forall (fun t => store_ok (t_store t)) (spec_trace jobs st) /\ store_ok (sp_store (run_spec jobs st)).
Proof.
  induction jobs as [|j rest IH]; intros st H; cbn [spec_trace run_spec]; [split; [constructor|exact H]|].
  pose proof (store_ok_step st j H) as H'.
  destruct (r_ok (run_job j st)); cbn [sp_store].
  - destruct (IH _ H') as [I1 I2]. split; [constructor; [exact H|exact I1]|exact I2].
  - split; [constructor; [exact H|constructor]|exact H'].
Qed.

(* ---- what each sync of the spec achieved (C01 / C02 for a spec) ---- *)
(* Every sync that was started: nothing went through a destination link; and if it returned Ok without skips
   (no dry run, Unix destination), its destination tree then mirrored its source tree - as these two trees were
   when it began, i.e. including everything earlier syncs of the spec wrote. *)
Theorem spec_each_sync jobs st : store_ok st ->
  Forall (fun t =>
    let j := t_job t in let S := sget (t_store t) (j_src j) in let D := sget (t_store t) (j_dst j) in
    no_through (d_events (r_dest (t_res t))) /\
    (src_times_set S -> links_utf8 S ->
     r_ok (t_res t) = true -> r_skipped (t_res t) = [] -> r_root_skipped (t_res t) = false ->
     cf_dry (j_cfg j) = false -> cf_fl (j_cfg j) = Unix ->
     mirror now_far (excl_incl (j_ex j)) normalize_unix (cf_diff (j_cfg j)) Unix S D (d_fs (r_dest (t_res t)))))
    (spec_trace jobs st).
Proof.
  intros Hok. destruct (spec_stores_ok jobs st Hok) as [Hst _].
  pose proof (trace_is_runs jobs st) as Hr.
  rewrite Forall_forall in *. intros t Ht. specialize (Hst t Ht). specialize (Hr t Ht). cbv zeta.
  rewrite Hr. unfold run_job.
  destruct (Hst (j_src (t_job t))) as [HwS HuS]. destruct (Hst (j_dst (t_job t))) as [HwD HuD].
  split.
  - apply run_top_never_through; assumption.
  - intros Hts Hlk Hk Hsk Hrs Hdry Hfl. apply run_top_mirror_unconditional; assumption.
Qed.

(* ---- and what is there at the end ---- *)
Lemma fold_untouched (l : list (job * store * result)) i : forall s,
  (forall t, In t l -> j_dst (t_job t) <> i) -> sget (fold_left apply_t l s) i = sget s i.
Proof.
  induction l as [|t l IH]; intros s H; cbn [fold_left]; [reflexivity|].
  rewrite IH; [|intros t' Ht'; apply H; right; exact Ht'].
  unfold apply_t. apply sget_sset_ne. intros E. apply (H t); [left; reflexivity|auto].
Qed.

Lemma fold_app_store jobs : forall st pre t post, spec_trace jobs st = pre ++ t :: post ->
  fold_left apply_t pre st = t_store t.
Proof.
  intros st pre. revert jobs st. induction pre as [|t0 pre IH]; intros jobs st t post E; cbn [fold_left app] in *.
  - symmetry. exact (trace_first jobs st t post E).
  - destruct jobs as [|j rest]; cbn [spec_trace] in E; [discriminate|]. inversion E as [[E1 E2]]. subst t0.
    destruct (r_ok (run_job j st)); [|destruct pre; discriminate].
    unfold apply_t at 2. cbn [t_job t_res fst snd]. exact (IH _ _ _ _ E2).
Qed.

(* If no later sync of the spec writes to the destination or the source of a sync, then at the end of the
   run these two roots hold exactly what that sync left / read. *)
Theorem spec_final_trees jobs st pre t post :
  spec_trace jobs st = pre ++ t :: post ->
  j_src (t_job t) <> j_dst (t_job t) ->
  (forall t', In t' post -> j_dst (t_job t') <> j_dst (t_job t) /\ j_dst (t_job t') <> j_src (t_job t)) ->
  sget (sp_store (run_spec jobs st)) (j_dst (t_job t)) = d_fs (r_dest (t_res t)) /\
  sget (sp_store (run_spec jobs st)) (j_src (t_job t)) = sget (t_store t) (j_src (t_job t)).
Proof.
  intros E Hne Hpost. rewrite store_of_trace, E, fold_left_app. cbn [fold_left].
  rewrite (fold_app_store jobs st pre t post E).
  split.
  - rewrite fold_untouched by (intros t' Ht'; apply (Hpost t' Ht')). unfold apply_t. apply sget_sset_eq.
  - rewrite fold_untouched by (intros t' Ht'; apply (Hpost t' Ht')). unfold apply_t. apply sget_sset_ne. exact Hne.
Qed.

(* ---- chains (A -> B, then B -> C): a mirrored destination is fit to be the next sync's source ---- *)
Lemma mirror_keeps_times_set incl diff S D D' :
  mirror now_far incl normalize_unix diff Unix S D D' -> src_times_set S -> src_times_set D -> src_times_set D'.
Proof.
  intros HM HS HD p m d E. destruct (HM p) as [H1 H2].
  assert (Hdec : forall f, {takes_part incl f p /\ fget f p <> None} + {~ (takes_part incl f p /\ fget f p <> None)}).
  { intros f. destruct (fget f p) as [n|] eqn:Ef; [|right; intros [_ H]; congruence].
    unfold takes_part. destruct p as [|c p'].
    - left. split; [left; reflexivity|discriminate].
    - destruct (fget f []) as [[| |]|] eqn:Er; try (right; intros [[H|[H _]] _]; congruence).
      destruct (visible incl f (c :: p')) eqn:Ev; [left; split; [right; split; [reflexivity|reflexivity]|discriminate]|].
      right. intros [[H|[_ H]] _]; congruence. }
  destruct (Hdec S) as [HS1|HS1]; [|destruct (Hdec D) as [HD1|HD1]].
  - specialize (H1 (or_introl HS1)). unfold mirror_at in H1.
    destruct (fget S p) as [[ms bs| |t k]|] eqn:ES.
    + destruct H1 as [H1|(b0 & m0 & ED & _ & H1)].
      * rewrite H1 in E. inversion E; subst. exact (HS p m d ES).
      * rewrite H1, ED in E. inversion E; subst. exact (HD p m d ED).
    + congruence.
    + destruct H1 as (t' & k' & H1 & _). congruence.
    + congruence.
  - specialize (H1 (or_intror HD1)). unfold mirror_at in H1.
    destruct (fget S p) as [[ms bs| |t k]|] eqn:ES.
    + destruct H1 as [H1|(b0 & m0 & ED & _ & H1)].
      * rewrite H1 in E. inversion E; subst. exact (HS p m d ES).
      * rewrite H1, ED in E. inversion E; subst. exact (HD p m d ED).
    + congruence.
    + destruct H1 as (t' & k' & H1 & _). congruence.
    + congruence.
  - rewrite (H2 HS1 HD1) in E. exact (HD p m d E).
Qed.

(* ---- running the whole spec again (C04 for a spec) ---- *)
From RJ Require Import Proofs.IdemProofs Proofs.IdemMain Proofs.ConfinedMain Proofs.CrashMain.

(* run_top_twice with an arbitrary second ancestor state *)
Lemma run_top_again cfg S D a ans bits ex ft a2 ans2 bits2 ft2 :
  unique_keys S -> wf_fs S -> unique_keys D -> wf_fs D -> src_times_set S -> links_utf8 S ->
  let r := run_top cfg S D a ans bits ex ft in
  r_ok r = true -> r_skipped r = [] -> r_root_skipped r = false -> cf_dry cfg = false -> cf_fl cfg = Unix ->
  b_same (cf_b cfg) = BSkip ->
  let r2 := run_top cfg S (d_fs (r_dest r)) a2 ans2 bits2 ex ft2 in
  r_ok r2 = true /\ d_fs (r_dest r2) = d_fs (r_dest r) /\ filter mutating (r_dest_trace r2) = [] /\
  (forall p, ~ In (CGetFileContent p) (r_src_trace r2)) /\ r_prompts r2 = [] /\ stats_nothing (r_stats r2) = true.
Proof.
  intros HuS HwS HuD HwD Hts Hlk. cbv zeta. intros Hok Hsk Hrs Hdry Hfl Hsame.
  pose proof (run_top_never_through cfg S D a ans bits ex ft HuS HwS HuD HwD) as Hnt.
  destruct (run_top_wfu cfg S D a ans bits ex ft HuD HwD) as [Hw' Hu'].
  set (r := run_top cfg S D a ans bits ex ft) in *.
  destruct (sync_twice_from now_far (excl_incl ex) normalize_unix chunk_real chunk_real_ok Unix
              cfg S (world D a []) ans bits _ _ ft (world (d_fs (r_dest r)) a2 []) ans2 bits2
              (list_fs now_far (excl_incl ex) normalize_unix (d_fs (r_dest r))) ft2
              (list_fs_valid now_far (excl_incl ex) normalize_unix S HuS HwS)
              (list_fs_valid now_far (excl_incl ex) normalize_unix D HuD HwD)
              HwS HwD Hts (links_utf8_roundtrip S Hlk) eq_refl Hok Hsk Hrs Hdry Hnt Hfl Hsame eq_refl
              (list_fs_valid now_far (excl_incl ex) normalize_unix (d_fs (r_dest r)) Hu' Hw'))
    as (T1 & T2 & T3 & T4 & T5 & T6).
  unfold run_top. repeat split; try assumption. rewrite T2. reflexivity.
Qed.

(* a sync that does nothing: Ok, no mutating command, no content fetched, no prompt, "Nothing to do" *)
Definition quiet (r : result) : Prop :=
  r_ok r = true /\ filter mutating (r_dest_trace r) = [] /\ (forall p, ~ In (CGetFileContent p) (r_src_trace r)) /\
  r_prompts r = [] /\ stats_nothing (r_stats r) = true.

(* job j is settled in store F: run on F it is quiet and leaves its destination as it is *)
Definition settled (F : store) (j : job) : Prop :=
  quiet (run_job j F) /\ d_fs (r_dest (run_job j F)) = sget F (j_dst j).

Lemma run_job_ext j st st' : (forall i, sget st i = sget st' i) -> run_job j st = run_job j st'.
Proof. intros H. unfold run_job. rewrite !H. reflexivity. Qed.

Lemma settled_spec_noop jobs F : (forall j, In j jobs -> settled F j) ->
  forall st, (forall i, sget st i = sget F i) ->
  sp_ok (run_spec jobs st) = true /\ (forall i, sget (sp_store (run_spec jobs st)) i = sget F i) /\
  length (sp_runs (run_spec jobs st)) = length jobs /\ Forall quiet (sp_runs (run_spec jobs st)).
Proof.
  induction jobs as [|j rest IH]; intros Hs st Hext; cbn [run_spec].
  - cbn. repeat split; auto.
  - destruct (Hs j (or_introl eq_refl)) as [Hq Hd].
    rewrite (run_job_ext j st F Hext). destruct Hq as (Hok & Hq). rewrite Hok.
    assert (Hext' : forall i, sget (sset st (j_dst j) (d_fs (r_dest (run_job j F)))) i = sget F i).
    { intros i. destruct (Nat.eq_dec i (j_dst j)) as [->|Hne]; [rewrite sget_sset_eq; exact Hd|rewrite sget_sset_ne by exact Hne; apply Hext]. }
    destruct (IH (fun j' H => Hs j' (or_intror H)) _ Hext') as (I1 & I2 & I3 & I4).
    cbn [sp_ok sp_store sp_runs length]. repeat split; auto. constructor; [split; assumption|exact I4].
Qed.

(* Running the spec a second time does nothing: if the first run exited 0, every sync of it ran without skips
   (no dry run, Unix destination, same-time files skipped), each source had set times and well-formed link texts
   when it was read, and no sync writes to the destination or the source of an EARLIER sync of the spec (all
   destinations distinct; a destination may be the source of a later sync: A -> B, B -> C) - then run again on the
   trees the first run left, every sync returns Ok, sends no mutating command, fetches no content, asks nothing and
   reports "Nothing to do"; the status is 0 and every tree is as it was. *)
Theorem spec_twice jobs st :
  store_ok st ->
  sp_ok (run_spec jobs st) = true ->
  Forall (fun t => let j := t_job t in let S := sget (t_store t) (j_src j) in
            src_times_set S /\ links_utf8 S /\ j_src j <> j_dst j /\
            r_skipped (t_res t) = [] /\ r_root_skipped (t_res t) = false /\
            cf_dry (j_cfg j) = false /\ cf_fl (j_cfg j) = Unix /\ b_same (cf_b (j_cfg j)) = BSkip) (spec_trace jobs st) ->
  (forall pre t post, spec_trace jobs st = pre ++ t :: post ->
     forall t', In t' post -> j_dst (t_job t') <> j_dst (t_job t) /\ j_dst (t_job t') <> j_src (t_job t)) ->
  let F := sp_store (run_spec jobs st) in
  sp_ok (run_spec jobs F) = true /\ (forall i, sget (sp_store (run_spec jobs F)) i = sget F i) /\
  length (sp_runs (run_spec jobs F)) = length jobs /\ Forall quiet (sp_runs (run_spec jobs F)).
Proof.
  intros Hst Hok Hall Hni F.
  apply settled_spec_noop; [|reflexivity].
  (* every job of the spec was started (exit 0), so it is in the trace *)
  destruct (proj1 (spec_ok_iff jobs st) Hok) as [Hlen Hoks].
  rewrite runs_of_trace, map_length in Hlen.
  pose proof (trace_jobs jobs st) as Hj. rewrite Hlen, firstn_all in Hj.
  intros j Hin. rewrite <- Hj in Hin. apply in_map_iff in Hin as (t & <- & Ht).
  apply in_split in Ht as (pre & post & E).
  rewrite Forall_forall in Hall. specialize (Hall t). rewrite E in Hall. specialize (Hall (in_elt t pre post)). cbv zeta in Hall.
  destruct Hall as (Hts & Hlk & Hne & Hsk & Hrs & Hdry & Hfl & Hsame).
  destruct (spec_final_trees jobs st pre t post E Hne (Hni pre t post E)) as [Fd Fs].
  fold F in Fd, Fs.
  destruct (spec_stores_ok jobs st Hst) as [Hsts _]. rewrite Forall_forall in Hsts.
  assert (Htin : In t (spec_trace jobs st)) by (rewrite E; apply in_elt).
  specialize (Hsts t Htin).
  pose proof (trace_is_runs jobs st) as Hr. rewrite Forall_forall in Hr. specialize (Hr t Htin).
  assert (Hokt : r_ok (t_res t) = true).
  { rewrite runs_of_trace in Hoks. rewrite forallb_forall in Hoks. apply Hoks. apply in_map. exact Htin. }
  destruct (Hsts (j_src (t_job t))) as [HwS HuS]. destruct (Hsts (j_dst (t_job t))) as [HwD HuD].
  unfold run_job in Hr. rewrite Hr in Hsk, Hrs, Hokt, Fd.
  destruct (run_top_again (j_cfg (t_job t)) _ _ (j_anc (t_job t)) (j_ans (t_job t)) (j_bits (t_job t)) (j_ex (t_job t)) (j_ft (t_job t))
              (j_anc (t_job t)) (j_ans (t_job t)) (j_bits (t_job t)) (j_ft (t_job t))
              HuS HwS HuD HwD Hts Hlk Hokt Hsk Hrs Hdry Hfl Hsame) as (T1 & T2 & T3 & T4 & T5 & T6).
  unfold settled, quiet, run_job. rewrite Fs, Fd. repeat split; assumption.
Qed.

(* ---- chains, closed: nothing is assumed about the trees in the middle of the run ---- *)
From RJ Require Import Proofs.LinkTexts.

Definition store_good (st : store) : Prop :=
  forall i, wf_fs (sget st i) /\ unique_keys (sget st i) /\ src_times_set (sget st i) /\ links_utf8 (sget st i).

Definition clean_run (t : job * store * result) : Prop :=
  r_skipped (t_res t) = [] /\ r_root_skipped (t_res t) = false /\ cf_dry (j_cfg (t_job t)) = false /\ cf_fl (j_cfg (t_job t)) = Unix.

(* If all trees are good at the start (well-formed, all times set, all link texts well-formed UTF-8) and no sync of
   the spec skips anything (no dry run, Unix destinations), then EVERY sync that returns Ok mirrors its source as it
   was when that sync began - however many earlier syncs had written it - and every store along the way is good. *)
Theorem spec_chain_mirrors jobs : forall st, store_good st ->
  Forall clean_run (spec_trace jobs st) ->
  Forall (fun t =>
    let j := t_job t in let S := sget (t_store t) (j_src j) in let D := sget (t_store t) (j_dst j) in
    store_good (t_store t) /\
    (r_ok (t_res t) = true ->
     mirror now_far (excl_incl (j_ex j)) normalize_unix (cf_diff (j_cfg j)) Unix S D (d_fs (r_dest (t_res t)))))
    (spec_trace jobs st).
Proof.
  induction jobs as [|j rest IH]; intros st Hg Hclean; cbn [spec_trace] in *; [constructor|].
  inversion Hclean as [|t0 l0 Hc0 Hrest]; subst.
  destruct Hc0 as (Hsk & Hrs & Hdry & Hfl). cbn [t_res t_job fst snd] in Hsk, Hrs, Hdry, Hfl.
  destruct (Hg (j_src j)) as (HwS & HuS & HtS & HlS). destruct (Hg (j_dst j)) as (HwD & HuD & HtD & HlD).
  assert (Hm : r_ok (run_job j st) = true ->
               mirror now_far (excl_incl (j_ex j)) normalize_unix (cf_diff (j_cfg j)) Unix (sget st (j_src j)) (sget st (j_dst j))
                      (d_fs (r_dest (run_job j st)))).
  { intros Hok. unfold run_job in *. apply run_top_mirror_unconditional; assumption. }
  constructor; [cbn [t_res t_job t_store fst snd]; split; [exact Hg|exact Hm]|].
  destruct (r_ok (run_job j st)) eqn:Eok; [|constructor].
  apply IH; [|exact Hrest].
  intros i. destruct (Nat.eq_dec i (j_dst j)) as [->|Hne].
  - rewrite sget_sset_eq. unfold run_job in *.
    destruct (run_top_wfu (j_cfg j) (sget st (j_src j)) (sget st (j_dst j)) (j_anc j) (j_ans j) (j_bits j) (j_ex j) (j_ft j) HuD HwD) as [Hw' Hu'].
    split; [exact Hw'|]. split; [exact Hu'|]. split.
    + eapply mirror_keeps_times_set; [apply Hm; reflexivity|exact HtS|exact HtD].
    + apply (proj2 (run_top_keeps_links_utf8 (j_cfg j) _ _ (j_anc j) (j_ans j) (j_bits j) (j_ex j) (j_ft j) HuS HwS HuD HwD HlS HlD Hfl)).
  - rewrite sget_sset_ne by exact Hne. apply Hg.
Qed.
