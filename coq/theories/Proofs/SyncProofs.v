(* Facts about the whole-sync model: frame property of a run, what a failed confirmation leaves behind,
   prompts precede every change. *)
From RJ Require Import Base.Prelude Base.OrderedPlan Model.Settings Model.Core Model.Fs Model.Sync
  Spec.PlanSpec Proofs.PlanCProofs Proofs.FsProofs Proofs.ConfirmProofs.

Section SyncFacts.
Variable now_z : N -> Z.
Variable normalize : str -> target.
Variable chunker : str -> list str.

Notation sync_one := (sync_one now_z normalize chunker).
Notation entry_of := (entry_of now_z normalize).

(* ---- one boss step ---- *)
Lemma do_step_sent fl ft r s :
  exists l, rs_sent (do_step fl ft r s) = rs_sent r ++ l /\
    (forall p, (forall c, In c l -> cmd_path c <> Some p) ->
       fget (d_fs (rs_d (do_step fl ft r s))) p = fget (d_fs (rs_d r)) p) /\
    (forall c, In c l -> s = DestCmd c).
Proof.
  unfold do_step. destruct s as [c|p0].
  - destruct (mutating c && match ft_stop ft with Some n => Nat.leb n (rs_mut r) | None => false end) eqn:Estop.
    { exists []. cbn [fst snd rs_sent rs_d]. rewrite app_nil_r. repeat split; auto; try (intros ? []). }
    exists [c].
    destruct (mutating c && negb (is_chunk c) && mem_nat (rs_mut r) (ft_dest ft)) eqn:Einj; cbn [fst snd].
    + cbn [rs_sent rs_d]. split; [reflexivity|]. split; [|intros c' [<-|[]]; reflexivity].
      intros p _. destruct c; reflexivity.
    + destruct (doer_exec fl (rs_d r) c) as [d' err] eqn:E. cbn [fst snd].
      destruct err; cbn [rs_sent rs_d]; repeat split; auto;
        try (intros p Hp; eapply doer_exec_frame; eauto; apply Hp; left; reflexivity);
        intros c' [<-|[]]; reflexivity.
  - exists []. cbn [rs_sent rs_d]. rewrite app_nil_r. repeat split; auto; try (intros ? []).
Qed.

Lemma run_step_sent fl ft r s :
  exists l, rs_sent (run_step fl ft r s) = rs_sent r ++ l /\
    (forall p, (forall c, In c l -> cmd_path c <> Some p) ->
       fget (d_fs (rs_d (run_step fl ft r s))) p = fget (d_fs (rs_d r)) p) /\
    (forall c, In c l -> s = DestCmd c).
Proof.
  unfold run_step.
  assert (Hnil : exists l, rs_sent r = rs_sent r ++ l /\
            (forall p, (forall c, In c l -> cmd_path c <> Some p) -> fget (d_fs (rs_d r)) p = fget (d_fs (rs_d r)) p) /\
            (forall c, In c l -> s = DestCmd c)).
  { exists []. rewrite app_nil_r. repeat split; auto; try (intros ? []). }
  destruct (rs_srcfail r); [exact Hnil|].
  destruct (rs_budget r) as [[|n]|]; [exact Hnil| apply do_step_sent | apply do_step_sent].
Qed.

Lemma run_steps_sent fl ft steps : forall r,
  exists l, rs_sent (run_steps fl ft r steps) = rs_sent r ++ l /\
    (forall p, (forall c, In c l -> cmd_path c <> Some p) ->
       fget (d_fs (rs_d (run_steps fl ft r steps))) p = fget (d_fs (rs_d r)) p) /\
    (forall c, In c l -> In (DestCmd c) steps).
Proof.
  induction steps as [|s steps IH]; intros r; cbn [run_steps fold_left].
  - exists []. rewrite app_nil_r. repeat split; auto; try (intros ? []).
  - destruct (run_step_sent fl ft r s) as (l1 & E1 & F1 & S1).
    destruct (IH (run_step fl ft r s)) as (l2 & E2 & F2 & S2).
    exists (l1 ++ l2). unfold run_steps in *. rewrite E2, E1, app_assoc. repeat split; auto.
    + intros p Hp. rewrite F2, F1; auto; intros c Hc; apply Hp; apply in_or_app; auto.
    + intros c Hc. apply in_app_or in Hc as [Hc|Hc]; [left; rewrite (S1 c Hc); reflexivity | right; apply S2; auto].
Qed.

(* ---- the frame property of a whole sync: a destination path that no sent command names is unchanged ---- *)
Theorem sync_frame cfg S D ans bits ls ld ft p :
  let r := sync_one cfg S D ans bits ls ld ft in
  (forall c, In c (r_dest_trace r) -> cmd_path c <> Some p) ->
  fget (d_fs (r_dest r)) p = fget (d_fs D) p.
Proof.
  cbv zeta. unfold Sync.sync_one.
  destruct (fget S []) as [sn|]; [|intros; reflexivity].
  match goal with |- context [match ?g with inl _ => _ | inr _ => _ end] => destruct g as [[ans1 np1]|[[|] np]] end;
    try (intros; reflexivity).
  set (pre := match option_map entry_of (fget (d_fs D) []) with
              | Some _ => [] | None => if cf_dry cfg then [] else [DestCmd CCreateRootAncestors] end).
  set (r0 := mkR D _ _ [] false 0 0 None).
  destruct (run_steps_sent (cf_fl cfg) ft pre r0) as (l1 & E1 & F1 & _).
  match goal with |- context [actions_of ?d ?s ?a] => destruct (actions_of d s a) as [acts|] end.
  2:{ cbn [fail_result r_dest r_dest_trace]. intros Hp. rewrite F1; [reflexivity|].
      intros c Hc. apply Hp. rewrite E1. apply in_or_app; auto. }
  match goal with |- context [confirm ?b ?a ?x] => destruct (confirm b a x) as [|acts' skipped b2 a2 np2] end.
  - cbn [r_dest r_dest_trace]. intros Hp. rewrite F1; [reflexivity|].
    intros c Hc. apply Hp. rewrite E1. apply in_or_app; auto.
  - destruct (cf_dry cfg).
    + cbn [r_dest r_dest_trace]. intros Hp. rewrite F1; [reflexivity|].
      intros c Hc. apply Hp. rewrite E1. apply in_or_app; auto.
    + cbn [r_dest r_dest_trace].
      destruct (run_steps_sent (cf_fl cfg) ft (exec_steps chunker S acts') (run_steps (cf_fl cfg) ft r0 pre)) as (l2 & E2 & F2 & _).
      intros Hp. rewrite F2, F1; [reflexivity| |].
      * intros c Hc. apply Hp. rewrite E2, E1. apply in_or_app; left; apply in_or_app; auto.
      * intros c Hc. apply Hp. rewrite E2. apply in_or_app; auto.
Qed.

(* ---- a sync that fails in the decision phase has changed nothing ---- *)
Lemma interleave_nil_r bits ls : interleave bits ls [] = map (fun e => FromSrc path entry (fst e) (snd e)) ls.
Proof. destruct bits as [|[|] bs], ls as [|e ls]; reflexivity. Qed.

Lemma srcs_map_src (ls : listing) : srcs path entry (map (fun e => FromSrc path entry (fst e) (snd e)) ls) = ls.
Proof. induction ls as [|[p e] ls IH]; cbn; [reflexivity|]. f_equal. exact IH. Qed.
Lemma dests_map_src (ls : listing) : dests path entry (map (fun e => FromSrc path entry (fst e) (snd e)) ls) = [].
Proof. induction ls as [|[p e] ls IH]; cbn; auto. Qed.

Lemma srcs_cons_src p e l : srcs path entry (FromSrc path entry p e :: l) = (p, e) :: srcs path entry l.
Proof. reflexivity. Qed.
Lemma dests_cons_src p e l : dests path entry (FromSrc path entry p e :: l) = dests path entry l.
Proof. reflexivity. Qed.

Lemma copy_dec_nil diff ss e : copy_dec diff ss [] e = [(fst e, (snd e, NotOnDest))].
Proof. destruct e; reflexivity. Qed.

Lemma plan_no_dest diff ss (Ls : listing) :
  a_delete (plan_spec diff ss Ls []) = [] /\
  Forall (fun e => snd (snd e) = NotOnDest) (a_copy (plan_spec diff ss Ls [])).
Proof.
  split; [reflexivity|]. cbn [plan_spec a_copy].
  induction Ls as [|e Ls IH]; cbn [flat_map]; [constructor|].
  rewrite copy_dec_nil. constructor; [reflexivity|exact IH].
Qed.

Definition decision_failure (r : result) : Prop :=
  r_ok r = false /\ r_errs r = [] /\ r_src_failed r = false /\ r_panic r = false.

Theorem decision_failure_is_clean cfg S D ans bits ls ld ft :
  NoDup (lkeys ls) -> ~ In [] (lkeys ls) ->
  let r := sync_one cfg S D ans bits ls ld ft in
  r_confirm_failed r = true ->
  r_ok r = false /\ d_fs (r_dest r) = d_fs D /\ filter mutating (r_dest_trace r) = [].
Proof.
  intros Hnd Hroot. cbv zeta. unfold Sync.sync_one.
  destruct (fget S []) as [sn|]; [|cbn; discriminate].
  match goal with |- context [match ?g with inl _ => _ | inr _ => _ end] => destruct g as [[ans1 np1]|[[|] np]] end;
    try (cbn; discriminate).
  destruct (fget (d_fs D) []) as [dn|] eqn:ED; cbn [option_map].
  - (* destination root exists: nothing is sent before the confirmation *)
    cbn [run_steps fold_left].
    match goal with |- context [actions_of ?d ?s ?a] => destruct (actions_of d s a) as [acts|] end; [|cbn; discriminate].
    match goal with |- context [confirm ?b ?a ?x] => destruct (confirm b a x) as [|acts' skipped b2 a2 np2] end.
    + cbn [r_confirm_failed r_ok r_dest r_dest_trace rs_d rs_sent]. intros _. repeat split.
      destruct (entry_of dn); reflexivity.
    + destruct (cf_dry cfg); cbn; discriminate.
  - (* destination root absent: the plan only creates, so the confirmation cannot fail *)
    rewrite interleave_nil_r.
    match goal with |- context [actions_of ?d ?s ?a] => pose proof (actions_of_spec d s a) as HA end.
    cbn [app] in HA. rewrite srcs_cons_src, dests_cons_src, srcs_map_src, dests_map_src in HA.
    assert (HS : forall (l1 : listing), l1 ++ [] = l1) by (intros; apply app_nil_r).
    cbn [app]. rewrite HA.
    2:{ destruct (entry_of sn); cbn [lkeys map fst];
        (constructor; [first [exact Hroot | intros []] | first [exact Hnd | constructor]]). }
    2:{ cbn. constructor. }
    match goal with |- context [plan_spec ?d ?s ?a ?b] => destruct (plan_no_dest d s a) as [Hd Hc] end.
    rewrite confirm_new_only by assumption.
    destruct (cf_dry cfg); cbn; discriminate.
Qed.

(* Every prompt is answered before the first mutating command: a prompt can only occur when the
   destination root exists, and then nothing is sent to the destination before the confirmation
   pass is over (CreateRootAncestors is only sent for an absent root). *)
Theorem prompts_need_dest_root cfg S D ans bits ls ld ft :
  NoDup (lkeys ls) -> ~ In [] (lkeys ls) ->
  fget (d_fs D) [] = None ->
  r_prompts (sync_one cfg S D ans bits ls ld ft) = [].
Proof.
  intros Hnd Hroot ED. unfold Sync.sync_one.
  destruct (fget S []) as [sn|]; [|reflexivity].
  rewrite ED. cbn [option_map].
  rewrite interleave_nil_r.
  match goal with |- context [actions_of ?d ?s ?a] => pose proof (actions_of_spec d s a) as HA end.
  cbn [app] in HA. rewrite srcs_cons_src, dests_cons_src, srcs_map_src, dests_map_src in HA.
  cbn [app]. rewrite HA.
  2:{ destruct (entry_of sn); cbn [lkeys map fst];
      (constructor; [first [exact Hroot | intros []] | first [exact Hnd | constructor]]). }
  2:{ cbn. constructor. }
  match goal with |- context [plan_spec ?d ?s ?a ?b] => destruct (plan_no_dest d s a) as [Hd Hc] end.
  rewrite confirm_new_only by assumption.
  destruct (cf_dry cfg); reflexivity.
Qed.

Theorem nothing_sent_before_confirmation cfg S D ans bits ls ld ft dn :
  fget (d_fs D) [] = Some dn ->
  let r := sync_one cfg S D ans bits ls ld ft in
  r_confirm_failed r = true \/ r_root_skipped r = true \/ cf_dry cfg = true ->
  filter mutating (r_dest_trace r) = [].
Proof.
  intros ED. cbv zeta. unfold Sync.sync_one.
  destruct (fget S []) as [sn|]; [|reflexivity].
  match goal with |- context [match ?g with inl _ => _ | inr _ => _ end] => destruct g as [[ans1 np1]|[[|] np]] end;
    try reflexivity.
  rewrite ED. cbn [option_map run_steps fold_left].
  match goal with |- context [actions_of ?d ?s ?a] => destruct (actions_of d s a) as [acts|] end; [|intros; destruct (entry_of dn); reflexivity].
  match goal with |- context [confirm ?b ?a ?x] => destruct (confirm b a x) as [|acts' skipped b2 a2 np2] end.
  - intros _. destruct (entry_of dn); reflexivity.
  - destruct (cf_dry cfg) eqn:Edry.
    + intros _. destruct (entry_of dn); reflexivity.
    + cbn [r_confirm_failed r_root_skipped]. intros [H|[H|H]]; discriminate.
Qed.

End SyncFacts.
