(* C13 at the level of the whole sync: the complete result of a sync - exit status, destination state, both
   command traces, prompts, statistics - is the same for every interleaving of the two listing streams. *)
From RJ Require Import Base.Prelude Base.OrderedPlan Model.Settings Model.Core Model.Fs Model.Sync
  Spec.PlanSpec Spec.Mirror Proofs.PlanCProofs Proofs.SyncProofs Proofs.MirrorProofs.

Section Timing.
Variable now_z : N -> Z.
Variable incl : path -> bool.
Variable normalize : str -> target.
Variable chunker : str -> list str.
Notation valid_listing := (valid_listing now_z incl normalize).
Notation side_listing := (side_listing now_z normalize).
Notation sync_one := (sync_one now_z normalize chunker).
Notation entry_of := (entry_of now_z normalize).

Theorem sync_independent_of_interleaving cfg S D ans ls ld ft bits1 bits2 :
  valid_listing S ls -> valid_listing (d_fs D) ld ->
  sync_one cfg S D ans bits1 ls ld ft = sync_one cfg S D ans bits2 ls ld ft.
Proof.
  intros HvS HvD. unfold Sync.sync_one.
  destruct (side_listing_spec now_z incl normalize S ls HvS) as (HndS & _ & _).
  destruct (side_listing_spec now_z incl normalize (d_fs D) ld HvD) as (HndD & _ & _).
  unfold Mirror.side_listing in HndS, HndD.
  destruct (fget S []) as [sn|] eqn:ErS; [|reflexivity].
  match goal with |- context [match ?g with inl _ => _ | inr _ => _ end] => destruct g as [[ans1 np1]|[[|] np]] end; try reflexivity.
  assert (Hproj : forall bits,
    let arr := FromSrc path entry [] (entry_of sn) ::
               match option_map entry_of (fget (d_fs D) []) with Some d => [FromDest path entry [] d] | None => [] end ++
               interleave bits (match entry_of sn with EFolder => ls | _ => [] end)
                               (match option_map entry_of (fget (d_fs D) []) with Some EFolder => ld | _ => [] end) in
    srcs path entry arr = ([], entry_of sn) :: match sn with NFolder => ls | _ => [] end /\
    dests path entry arr = match fget (d_fs D) [] with Some n => ([], entry_of n) :: match n with NFolder => ld | _ => [] end | None => [] end).
  { intros bits. cbv zeta. split.
    - rewrite srcs_cons_src. f_equal. rewrite srcs_app_c.
      match goal with |- context [interleave bits ?a ?b] => destruct (interleave_projections bits a b) as [I1 _]; rewrite I1 end.
      destruct (option_map entry_of (fget (d_fs D) [])); cbn; destruct sn; reflexivity.
    - rewrite dests_cons_src, dests_app_c.
      match goal with |- context [interleave bits ?a ?b] => destruct (interleave_projections bits a b) as [_ I2]; rewrite I2 end.
      destruct (fget (d_fs D) []) as [[| |]|]; reflexivity. }
  destruct (Hproj bits1) as [S1 D1]. destruct (Hproj bits2) as [S2 D2]. cbv zeta in *.
  match goal with |- context [actions_of ?d ?s (FromSrc path entry [] (entry_of sn) :: ?m ++ interleave bits1 ?a ?b)] =>
    rewrite (interleaving_independent d s (FromSrc path entry [] (entry_of sn) :: m ++ interleave bits1 a b)
                                          (FromSrc path entry [] (entry_of sn) :: m ++ interleave bits2 a b)) end.
  - reflexivity.
  - rewrite S1, S2. reflexivity.
  - rewrite D1, D2. reflexivity.
  - rewrite S1. exact HndS.
  - rewrite D1. exact HndD.
Qed.
End Timing.
