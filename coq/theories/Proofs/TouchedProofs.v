(* C07, last clause: after ANY run - successful, failed, or killed at any instant - every destination path
   is as it was, or as one of the plan's commands for that very path makes it (gone, a folder, the planned
   link, the complete source file with its time), or a partly written file that carries the time of its
   last write; nothing else has been touched.  Instance 2 of Proofs/CrashProofs.gplan_safe. *)
From RJ Require Import Base.Prelude Base.OrderedPlan Model.Settings Model.Core Model.Fs Model.Sync
  Proofs.FsProofs Proofs.ExecProofs Proofs.CrashProofs Proofs.CrashMain.

Definition is_delete (c : cmd) : Prop :=
  match c with CDeleteFile _ | CDeleteFolder _ | CDeleteSymlink _ _ => True | _ => False end.

(* what a single non-chunk command can do to any path q *)
Lemma nonchunk_effect fl st c : is_chunk c = false -> forall q,
  fget (d_fs (fst (doer_exec fl st c))) q = fget (d_fs st) q \/
  (cmd_path c = Some q /\
   ((fget (d_fs (fst (doer_exec fl st c))) q = None /\ is_delete c) \/
    (fget (d_fs (fst (doer_exec fl st c))) q = Some NFolder /\ c = CCreateFolder q) \/
    (exists k t, c = CCreateSymlink q k t /\ fget (d_fs (fst (doer_exec fl st c))) q = Some (NLink (denormalize fl t) k)))).
Proof.
  intros Hc q. destruct (doer_exec fl st c) as [st' e] eqn:H. cbn [fst].
  destruct c; try discriminate Hc; cbn [doer_exec] in H;
    repeat (break_match_hyp H; try discriminate); inv_pair H; dsimpl; try (left; reflexivity);
    match goal with
    | |- fget (fset _ ?p _) q = _ \/ _ =>
        destruct (path_eq_dec q p) as [->|Hne];
          [right; split; [reflexivity|]; rewrite fget_fset_eq | left; apply fget_fset_ne; exact Hne]
    | |- fget (fdel _ ?p) q = _ \/ _ =>
        destruct (path_eq_dec q p) as [->|Hne];
          [right; split; [reflexivity|]; rewrite fget_fdel_eq | left; apply fget_fdel_ne; exact Hne]
    end;
    try (left; split; [reflexivity|exact I]);
    try (right; left; split; reflexivity);
    try (right; right; eexists; eexists; split; reflexivity).
Qed.

Section Touched.
Variable fl : flavour.
Variable ft : faults.
Variable S : fs.
Variable D0 : fs.
Variable okc : cmd -> Prop.
Variable okf : path -> Z -> Prop.

Definition Touched (st : dstate) : Prop := forall q,
  fget (d_fs st) q = fget D0 q \/
  (fget (d_fs st) q = None /\ exists c, okc c /\ is_delete c /\ cmd_path c = Some q) \/
  (fget (d_fs st) q = Some NFolder /\ okc (CCreateFolder q)) \/
  (exists k t, fget (d_fs st) q = Some (NLink (denormalize fl t) k) /\ okc (CCreateSymlink q k t)) \/
  (exists k d mt, fget (d_fs st) q = Some (NFile (TNow k) d) /\ okf q mt) \/
  (exists mt full m, fget (d_fs st) q = Some (NFile (TSet mt) full) /\ fget S q = Some (NFile m full) /\ okf q mt).

Lemma touched_cmd st c : okc c -> is_chunk c = false -> Touched st -> Touched (fst (doer_exec fl st c)).
Proof.
  intros Hok Hc HT q.
  destruct (nonchunk_effect fl st c Hc q) as [Hsame|(Hp & [(Hn & Hd)|[(Hn & ->)|(k & t & -> & Hn)]])].
  - rewrite Hsame. apply HT.
  - right; left. split; [exact Hn|]. exists c. auto.
  - right; right; left. split; [exact Hn|exact Hok].
  - right; right; right; left. exists k, t. split; [exact Hn|exact Hok].
Qed.

Lemma touched_file st p mt full m s :
  okf p mt -> fget S p = Some (NFile m full) -> Touched st ->
  safe p mt full (fget (d_fs st) p) (d_fs st) s -> Touched s.
Proof.
  intros Hok HS HT [Hfr Hp] q. destruct (path_eq_dec q p) as [->|Hne].
  - destruct Hp as [Hp|[(k & dd & Hp)|Hp]].
    + rewrite Hp. apply HT.
    + right; right; right; right; left. exists k, dd, mt. split; [exact Hp|exact Hok].
    + right; right; right; right; right. exists mt, full, m. repeat split; assumption.
  - rewrite (Hfr q Hne). apply HT.
Qed.

Theorem touched_safe steps : gplan_ok S okc okf steps -> forall r, GJ ft Touched r ->
  (forall s, In s (steps_states fl ft r steps) -> no_through (d_events s) -> Touched s) /\ GJ ft Touched (run_steps fl ft r steps).
Proof.
  intros Hp r HJ. apply (gplan_safe fl ft S Touched okc okf); [| | |exact Hp|exact HJ].
  - intros st st' E HT q. rewrite E. apply HT.
  - intros st c Hok Hc HT. apply touched_cmd; assumption.
  - intros st p mt full m s Hok HS HT Hs. eapply touched_file; eauto.
Qed.

End Touched.

(* the commands and files "of the plan" read off a step list *)
Definition cmd_of_plan (whole : list bstep) (c : cmd) : Prop := In (DestCmd c) whole.
Definition file_of_plan (whole : list bstep) (p : path) (mt : Z) : Prop :=
  exists d smt more, In (DestCmd (CCreateOrUpdateFile p d smt more)) whole.

Lemma chunk_cmds_head p mt chunks : chunks <> [] ->
  exists d smt more rest, chunk_cmds p mt chunks = DestCmd (CCreateOrUpdateFile p d smt more) :: rest.
Proof.
  destruct chunks as [|c [|c2 r]]; [congruence| |]; intros _.
  - exists c, (Some mt), false, []. reflexivity.
  - exists c, None, true, (chunk_cmds p mt (c2 :: r)). reflexivity.
Qed.

Lemma plan_ok_of_whole S steps : plan_ok S steps -> forall whole, incl steps whole ->
  gplan_ok S (cmd_of_plan whole) (file_of_plan whole) steps.
Proof.
  unfold plan_ok.
  induction 1 as [|c rest Hc _ Hrest IH|q rest Hrest IH|p mt chunks m rest Hne HS _ Hrest IH]; intros whole Hin.
  - apply pk_nil.
  - apply pk_cmd; [exact Hc|apply Hin; left; reflexivity|apply IH; intros x Hx; apply Hin; right; exact Hx].
  - apply pk_fetch. apply IH. intros x Hx. apply Hin. right; exact Hx.
  - eapply pk_file; [exact Hne|exact HS| |apply IH; intros x Hx; apply Hin; apply in_or_app; right; exact Hx].
    destruct (chunk_cmds_head p mt chunks Hne) as (d & smt & more & r & E).
    exists d, smt, more. apply Hin. rewrite E. left; reflexivity.
Qed.

(* ---- the whole sync ---- *)
Section SyncTouched.
Variable now_z : N -> Z.
Variable normalize : str -> target.
Variable chunker : str -> list str.
Hypothesis chunker_ok : forall d, chunker d <> [] /\ concat (chunker d) = d.
Notation sync_one := (sync_one now_z normalize chunker).
Notation sync_plan := (sync_plan now_z normalize chunker).

Theorem only_planned_changes cfg S D ans bits ls ld ft :
  d_open D = None ->
  let steps := snd (sync_plan cfg S D ans bits ls ld) in
  let T := Touched (cf_fl cfg) S (d_fs D) (cmd_of_plan steps) (file_of_plan steps) in
  (forall s, In s (sync_kill_states now_z normalize chunker cfg S D ans bits ls ld ft) -> no_through (d_events s) -> T s) /\
  (no_through (d_events (r_dest (sync_one cfg S D ans bits ls ld ft))) -> T (r_dest (sync_one cfg S D ans bits ls ld ft))).
Proof.
  intros Ho steps T.
  assert (Hplan : gplan_ok S (cmd_of_plan steps) (file_of_plan steps) steps).
  { apply plan_ok_of_whole; [apply (sync_plan_ok now_z normalize chunker chunker_ok)|apply incl_refl]. }
  assert (HJ : GJ ft T (fst (sync_plan cfg S D ans bits ls ld))).
  { intros _. rewrite (sync_plan_start now_z normalize chunker). split; [intros q; left; reflexivity|left; exact Ho]. }
  destruct (touched_safe (cf_fl cfg) ft S (d_fs D) _ _ steps Hplan _ HJ) as [G1 G2].
  split; [exact G1|]. intros Hnt. rewrite (sync_one_runs_plan now_z normalize chunker) in *. apply G2. exact Hnt.
Qed.

End SyncTouched.
