(* RootRelativePath::is_same_or_inside, regenerated from the SOURCE TEXT of root_relative_path.rs on every run
   (Gen/FactsTransPath.v, tools/rs2coq.py), is the component-wise prefix test of the model:

     trans_same_or_inside_value   on the strings of two well-formed paths, whenever it returns, it returns  Core.is_prefix other self
     trans_same_or_inside_total   and for paths whose strings are well-formed UTF-8 it never panics (the slice is on a character boundary)

   The code works on ONE string per path (components joined with '/'), the model on component lists: this file is the bridge.
   [T_is_spec] is the only lemma that looks at the generated text (generic case analysis). *)
From RJ Require Import Base.Prelude Model.Core Model.Fs Model.Paths Model.TransSupport Model.RelPath Gen.FactsTransPath.
From RJ Require Import Proofs.PathsProofs Proofs.Utf8Join.
Local Open Scope char_scope.

Definition spec_sois (s o : str) : tres bool :=
  if str_is_empty o || str_eqb s o then TVal true
  else if str_starts_with o s then
    match str_skip (str_len o) s with None => TPanic | Some r => TVal (str_starts_with_char "/" r) end
  else TVal false.

Lemma T_is_spec : forall s o, T_is_same_or_inside s o = spec_sois s o.
Proof.
  intros s o. unfold T_is_same_or_inside, spec_sois.
  repeat match goal with
         | |- context [if ?c then _ else _] => destruct c eqn:?
         | |- context [match ?c with None => _ | Some _ => _ end] => destruct c eqn:?
         end; try reflexivity; try congruence;
  repeat match goal with
         | H : orb _ _ = _ |- _ => rewrite ?orb_true_iff, ?orb_false_iff in H
         | H : andb _ _ = _ |- _ => rewrite ?andb_true_iff, ?andb_false_iff in H
         end; try (intuition congruence).
Qed.

(* ---------------------------------------------------------------------------------------------- strings *)
Lemma starts_with_app : forall p s, str_starts_with p s = true <-> exists r, s = p ++ r.
Proof.
  induction p as [|x p IH]; intros s; cbn [str_starts_with].
  - split; [intros _; exists s; reflexivity|reflexivity].
  - destruct s as [|y s]; [split; [discriminate|intros [r H]; discriminate]|].
    rewrite andb_true_iff, Ascii.eqb_eq, IH. split.
    + intros [E [r H]]. subst. exists r. reflexivity.
    + intros [r H]. inversion H; subst. split; [reflexivity|exists r; reflexivity].
Qed.

Lemma skip_app : forall p r, str_skip (length p) (p ++ r) =
  match r with [] => Some [] | c :: _ => if cont c then None else Some r end.
Proof. induction p as [|x p IH]; intros r; cbn [length app str_skip]; [destruct r; reflexivity|apply IH]. Qed.

Definition noslash (n : str) : Prop := ~ In "/" n.

Lemma split_at_slash : forall x y r1 r2, noslash x -> noslash y -> x ++ "/" :: r1 = y ++ "/" :: r2 -> x = y /\ r1 = r2.
Proof.
  induction x as [|c x IH]; intros [|d y] r1 r2 Hx Hy H; cbn [app] in H.
  - inversion H. split; reflexivity.
  - inversion H; subst. exfalso. apply Hy. left. reflexivity.
  - inversion H; subst. exfalso. apply Hx. left. reflexivity.
  - inversion H; subst. destruct (IH y r1 r2) as [E1 E2]; [intros I; apply Hx; right; exact I|intros I; apply Hy; right; exact I|assumption|].
    subst. split; reflexivity.
Qed.

Lemma noslash_no_split : forall x y r, noslash x -> x = y ++ "/" :: r -> False.
Proof. intros x y r Hx E. apply Hx. rewrite E. apply in_or_app. right. left. reflexivity. Qed.

Lemma render_cons : forall x r, render (x :: r) = match r with [] => x | _ => x ++ "/" :: render r end.
Proof. intros x [|y r]; reflexivity. Qed.

Lemma render_nonempty : forall x r, x <> [] -> render (x :: r) <> [].
Proof. intros x r Hx. rewrite render_cons. destruct r; [exact Hx|]. destruct x; [contradiction|discriminate]. Qed.

Lemma render_inj : forall a b, Forall wf_name a -> Forall wf_name b -> render a = render b -> a = b.
Proof.
  induction a as [|x a IH]; intros [|y b] Ha Hb E.
  - reflexivity.
  - inversion Hb as [|? ? [Hy _] _]; subst. exfalso. symmetry in E. exact (render_nonempty y b Hy E).
  - inversion Ha as [|? ? [Hx _] _]; subst. exfalso. exact (render_nonempty x a Hx E).
  - inversion Ha as [|? ? [Hx Sx] Ha']; inversion Hb as [|? ? [Hy Sy] Hb']; subst.
    rewrite !render_cons in E. destruct a as [|x2 a], b as [|y2 b].
    + subst. reflexivity.
    + exfalso. exact (noslash_no_split _ _ _ Sx E).
    + exfalso. symmetry in E. exact (noslash_no_split _ _ _ Sy E).
    + destruct (split_at_slash _ _ _ _ Sx Sy E) as [E1 E2]. subst. f_equal. apply IH; assumption.
Qed.

Lemma is_prefix_refl : forall a, is_prefix a a = true.
Proof. induction a as [|x a IH]; cbn [is_prefix]; [reflexivity|]. destruct (str_eq_dec x x); [exact IH|contradiction]. Qed.

(* a strict component-wise prefix shows in the strings as  render b ++ "/" ++ something *)
Lemma prefix_to_string : forall b a, b <> [] -> is_prefix b a = true -> a <> b -> exists r, render a = render b ++ "/" :: r.
Proof.
  induction b as [|x b IH]; intros a Hb Hp Hne; [contradiction|].
  destruct a as [|y a]; cbn [is_prefix] in Hp; [discriminate|].
  destruct (str_eq_dec x y) as [E|]; [subst y|discriminate].
  destruct b as [|x2 b].
  - destruct a as [|y2 a]; [contradiction|]. exists (render (y2 :: a)). rewrite render_cons. reflexivity.
  - destruct a as [|y2 a]; [cbn [is_prefix] in Hp; discriminate|].
    destruct (IH (y2 :: a)) as [r Hr]; [discriminate|exact Hp|intros E; apply Hne; rewrite E; reflexivity|].
    exists r. rewrite (render_cons x (y2 :: a)), (render_cons x (x2 :: b)), Hr, <- app_assoc. reflexivity.
Qed.

Lemma string_to_prefix : forall b a r, Forall wf_name a -> Forall wf_name b -> b <> [] ->
  render a = render b ++ "/" :: r -> is_prefix b a = true.
Proof.
  induction b as [|x b IH]; intros a r Ha Hb Hne E; [contradiction|].
  inversion Hb as [|? ? [Hx Sx] Hb']; subst.
  destruct a as [|y a].
  - exfalso. destruct (render (x :: b)); discriminate E.
  - inversion Ha as [|? ? [Hy Sy] Ha']; subst. rewrite (render_cons y a) in E. rewrite (render_cons x b) in E.
    destruct b as [|x2 b].
    + destruct a as [|y2 a].
      * exfalso. exact (noslash_no_split _ _ _ Sy E).
      * destruct (split_at_slash _ _ _ _ Sy Sx E) as [E1 _]. subst. cbn [is_prefix]. destruct (str_eq_dec x x); [reflexivity|contradiction].
    + rewrite <- app_assoc in E. cbn [app] in E. destruct a as [|y2 a].
      * exfalso. exact (noslash_no_split _ _ _ Sy E).
      * destruct (split_at_slash _ _ _ _ Sy Sx E) as [E1 E2]. subst. cbn [is_prefix]. destruct (str_eq_dec x x); [|contradiction].
        apply (IH (y2 :: a) r); [assumption|assumption|discriminate|exact E2].
Qed.

(* ---------------------------------------------------------------------------------------------- the value *)
Theorem spec_same_or_inside_value : forall a b v, Forall wf_name a -> Forall wf_name b ->
  spec_sois (render a) (render b) = TVal v -> v = is_prefix b a.
Proof.
  intros a b v Ha Hb. unfold spec_sois.
  destruct b as [|x b].
  { cbn. intros H. inversion H. destruct a; reflexivity. }
  assert (Hne : render (x :: b) <> []).
  { inversion Hb as [|? ? [Hx _] _]; subst. apply render_nonempty. exact Hx. }
  assert (Hemp : str_is_empty (render (x :: b)) = false) by (destruct (render (x :: b)); [contradiction|reflexivity]).
  rewrite Hemp. cbn [orb].
  destruct (str_eqb (render a) (render (x :: b))) eqn:Heq.
  { apply str_eqb_eq in Heq. apply render_inj in Heq; [|assumption|assumption]. subst a.
    intros H. inversion H. symmetry. apply is_prefix_refl. }
  assert (Hab : a <> x :: b).
  { intros E. subst a. assert (X : str_eqb (render (x :: b)) (render (x :: b)) = true) by (apply str_eqb_eq; reflexivity). congruence. }
  destruct (str_starts_with (render (x :: b)) (render a)) eqn:Hsw.
  - apply starts_with_app in Hsw as [rest Hrest]. unfold str_len. rewrite Hrest, skip_app.
    destruct rest as [|c rest].
    { exfalso. rewrite app_nil_r in Hrest. assert (X : str_eqb (render a) (render (x :: b)) = true) by (apply str_eqb_eq; exact Hrest). congruence. }
    destruct (cont c); [discriminate|]. intros H. inversion H. cbn [str_starts_with_char].
    destruct (Ascii.eqb_spec c "/") as [Ec|Ec].
    + subst c. symmetry. apply (string_to_prefix (x :: b) a rest); [assumption|assumption|discriminate|exact Hrest].
    + destruct (is_prefix (x :: b) a) eqn:Hp; [|reflexivity].
      exfalso. destruct (prefix_to_string (x :: b) a) as [r Hr]; [discriminate|exact Hp|exact Hab|].
      rewrite Hrest in Hr. apply app_inv_head in Hr. inversion Hr. contradiction.
  - intros H. inversion H. destruct (is_prefix (x :: b) a) eqn:Hp; [|reflexivity].
    exfalso. destruct (prefix_to_string (x :: b) a) as [r Hr]; [discriminate|exact Hp|exact Hab|].
    assert (X : str_starts_with (render (x :: b)) (render a) = true) by (apply starts_with_app; exists ("/" :: r); exact Hr). congruence.
Qed.

Theorem trans_same_or_inside_value : forall a b v, Forall wf_name a -> Forall wf_name b ->
  T_is_same_or_inside (render a) (render b) = TVal v -> v = is_prefix b a.
Proof. intros a b v Ha Hb. rewrite T_is_spec. apply spec_same_or_inside_value; assumption. Qed.

(* ---------------------------------------------------------------------------------------------- no panic *)
(* In a well-formed UTF-8 string that begins with a well-formed UTF-8 string, the byte after that prefix starts a character. *)
Lemma boundary_after_valid_prefix : forall f p c r, length (p ++ c :: r) < f ->
  utf8_valid_fuel f (p ++ c :: r) = true -> utf8_valid_fuel f p = true -> cont c = false.
Proof.
  induction f as [|f IH]; intros p c r Hl Hv Hp; [lia|].
  destruct p as [|c0 p]; cbn [app] in *; cbn [utf8_valid_fuel] in Hv.
  - unfold cont. destruct (Nat.leb (b c) 127) eqn:E1.
    { apply Nat.leb_le in E1. destruct (Nat.leb 128 (b c)) eqn:E2; [apply Nat.leb_le in E2; lia|reflexivity]. }
    destruct (Nat.leb 194 (b c) && Nat.leb (b c) 223) eqn:E2.
    { apply andb_true_iff in E2 as [E2 _]. apply Nat.leb_le in E2. destruct (Nat.leb (b c) 191) eqn:E3; [apply Nat.leb_le in E3; lia|]. apply andb_false_r. }
    destruct (Nat.leb 224 (b c) && Nat.leb (b c) 239) eqn:E3.
    { apply andb_true_iff in E3 as [E3 _]. apply Nat.leb_le in E3. destruct (Nat.leb (b c) 191) eqn:E4; [apply Nat.leb_le in E4; lia|]. apply andb_false_r. }
    destruct (Nat.leb 240 (b c) && Nat.leb (b c) 244) eqn:E4; [|discriminate].
    apply andb_true_iff in E4 as [E4 _]. apply Nat.leb_le in E4. destruct (Nat.leb (b c) 191) eqn:E5; [apply Nat.leb_le in E5; lia|]. apply andb_false_r.
  - cbn [utf8_valid_fuel] in Hp. cbn [length] in Hl.
    destruct (Nat.leb (b c0) 127); [apply (IH p c r); [lia|exact Hv|exact Hp]|].
    destruct (Nat.leb 194 (b c0) && Nat.leb (b c0) 223).
    { destruct p as [|c1 p]; [discriminate|]. cbn [app] in Hv. apply andb_true_iff in Hv as [_ Hv]. apply andb_true_iff in Hp as [_ Hp].
      apply (IH p c r); [cbn [length app] in Hl; lia|exact Hv|exact Hp]. }
    destruct (Nat.leb 224 (b c0) && Nat.leb (b c0) 239).
    { destruct p as [|c1 [|c2 p]]; try discriminate. cbn [app] in Hv. apply andb_true_iff in Hv as [_ Hv]. apply andb_true_iff in Hp as [_ Hp].
      apply (IH p c r); [cbn [length app] in Hl; lia|exact Hv|exact Hp]. }
    destruct (Nat.leb 240 (b c0) && Nat.leb (b c0) 244); [|discriminate].
    destruct p as [|c1 [|c2 [|c3 p]]]; try discriminate. cbn [app] in Hv. apply andb_true_iff in Hv as [_ Hv]. apply andb_true_iff in Hp as [_ Hp].
    apply (IH p c r); [cbn [length app] in Hl; lia|exact Hv|exact Hp].
Qed.

Theorem spec_same_or_inside_total : forall s o, utf8_valid s = true -> utf8_valid o = true -> spec_sois s o <> TPanic.
Proof.
  intros s o Hs Ho. unfold spec_sois.
  destruct (str_is_empty o || str_eqb s o); [discriminate|].
  destruct (str_starts_with o s) eqn:Hsw; [|discriminate].
  apply starts_with_app in Hsw as [rest Hrest]. unfold str_len. subst s. rewrite skip_app.
  destruct rest as [|c rest]; [discriminate|].
  assert (Hc : cont c = false).
  { unfold utf8_valid in Hs, Ho. apply (boundary_after_valid_prefix (S (length (o ++ c :: rest))) o c rest); [lia|exact Hs|].
    rewrite (fuel_irrel _ (S (length o)) o); [exact Ho| |]; rewrite ?app_length; cbn [length]; lia. }
  rewrite Hc. discriminate.
Qed.

Theorem trans_same_or_inside_total : forall s o, utf8_valid s = true -> utf8_valid o = true -> T_is_same_or_inside s o <> TPanic.
Proof. intros s o Hs Ho. rewrite T_is_spec. apply spec_same_or_inside_total; assumption. Qed.

(* both together, for paths: *)
Theorem trans_same_or_inside : forall a b, Forall wf_name a -> Forall wf_name b ->
  utf8_valid (render a) = true -> utf8_valid (render b) = true ->
  T_is_same_or_inside (render a) (render b) = TVal (is_prefix b a).
Proof.
  intros a b Ha Hb Ua Ub. destruct (T_is_same_or_inside (render a) (render b)) as [v|] eqn:E.
  - f_equal. apply (trans_same_or_inside_value a b v Ha Hb E).
  - exfalso. exact (trans_same_or_inside_total _ _ Ua Ub E).
Qed.

From Coq Require Import String.
Local Open Scope list_scope.
(* a slice that is NOT guarded by the prefix test does panic: why the order of the operands matters *)
Example unguarded_slice_panics : str_skip 1 (list_ascii_of_string "é") = None /\ str_skip 5 (list_ascii_of_string "abc") = None.
Proof. vm_compute. split; reflexivity. Qed.

Example same_or_inside_examples :
  let p s := map list_ascii_of_string s in
  T_is_same_or_inside (render (p ["a"; "b"]%string)) (render (p ["a"]%string)) = TVal true /\
  T_is_same_or_inside (render (p ["ab"]%string)) (render (p ["a"]%string)) = TVal false /\
  T_is_same_or_inside (render (p ["a"]%string)) (render (p ["a"; "b"]%string)) = TVal false /\
  T_is_same_or_inside (render (p ["x"; "y"]%string)) (render (p []%string)) = TVal true /\
  T_is_same_or_inside (render (p ["été"; "b"]%string)) (render (p ["ét"]%string)) = TVal false.
Proof. vm_compute. repeat split; reflexivity. Qed.

Print Assumptions trans_same_or_inside_value.
Print Assumptions trans_same_or_inside_total.
Print Assumptions trans_same_or_inside.
