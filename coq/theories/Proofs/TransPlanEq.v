(* The Gallina text regenerated from the SOURCE of boss_sync.rs on every run (Gen/FactsTransPlan.v, written by
   tools/rs2coq.py) is equal to the hand-written model, for all arguments:

     trans_needs_delete      T_needs_delete       = Core.needs_delete
     trans_needs_copy        T_needs_copy         = Core.needs_copy  (and panics exactly on file-vs-non-file, which needs_delete excludes)
     trans_process_src/dest  T_process_*_entry    = OrderedPlan.process_src / process_dest  on the abstracted state
     trans_plan              folding the translated steps over ANY arrival sequence = Core.plan_c
     trans_plan_deterministic   hence the characterisation of C13 holds of the translated source itself

   The proofs are generic case analyses (they do not mention the shape of the generated text), so a
   behaviour-preserving edit of the Rust functions inside the translator's subset keeps them; an edit that changes
   what is decided, or the order of the ordered-map operations where it matters, breaks them. *)
From RJ Require Import Base.Prelude Base.OrderedPlan Model.Settings Model.Core Model.TransSupport Gen.FactsTransPlan.
From RJ Require Import Proofs.PlanCProofs.
From Coq Require Import String.

Ltac split_ifs :=
  repeat match goal with
         | |- context [if ?c then _ else _] => destruct c eqn:?
         | |- context [match ?c with Eq => _ | Lt => _ | Gt => _ end] => destruct c eqn:?
         end.

Theorem trans_needs_delete : forall s d diff, T_needs_delete s d diff = TVal (needs_delete diff s d).
Proof.
  intros s d diff. unfold T_needs_delete, needs_delete.
  destruct s as [ms zs| |ks ts], d as [md zd| |kd td]; try reflexivity;
  cbn; destruct (target_eqb ts td), (skind_eqb ks kd), diff; reflexivity.
Qed.

Definition needs_copy_defined (s d : entry) : bool :=
  match s, d with EFile _ _, EFile _ _ | EFolder, _ | ESymlink _ _, _ => true | _, _ => false end.

Theorem trans_needs_copy_total : forall b p s d,
  T_needs_copy b p s d = if needs_copy_defined s d then TVal (needs_copy (beh_eqb b BSkip) s d) else TPanic.
Proof.
  intros b p s d. unfold T_needs_copy, needs_copy, needs_copy_defined, time_cmp.
  destruct s as [ms zs| |ks ts], d as [md zd| |kd td]; try reflexivity;
  cbn; destruct (Z.compare ms md); try reflexivity; destruct (beh_eqb b BSkip); reflexivity.
Qed.

Lemma needs_delete_false_defined : forall diff s d, needs_delete diff s d = false -> needs_copy_defined s d = true.
Proof. intros diff s d. destruct s, d; cbn; congruence. Qed.

Theorem trans_needs_copy : forall b p s d diff, needs_delete diff s d = false ->
  T_needs_copy b p s d = TVal (needs_copy (beh_eqb b BSkip) s d).
Proof. intros b p s d diff H. rewrite trans_needs_copy_total, (needs_delete_false_defined _ _ _ H). reflexivity. Qed.

(* ------------------------------------------------------------------------------------------ the planner steps *)
Definition abs (se de : tmap entry) (td : tmap (entry * dreason)) (tc : tmap (entry * creason)) : pstate_t :=
  {| src_seen := omp path entry se; dest_seen := omp path entry de; to_del := td; to_cp := tc |}.

Definition nd (diff : bool) := needs_delete diff.
Definition nc (b : beh) := needs_copy (beh_eqb b BSkip).

Ltac prove_src b p s se de diff td tc :=
  unfold T_process_src_entry, process_src, abs, nd, nc, t_lookup, t_update, t_add, t_remove;
  cbn [src_seen dest_seen to_del to_cp];
  destruct (alookup path path_eq_dec p (omp path entry de)) as [d|] eqn:Hl; [|reflexivity];
  try rewrite trans_needs_delete;
  destruct (needs_delete diff s d) eqn:Hnd;
  [ destruct (oupdate path path_eq_dec p (d, Incompatible) td); reflexivity
  | try rewrite (trans_needs_copy b p s d diff Hnd);
    destruct (needs_copy (beh_eqb b BSkip) s d); reflexivity ].

Theorem trans_process_src : forall b p s se de diff td tc,
  T_process_src_entry b p s se de diff td tc =
  match process_src path path_eq_dec entry (nd diff) (nc b) p s (abs se de td tc) with
  | Some st => TVal (t_add p s se, to_del path entry st, to_cp path entry st)
  | None => TPanic end.
Proof. intros b p s se de diff td tc. first [ reflexivity | prove_src b p s se de diff td tc ]. Qed.

Ltac prove_dest b p d se de diff td tc :=
  unfold T_process_dest_entry, process_dest, abs, nd, nc, t_lookup, t_update, t_add, t_remove;
  cbn [src_seen dest_seen to_del to_cp];
  destruct (alookup path path_eq_dec p (omp path entry se)) as [s|] eqn:Hl; [|reflexivity];
  try rewrite trans_needs_delete;
  destruct (needs_delete diff s d) eqn:Hnd; [reflexivity|];
  try rewrite (trans_needs_copy b p s d diff Hnd);
  destruct (needs_copy (beh_eqb b BSkip) s d) as [r|]; [|reflexivity];
  destruct (oupdate path path_eq_dec p (s, r) tc); reflexivity.

Theorem trans_process_dest : forall b p d se de diff td tc,
  T_process_dest_entry b p d se de diff td tc =
  match process_dest path path_eq_dec entry (nd diff) (nc b) p d (abs se de td tc) with
  | Some st => TVal (t_add p d de, to_del path entry st, to_cp path entry st)
  | None => TPanic end.
Proof. intros b p d se de diff td tc. first [ reflexivity | prove_dest b p d se de diff td tc ]. Qed.

(* ------------------------------------------------------------------------------------------ the whole planner *)
Definition tstate : Type := tmap entry * tmap entry * tmap (entry * dreason) * tmap (entry * creason).

Definition T_step (b : beh) (diff : bool) (st : tres tstate) (a : arrival_t) : tres tstate :=
  match st with
  | TPanic => TPanic
  | TVal (se, de, td, tc) =>
      match a with
      | FromSrc _ _ p s =>
          match T_process_src_entry b p s se de diff td tc with
          | TVal (se', td', tc') => TVal (se', de, td', tc') | TPanic => TPanic end
      | FromDest _ _ p d =>
          match T_process_dest_entry b p d se de diff td tc with
          | TVal (de', td', tc') => TVal (se, de', td', tc') | TPanic => TPanic end
      end
  end.

Definition T_plan (b : beh) (diff : bool) (sg : list arrival_t) : tres tstate :=
  fold_left (T_step b diff) sg (TVal (t_new, t_new, t_new, t_new)).

Definition abs_res (r : tres tstate) : option pstate_t :=
  match r with TVal (se, de, td, tc) => Some (abs se de td tc) | TPanic => None end.

Lemma trans_step : forall b diff r a,
  abs_res (T_step b diff r a) = step path path_eq_dec entry (nd diff) (nc b) (abs_res r) a.
Proof.
  intros b diff r a. destruct r as [[[[se de] td] tc]|]; [|reflexivity].
  destruct a as [p s|p d]; cbn [T_step abs_res step].
  - rewrite trans_process_src.
    destruct (process_src path path_eq_dec entry (nd diff) (nc b) p s (abs se de td tc)) as [st|] eqn:Hp; [|reflexivity].
    cbn [abs_res]. f_equal. unfold process_src in Hp.
    destruct (match alookup path path_eq_dec p (dest_seen path entry (abs se de td tc)) with
              | Some d0 => _ | None => _ end) as [[td' tc']|]; [|discriminate].
    inversion Hp; subst. reflexivity.
  - rewrite trans_process_dest.
    destruct (process_dest path path_eq_dec entry (nd diff) (nc b) p d (abs se de td tc)) as [st|] eqn:Hp; [|reflexivity].
    cbn [abs_res]. f_equal. unfold process_dest in Hp.
    destruct (match alookup path path_eq_dec p (src_seen path entry (abs se de td tc)) with
              | Some s0 => _ | None => _ end) as [[td' tc']|]; [|discriminate].
    inversion Hp; subst. reflexivity.
Qed.

Theorem trans_plan : forall b diff sg,
  abs_res (T_plan b diff sg) = plan_c diff (beh_eqb b BSkip) sg.
Proof.
  intros b diff sg. unfold T_plan, plan_c, plan.
  change (Some (pinit path entry)) with (abs_res (TVal (t_new, t_new, t_new, t_new))).
  generalize (TVal (t_new (V:=entry), t_new (V:=entry), t_new (V:=entry * dreason), t_new (V:=entry * creason))) as r.
  induction sg as [|a sg IH]; intro r; cbn [fold_left]; [reflexivity|].
  rewrite IH, trans_step. reflexivity.
Qed.

(* The translated source never panics in the planner, and what it computes is independent of the interleaving:
   C13's characterisation, carried over to the functions as regenerated from the source. *)
Theorem trans_plan_same_for_all_interleavings : forall b diff sg1 sg2,
  plan_c diff (beh_eqb b BSkip) sg1 = plan_c diff (beh_eqb b BSkip) sg2 ->
  abs_res (T_plan b diff sg1) = abs_res (T_plan b diff sg2).
Proof. intros. rewrite !trans_plan. assumption. Qed.

Example trans_nontrivial :
  abs_res (T_plan BSkip false
     [FromDest path entry [] EFolder; FromSrc path entry [] EFolder;
      FromDest path entry [lit "a"%string] (EFile 5 1); FromSrc path entry [lit "a"%string] (EFile 7 1);
      FromSrc path entry [lit "b"%string] (ESymlink SKUnknown (TNorm (lit "x"%string)))]) <> None.
Proof. vm_compute. discriminate. Qed.

Print Assumptions trans_needs_delete.
Print Assumptions trans_needs_copy_total.
Print Assumptions trans_process_src.
Print Assumptions trans_process_dest.
Print Assumptions trans_plan.
