(* Well-formed UTF-8 is closed under concatenation; hence the link text a destination doer writes for a
   well-formed source text (denormalize Unix (normalize_unix t)) is well formed again. *)
From RJ Require Import Base.Prelude Model.Core Model.Fs Model.Paths Proofs.PathsProofs.

Lemma fuel_irrel : forall f1 f2 s, length s < f1 -> length s < f2 -> utf8_valid_fuel f1 s = utf8_valid_fuel f2 s.
Proof.
  induction f1 as [|f1 IH]; intros f2 s H1 H2; [lia|]. destruct f2 as [|f2]; [lia|].
  destruct s as [|c0 r]; [reflexivity|]. cbn [utf8_valid_fuel]. cbn [length] in H1, H2.
  destruct (Nat.leb (b c0) 127); [apply IH; lia|].
  destruct (Nat.leb 194 (b c0) && Nat.leb (b c0) 223).
  { destruct r as [|c1 r1]; [reflexivity|]. cbn [length] in H1, H2. f_equal. apply IH; lia. }
  destruct (Nat.leb 224 (b c0) && Nat.leb (b c0) 239).
  { destruct r as [|c1 [|c2 r2]]; try reflexivity. cbn [length] in H1, H2. f_equal. apply IH; lia. }
  destruct (Nat.leb 240 (b c0) && Nat.leb (b c0) 244).
  { destruct r as [|c1 [|c2 [|c3 r3]]]; try reflexivity. cbn [length] in H1, H2. f_equal. apply IH; lia. }
  reflexivity.
Qed.

Lemma valid_fuel_app : forall f a b0, length (a ++ b0) < f ->
  utf8_valid_fuel f a = true -> utf8_valid_fuel f b0 = true -> utf8_valid_fuel f (a ++ b0) = true.
Proof.
  induction f as [|f IH]; intros a b0 Hl Ha Hb; [reflexivity|].
  destruct a as [|c0 r]; [exact Hb|]. cbn [app] in *. cbn [utf8_valid_fuel] in Ha |- *. cbn [length] in Hl.
  assert (Hb' : forall x, length x <= length b0 -> x = b0 -> utf8_valid_fuel f b0 = true).
  { intros x _ _. rewrite (fuel_irrel f (S f) b0); [exact Hb| |]; rewrite app_length in Hl; lia. }
  specialize (Hb' b0 (le_n _) eq_refl).
  destruct (Nat.leb (b c0) 127); [apply IH; [lia|exact Ha|exact Hb']|].
  destruct (Nat.leb 194 (b c0) && Nat.leb (b c0) 223).
  { destruct r as [|c1 r1]; [discriminate|]. cbn [app]. apply andb_true_iff in Ha as [H1 H2]. rewrite H1. cbn [andb].
    apply IH; [cbn [length app] in Hl; lia|exact H2|exact Hb']. }
  destruct (Nat.leb 224 (b c0) && Nat.leb (b c0) 239).
  { destruct r as [|c1 [|c2 r2]]; try discriminate. cbn [app]. apply andb_true_iff in Ha as [H1 H2]. rewrite H1. cbn [andb].
    apply IH; [cbn [length app] in Hl; lia|exact H2|exact Hb']. }
  destruct (Nat.leb 240 (b c0) && Nat.leb (b c0) 244).
  { destruct r as [|c1 [|c2 [|c3 r3]]]; try discriminate. cbn [app]. apply andb_true_iff in Ha as [H1 H2]. rewrite H1. cbn [andb].
    apply IH; [cbn [length app] in Hl; lia|exact H2|exact Hb']. }
  discriminate.
Qed.

Lemma utf8_valid_app a b0 : utf8_valid a = true -> utf8_valid b0 = true -> utf8_valid (a ++ b0) = true.
Proof.
  unfold utf8_valid. intros Ha Hb. apply valid_fuel_app; [lia| |].
  - rewrite (fuel_irrel _ (S (length a)) a); [exact Ha| |]; rewrite ?app_length; lia.
  - rewrite (fuel_irrel _ (S (length b0)) b0); [exact Hb| |]; rewrite ?app_length; lia.
Qed.

Lemma utf8_valid_slash : utf8_valid [slash] = true.
Proof. vm_compute. reflexivity. Qed.

Lemma utf8_valid_join comps : forallb utf8_valid comps = true -> utf8_valid (join_with slash comps) = true.
Proof.
  induction comps as [|x r IH]; intros H; [reflexivity|]. cbn [forallb] in H. apply andb_true_iff in H as [Hx Hr].
  destruct r as [|y r']; [exact Hx|].
  change (join_with slash (x :: y :: r')) with (x ++ slash :: join_with slash (y :: r')).
  apply utf8_valid_app; [exact Hx|]. change (slash :: join_with slash (y :: r')) with ([slash] ++ join_with slash (y :: r')).
  apply utf8_valid_app; [exact utf8_valid_slash|apply IH; exact Hr].
Qed.

(* the text written for a well-formed source text is well formed *)
Theorem written_text_valid t : utf8_valid t = true -> utf8_valid (denormalize Unix (normalize_unix t)) = true.
Proof.
  intros H. unfold normalize_unix.
  destruct (is_absolute_unix t); [cbn [denormalize]; rewrite (lossy_valid t H); exact H|].
  destruct (forallb utf8_valid (unix_components t) && negb (existsb (contains backslash) (unix_components t))) eqn:E.
  - cbn [denormalize]. apply andb_true_iff in E as [E _]. apply utf8_valid_join. exact E.
  - cbn [denormalize]. rewrite (lossy_valid t H). exact H.
Qed.
