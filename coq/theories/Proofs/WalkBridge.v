(* The bridge between the two clusters: the directory walk (Model/Walker.v, C17) and the sync core
   (Model/Fs.v, Spec/Mirror.v; C01, C02, C03, C08, C12 take a [valid_listing] in [parents_first] order as
   a premise).

   [tree_of f]: the walker's view of a file-system model f - the children of a folder are the keys one
   component longer, each with the filter verdict on its path; a link is a leaf.
   Main results: the reference walk of [tree_of f] lists exactly the visible entries, each once
   ([walk_tree_visible], [walk_tree_nodup]); hence whatever the N-worker walk delivers before its
   end-of-list marker, completed with the entry details, IS a valid listing in parents-first order
   ([walker_listing_valid]) - for every number of workers, queue capacity and interleaving. *)
From RJ Require Import Base.Prelude Base.OrderedPlan Model.Settings Model.Core Model.Fs Spec.PlanSpec Spec.Mirror
  Proofs.PathLemmas Proofs.MirrorProofs Proofs.PlanCProofs Proofs.InstanceProofs.
From RJ Require Model.Walker Proofs.WalkerProofs.
From Coq Require Import Permutation.
Module W := RJ.Model.Walker.

(* ---- the walker's view of a file-system model ------------------------------------------------- *)
Fixpoint strip (p q : path) : option path :=
  match p, q with
  | [], _ => Some q
  | a :: p', b :: q' => if str_eq_dec a b then strip p' q' else None
  | _ :: _, [] => None
  end.

Definition child_names (f : fs) (p : path) : list str :=
  nodup str_eq_dec (flat_map (fun e : path * node => match strip p (fst e) with Some [n] => [n] | _ => [] end) f).

Definition kind_of_node (n : node) : W.kind :=
  match n with NFile _ _ => W.KFile | NFolder => W.KDir | NLink _ _ => W.KLink end.

Section Bridge.
Variable incl : path -> bool.

Fixpoint tree_of (fuel : nat) (f : fs) (p : path) : W.tree :=
  match fget f p with
  | Some NFolder =>
      match fuel with
      | 0 => W.Dir true []
      | S k => W.Dir true (map (fun n => (n, (negb (incl (p ++ [n])), tree_of k f (p ++ [n])))) (child_names f p))
      end
  | Some (NFile _ _) => W.Leaf W.LFile
  | Some (NLink _ _) => W.Leaf W.LLink
  | None => W.Leaf W.LBad
  end.

Definition tree_of_fs (f : fs) : W.tree := tree_of (max_depth f) f [].

(* ---- small facts ------------------------------------------------------------------------------ *)
Lemma strip_some p : forall q r, strip p q = Some r <-> q = p ++ r.
Proof.
  induction p as [|a p IH]; intros q r; cbn [strip app].
  - split; [intros H; inversion H; reflexivity | intros ->; reflexivity].
  - destruct q as [|b q]; [split; discriminate|].
    destruct (str_eq_dec a b) as [->|Hne].
    + rewrite IH. split; [intros ->; reflexivity | intros H; inversion H; reflexivity].
    + split; [discriminate | intros H; inversion H; congruence].
Qed.

Lemma child_names_in f p n : In n (child_names f p) <-> In (p ++ [n]) (map fst f).
Proof.
  unfold child_names. rewrite nodup_In, in_flat_map. split.
  - intros [[q m] [Hin Hn]]. cbn [fst] in Hn. destruct (strip p q) as [[|x [|y r]]|] eqn:E; try contradiction.
    destruct Hn as [->|[]]. apply strip_some in E. subst q. change (p ++ [n]) with (fst (p ++ [n], m)). apply in_map. exact Hin.
  - intros Hin. apply in_map_iff in Hin as [[q m] [Hq Hin]]. cbn [fst] in Hq. subst q.
    exists (p ++ [n], m). split; [exact Hin|]. cbn [fst].
    destruct (strip p (p ++ [n])) as [r|] eqn:E.
    + apply strip_some in E. apply app_inv_head in E. subst r. left. reflexivity.
    + assert (H : strip p (p ++ [n]) = Some [n]) by (apply strip_some; reflexivity). congruence.
Qed.

Lemma fget_key f p n : fget f p = Some n -> In p (map fst f).
Proof. intros H. apply alookup_some_in in H. change p with (fst (p, n)). apply in_map. exact H. Qed.

Lemma key_fget (f : fs) q : In q (map fst f) -> exists n, fget f q = Some n.
Proof.
  unfold fget. induction f as [|[k w] f IH]; intros H; [contradiction|]. cbn [alookup].
  destruct (path_eq_dec q k) as [->|Hne]; [eexists; reflexivity|].
  destruct H as [H|H]; [cbn [fst] in H; congruence|auto].
Qed.

Lemma key_depth f p : In p (map fst f) -> length p <= max_depth f.
Proof. intros H. apply in_map_iff in H as [[q m] [Hq Hin]]. cbn [fst] in Hq. subst q. exact (length_le_max_depth incl f p m Hin). Qed.

Lemma tree_of_folder fuel f p : fget f p = Some NFolder -> exists ch, tree_of fuel f p = W.Dir true ch.
Proof. intros H. destruct fuel; cbn [tree_of]; rewrite H; eexists; reflexivity. Qed.

(* ---- the reference walk of the tree lists exactly what is visible below p --------------------- *)
Definition below (f : fs) (p q : path) (k : W.kind) : Prop :=
  exists r, r <> [] /\ q = p ++ r /\ incl q = true /\
    (forall r1 r2, r = r1 ++ r2 -> r1 <> [] -> r2 <> [] -> incl (p ++ r1) = true /\ fget f (p ++ r1) = Some NFolder) /\
    exists n, fget f q = Some n /\ k = kind_of_node n.

(* what the walk emits for one child *)
Definition child_part (f : fs) (k : nat) (p : path) (n : str) : list W.entry :=
  if negb (incl (p ++ [n])) then [] else
  match tree_of k f (p ++ [n]) with
  | W.Leaf W.LFile => [(p ++ [n], W.KFile)]
  | W.Leaf W.LLink => [(p ++ [n], W.KLink)]
  | W.Leaf W.LOther => [(p ++ [n], W.KOther)]
  | W.Leaf W.LBad => []
  | W.Dir _ _ => (p ++ [n], W.KDir) :: W.walk_spec (p ++ [n]) (tree_of k f (p ++ [n]))
  end.

Lemma walk_spec_children f k p :
  W.walk_spec p (W.Dir true (map (fun n => (n, (negb (incl (p ++ [n])), tree_of k f (p ++ [n])))) (child_names f p)))
  = flat_map (child_part f k p) (child_names f p).
Proof.
  cbn [W.walk_spec]. rewrite flat_map_concat_map, map_map, <- flat_map_concat_map.
  apply flat_map_ext. intros n. unfold child_part.
  destruct (negb (incl (p ++ [n]))); [reflexivity|].
  destruct (tree_of k f (p ++ [n])) as [[| | |]|r ch]; reflexivity.
Qed.

Lemma child_part_spec f k p n node :
  fget f (p ++ [n]) = Some node ->
  child_part f k p n =
  if negb (incl (p ++ [n])) then [] else
  (p ++ [n], kind_of_node node) ::
  match node with NFolder => W.walk_spec (p ++ [n]) (tree_of k f (p ++ [n])) | _ => [] end.
Proof.
  intros H. unfold child_part. destruct (negb (incl (p ++ [n]))); [reflexivity|].
  destruct node as [mt d| |t sk].
  - destruct k; cbn [tree_of]; rewrite H; reflexivity.
  - destruct (tree_of_folder k f _ H) as [ch E]. rewrite E. reflexivity.
  - destruct k; cbn [tree_of]; rewrite H; reflexivity.
Qed.

Lemma snoc_app_assoc (p : path) n r : (p ++ [n]) ++ r = p ++ n :: r.
Proof. rewrite <- app_assoc. reflexivity. Qed.

Lemma walk_tree_below : forall fuel f p,
  (forall q, In q (map fst f) -> length q <= length p + fuel) ->
  fget f p = Some NFolder ->
  forall q k, In (q, k) (W.walk_spec p (tree_of fuel f p)) <-> below f p q k.
Proof.
  induction fuel as [|fuel IH]; intros f p Hd Hp q k; cbn [tree_of]; rewrite Hp.
  - cbn [W.walk_spec flat_map]. split; [contradiction|].
    intros (r & Hr & -> & _ & _ & n & Hn & _). apply fget_key in Hn. apply Hd in Hn.
    rewrite app_length in Hn. destruct r; [congruence|]. cbn [length] in Hn. lia.
  - rewrite walk_spec_children, in_flat_map. split.
    + intros (n & Hn & Hin). apply child_names_in in Hn.
      destruct (fget f (p ++ [n])) as [node|] eqn:En.
      2:{ exfalso. apply key_fget in Hn as [m Hm]. congruence. }
      rewrite (child_part_spec f fuel p n node En) in Hin.
      destruct (incl (p ++ [n])) eqn:Ei; cbn [negb] in Hin; [|contradiction].
      destruct Hin as [Heq|Hin].
      * inversion Heq; subst q k. exists [n]. split; [discriminate|]. split; [reflexivity|]. split; [exact Ei|]. split.
        -- intros r1 r2 E H1 H2. exfalso. destruct r1 as [|a r1]; [congruence|]. destruct r1; destruct r2; try congruence; discriminate.
        -- exists node. split; [exact En|reflexivity].
      * destruct node as [mt d| |t sk]; try contradiction.
        apply IH in Hin; [|intros q' Hq'; apply Hd in Hq'; rewrite app_length; cbn [length]; lia|exact En].
        destruct Hin as (r & Hr & -> & Hi & Hc & Hn').
        exists (n :: r). split; [discriminate|]. split; [apply snoc_app_assoc|]. split; [exact Hi|]. split.
        -- intros r1 r2 E H1 H2. destruct r1 as [|a r1]; [congruence|]. cbn [app] in E. inversion E; subst a.
           destruct r1 as [|b r1].
           ++ split; [exact Ei|exact En].
           ++ rewrite <- snoc_app_assoc. apply (Hc (b :: r1) r2); [assumption|discriminate|exact H2].
        -- exact Hn'.
    + intros (r & Hr & -> & Hi & Hc & node & Hn & ->).
      destruct r as [|n r]; [congruence|]. exists n.
      destruct r as [|m r].
      * split; [apply child_names_in; exact (fget_key f _ _ Hn)|].
        rewrite (child_part_spec f fuel p n node Hn), Hi. cbn [negb]. left. reflexivity.
      * destruct (Hc [n] (m :: r) eq_refl) as [Ei En]; [discriminate|discriminate|].
        split; [apply child_names_in; exact (fget_key f _ _ En)|].
        rewrite (child_part_spec f fuel p n NFolder En), Ei. cbn [negb]. right.
        apply IH; [intros q' Hq'; apply Hd in Hq'; rewrite app_length; cbn [length]; lia|exact En|].
        exists (m :: r). split; [discriminate|]. split; [symmetry; apply snoc_app_assoc|]. split; [exact Hi|]. split.
        -- intros r1 r2 E H1 H2. rewrite snoc_app_assoc. apply (Hc (n :: r1) r2); [cbn [app]; rewrite E; reflexivity|discriminate|exact H2].
        -- exists node. split; [exact Hn|reflexivity].
Qed.

(* ... and each of them once *)
Lemma nodup_flat_map {A B} (F : A -> list B) (l : list A) :
  NoDup l -> (forall x, In x l -> NoDup (F x)) ->
  (forall x y z, In x l -> In y l -> x <> y -> In z (F x) -> In z (F y) -> False) ->
  NoDup (flat_map F l).
Proof.
  induction l as [|a l IH]; intros Hnd H1 H2; cbn [flat_map]; [constructor|].
  inversion Hnd as [|? ? Ha Hl]; subst.
  apply nodup_app.
  - apply H1. left. reflexivity.
  - apply IH; [exact Hl | intros x Hx; apply H1; right; exact Hx | intros x y z Hx Hy; apply H2; right; assumption].
  - intros z Hz Hz'. apply in_flat_map in Hz' as [y [Hy Hzy]].
    apply (H2 a y z); [left; reflexivity | right; exact Hy | intro; subst; contradiction | exact Hz | exact Hzy].
Qed.

Lemma walk_spec_under : forall fuel f (p q : path) k, In (q, k) (W.walk_spec p (tree_of fuel f p)) -> exists r, r <> [] /\ q = p ++ r.
Proof.
  intros fuel f p q k H.
  destruct (fget f p) as [[mt d| |t sk]|] eqn:Ep.
  - destruct fuel; cbn [tree_of] in H; rewrite Ep in H; contradiction.
  - destruct fuel.
    + cbn [tree_of] in H. rewrite Ep in H. contradiction.
    + assert (Hgen : forall fuel (p : path), fget f p = Some NFolder ->
                     forall (q : path) k, In (q, k) (W.walk_spec p (tree_of fuel f p)) -> exists r, r <> [] /\ q = p ++ r).
      { clear. induction fuel as [|fuel IH]; intros p Hp q k H; cbn [tree_of] in H; rewrite Hp in H; [contradiction|].
        rewrite walk_spec_children in H. apply in_flat_map in H as (n & _ & Hin). unfold child_part in Hin.
        destruct (negb (incl (p ++ [n]))); [contradiction|].
        destruct (fget f (p ++ [n])) as [[mt d| |t sk]|] eqn:En.
        - destruct fuel; cbn [tree_of] in Hin; rewrite En in Hin; destruct Hin as [Heq|[]]; inversion Heq; exists [n]; split; [discriminate|reflexivity|discriminate|reflexivity].
        - destruct (tree_of_folder fuel f _ En) as [ch E]. rewrite E in Hin. rewrite <- E in Hin. destruct Hin as [Heq|Hin].
          + inversion Heq. exists [n]. split; [discriminate|reflexivity].
          + apply (IH _ En) in Hin as (r & Hr & ->). exists (n :: r). split; [discriminate|apply snoc_app_assoc].
        - destruct fuel; cbn [tree_of] in Hin; rewrite En in Hin; destruct Hin as [Heq|[]]; inversion Heq; exists [n]; split; [discriminate|reflexivity|discriminate|reflexivity].
        - destruct fuel; cbn [tree_of] in Hin; rewrite En in Hin; contradiction. }
      exact (Hgen (S fuel) p Ep q k H).
  - destruct fuel; cbn [tree_of] in H; rewrite Ep in H; contradiction.
  - destruct fuel; cbn [tree_of] in H; rewrite Ep in H; contradiction.
Qed.

Lemma in_map_fst_walk {l : list W.entry} {q : path} : In q (map fst l) -> exists k, In (q, k) l.
Proof. intros H. apply in_map_iff in H as [[q' k] [E Hin]]. cbn [fst] in E. subst q'. exists k. exact Hin. Qed.

Lemma walk_tree_nodup : forall fuel f (p : path), NoDup (map fst (W.walk_spec p (tree_of fuel f p))).
Proof.
  induction fuel as [|fuel IH]; intros f p.
  - cbn [tree_of]. destruct (fget f p) as [[mt d| |t sk]|]; cbn; constructor.
  - cbn [tree_of]. destruct (fget f p) as [[mt d| |t sk]|] eqn:Ep; try (cbn; constructor).
    rewrite walk_spec_children.
    rewrite flat_map_concat_map, concat_map, map_map, <- flat_map_concat_map.
    assert (Hpre : forall n z, In z (map fst (child_part f fuel p n)) -> exists r, z = (p ++ [n]) ++ r).
    { intros n z Hz. apply in_map_fst_walk in Hz as [k Hz]. unfold child_part in Hz.
      destruct (negb (incl (p ++ [n]))); [contradiction|].
      destruct (tree_of fuel f (p ++ [n])) as [[| | |]|rd ch] eqn:E.
      - destruct Hz as [Heq|[]]. inversion Heq. exists []. rewrite app_nil_r. reflexivity.
      - destruct Hz as [Heq|[]]. inversion Heq. exists []. rewrite app_nil_r. reflexivity.
      - destruct Hz as [Heq|[]]. inversion Heq. exists []. rewrite app_nil_r. reflexivity.
      - contradiction.
      - destruct Hz as [Heq|Hz]; [inversion Heq; exists []; rewrite app_nil_r; reflexivity|].
        rewrite <- E in Hz. apply walk_spec_under in Hz as (r & _ & ->). exists r. reflexivity. }
    apply nodup_flat_map.
    + apply NoDup_nodup.
    + intros n _. unfold child_part. destruct (negb (incl (p ++ [n]))); [constructor|].
      destruct (tree_of fuel f (p ++ [n])) as [[| | |]|rd ch] eqn:E; cbn [map fst]; try (repeat constructor; intros []).
      rewrite <- E. constructor; [|apply IH].
      intros Hin. apply in_map_fst_walk in Hin as [k Hin]. apply walk_spec_under in Hin as (r & Hr & Hq).
      rewrite <- (app_nil_r (p ++ [n])) in Hq at 1. apply app_inv_head in Hq. congruence.
    + intros x y z _ _ Hxy Hx Hy. apply Hpre in Hx as [r1 ->]. apply Hpre in Hy as [r2 E].
      rewrite !snoc_app_assoc in E. apply app_inv_head in E. inversion E. contradiction.
Qed.

(* ---- in the vocabulary of the sync core ------------------------------------------------------- *)
Lemma strict_prefix_split (a b : path) : is_strict_prefix a b = true <-> exists c, c <> [] /\ b = a ++ c.
Proof.
  rewrite strict_prefix_iff. split.
  - intros (k & Hk & ->). exists (skipn k b). split.
    + intros E. apply (f_equal (@length _)) in E. rewrite skipn_length in E. cbn in E. lia.
    + symmetry. apply firstn_skipn.
  - intros (c & Hc & ->). exists (length a). split.
    + rewrite app_length. destruct c; [congruence|]. cbn [length]. lia.
    + rewrite firstn_app, Nat.sub_diag, firstn_all. cbn [firstn]. rewrite app_nil_r. reflexivity.
Qed.

Lemma below_root_visible f q k :
  below f [] q k <-> visible incl f q = true /\ exists n, fget f q = Some n /\ k = kind_of_node n.
Proof.
  unfold below. rewrite visible_iff. cbn [app]. split.
  - intros (r & Hr & -> & Hi & Hc & Hn). split; [|exact Hn]. split; [exact Hr|]. split; [exact Hi|].
    intros q' Hq' Hs. apply strict_prefix_split in Hs as (c & Hcne & ->). exact (Hc q' c eq_refl Hq' Hcne).
  - intros [(Hne & Hi & Hc) Hn]. exists q. split; [exact Hne|]. split; [reflexivity|]. split; [exact Hi|]. split; [|exact Hn].
    intros r1 r2 -> H1 H2. apply Hc; [exact H1|]. apply strict_prefix_split. exists r2. split; [exact H2|reflexivity].
Qed.

(* The reference walk of the tree of f: exactly the visible entries, with their kinds. *)
Theorem walk_tree_visible f : fget f [] = Some NFolder -> forall q k,
  In (q, k) (W.walk_spec [] (tree_of_fs f)) <->
  visible incl f q = true /\ exists n, fget f q = Some n /\ k = kind_of_node n.
Proof.
  intros Hroot q k. unfold tree_of_fs. rewrite walk_tree_below; [apply below_root_visible| |exact Hroot].
  intros q' Hq'. cbn [length]. rewrite Nat.add_0_l. apply key_depth. exact Hq'.
Qed.

(* the model fs has no unreadable folders *)
Lemma walk_all_no_error : forall fuel f (p : path), fget f p = Some NFolder ->
  (forall n, In n (child_names f p) -> True) ->
  existsb W.is_err (W.walk_all p (tree_of fuel f p)) = false.
Proof.
  induction fuel as [|fuel IH]; intros f p Hp _; cbn [tree_of]; rewrite Hp; [reflexivity|].
  cbn [W.walk_all]. rewrite flat_map_concat_map, map_map, <- flat_map_concat_map.
  apply not_true_is_false. intros H. apply existsb_exists in H as (x & Hx & Hex).
  apply in_flat_map in Hx as (n & Hn & Hx). apply child_names_in in Hn.
  destruct (negb (incl (p ++ [n]))); [contradiction|].
  destruct (fget f (p ++ [n])) as [[mt d| |t sk]|] eqn:En.
  - destruct fuel; cbn [tree_of] in Hx; rewrite En in Hx; destruct Hx as [<-|[]]; discriminate.
  - destruct (tree_of_folder fuel f _ En) as [ch E]. rewrite E in Hx. rewrite <- E in Hx.
    destruct Hx as [<-|Hx]; [discriminate|].
    specialize (IH f (p ++ [n]) En (fun _ _ => I)).
    apply not_true_iff_false in IH. apply IH. apply existsb_exists. exists x. split; assumption.
  - destruct fuel; cbn [tree_of] in Hx; rewrite En in Hx; destruct Hx as [<-|[]]; discriminate.
  - apply key_fget in Hn as [m Hm]. congruence.
Qed.

Theorem tree_of_fs_readable f : fget f [] = Some NFolder -> W.has_error (tree_of_fs f) = false.
Proof. intros H. unfold W.has_error, tree_of_fs. apply walk_all_no_error; [exact H|auto]. Qed.

(* ---- any parents-first permutation of the reference walk, with details, is a valid listing ---- *)
Variable now_z : N -> Z.
Variable normalize : str -> target.
Notation entry_of := (entry_of now_z normalize).
Notation valid_listing := (valid_listing now_z incl normalize).

(* the entry details the doer adds to what the walk found (doer.rs handle_get_entries) *)
Definition with_details (f : fs) (l : list W.entry) : listing :=
  flat_map (fun e : W.entry => match fget f (fst e) with Some n => [(fst e, entry_of n)] | None => [] end) l.

Lemma with_details_in f l p e :
  In (p, e) (with_details f l) <-> exists k n, In (p, k) l /\ fget f p = Some n /\ e = entry_of n.
Proof.
  unfold with_details. rewrite in_flat_map. split.
  - intros [[q k] [Hin H]]. cbn [fst] in H. destruct (fget f q) as [n|] eqn:E; [|contradiction].
    destruct H as [Heq|[]]. inversion Heq; subst. exists k, n. auto.
  - intros (k & n & Hin & Hn & ->). exists (p, k). split; [exact Hin|]. cbn [fst]. rewrite Hn. left. reflexivity.
Qed.

Lemma with_details_keys f l :
  (forall q k, In (q, k) l -> exists n, fget f q = Some n) -> lkeys (with_details f l) = map fst l.
Proof.
  induction l as [|[q k] l IH]; intros H; [reflexivity|]. unfold with_details, lkeys in *. cbn [flat_map fst map].
  destruct (H q k (or_introl eq_refl)) as [n Hn]. rewrite Hn. cbn [app map fst]. f_equal.
  apply IH. intros q' k' Hin. apply (H q' k'). right. exact Hin.
Qed.

Theorem permuted_walk_valid f l :
  fget f [] = Some NFolder ->
  Permutation l (W.walk_spec [] (tree_of_fs f)) -> W.ancestors_first l ->
  valid_listing f (with_details f l) /\ parents_first (lkeys (with_details f l)).
Proof.
  intros Hroot Hperm Hanc.
  assert (Hmem : forall q k, In (q, k) l <-> visible incl f q = true /\ exists n, fget f q = Some n /\ k = kind_of_node n).
  { intros q k. rewrite <- (walk_tree_visible f Hroot). split; apply Permutation_in; [exact Hperm|apply Permutation_sym; exact Hperm]. }
  assert (Hsome : forall q k, In (q, k) l -> exists n, fget f q = Some n).
  { intros q k H. apply Hmem in H as [_ (n & Hn & _)]. exists n. exact Hn. }
  assert (Hkeys := with_details_keys f l Hsome).
  assert (Hnd : NoDup (map fst l)).
  { apply (Permutation_NoDup (l := map fst (W.walk_spec [] (tree_of_fs f)))); [apply Permutation_map, Permutation_sym, Hperm|].
    apply walk_tree_nodup. }
  split; [split; [|split]|].
  - rewrite Hkeys. exact Hnd.
  - rewrite Hkeys. intros H. apply in_map_fst_walk in H as [k H]. apply Hmem in H as [Hv _].
    unfold visible in Hv. discriminate.
  - intros p e. rewrite with_details_in. split.
    + intros (k & n & Hin & Hn & ->). apply Hmem in Hin as [Hv _]. split; [exact Hv|]. exists n. auto.
    + intros [Hv (n & Hn & ->)]. exists (kind_of_node n), n. split; [|auto]. apply Hmem. split; [exact Hv|]. exists n. auto.
  - rewrite Hkeys. intros a b Ha Hb Hs.
    apply strict_prefix_split in Hs as (c & Hc & ->).
    assert (Hane : a <> []).
    { intros ->. apply in_map_fst_walk in Ha as [k Ha]. apply Hmem in Ha as [Hv _]. unfold visible in Hv. discriminate. }
    apply in_map_fst_walk in Hb as [k Hb]. apply in_split in Hb as (x & y & ->).
    specialize (Hanc x y a c k eq_refl Hane Hc).
    rewrite map_app. cbn [map fst]. apply before_app_r.
    + change a with (fst (a, W.KDir)). apply in_map. exact Hanc.
    + left. reflexivity.
Qed.

(* ---- the N-worker walk delivers a valid listing ------------------------------------------------ *)
(* Whatever the number of workers, the capacity of the result queue and the interleaving: when the
   consumer of the walk over the tree of f sees the end-of-list marker, what it has received, completed
   with the entry details, is a valid listing of f, parents first. *)
Theorem walker_listing_valid f N C s :
  N >= 1 -> fget f [] = Some NFolder ->
  W.reach N C (tree_of_fs f) s -> W.cons s = W.CEos ->
  valid_listing f (with_details f (W.recvd s)) /\ parents_first (lkeys (with_details f (W.recvd s))).
Proof.
  intros HN Hroot Hreach Heos.
  destruct (WalkerProofs.eos_exactly_once N C HN _ s Hreach Heos) as [_ Hperm].
  apply permuted_walk_valid; [exact Hroot|exact Hperm|].
  exact (WalkerProofs.reach_parent_first N C _ s Hreach).
Qed.

(* ... and such an end is reached by every execution that runs until nothing is enabled. *)
Theorem walker_run_ends_with_listing f N C s :
  N >= 1 -> C >= 1 -> fget f [] = Some NFolder ->
  W.reach N C (tree_of_fs f) s -> (forall s', ~ W.step N C s s') ->
  W.cons s = W.CEos /\ valid_listing f (with_details f (W.recvd s)) /\ parents_first (lkeys (with_details f (W.recvd s))).
Proof.
  intros HN HC Hroot Hreach Hstuck.
  destruct (WalkerProofs.stuck_outcome N C HN HC _ s Hreach Hstuck) as [(_ & Heos & _)|(Herr & _)].
  - split; [exact Heos|]. apply (walker_listing_valid f N C s HN Hroot Hreach Heos).
  - rewrite (tree_of_fs_readable f Hroot) in Herr. discriminate.
Qed.
End Bridge.
