(* The sync theorems with the listing premises discharged by the directory walk (C17): the boss is given
   what ANY execution of the N-worker walk delivers on each side (Proofs/WalkBridge.v), instead of an
   assumed valid parents-first listing. *)
From RJ Require Import Base.Prelude Base.OrderedPlan Model.Settings Model.Core Model.Fs Model.Sync
  Spec.PlanSpec Spec.Mirror Proofs.PathLemmas Proofs.MirrorProofs Proofs.PlanCProofs Proofs.InstanceProofs
  Proofs.ExecProofs Proofs.ConfineAll Proofs.WalkBridge.
From RJ Require Model.Walker Proofs.WalkerProofs.

Section Walked.
Variable now_z : N -> Z.
Variable incl : path -> bool.
Variable normalize : str -> target.
Notation valid_listing := (valid_listing now_z incl normalize).
Notation side_listing := (side_listing now_z normalize).

(* l is what a doer answers to GetEntries on tree f: for a folder root, what some execution of the walk
   (any number of workers N, any result-queue capacity C, any interleaving) delivered before its
   end-of-list marker, completed with the entry details; the boss asks for no entries otherwise. *)
Definition walked (f : fs) (l : listing) : Prop :=
  match fget f [] with
  | Some NFolder => exists N C s, N >= 1 /\ W.reach N C (tree_of_fs incl f) s /\ W.cons s = W.CEos /\
                                  l = with_details now_z normalize f (W.recvd s)
  | _ => l = []
  end.

Lemma root_first (l : list path) : ~ In [] l -> parents_first l -> parents_first ([] :: l).
Proof.
  intros Hnil Hpf a b Ha Hb Hpre.
  destruct Hb as [<-|Hb].
  { apply strict_prefix_iff in Hpre as (k & Hk & _). cbn in Hk. lia. }
  destruct Ha as [<-|Ha]; [apply before_here; exact Hb|].
  apply before_skip. apply Hpf; assumption.
Qed.

Theorem walked_valid f l : wf_fs f -> walked f l ->
  valid_listing f l /\ parents_first (lkeys (side_listing f l)).
Proof.
  intros Hwf Hw. unfold walked in Hw. unfold Mirror.side_listing.
  destruct (fget f []) as [[mt d| |t sk]|] eqn:Er.
  2:{ destruct Hw as (N & C & s & HN & Hreach & Heos & ->).
      destruct (walker_listing_valid incl now_z normalize f N C s HN Er Hreach Heos) as [Hv Hpf].
      split; [exact Hv|]. cbn [lkeys map fst]. apply root_first; [|exact Hpf].
      destruct Hv as (_ & Hnil & _). exact Hnil. }
  all: subst l; split;
    [ split; [constructor|]; split; [intros []|]; intros p e; split; [intros []|];
      intros (Hv & n & En & _); exfalso; destruct p as [|c p]; [discriminate|];
      assert (X : fget f [] = Some NFolder) by
        (apply (Hwf _ _ En); unfold is_strict_prefix, path_eqb; cbn; destruct (path_eq_dec [] (c :: p)); [discriminate|reflexivity]);
      congruence
    | cbn [lkeys map fst]; intros a b Ha Hb Hpre ].
  1,2: destruct Ha as [<-|[]]; destruct Hb as [<-|[]]; apply strict_prefix_iff in Hpre as (k & Hk & _); cbn in Hk; lia.
  destruct Ha.
Qed.

(* such an answer exists for every tree, and every execution of the walk that runs until nothing is
   enabled produces one (no unreadable folders in the model tree) *)
Theorem walked_exists f : exists l, walked f l.
Proof.
  unfold walked. destruct (fget f []) as [[mt d| |t sk]|] eqn:Er; try (exists []; reflexivity).
  destruct (WalkerProofs.run_to_final 1 1 (le_n 1) (le_n 1) (tree_of_fs incl f) _ (W.r_init 1 1 (tree_of_fs incl f)))
    as (s & Hreach & _ & Hstuck).
  destruct (walker_run_ends_with_listing incl now_z normalize f 1 1 s (le_n 1) (le_n 1) Er Hreach Hstuck) as (Heos & _).
  exists (with_details now_z normalize f (W.recvd s)), 1, 1, s. auto.
Qed.

Variable chunker : str -> list str.
Hypothesis chunker_ok : forall d, chunker d <> [] /\ concat (chunker d) = d.
Notation sync_one := (sync_one now_z normalize chunker).

(* C02 / C12 with walked listings: no run resolves a path through a destination link. *)
Theorem walked_sync_never_through cfg S D ans bits ls ld ft :
  wf_fs S -> wf_fs (d_fs D) -> no_through (d_events D) ->
  walked S ls -> walked (d_fs D) ld ->
  no_through (d_events (r_dest (sync_one cfg S D ans bits ls ld ft))).
Proof.
  intros HwS HwD Hnt HS HD.
  destruct (walked_valid S ls HwS HS) as [HvS HpS].
  destruct (walked_valid (d_fs D) ld HwD HD) as [HvD HpD].
  apply (no_run_goes_through_a_link now_z incl normalize chunker); assumption.
Qed.

(* C01 with walked listings, and with the premise "nothing went through a link" discharged by the theorem
   above: a sync that returns Ok without skips mirrors the source. *)
Theorem walked_sync_mirrors dest_fl cfg S D ans bits ls ld ft :
  wf_fs S -> wf_fs (d_fs D) -> src_times_set S -> links_roundtrip normalize dest_fl S ->
  d_open D = None -> no_through (d_events D) ->
  walked S ls -> walked (d_fs D) ld ->
  let r := sync_one cfg S D ans bits ls ld ft in
  r_ok r = true -> r_skipped r = [] -> r_root_skipped r = false -> cf_dry cfg = false -> cf_fl cfg = dest_fl ->
  mirror now_z incl normalize (cf_diff cfg) dest_fl S (d_fs D) (d_fs (r_dest r)).
Proof.
  intros HwS HwD Hts Hl Hop Hnt HS HD. cbv zeta. intros Hok Hsk Hrs Hdry Hfl.
  destruct (walked_valid S ls HwS HS) as [HvS HpS].
  destruct (walked_valid (d_fs D) ld HwD HD) as [HvD HpD].
  apply (mirror_theorem now_z incl normalize chunker chunker_ok dest_fl cfg S D ans bits ls ld ft); try assumption.
  apply (no_run_goes_through_a_link now_z incl normalize chunker); assumption.
Qed.
End Walked.
