(* The sync theorems with the listing premises discharged by the directory walk (C17): the boss is given
   what ANY execution of the N-worker walk delivers on each side (Proofs/WalkBridge.v), instead of an
   assumed valid parents-first listing. *)
From RJ Require Import Base.Prelude Base.OrderedPlan Model.Settings Model.Core Model.Fs Model.Sync
  Spec.PlanSpec Spec.Mirror Proofs.PathLemmas Proofs.MirrorProofs Proofs.PlanCProofs Proofs.InstanceProofs
  Proofs.ExecProofs Proofs.ConfineAll Proofs.WalkBridge Proofs.CrashProofs Proofs.CrashMain Proofs.WfProofs Proofs.KillEvents
  Proofs.IdemMain Proofs.TouchedProofs Proofs.ConfirmProofs Proofs.ConsentAll.
From RJ Require Model.Walker Proofs.WalkerProofs.

Section Walked.
Variable now_z : N -> Z.
Variable incl : path -> bool.
Variable normalize : str -> target.
Notation valid_listing := (valid_listing now_z incl normalize).
Notation side_listing := (side_listing now_z normalize).

(* l is what a doer answers to GetEntries on tree f: for a folder root, what some execution of the walk
   (any number of workers N, any result-queue capacity C, any interleaving) delivered before its
   end-of-list marker, completed with the entry details; the boss asks for no entries otherwise. *)
Definition walked (f : fs) (l : listing) : Prop :=
  match fget f [] with
  | Some NFolder => exists N C s, N >= 1 /\ W.reach N C (tree_of_fs incl f) s /\ W.cons s = W.CEos /\
                                  l = with_details now_z normalize f (W.recvd s)
  | _ => l = []
  end.

Lemma root_first (l : list path) : ~ In [] l -> parents_first l -> parents_first ([] :: l).
Proof.
  intros Hnil Hpf a b Ha Hb Hpre.
  destruct Hb as [<-|Hb].
  { apply strict_prefix_iff in Hpre as (k & Hk & _). cbn in Hk. lia. }
  destruct Ha as [<-|Ha]; [apply before_here; exact Hb|].
  apply before_skip. apply Hpf; assumption.
Qed.

Theorem walked_valid f l : wf_fs f -> walked f l ->
  valid_listing f l /\ parents_first (lkeys (side_listing f l)).
Proof.
  intros Hwf Hw. unfold walked in Hw. unfold Mirror.side_listing.
  destruct (fget f []) as [[mt d| |t sk]|] eqn:Er.
  2:{ destruct Hw as (N & C & s & HN & Hreach & Heos & ->).
      destruct (walker_listing_valid incl now_z normalize f N C s HN Er Hreach Heos) as [Hv Hpf].
      split; [exact Hv|]. cbn [lkeys map fst]. apply root_first; [|exact Hpf].
      destruct Hv as (_ & Hnil & _). exact Hnil. }
  all: subst l; split;
    [ split; [constructor|]; split; [intros []|]; intros p e; split; [intros []|];
      intros (Hv & n & En & _); exfalso; destruct p as [|c p]; [discriminate|];
      assert (X : fget f [] = Some NFolder) by
        (apply (Hwf _ _ En); unfold is_strict_prefix, path_eqb; cbn; destruct (path_eq_dec [] (c :: p)); [discriminate|reflexivity]);
      congruence
    | cbn [lkeys map fst]; intros a b Ha Hb Hpre ].
  1,2: destruct Ha as [<-|[]]; destruct Hb as [<-|[]]; apply strict_prefix_iff in Hpre as (k & Hk & _); cbn in Hk; lia.
  destruct Ha.
Qed.

(* such an answer exists for every tree, and every execution of the walk that runs until nothing is
   enabled produces one (no unreadable folders in the model tree) *)
Theorem walked_exists f : exists l, walked f l.
Proof.
  unfold walked. destruct (fget f []) as [[mt d| |t sk]|] eqn:Er; try (exists []; reflexivity).
  destruct (WalkerProofs.run_to_final 1 1 (le_n 1) (le_n 1) (tree_of_fs incl f) _ (W.r_init 1 1 (tree_of_fs incl f)))
    as (s & Hreach & _ & Hstuck).
  destruct (walker_run_ends_with_listing incl now_z normalize f 1 1 s (le_n 1) (le_n 1) Er Hreach Hstuck) as (Heos & _).
  exists (with_details now_z normalize f (W.recvd s)), 1, 1, s. auto.
Qed.

Variable chunker : str -> list str.
Hypothesis chunker_ok : forall d, chunker d <> [] /\ concat (chunker d) = d.
Notation sync_one := (sync_one now_z normalize chunker).

(* C02 / C12 with walked listings: no run resolves a path through a destination link. *)
Theorem walked_sync_never_through cfg S D ans bits ls ld ft :
  wf_fs S -> wf_fs (d_fs D) -> no_through (d_events D) ->
  walked S ls -> walked (d_fs D) ld ->
  no_through (d_events (r_dest (sync_one cfg S D ans bits ls ld ft))).
Proof.
  intros HwS HwD Hnt HS HD.
  destruct (walked_valid S ls HwS HS) as [HvS HpS].
  destruct (walked_valid (d_fs D) ld HwD HD) as [HvD HpD].
  apply (no_run_goes_through_a_link now_z incl normalize chunker); assumption.
Qed.

(* C01 with walked listings, and with the premise "nothing went through a link" discharged by the theorem
   above: a sync that returns Ok without skips mirrors the source. *)
Theorem walked_sync_mirrors dest_fl cfg S D ans bits ls ld ft :
  wf_fs S -> wf_fs (d_fs D) -> src_times_set S -> links_roundtrip normalize dest_fl S ->
  d_open D = None -> no_through (d_events D) ->
  walked S ls -> walked (d_fs D) ld ->
  let r := sync_one cfg S D ans bits ls ld ft in
  r_ok r = true -> r_skipped r = [] -> r_root_skipped r = false -> cf_dry cfg = false -> cf_fl cfg = dest_fl ->
  mirror now_z incl normalize (cf_diff cfg) dest_fl S (d_fs D) (d_fs (r_dest r)).
Proof.
  intros HwS HwD Hts Hl Hop Hnt HS HD. cbv zeta. intros Hok Hsk Hrs Hdry Hfl.
  destruct (walked_valid S ls HwS HS) as [HvS HpS].
  destruct (walked_valid (d_fs D) ld HwD HD) as [HvD HpD].
  apply (mirror_theorem now_z incl normalize chunker chunker_ok dest_fl cfg S D ans bits ls ld ft); try assumption.
  apply (no_run_goes_through_a_link now_z incl normalize chunker); assumption.
Qed.

(* C08 with walked listings, end to end: run a sync whose listings come from arbitrary executions of the walk,
   under ANY fault plan; let it end (Ok or failed) or kill the doer in any state a kill can leave behind.
   That state is a well-formed tree satisfying Good in which nothing went through a link, and a second sync
   started by a fresh doer on it - again with walked listings - mirrors the source whenever it returns Ok
   without skips; every source file then has its bytes and time on the destination (up to C01's own
   exemption of a file that carried the source's time before the first run). *)
Theorem walked_crash_states cfg S D ans bits ls ld ft s :
  wf_fs S -> wf_fs (d_fs D) -> unique_keys (d_fs D) -> d_open D = None -> no_through (d_events D) ->
  walked S ls -> walked (d_fs D) ld ->
  (In s (sync_kill_states now_z normalize chunker cfg S D ans bits ls ld ft) \/
   s = r_dest (sync_one cfg S D ans bits ls ld ft)) ->
  Good S (d_fs D) s /\ wf_fs (d_fs s) /\ unique_keys (d_fs s) /\ no_through (d_events s).
Proof.
  intros HwS HwD HuD Hop Hnt0 HS HD Hs.
  pose proof (walked_sync_never_through cfg S D ans bits ls ld ft HwS HwD Hnt0 HS HD) as Hnt.
  destruct (crash_safe now_z normalize chunker chunker_ok cfg S D ans bits ls ld ft Hop) as [G1 G2].
  assert (Hwfu : (forall x, In x (sync_kill_states now_z normalize chunker cfg S D ans bits ls ld ft) -> wfu (d_fs x)) /\
                 wfu (d_fs (r_dest (sync_one cfg S D ans bits ls ld ft)))).
  { unfold sync_kill_states. rewrite (sync_one_runs_plan now_z normalize chunker).
    apply (steps_wfu (cf_fl cfg) ft). rewrite (sync_plan_start now_z normalize chunker). split; assumption. }
  destruct Hwfu as [K1 K2].
  assert (Hse : no_through (d_events s)).
  { destruct Hs as [Hin| ->]; [|exact Hnt].
    unfold sync_kill_states in Hin. destruct (steps_states_before_final (cf_fl cfg) ft _ _ _ Hin) as (l & El).
    rewrite (sync_one_runs_plan now_z normalize chunker) in Hnt. rewrite El in Hnt. eapply nt_prefix; exact Hnt. }
  assert (Hw : wfu (d_fs s)) by (destruct Hs as [Hin| ->]; [apply K1; exact Hin|exact K2]).
  destruct Hw as [Hw Hu].
  split; [destruct Hs as [Hin| ->]; [apply G1; assumption|apply G2; exact Hnt]|]. auto.
Qed.

Theorem walked_rerun_repairs dest_fl cfg S D ans bits ls ld ft s cfg2 ans2 bits2 ls2 ld2 ft2 :
  wf_fs S -> src_times_set S -> links_roundtrip normalize dest_fl S ->
  wf_fs (d_fs D) -> unique_keys (d_fs D) -> d_open D = None -> no_through (d_events D) ->
  walked S ls -> walked (d_fs D) ld ->
  (In s (sync_kill_states now_z normalize chunker cfg S D ans bits ls ld ft) \/
   s = r_dest (sync_one cfg S D ans bits ls ld ft)) ->
  walked S ls2 -> walked (d_fs s) ld2 ->
  let r2 := sync_one cfg2 S (reboot s) ans2 bits2 ls2 ld2 ft2 in
  r_ok r2 = true -> r_skipped r2 = [] -> r_root_skipped r2 = false -> cf_dry cfg2 = false -> cf_fl cfg2 = dest_fl ->
  mirror now_z incl normalize (cf_diff cfg2) dest_fl S (d_fs s) (d_fs (r_dest r2)) /\
  forall p t b, takes_part incl S p -> fget S p = Some (NFile (TSet t) b) -> (forall k, now_z k <> t) ->
    fget (d_fs (r_dest r2)) p = Some (NFile (TSet t) b) \/
    exists b0, fget (d_fs D) p = Some (NFile (TSet t) b0) /\ fget (d_fs (r_dest r2)) p = Some (NFile (TSet t) b0).
Proof.
  intros HwS Hts Hlk HwD HuD Hop Hnt0 HS HD Hs HS2 HD2. cbv zeta. intros Hok Hsk Hrs Hdry Hfl.
  destruct (walked_crash_states cfg S D ans bits ls ld ft s HwS HwD HuD Hop Hnt0 HS HD Hs) as (HG & Hws & Hus & Hnts).
  destruct (walked_valid S ls2 HwS HS2) as [HvS _].
  destruct (walked_valid (d_fs s) ld2 Hws HD2) as [HvD _].
  apply (rerun_repairs now_z incl normalize chunker chunker_ok dest_fl cfg2 S (d_fs D) s ans2 bits2 ls2 ld2 ft2); try assumption.
  apply (walked_sync_never_through cfg2 S (reboot s) ans2 bits2 ls2 ld2 ft2); try assumption; reflexivity.
Qed.

(* C04 with walked listings: after a sync that returned Ok without skips, a second one (its destination
   listing again delivered by some execution of the walk over the tree the first one left) does nothing. *)
Theorem walked_sync_twice dest_fl cfg S D ans bits ls ld ft ans2 bits2 ld2 ft2 :
  wf_fs S -> src_times_set S -> links_roundtrip normalize dest_fl S ->
  wf_fs (d_fs D) -> unique_keys (d_fs D) -> d_open D = None -> no_through (d_events D) ->
  walked S ls -> walked (d_fs D) ld ->
  let r := sync_one cfg S D ans bits ls ld ft in
  r_ok r = true -> r_skipped r = [] -> r_root_skipped r = false -> cf_dry cfg = false -> cf_fl cfg = dest_fl ->
  b_same (cf_b cfg) = BSkip ->
  walked (d_fs (r_dest r)) ld2 ->
  let r2 := sync_one cfg S (r_dest r) ans2 bits2 ls ld2 ft2 in
  r_ok r2 = true /\ r_dest r2 = r_dest r /\ filter mutating (r_dest_trace r2) = [] /\
  (forall p, ~ In (CGetFileContent p) (r_src_trace r2)) /\ r_prompts r2 = [] /\ stats_nothing (r_stats r2) = true.
Proof.
  intros HwS Hts Hlk HwD HuD Hop Hnt0 HS HD. cbv zeta. intros Hok Hsk Hrs Hdry Hfl Hsame HD2.
  destruct (walked_crash_states cfg S D ans bits ls ld ft _ HwS HwD HuD Hop Hnt0 HS HD (or_intror eq_refl)) as (_ & Hw2 & _ & Hnt).
  destruct (walked_valid S ls HwS HS) as [HvS _].
  destruct (walked_valid (d_fs D) ld HwD HD) as [HvD _].
  destruct (walked_valid _ ld2 Hw2 HD2) as [HvD2 _].
  apply (sync_twice now_z incl normalize chunker chunker_ok dest_fl cfg S D ans bits ls ld ft ans2 bits2 ld2 ft2); assumption.
Qed.

(* C03 end to end with walked listings: a changed existing destination entry had its category's consent. *)
Theorem walked_consent cfg S D ans bits ls ld :
  wf_fs S -> wf_fs (d_fs D) -> d_open D = None ->
  walked S ls -> walked (d_fs D) ld ->
  let steps := snd (sync_plan now_z normalize chunker cfg S D ans bits ls ld) in
  forall s, Touched (cf_fl cfg) S (d_fs D) (cmd_of_plan steps) (file_of_plan steps) s ->
  forall p n, fget (d_fs D) p = Some n -> fget (d_fs s) p <> Some n ->
    entry_consent cfg ans \/
    ((exists m d m' d', n = NFile m d /\ fget (d_fs s) p = Some (NFile m' d')) /\ overwrite_consent cfg ans).
Proof.
  intros HwS HwD Hop HS HD.
  destruct (walked_valid S ls HwS HS) as [HvS _].
  destruct (walked_valid (d_fs D) ld HwD HD) as [HvD _].
  exact (consent_end_to_end now_z incl normalize chunker cfg S D ans bits ls ld HvS HvD HwD Hop).
Qed.
End Walked.
