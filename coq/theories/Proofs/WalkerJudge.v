(* C17 - the executable judge [admits] (Model/Walker.v) decides exactly the postcondition that the
   theorems establish for a complete listing. *)
From RJ Require Import Base.Prelude Model.Walker Proofs.WalkerProofs.
From Coq Require Import Permutation.

Lemma kind_eqb_eq a b : kind_eqb a b = true <-> a = b.
Proof. destruct a, b; cbn [kind_eqb]; split; intros H; try reflexivity; discriminate. Qed.

Lemma path_eqb_eq a : forall b, path_eqb a b = true <-> a = b.
Proof.
  induction a as [|x a IH]; intros [|y b]; cbn [path_eqb]; split; intros H; try reflexivity; try discriminate.
  - apply andb_true_iff in H as [H1 H2]. apply str_eqb_eq in H1. apply IH in H2. subst. reflexivity.
  - injection H as -> ->. apply andb_true_iff. split; [apply str_eqb_refl|apply IH; reflexivity].
Qed.

Lemma entry_eqb_eq a b : entry_eqb a b = true <-> a = b.
Proof.
  destruct a as [p k], b as [q j]. unfold entry_eqb. cbn [fst snd]. rewrite andb_true_iff, path_eqb_eq, kind_eqb_eq.
  split; [intros [-> ->]; reflexivity|intros H; injection H as -> ->; auto].
Qed.

Lemma existsb_entry x l : existsb (entry_eqb x) l = true <-> In x l.
Proof.
  rewrite existsb_exists. split.
  - intros (y & Hin & E). apply entry_eqb_eq in E. subst. exact Hin.
  - intros H. exists x. split; [exact H|apply entry_eqb_eq; reflexivity].
Qed.

Lemma remove1_some x l : forall l', remove1 x l = Some l' -> Permutation l (x :: l').
Proof.
  induction l as [|y l IH]; cbn [remove1]; intros l' H; [discriminate|].
  destruct (entry_eqb x y) eqn:E.
  - apply entry_eqb_eq in E. injection H as <-. subst. apply Permutation_refl.
  - destruct (remove1 x l) as [r|]; [|discriminate]. injection H as <-.
    eapply perm_trans; [apply perm_skip; apply IH; reflexivity|apply perm_swap].
Qed.

Lemma remove1_none x l : remove1 x l = None -> ~ In x l.
Proof.
  induction l as [|y l IH]; cbn [remove1]; intros H; [tauto|].
  destruct (entry_eqb x y) eqn:E; [discriminate|].
  destruct (remove1 x l) as [r|]; [discriminate|].
  intros [->|Hin]; [|exact (IH eq_refl Hin)].
  assert (entry_eqb x x = true) by (apply entry_eqb_eq; reflexivity). congruence.
Qed.

Lemma perm_b_spec l1 : forall l2, perm_b l1 l2 = true <-> Permutation l1 l2.
Proof.
  induction l1 as [|x l1 IH]; intros l2; cbn [perm_b].
  - destruct l2; split; intros H; try reflexivity; try discriminate.
    apply Permutation_nil in H. discriminate.
  - destruct (remove1 x l2) as [l2'|] eqn:E.
    + apply remove1_some in E. rewrite IH. split; intros H.
      * eapply perm_trans; [apply perm_skip; exact H|apply Permutation_sym; exact E].
      * eapply Permutation_cons_inv. eapply perm_trans; [exact H|exact E].
    + apply remove1_none in E. split; [discriminate|]. intros H. exfalso. apply E.
      eapply Permutation_in; [exact H|left; reflexivity].
Qed.

Lemma pf_go_spec l : forall seen, pf_go seen l = true <->
  (forall a b p n k, l = a ++ (p ++ [n], k) :: b -> p <> [] -> In (p, KDir) (seen ++ a)).
Proof.
  induction l as [|e l IH]; intros seen; cbn [pf_go].
  - split; [|reflexivity]. intros _ a b p n k E. destruct a; discriminate.
  - rewrite andb_true_iff, IH. split.
    + intros [Hh Ht] a b p n k E Hp. destruct a as [|e' a]; cbn [app] in E; injection E as -> E.
      * cbn [fst] in Hh. rewrite removelast_last in Hh. rewrite app_nil_r.
        destruct p as [|x p]; [contradiction|]. apply existsb_entry in Hh. exact Hh.
      * specialize (Ht a b p n k E Hp). cbn [app] in Ht. apply in_or_app.
        destruct Ht as [<-|Ht]; [right; left; reflexivity|].
        apply in_app_or in Ht as [Ht|Ht]; [left; exact Ht|right; right; exact Ht].
    + intros H. split.
      * destruct e as [q k]. cbn [fst]. destruct (removelast q) as [|x p'] eqn:Eq; [reflexivity|].
        assert (Hq : q <> []) by (intros ->; discriminate).
        pose proof (@app_removelast_last name q [] Hq) as Eq'. rewrite Eq in Eq'.
        specialize (H [] l (x :: p') (last q []) k). rewrite <- Eq' in H. cbn [app] in H.
        specialize (H eq_refl). rewrite app_nil_r in H. apply existsb_entry. apply H. discriminate.
      * intros a b p n k E Hp. specialize (H (e :: a) b p n k). cbn [app] in H. rewrite E in H.
        specialize (H eq_refl Hp). apply in_app_or in H. cbn [app]. destruct H as [H|[H|H]].
        -- right. apply in_or_app. left. exact H.
        -- left. exact H.
        -- right. apply in_or_app. right. exact H.
Qed.

Lemma parent_first_b_spec l : parent_first_b l = true <-> parent_first l.
Proof. unfold parent_first_b, parent_first. rewrite pf_go_spec. cbn [app]. reflexivity. Qed.

(* The judge accepts a complete listing iff it is what the theorems promise. *)
Lemma admits_complete_spec t l : admits t true l = true <->
  has_error t = false /\ Permutation l (walk_spec [] t) /\ parent_first l.
Proof.
  unfold admits. rewrite !andb_true_iff, negb_true_iff, perm_b_spec, parent_first_b_spec. tauto.
Qed.

Lemma ancestors_parent_first l : ancestors_first l -> parent_first l.
Proof. intros H a b p n k E Hp. eapply (H a b p [n] k); eauto. discriminate. Qed.

(* Every complete listing the model can produce is accepted by the judge. *)
Lemma model_listing_admitted N C : N >= 1 -> forall root s,
  reach N C root s -> cons s = CEos -> admits root true (recvd s) = true.
Proof.
  intros HN root s Hr Hc. apply admits_complete_spec.
  destruct (eos_exactly_once N C HN _ _ Hr Hc) as [He Hp].
  repeat split; auto. apply ancestors_parent_first. eapply reach_parent_first; eauto.
Qed.

(* ---- no descent, read with unique sibling names: whatever lies at an ancestor path of a job or of
   a result is a real directory that the filters keep (so it is neither excluded nor a link) ---- *)
Inductive down : tree -> path -> tree -> Prop :=
| down_nil t : down t [] t
| down_cons ch n sub p t : In (n, (false, sub)) ch -> is_dir sub = true -> down sub p t -> down (Dir true ch) (n :: p) t.

Lemma down_snoc root p ch n sub : down root p (Dir true ch) -> In (n, (false, sub)) ch -> is_dir sub = true ->
  down root (p ++ [n]) sub.
Proof.
  intros Hd Hin Hs. remember (Dir true ch) as t eqn:Et. induction Hd as [t|ch0 m sub0 p t Hin0 Hs0 Hd IH]; subst.
  - cbn [app]. eapply down_cons; eauto. apply down_nil.
  - cbn [app]. eapply down_cons; eauto.
Qed.

Lemma dir_at_down root p t : dir_at root p t -> down root p t.
Proof. induction 1; [apply down_nil|eapply down_snoc; eauto]. Qed.

Lemma nodup_fst_unique {A B} (l : list (A * B)) n a b :
  NoDup (map fst l) -> In (n, a) l -> In (n, b) l -> a = b.
Proof.
  induction l as [|[m c] l IH]; cbn [map fst In]; intros Hnd Ha Hb; [tauto|].
  inversion Hnd as [|? ? Hnot Hnd']; subst.
  destruct Ha as [Ha|Ha], Hb as [Hb|Hb].
  - congruence.
  - injection Ha as -> ->. exfalso. apply Hnot. apply in_map_iff. exists (n, b). auto.
  - injection Hb as -> ->. exfalso. apply Hnot. apply in_map_iff. exists (n, a). auto.
  - eapply IH; eauto.
Qed.

Lemma down_ancestor_unique root p t : down root p t -> unique_names root ->
  forall q r c, p = q ++ r -> q <> [] -> at_path root q c ->
  fst c = false /\ is_dir (snd c) = true /\ down root q (snd c) /\ down (snd c) r t.
Proof.
  induction 1 as [t|ch n sub p t Hin Hs Hd IH]; intros Hun q r c E Hq Hat.
  - destruct q; [contradiction|discriminate].
  - destruct q as [|m q]; [contradiction|]. cbn [app] in E. injection E as <- E.
    inversion Hun as [|r0 ch0 Hnd Hall]; subst.
    inversion Hat as [r1 ch1 n1 c1 Hin1|r1 ch1 n1 c1 p1 c1' Hin1 Hp1 Hat1]; subst.
    + pose proof (nodup_fst_unique _ _ _ _ Hnd Hin Hin1) as <-. cbn [fst snd app] in *.
      repeat split; auto. eapply down_cons; eauto. apply down_nil.
    + pose proof (nodup_fst_unique _ _ _ _ Hnd Hin Hin1) as <-. cbn [snd] in Hat1.
      rewrite Forall_forall in Hall. specialize (Hall _ Hin). cbn [snd] in Hall.
      destruct (IH Hall q r c eq_refl Hp1 Hat1) as (F & D & Dq & Dr).
      repeat split; auto. eapply down_cons; eauto.
Qed.

(* For a job or a result at path p: the thing at every non-empty prefix q of p is a kept real directory. *)
Lemma no_descent_unique root p t : unique_names root -> dir_at root p t ->
  forall q r c, p = q ++ r -> q <> [] -> at_path root q c -> fst c = false /\ is_dir (snd c) = true.
Proof.
  intros Hun Hd q r c E Hq Hat.
  destruct (down_ancestor_unique _ _ _ (dir_at_down _ _ _ Hd) Hun q r c E Hq Hat) as (F & D & _). auto.
Qed.

(* ---- the judge on a failed listing ---- *)
Lemma sub_b_spec l1 : forall l2, sub_b l1 l2 = true <-> exists rest, Permutation (l1 ++ rest) l2.
Proof.
  induction l1 as [|x l1 IH]; intros l2; cbn [sub_b].
  - split; [intros _; exists l2; apply Permutation_refl|reflexivity].
  - destruct (remove1 x l2) as [l2'|] eqn:E.
    + apply remove1_some in E. rewrite IH. split; intros (rest & H); exists rest.
      * cbn [app]. eapply perm_trans; [apply perm_skip; exact H|apply Permutation_sym; exact E].
      * eapply Permutation_cons_inv. cbn [app] in H. eapply perm_trans; [exact H|exact E].
    + apply remove1_none in E. split; [discriminate|]. intros (rest & H). exfalso. apply E.
      eapply Permutation_in; [exact H|left; reflexivity].
Qed.

Lemma ents_map_REntry l : ents (map REntry l) = l.
Proof. induction l as [|e l IH]; [reflexivity|]. cbn [map ents flat_map app] in *. unfold ents in IH. rewrite IH. reflexivity. Qed.

Lemma map_REntry_ents l : map REntry (ents l) = entries_of l.
Proof.
  unfold entries_of. induction l as [|[e|] l IH]; [reflexivity| |].
  - cbn [ents flat_map app map filter is_entry is_err negb]. unfold ents in IH. rewrite IH. reflexivity.
  - cbn [ents flat_map app filter is_entry is_err negb]. exact IH.
Qed.

Lemma ents_walk_all t : ents (walk_all [] t) = walk_spec [] t.
Proof.
  pose proof (map_REntry_ents (walk_all [] t)) as H. rewrite <- walk_spec_entries in H.
  clear - H. revert H. generalize (ents (walk_all [] t)) (walk_spec [] t).
  induction l as [|a l IH]; intros [|b l0]; cbn [map]; intros H; try discriminate; [reflexivity|].
  injection H as -> H. f_equal. auto.
Qed.

(* Also a listing that ended in an error is accepted by the judge: what the consumer had received is
   a parents-first part of the reference walk, and the tree does have an error. *)
Lemma model_failed_listing_admitted N C : N >= 1 -> forall root s,
  reach N C root s -> cons s = CErr \/ cons s = CDropped -> admits root false (recvd s) = true.
Proof.
  intros HN root s Hr Hc. unfold admits. rewrite !andb_true_iff. repeat split.
  - destruct (has_error root) eqn:He; [reflexivity|].
    destruct (noerror_never_fails N C HN _ _ Hr He) as [H|H]; destruct Hc; congruence.
  - apply sub_b_spec. destruct (I_R _ _ _ (reach_inv _ _ _ _ Hr)) as (rest & HR).
    exists (ents rest).
    assert (HP : Permutation (map REntry (recvd s) ++ rest) (walk_all [] root)).
    { apply occ_perm. intros x. rewrite occ_app. apply HR. }
    apply (Permutation_flat_map (fun r => match r with REntry e => [e] | RErr => [] end)) in HP.
    change (Permutation (ents (map REntry (recvd s) ++ rest)) (ents (walk_all [] root))) in HP.
    rewrite ents_app, ents_map_REntry, ents_walk_all in HP. exact HP.
  - apply parent_first_b_spec. apply ancestors_parent_first. eapply reach_parent_first; eauto.
Qed.
