(* C17 - proofs about the directory walker model (Model/Walker.v). *)
From RJ Require Import Base.Prelude Model.Walker.
From Coq Require Import Permutation.

(* ---- induction over trees (nested through the child list) ---- *)
Fixpoint tree_ind' (P : tree -> Prop)
  (HL : forall k, P (Leaf k))
  (HD : forall r ch, Forall (fun c : child => P (snd (snd c))) ch -> P (Dir r ch))
  (t : tree) : P t :=
  match t with
  | Leaf k => HL k
  | Dir r ch => HD r ch
      ((fix go (l : list child) : Forall (fun c : child => P (snd (snd c))) l :=
          match l with
          | [] => Forall_nil _
          | c :: l' => Forall_cons c (match c return P (snd (snd c)) with (_, (_, sub)) => tree_ind' P HL HD sub end) (go l')
          end) ch)
  end.

Definition is_entry (r : result) : bool := negb (is_err r).
Definition entries_of (l : list result) : list result := filter is_entry l.

Lemma walk_all_dir p ch : walk_all p (Dir true ch) = flat_map (child_items p) ch.
Proof. reflexivity. Qed.

Lemma filter_flat_map {A B} (f : B -> bool) (g : A -> list B) l :
  filter f (flat_map g l) = flat_map (fun x => filter f (g x)) l.
Proof. induction l as [|x l IH]; cbn [flat_map filter]; [reflexivity|]. rewrite filter_app, IH. reflexivity. Qed.

Lemma map_flat_map {A B C} (f : B -> C) (g : A -> list B) l :
  map f (flat_map g l) = flat_map (fun x => map f (g x)) l.
Proof. induction l as [|x l IH]; cbn [flat_map map]; [reflexivity|]. rewrite map_app, IH. reflexivity. Qed.

Lemma flat_map_ext_Forall {A B} (f g : A -> list B) l :
  Forall (fun x => f x = g x) l -> flat_map f l = flat_map g l.
Proof. induction 1 as [|x l Hx _ IH]; cbn [flat_map]; [reflexivity|]. rewrite Hx, IH. reflexivity. Qed.

(* The reference walk is exactly the entries among everything the workers send. *)
Lemma walk_spec_entries t : forall p, map REntry (walk_spec p t) = entries_of (walk_all p t).
Proof.
  induction t as [k|r ch IH] using tree_ind'; intros p.
  - reflexivity.
  - destruct r; [|reflexivity].
    cbn [walk_spec walk_all]. unfold entries_of. rewrite map_flat_map, filter_flat_map.
    apply flat_map_ext_Forall. eapply Forall_impl; [|exact IH].
    intros [n [sk sub]] Hsub; cbn [snd] in Hsub.
    destruct sk; [reflexivity|]. destruct sub as [[| | |]|r' ch']; try reflexivity.
    cbn [map filter is_entry is_err negb]. rewrite Hsub. reflexivity.
Qed.

(* ================================================================================================ *)
(* sums over lists; counting occurrences of a result                                                 *)
Fixpoint sumf {A} (f : A -> nat) (l : list A) : nat :=
  match l with [] => 0 | x :: r => f x + sumf f r end.
(* the same sum with the function outside the fixpoint (so that it can be used in nested recursion) *)
Definition sumS {A} (f : A -> nat) : list A -> nat :=
  fix go (l : list A) : nat := match l with [] => 0 | x :: r => f x + go r end.
Lemma sumS_sumf {A} (f : A -> nat) l : sumS f l = sumf f l.
Proof. induction l as [|x l IH]; [reflexivity|]. cbn [sumf]. rewrite <- IH. reflexivity. Qed.
Lemma sumf_app {A} (f : A -> nat) l1 l2 : sumf f (l1 ++ l2) = sumf f l1 + sumf f l2.
Proof. induction l1 as [|x l1 IH]; cbn [sumf app]; lia. Qed.
Lemma sumf_le {A} (f g : A -> nat) l : (forall x, f x <= g x) -> sumf f l <= sumf g l.
Proof. intros H. induction l as [|x l IH]; cbn [sumf]; [lia|]. specialize (H x). lia. Qed.
Lemma sumf_repeat0 {A} (f : A -> nat) x n : f x = 0 -> sumf f (repeat x n) = 0.
Proof. intros H. induction n; cbn [repeat sumf]; lia. Qed.
Lemma sumf_zero_forall {A} (f : A -> nat) l : sumf f l = 0 -> forall x, In x l -> f x = 0.
Proof. induction l as [|y l IH]; cbn [sumf]; intros H x Hin; [destruct Hin|].
  destruct Hin as [->|Hin]; [lia|apply IH; [lia|exact Hin]]. Qed.

Definition result_eq_dec : forall a b : result, {a = b} + {a <> b}.
Proof. repeat decide equality. Defined.
Definition occ (x : result) (l : list result) : nat := count_occ result_eq_dec l x.
Definition ind (a x : result) : nat := if result_eq_dec a x then 1 else 0.
Lemma occ_nil x : occ x [] = 0. Proof. reflexivity. Qed.
Lemma occ_cons x a l : occ x (a :: l) = ind a x + occ x l.
Proof. unfold occ, ind. cbn [count_occ]. destruct (result_eq_dec a x); lia. Qed.
Lemma occ_app x l1 l2 : occ x (l1 ++ l2) = occ x l1 + occ x l2.
Proof. apply count_occ_app. Qed.
Lemma occ_flat_map {A} x (f : A -> list result) l : occ x (flat_map f l) = sumf (fun a => occ x (f a)) l.
Proof. induction l as [|a l IH]; cbn [flat_map sumf]; [reflexivity|]. rewrite occ_app, IH. reflexivity. Qed.
Lemma occ_In x l : In x l <-> occ x l > 0.
Proof. apply count_occ_In. Qed.
Lemma occ_perm l1 l2 : Permutation l1 l2 <-> forall x, occ x l1 = occ x l2.
Proof. apply Permutation_count_occ. Qed.
Lemma ind_entry_err e : ind (REntry e) RErr = 0.
Proof. unfold ind. destruct (result_eq_dec (REntry e) RErr); [discriminate|reflexivity]. Qed.
Lemma ind_refl a : ind a a = 1.
Proof. unfold ind. destruct (result_eq_dec a a); [reflexivity|contradiction]. Qed.
Global Opaque occ.

Lemma walk_all_unreadable p t : readable t = false -> walk_all p t = [RErr].
Proof. destruct t as [k|[|] ch]; cbn [readable walk_all]; intros H; try reflexivity; discriminate. Qed.

(* what a job / a worker will still send *)
Definition jfut (j : job) : list result := match j with JDir p t => walk_all p t | JDone => [] end.
Definition wfut (w : wpc) : list result :=
  match w with
  | WRead p t => walk_all p t
  | WIter p rest => flat_map (child_items p) rest
  | WAdd p n sub rest | WPush p n sub rest => walk_all (p ++ [n]) sub ++ flat_map (child_items p) rest
  | _ => []
  end.

Definition jdir (j : job) : nat := match j with JDir _ _ => 1 | JDone => 0 end.
Definition jdone (j : job) : nat := match j with JDir _ _ => 0 | JDone => 1 end.
Lemma jobs_len l : sumf jdir l + sumf jdone l = length l.
Proof. induction l as [|[p t|] l IH]; cbn [sumf jdir jdone length]; lia. Qed.

(* directory jobs a worker holds: its own, plus the child already counted but not yet queued *)
Definition inprog (w : wpc) : nat :=
  match w with WRead _ _ | WIter _ _ | WAdd _ _ _ _ => 1 | WPush _ _ _ _ => 2 | _ => 0 end.
Definition badw (w : wpc) : nat := match w with WBad => 1 | _ => 0 end.
Definition gonew (w : wpc) : nat := match w with WGone => 1 | _ => 0 end.

Section Proofs.
Variable N : nat.
Variable C : nat.

Definition latew (w : wpc) : nat := match w with WAssert => S N | WBcast k => S k | WExit => 1 | _ => 0 end.
(* Done messages a worker still owes (WAssert, WBcast) or has consumed (WExit) *)
Definition dw (w : wpc) : nat := match w with WAssert => N | WBcast k => k | WExit => 1 | _ => 0 end.
Lemma dw_le_latew w : dw w <= latew w.
Proof. destruct w; cbn [dw latew]; lia. Qed.

(* The counter invariant:
     num_unfinished_jobs = queued Dir jobs + Dir jobs held by workers + abandoned (leaked) jobs;
   while it is positive no Done exists anywhere; once it is 0 exactly N Done messages exist
   (owed + queued + consumed); nobody has panicked. *)
Definition CInv (g : glob) (l : list wpc) : Prop :=
  cnt g = sumf jdir (jobs g) + sumf inprog l + leaked g /\
  (cnt g > 0 -> sumf jdone (jobs g) + sumf latew l = 0) /\
  (cnt g = 0 -> sumf jdone (jobs g) + sumf dw l = N) /\
  sumf badw l = 0.

Lemma cinv_wstep al g w g' w' a b :
  wstep N C al g w g' w' -> CInv g (a ++ w :: b) -> CInv g' (a ++ w' :: b).
Proof.
  intros Hw (HB & H1 & H2 & Hbad). unfold CInv.
  rewrite !sumf_app in *. cbn [sumf] in *.
  pose proof (sumf_le dw latew a dw_le_latew) as Ha.
  pose proof (sumf_le dw latew b dw_le_latew) as Hb.
  pose proof (jobs_len (jobs g)) as Hlen.
  destruct Hw; cbn [jobs cnt rq leaked inprog latew dw badw] in *;
    repeat match goal with H : jobs _ = _ |- _ => rewrite H in * end;
    rewrite ?sumf_app in *; cbn [sumf jdir jdone length] in *;
    try (repeat split; lia).
  - (* assertion failure is impossible *)
    exfalso. destruct (jobs g) as [|j js]; [congruence|]. cbn [length] in Hlen. lia.
Qed.

(* conservation of results by an action of a worker (while the receiver is alive) *)
Lemma k_wstep g w g' w' : wstep N C true g w g' w' -> forall x,
  occ x (rq g') + sumf (fun j => occ x (jfut j)) (jobs g') + occ x (wfut w') =
  occ x (rq g) + sumf (fun j => occ x (jfut j)) (jobs g) + occ x (wfut w).
Proof.
  intros Hw x.
  destruct Hw; cbn [jobs cnt rq leaked wfut] in *;
    repeat match goal with H : jobs _ = _ |- _ => rewrite H in * end;
    rewrite ?sumf_app; cbn [sumf jfut flat_map child_items];
    rewrite ?occ_app, ?occ_cons, ?occ_nil; try lia; try discriminate.
  (* read failure *)
  all: try match goal with H : readable _ = false |- _ => rewrite (walk_all_unreadable _ _ H), occ_cons, occ_nil; lia end.
  (* read ok *)
  rewrite walk_all_dir. reflexivity.
Qed.

Record Inv (root : tree) (s : state) : Prop := mkInv {
  I_len : length (ws s) = N;
  I_C : CInv (gl s) (ws s);
  I_L : cons s = CRun -> leaked (gl s) <= occ RErr (rq (gl s));
  I_G : alive (cons s) = true -> sumf gonew (ws s) = 0;
  I_E : cons s = CEos -> forallb exited (ws s) = true /\ rq (gl s) = [];
  I_K : cons s = CRun \/ cons s = CEos -> forall x,
        occ x (map REntry (recvd s)) + occ x (rq (gl s)) +
        sumf (fun j => occ x (jfut j)) (jobs (gl s)) + sumf (fun w => occ x (wfut w)) (ws s) =
        occ x (walk_all [] root);
  (* what has been received is part of the reference listing, also after a failure *)
  I_R : exists rest, forall x, occ x (map REntry (recvd s)) + occ x rest = occ x (walk_all [] root)
}.

Lemma inv_init root : Inv root (init N root).
Proof.
  unfold init. constructor; cbn [gl ws cons recvd jobs cnt rq leaked].
  - apply repeat_length.
  - unfold CInv; cbn [jobs cnt leaked sumf jdir jdone].
    rewrite !sumf_repeat0 by reflexivity. repeat split; lia.
  - intros _. lia.
  - intros _. apply sumf_repeat0. reflexivity.
  - discriminate.
  - intros _ x. cbn [map sumf jfut]. rewrite sumf_repeat0 by reflexivity. rewrite occ_nil. lia.
  - exists (walk_all [] root). intros x. cbn [map]. rewrite occ_nil. lia.
Qed.

Lemma exited_no_step al g w g' w' : wstep N C al g w g' w' -> exited w = false.
Proof. destruct 1; reflexivity. Qed.

Lemma wstep_leak g w g' w' : wstep N C true g w g' w' ->
  leaked g <= occ RErr (rq g) -> leaked g' <= occ RErr (rq g').
Proof.
  intros Hw HL. destruct Hw; cbn [rq leaked]; rewrite ?occ_app, ?occ_cons, ?occ_nil, ?ind_refl; try lia; discriminate.
Qed.

Lemma wstep_gone g w g' w' : wstep N C true g w g' w' -> gonew w = 0 -> gonew w' = 0.
Proof. intros Hw. destruct Hw; cbn [gonew]; try lia; discriminate. Qed.

Lemma inv_step root s s' : Inv root s -> step N C s s' -> Inv root s'.
Proof.
  intros [Hlen HC HL HG HE HK HR] Hs. destruct Hs as [s a w b g' w' Hws Hw|s e r Hc Hrq|s r Hc Hrq|s Hc|s Hc Hrq Hex].
  - (* a worker acts *)
    rewrite Hws in *.
    constructor; cbn [gl ws cons recvd].
    + rewrite app_length in *. cbn [length] in *. exact Hlen.
    + eapply cinv_wstep; eauto.
    + intros Hc. rewrite Hc in Hw. cbn [alive] in Hw. eapply wstep_leak; eauto.
    + intros Hal. rewrite Hal in Hw. specialize (HG Hal). rewrite sumf_app in *. cbn [sumf] in *.
      pose proof (wstep_gone _ _ _ _ Hw). lia.
    + intros Hc. destruct (HE Hc) as [Hex _]. rewrite forallb_app in Hex. cbn [forallb] in Hex.
      apply exited_no_step in Hw. destruct (exited w); [discriminate|].
      rewrite andb_false_r in Hex. discriminate.
    + intros Hc x. specialize (HK Hc x).
      assert (Hal : alive (cons s) = true) by (destruct Hc as [-> | ->]; reflexivity).
      rewrite Hal in Hw. pose proof (k_wstep _ _ _ _ Hw x) as Hk.
      rewrite sumf_app in *. cbn [sumf] in *. lia.
    + exact HR.
  - (* the consumer takes an entry *)
    constructor; cbn [gl ws cons recvd jobs cnt rq leaked].
    + exact Hlen.
    + destruct HC as (HB & H1 & H2 & Hb). unfold CInv. cbn [jobs cnt leaked]. repeat split; assumption.
    + intros _. specialize (HL Hc). rewrite Hrq, occ_cons, ind_entry_err in HL. lia.
    + intros _. apply HG. rewrite Hc. reflexivity.
    + discriminate.
    + intros _ x. specialize (HK (or_introl Hc) x). rewrite Hrq in HK.
      rewrite map_app, occ_app. cbn [map]. rewrite occ_cons in *. rewrite occ_nil. lia.
    + exists (r ++ flat_map jfut (jobs (gl s)) ++ flat_map wfut (ws s)). intros x.
      specialize (HK (or_introl Hc) x). rewrite Hrq in HK.
      rewrite map_app, !occ_app, !occ_flat_map. cbn [map]. rewrite occ_cons in *. rewrite occ_nil. lia.
  - (* the consumer takes an error *)
    constructor; cbn [gl ws cons recvd jobs cnt rq leaked].
    + exact Hlen.
    + destruct HC as (HB & H1 & H2 & Hb). unfold CInv. cbn [jobs cnt leaked]. repeat split; assumption.
    + discriminate.
    + intros _. apply HG. rewrite Hc. reflexivity.
    + discriminate.
    + intros [?|?]; discriminate.
    + exact HR.
  - (* the consumer drops the receiver *)
    constructor; cbn [gl ws cons recvd jobs cnt rq leaked].
    + exact Hlen.
    + destruct HC as (HB & H1 & H2 & Hb). unfold CInv. cbn [jobs cnt leaked]. repeat split; assumption.
    + discriminate.
    + discriminate.
    + discriminate.
    + intros [?|?]; discriminate.
    + exact HR.
  - (* end of stream *)
    constructor; cbn [gl ws cons recvd].
    + exact Hlen.
    + exact HC.
    + discriminate.
    + intros _. apply HG. rewrite Hc. reflexivity.
    + intros _. split; assumption.
    + intros _ x. apply HK. auto.
    + exact HR.
Qed.

Lemma reach_inv root s : reach N C root s -> Inv root s.
Proof. induction 1; [apply inv_init|eapply inv_step; eauto]. Qed.

End Proofs.

(* ================================================================================================ *)
Section Measure.
Variable N : nat.
Variable C : nat.

(* ---- termination: a measure that decreases on every step, from every state ---- *)
Definition cw (rd : tree -> nat) (c : child) : nat :=
  match c with (_, (sk, sub)) => if sk then 1 else match sub with Leaf _ => 2 | Dir _ _ => 5 + rd sub end end.
Fixpoint rd (t : tree) : nat :=
  match t with
  | Dir true ch =>
      1 + (sumS (fun c : child => match c with (_, (sk, sub)) =>
                 if sk then 1 else match sub with Leaf _ => 2 | Dir _ _ => 5 + rd sub end end) ch + (2 * N + 3))
  | _ => 2
  end.
Definition it (rest : list child) : nat := sumf (cw rd) rest + (2 * N + 3).
Lemma rd_dir ch : rd (Dir true ch) = 1 + it ch.
Proof. unfold it. cbn [rd]. rewrite sumS_sumf. reflexivity. Qed.
Lemma rd_unreadable t : readable t = false -> rd t = 2.
Proof. destruct t as [k|[|] ch]; cbn [readable rd]; intros H; try reflexivity; discriminate. Qed.

Definition muw (w : wpc) : nat :=
  match w with
  | WRead _ t => rd t
  | WIter _ rest => it rest
  | WAdd _ _ sub rest => 3 + rd sub + it rest
  | WPush _ _ sub rest => 2 + rd sub + it rest
  | WAssert => 2 * N + 2
  | WBcast k => 2 * k + 1
  | _ => 0
  end.
Definition muj (j : job) : nat := match j with JDir _ t => 1 + rd t | JDone => 1 end.
Definition muc (c : cstate) : nat := match c with CRun => 2 | CErr => 1 | _ => 0 end.
Definition mu (s : state) : nat :=
  sumf muj (jobs (gl s)) + sumf muw (ws s) + length (rq (gl s)) + muc (cons s).

Lemma leaf_items_len q k : length (leaf_items q k) = 1.
Proof. destruct k; reflexivity. Qed.

Lemma wstep_decreases al g w g' w' : wstep N C al g w g' w' ->
  sumf muj (jobs g') + length (rq g') + muw w' < sumf muj (jobs g) + length (rq g) + muw w.
Proof.
  intros Hw.
  destruct Hw; cbn [jobs cnt rq leaked muw] in *;
    repeat match goal with H : jobs _ = _ |- _ => rewrite H in * end;
    rewrite ?sumf_app, ?app_length, ?leaf_items_len, ?rd_dir; unfold it; cbn [sumf muj cw length];
    try match goal with H : readable _ = false |- _ => rewrite (rd_unreadable _ H) end;
    try lia.
Qed.

Lemma step_decreases s s' : step N C s s' -> mu s' < mu s.
Proof.
  intros Hs. unfold mu.
  destruct Hs as [s a w b g' w' Hws Hw|s e r Hc Hrq|s r Hc Hrq|s Hc|s Hc Hrq Hex];
    cbn [gl ws cons recvd jobs cnt rq leaked].
  - rewrite Hws, !sumf_app. cbn [sumf]. pose proof (wstep_decreases _ _ _ _ _ Hw). lia.
  - rewrite Hrq, Hc. cbn [length muc]. lia.
  - rewrite Hrq, Hc. cbn [length muc]. lia.
  - rewrite Hc. cbn [length muc]. lia.
  - rewrite Hc. cbn [muc]. lia.
Qed.

Lemma terminates s : Acc (fun a b => step N C b a) s.
Proof. apply (well_founded_lt_compat _ mu). intros a b H. apply step_decreases. exact H. Qed.

End Measure.

(* ================================================================================================ *)
(* consequences of the invariant                                                                      *)
Section Consequences.
Variable N : nat.
Variable C : nat.
Hypothesis HN : N >= 1.

Lemma all_exit_sums l : forallb exited l = true -> sumf gonew l = 0 -> sumf badw l = 0 ->
  sumf (latew N) l = length l /\ sumf (dw N) l = length l /\ sumf inprog l = 0 /\
  forall x, sumf (fun w => occ x (wfut w)) l = 0.
Proof.
  induction l as [|w l IH]; cbn [forallb sumf length]; intros He Hg Hb.
  - repeat split; reflexivity.
  - apply andb_true_iff in He as [Hw He].
    destruct IH as (I1 & I2 & I3 & I4); [exact He|lia|lia|].
    destruct w; cbn [exited gonew badw] in *; try discriminate; try lia.
    cbn [latew dw inprog wfut]. repeat split; try lia. intros x. rewrite I4. reflexivity.
Qed.

Lemma jobs_empty l : sumf jdir l = 0 -> sumf jdone l = 0 -> l = [].
Proof. intros H1 H2. pose proof (jobs_len l). destruct l; [reflexivity|cbn [length] in *; lia]. Qed.

(* Nobody panics: the assertion never fails and the counter never wraps. *)
Lemma no_panic root s : reach N C root s -> forall w, In w (ws s) -> w <> WBad.
Proof.
  intros Hr w Hin ->. destruct (reach_inv _ _ _ _ Hr) as [_ (_ & _ & _ & Hb) _ _ _ _ _].
  pose proof (sumf_zero_forall _ _ Hb _ Hin) as H. discriminate.
Qed.

(* At end-of-stream the consumer has received exactly what the reference walk lists. *)
Lemma eos_complete root s : reach N C root s -> cons s = CEos ->
  Permutation (map REntry (recvd s)) (walk_all [] root) /\
  ws s = repeat WExit N /\ jobs (gl s) = [] /\ rq (gl s) = [] /\ cnt (gl s) = 0.
Proof.
  intros Hr Hc. destruct (reach_inv _ _ _ _ Hr) as [Hlen (HB & H1 & H2 & Hb) _ HG HE HK _].
  destruct (HE Hc) as [Hex Hrq].
  assert (Hal : alive (cons s) = true) by (rewrite Hc; reflexivity).
  destruct (all_exit_sums _ Hex (HG Hal) Hb) as (S1 & S2 & S3 & S4).
  assert (Hcnt : cnt (gl s) = 0) by lia.
  specialize (H2 Hcnt).
  assert (Hj : jobs (gl s) = []) by (apply jobs_empty; lia).
  repeat split; auto.
  - apply occ_perm. intros x. specialize (HK (or_intror Hc) x).
    rewrite Hrq, Hj, S4 in HK. cbn [sumf] in HK. rewrite occ_nil in HK. lia.
  - (* every worker is WExit *)
    clear - Hex HG Hal Hb Hlen. specialize (HG Hal). rewrite <- Hlen. clear Hlen.
    induction (ws s) as [|w l IH]; [reflexivity|].
    cbn [forallb sumf length repeat] in *. apply andb_true_iff in Hex as [Hw Hex].
    destruct w; cbn [exited gonew badw] in *; try discriminate; try lia.
    f_equal. apply IH; [lia|lia|exact Hex].
Qed.

Lemma In_map_REntry_err l : ~ In RErr (map REntry l).
Proof. induction l as [|e l IH]; cbn [map In]; [tauto|]. intros [H|H]; [discriminate|tauto]. Qed.

Lemma has_error_In t : has_error t = true <-> In RErr (walk_all [] t).
Proof.
  unfold has_error. rewrite existsb_exists. split.
  - intros (r & Hin & Hr). destruct r; [discriminate|exact Hin].
  - intros H. exists RErr. split; [exact H|reflexivity].
Qed.

Lemma entries_of_noerr l : ~ In RErr l -> entries_of l = l.
Proof.
  unfold entries_of. induction l as [|r l IH]; cbn [filter In]; intros H; [reflexivity|].
  destruct r as [e|]; cbn [is_entry is_err negb]; [|exfalso; apply H; auto].
  rewrite IH; [reflexivity|]. intros Hin. apply H. auto.
Qed.

Lemma map_REntry_inj l1 l2 : map REntry l1 = map REntry l2 -> l1 = l2.
Proof.
  revert l2. induction l1 as [|a l1 IH]; intros [|b l2]; cbn [map]; intros H; try discriminate; [reflexivity|].
  injection H as H1 H2. subst. f_equal. apply IH. exact H2.
Qed.

Lemma eos_exactly_once root s : reach N C root s -> cons s = CEos ->
  has_error root = false /\ Permutation (recvd s) (walk_spec [] root).
Proof.
  intros Hr Hc. destruct (eos_complete _ _ Hr Hc) as (Hp & _).
  assert (Hne : ~ In RErr (walk_all [] root)).
  { intros Hin. apply (Permutation_in _ (Permutation_sym Hp)) in Hin. exact (In_map_REntry_err _ Hin). }
  split.
  - destruct (has_error root) eqn:E; [|reflexivity]. apply has_error_In in E. contradiction.
  - rewrite <- (entries_of_noerr _ Hne), <- walk_spec_entries in Hp.
    apply Permutation_sym in Hp. apply Permutation_map_inv in Hp as (l3 & E3 & P3).
    apply map_REntry_inj in E3. subst l3. exact P3.
Qed.

(* A failing read_dir (or entry) never ends in an end-of-list. *)
Lemma error_never_eos root s : reach N C root s -> has_error root = true -> cons s <> CEos.
Proof. intros Hr He Hc. destruct (eos_exactly_once _ _ Hr Hc) as [H _]. congruence. Qed.

(* ... and without one the consumer never fails. *)
Lemma noerror_never_fails root s : reach N C root s -> has_error root = false ->
  cons s = CRun \/ cons s = CEos.
Proof.
  intros Hr He. induction Hr as [|s s' Hr IH Hs]; [left; reflexivity|].
  destruct Hs as [s a w b g' w' Hws Hw|s e r Hc Hrq|s r Hc Hrq|s Hc|s Hc Hrq Hex]; cbn [cons]; auto.
  - exfalso. destruct (reach_inv _ _ _ _ Hr) as [_ _ _ _ _ HK _].
    specialize (HK (or_introl Hc) RErr). rewrite Hrq, occ_cons, ind_refl in HK.
    assert (Hin : In RErr (walk_all [] root)) by (apply occ_In; lia).
    apply has_error_In in Hin. congruence.
  - destruct IH as [IH|IH]; congruence.
Qed.

(* ---- no reachable non-final state is stuck ---- *)
Definition blocked (g : glob) (w : wpc) : Prop := exited w = true \/ (w = WIdle /\ jobs g = []).
(* final: end-of-list delivered, or the listing failed and every worker has exited or waits for
   ever on the empty job queue (the leaked workers of the read_dir error path) *)
Definition final (s : state) : Prop :=
  cons s = CEos \/ (cons s = CDropped /\ Forall (blocked (gl s)) (ws s)).

Lemma worker_progress al g w : (al = true -> length (rq g) < C) ->
  blocked g w \/ exists g' w', wstep N C al g w g' w'.
Proof.
  intros Hroom. unfold blocked.
  destruct w as [|p t|p rest|p n sub rest|p n sub rest| |k| | |]; cbn [exited]; auto.
  - destruct (jobs g) as [|[q t|] js] eqn:Hj; [left; right; auto| |]; right; do 2 eexists.
    + eapply ws_pop_dir; eauto.
    + eapply ws_pop_done; eauto.
  - right. destruct (readable t) eqn:Hr.
    + destruct t as [k|[|] ch]; try discriminate. do 2 eexists. apply ws_read_ok.
    + destruct al; do 2 eexists; [eapply ws_read_fail|eapply ws_read_fail_gone]; eauto.
  - right. destruct rest as [|[n [[|] sub]] rest].
    + destruct (cnt g) as [|[|c]] eqn:Hc; do 2 eexists; [eapply ws_dec_wrap|eapply ws_dec_last|eapply ws_dec_more]; eauto.
    + do 2 eexists. apply ws_skip.
    + destruct al; [|do 2 eexists; eapply ws_send_gone; eauto].
      destruct sub as [k|r ch]; do 2 eexists; [eapply ws_leaf|eapply ws_dir]; eauto.
  - right. do 2 eexists. apply ws_add.
  - right. do 2 eexists. apply ws_push.
  - right. destruct (jobs g) as [|j js] eqn:Hj; do 2 eexists; [eapply ws_assert_ok|eapply ws_assert_fail]; eauto. congruence.
  - right. destruct k; do 2 eexists; [apply ws_bcast_end|apply ws_bcast].
Qed.

Lemma workers_progress al g l : (al = true -> length (rq g) < C) ->
  Forall (blocked g) l \/ exists a w b g' w', l = a ++ w :: b /\ wstep N C al g w g' w'.
Proof.
  intros Hroom. induction l as [|w l IH]; [left; constructor|].
  destruct (worker_progress al g w Hroom) as [Hb|(g' & w' & Hw)].
  - destruct IH as [IH|(a & w0 & b & g' & w' & -> & Hw)].
    + left. constructor; assumption.
    + right. exists (w :: a), w0, b, g', w'. split; [reflexivity|exact Hw].
  - right. exists [], w, l, g', w'. split; [reflexivity|exact Hw].
Qed.

Lemma blocked_all_done g l : Forall (blocked g) l -> sumf (dw N) l = length l -> forallb exited l = true.
Proof.
  induction 1 as [|w l Hw Hl IH]; cbn [sumf length forallb]; intros Hs; [reflexivity|].
  assert (Hle : sumf (dw N) l <= length l).
  { clear - Hl. induction Hl as [|w l Hw _ IH]; cbn [sumf length]; [lia|].
    destruct Hw as [Hw|[-> _]]; [destruct w; cbn [exited dw] in *; try discriminate; lia|cbn [dw]; lia]. }
  destruct Hw as [Hw|[-> _]].
  - rewrite Hw. cbn [andb]. apply IH. destruct w; cbn [exited dw] in *; try discriminate; lia.
  - cbn [dw] in Hs. lia.
Qed.

Lemma blocked_inprog g l : Forall (blocked g) l -> sumf inprog l = 0.
Proof.
  induction 1 as [|w l Hw _ IH]; cbn [sumf]; [reflexivity|].
  destruct Hw as [Hw|[-> _]]; [destruct w; cbn [exited inprog] in *; try discriminate; lia|cbn [inprog]; lia].
Qed.

Hypothesis HC : C >= 1.

Lemma no_stuck root s : reach N C root s -> final s \/ exists s', step N C s s'.
Proof.
  intros Hr. destruct (reach_inv _ _ _ _ Hr) as [Hlen (HB & H1 & H2 & Hb) HL HG HE HK _].
  unfold final. destruct (cons s) eqn:Hc.
  - (* CRun *) right.
    destruct (rq (gl s)) as [|[e|] r] eqn:Hrq.
    + destruct (workers_progress true (gl s) (ws s)) as [Hbl|(a & w & b & g' & w' & Hws & Hw)].
      * intros _. rewrite Hrq. cbn [length]. lia.
      * (* everybody waits: then the counter is 0, all N Done were consumed, the stream ends *)
        eexists. apply st_eos; auto.
        specialize (HL eq_refl). rewrite occ_nil in HL.
        pose proof (blocked_inprog _ _ Hbl) as Hip.
        destruct (jobs (gl s)) as [|j js] eqn:Hj.
        -- cbn [sumf] in *. eapply blocked_all_done; eauto. lia.
        -- (* a queued job: some worker is not blocked unless all have exited *)
           clear - Hbl Hj. induction Hbl as [|w l Hw _ IH]; [reflexivity|].
           cbn [forallb]. destruct Hw as [Hw|[_ Hw]]; [rewrite Hw; exact IH|congruence].
      * eexists. eapply st_worker; eauto. rewrite Hc. exact Hw.
    + eexists. eapply st_pop_ok; eauto.
    + eexists. eapply st_pop_err; eauto.
  - (* CErr *) right. eexists. apply st_drop. exact Hc.
  - (* CDropped *)
    destruct (workers_progress false (gl s) (ws s)) as [Hbl|(a & w & b & g' & w' & Hws & Hw)].
    + discriminate.
    + left. right. auto.
    + right. eexists. eapply st_worker; eauto. rewrite Hc. exact Hw.
  - left. left. reflexivity.
Qed.

(* An execution that cannot continue has delivered end-of-list after the complete listing
   (no error in the tree) or has failed (some error in the tree). *)
Lemma stuck_outcome root s : reach N C root s -> (forall s', ~ step N C s s') ->
  (has_error root = false /\ cons s = CEos /\ Permutation (recvd s) (walk_spec [] root) /\ ws s = repeat WExit N) \/
  (has_error root = true /\ cons s = CDropped /\ Forall (blocked (gl s)) (ws s)).
Proof.
  intros Hr Hst. destruct (no_stuck _ _ Hr) as [[Hc|[Hc Hbl]]|(s' & Hs)]; [| |exfalso; eapply Hst; eauto].
  - left. destruct (eos_exactly_once _ _ Hr Hc) as [He Hp]. destruct (eos_complete _ _ Hr Hc) as (_ & Hw & _). auto.
  - right. destruct (has_error root) eqn:He; [auto|].
    destruct (noerror_never_fails _ _ Hr He); congruence.
Qed.

(* Non-vacuity, for every tree: some execution exists that runs until nothing is enabled
   (by well-founded induction on the measure, using no_stuck). *)
Lemma run_to_final root s : reach N C root s ->
  exists s', reach N C root s' /\ final s' /\ (forall s'', ~ step N C s' s'').
Proof.
  intros Hr. induction (terminates N C s) as [s _ IH].
  destruct (no_stuck _ _ Hr) as [Hf|(s' & Hs)].
  - exists s. repeat split; auto. intros s'' Hs.
    destruct Hf as [Hc|[Hc Hbl]].
    + destruct (eos_complete _ _ Hr Hc) as (_ & Hw & _ & Hrq & _).
      destruct Hs as [s a w b g' w' Hws Hst|s e r Hc' Hrq'|s r Hc' Hrq'|s Hc'|s Hc' Hrq' Hex]; try congruence.
      apply exited_no_step in Hst. rewrite Hw in Hws.
      assert (Hin : In w (repeat WExit N)) by (rewrite Hws; apply in_or_app; right; left; reflexivity).
      apply repeat_spec in Hin. subst w. discriminate.
    + destruct Hs as [s a w b g' w' Hws Hst|s e r Hc' Hrq'|s r Hc' Hrq'|s Hc'|s Hc' Hrq' Hex]; try congruence.
      rewrite Hws in Hbl. apply Forall_app in Hbl as [_ Hbl]. inversion Hbl as [|? ? Hw _]; subst.
      destruct Hw as [Hw|[-> Hj]].
      * apply exited_no_step in Hst. congruence.
      * inversion Hst; congruence.
  - apply (IH s' Hs). eapply r_step; eauto.
Qed.

End Consequences.

(* ================================================================================================ *)
(* no descent into excluded folders or through links; parents first                                  *)
Section Structure.
Variable N : nat.
Variable C : nat.
Variable root : tree.

Definition jok (j : job) : Prop := match j with JDir p t => dir_at root p t | JDone => True end.
Definition wok (w : wpc) : Prop :=
  match w with
  | WRead p t => dir_at root p t
  | WIter p rest => exists ch pre, dir_at root p (Dir true ch) /\ ch = pre ++ rest
  | WAdd p n sub rest | WPush p n sub rest =>
      exists ch pre, dir_at root p (Dir true ch) /\ ch = pre ++ (n, (false, sub)) :: rest /\ is_dir sub = true
  | _ => True
  end.
Definition rok (r : result) : Prop := match r with REntry e => included root e | RErr => True end.

Lemma s_wstep al g w g' w' : wstep N C al g w g' w' ->
  wok w -> Forall jok (jobs g) -> Forall rok (rq g) ->
  wok w' /\ Forall jok (jobs g') /\ Forall rok (rq g').
Proof.
  intros Hw Hwok Hj Hr.
  destruct Hw; cbn [jobs rq wok] in *;
    repeat match goal with H : jobs _ = _ |- _ => rewrite H in * end.
  - inversion Hj; subst. auto.
  - inversion Hj; subst. auto.
  - split; [|auto]. exists ch, []. auto.
  - repeat split; auto. apply Forall_app; split; auto. constructor; [exact I|constructor].
  - auto.
  - destruct Hwok as (ch & pre & Hd & ->). split; [|auto].
    exists (pre ++ (n, (true, sub)) :: rest), (pre ++ [(n, (true, sub))]). split; [exact Hd|]. rewrite <- app_assoc. reflexivity.
  - destruct Hwok as (ch & pre & Hd & ->). repeat split; auto.
    + exists (pre ++ (n, (false, Leaf k)) :: rest), (pre ++ [(n, (false, Leaf k))]). split; [exact Hd|]. rewrite <- app_assoc. reflexivity.
    + apply Forall_app; split; auto.
      assert (Hin : In (n, (false, Leaf k)) (pre ++ (n, (false, Leaf k)) :: rest)) by (apply in_or_app; right; left; reflexivity).
      destruct k; cbn [leaf_items]; constructor; try constructor; cbn [rok]; auto;
        eexists p, _, n, _; repeat split; eauto.
  - destruct Hwok as (ch0 & pre & Hd & ->). repeat split; auto.
    + exists (pre ++ (n, (false, Dir r ch)) :: rest), pre. auto.
    + apply Forall_app; split; auto. constructor; [|constructor]. cbn [rok].
      eexists p, _, n, _; repeat split; eauto. apply in_or_app; right; left; reflexivity.
      reflexivity.
  - auto.
  - auto.
  - destruct Hwok as (ch & pre & Hd & -> & Hdir). repeat split; auto.
    + exists (pre ++ (n, (false, sub)) :: rest), (pre ++ [(n, (false, sub))]). split; [exact Hd|]. rewrite <- app_assoc. reflexivity.
    + apply Forall_app; split; auto. constructor; [|constructor]. cbn [jok].
      eapply da_child; eauto. apply in_or_app; right; left; reflexivity.
  - auto.
  - auto.
  - auto.
  - auto.
  - auto.
  - repeat split; auto. apply Forall_app; split; auto.
  - auto.
Qed.

Definition SInv (s : state) : Prop :=
  Forall jok (jobs (gl s)) /\ Forall wok (ws s) /\ Forall rok (rq (gl s)) /\ Forall (included root) (recvd s).

Lemma sinv_init : SInv (init N root).
Proof.
  unfold SInv, init; cbn [gl ws jobs rq recvd]. repeat split; auto.
  - constructor; [apply da_root|constructor].
  - clear. induction N; cbn [repeat]; constructor; auto. exact I.
Qed.

Lemma sinv_step s s' : SInv s -> step N C s s' -> SInv s'.
Proof.
  intros (Hj & Hw & Hr & Hrec) Hs. unfold SInv.
  destruct Hs as [s a w b g' w' Hws Hst|s e r Hc Hrq|s r Hc Hrq|s Hc|s Hc Hrq Hex]; cbn [gl ws cons recvd jobs rq].
  - rewrite Hws in Hw. apply Forall_app in Hw as [Ha Hwb]. inversion Hwb as [|? ? Hw0 Hb]; subst.
    destruct (s_wstep _ _ _ _ _ Hst Hw0 Hj Hr) as (W & J & R). repeat split; auto.
    apply Forall_app; split; auto.
  - rewrite Hrq in Hr. inversion Hr; subst. repeat split; auto. apply Forall_app; split; auto.
  - rewrite Hrq in Hr. inversion Hr; subst. repeat split; auto.
  - repeat split; auto.
  - repeat split; auto.
Qed.

Lemma reach_sinv s : reach N C root s -> SInv s.
Proof. induction 1; [apply sinv_init|eapply sinv_step; eauto]. Qed.

(* whatever is a job or a result lies below directories that are themselves reached without
   entering an excluded folder or a link: [dir_at] is closed under prefixes *)
Lemma dir_at_prefix p t : dir_at root p t -> forall q r, p = q ++ r -> r <> [] ->
  exists ch, dir_at root q (Dir true ch).
Proof.
  induction 1 as [|p ch n sub Hd IH Hin Hdir]; intros q r E Hr.
  - destruct q; destruct r; try discriminate. contradiction.
  - destruct r as [|x r] using rev_ind; [contradiction|]. clear IHr.
    rewrite app_assoc in E. apply app_inj_tail in E as [E _]. subst p.
    destruct r as [|y r]; [rewrite app_nil_r in Hd; eauto|].
    eapply IH; [reflexivity|discriminate].
Qed.

End Structure.

(* ---- parents first ---- *)
Lemma parent_first_snoc l q k : parent_first l ->
  (forall p n, q = p ++ [n] -> p <> [] -> In (p, KDir) l) -> parent_first (l ++ [(q, k)]).
Proof.
  intros HP Hq a b p n k0 E Hp.
  destruct b as [|y b] using rev_ind.
  - apply app_inj_tail in E as [-> E]. injection E as -> ->. eapply Hq; eauto.
  - clear IHb. rewrite app_comm_cons, app_assoc in E. apply app_inj_tail in E as [-> _]. eapply HP; eauto.
Qed.

Lemma parent_first_prefix l1 l2 : parent_first (l1 ++ l2) -> parent_first l1.
Proof. intros HP a b p n k E Hp. eapply (HP a (b ++ l2)); eauto. rewrite E, <- app_assoc. reflexivity. Qed.

Lemma parent_first_ancestors l : parent_first l -> ancestors_first l.
Proof.
  intros HP a b q r. revert a b. induction r as [|n r IH] using rev_ind; intros a b k E Hq Hr; [contradiction|].
  rewrite app_assoc in E. pose proof (HP a b (q ++ r) n k E) as Hin.
  assert (Hne : q ++ r <> []) by (destruct q; [contradiction|discriminate]).
  specialize (Hin Hne). destruct r as [|m r]; [rewrite app_nil_r in Hin; exact Hin|].
  apply in_split in Hin as (a1 & a2 & ->).
  assert (In (q, KDir) a1).
  { eapply (IH a1 (a2 ++ (((q ++ m :: r) ++ [n]), k) :: b) KDir); [|exact Hq|discriminate].
    rewrite E, <- app_assoc. reflexivity. }
  apply in_or_app. auto.
Qed.

Lemma ents_app l1 l2 : ents (l1 ++ l2) = ents l1 ++ ents l2.
Proof. unfold ents. apply flat_map_app. Qed.

Section Order.
Variable N : nat.
Variable C : nat.

Definition ann (l : list entry) (p : path) : Prop := p = [] \/ In (p, KDir) l.
Definition jann (l : list entry) (j : job) : Prop := match j with JDir p _ => ann l p | JDone => True end.
Definition wann (l : list entry) (w : wpc) : Prop :=
  match w with
  | WRead p _ | WIter p _ => ann l p
  | WAdd p n _ _ | WPush p n _ _ => ann l p /\ ann l (p ++ [n])
  | _ => True
  end.
Lemma ann_mono l x p : ann l p -> ann (l ++ x) p.
Proof. intros [H|H]; [left; exact H|right; apply in_or_app; auto]. Qed.
Lemma jann_mono l x j : jann l j -> jann (l ++ x) j.
Proof. destruct j; cbn [jann]; auto using ann_mono. Qed.
Lemma wann_mono l x w : wann l w -> wann (l ++ x) w.
Proof. destruct w; cbn [wann]; auto using ann_mono. intros []; auto using ann_mono. intros []; auto using ann_mono. Qed.

Lemma parent_first_send l p n k : parent_first l -> ann l p -> parent_first (l ++ [(p ++ [n], k)]).
Proof.
  intros HP Ha. apply parent_first_snoc; [exact HP|].
  intros p' n' E Hp'. apply app_inj_tail in E as [-> _]. destruct Ha; [contradiction|assumption].
Qed.

Lemma p_wstep g w g' w' l0 : wstep N C true g w g' w' ->
  parent_first (l0 ++ ents (rq g)) -> wann (l0 ++ ents (rq g)) w -> Forall (jann (l0 ++ ents (rq g))) (jobs g) ->
  exists x, l0 ++ ents (rq g') = (l0 ++ ents (rq g)) ++ x /\
    parent_first (l0 ++ ents (rq g')) /\ wann (l0 ++ ents (rq g')) w' /\ Forall (jann (l0 ++ ents (rq g'))) (jobs g').
Proof.
  intros Hw HP Hwa Hja.
  assert (Hmono : forall x, Forall (jann ((l0 ++ ents (rq g)) ++ x)) (jobs g)).
  { intros x. eapply Forall_impl; [|exact Hja]. intros j. apply jann_mono. }
  destruct Hw; cbn [jobs rq wann] in *;
    repeat match goal with H : jobs _ = _ |- _ => rewrite H in * end;
    try discriminate.
  - exists []. rewrite app_nil_r. inversion Hja; subst. auto.
  - exists []. rewrite app_nil_r. inversion Hja; subst. repeat split; auto.
  - exists []. rewrite app_nil_r. auto.
  - exists []. rewrite ents_app. cbn [ents flat_map]. rewrite !app_nil_r. auto.
  - exists []. rewrite app_nil_r. auto.
  - (* leaf *) rewrite ents_app, app_assoc.
    destruct k; cbn [leaf_items ents flat_map]; rewrite ?app_nil_r;
      try (eexists; split; [reflexivity|]; repeat split; [apply parent_first_send; auto|apply ann_mono; auto|apply Hmono]).
    exists []. rewrite app_nil_r. auto.
  - (* folder *) rewrite ents_app, app_assoc. cbn [ents flat_map]. rewrite ?app_nil_r.
    eexists; split; [reflexivity|]. repeat split; [apply parent_first_send; auto|apply ann_mono; auto| |apply Hmono].
    right. apply in_or_app. right. left. reflexivity.
  - exists []. rewrite app_nil_r. auto.
  - exists []. rewrite app_nil_r. destruct Hwa as [Hp Hc]. repeat split; auto.
    apply Forall_app; split; auto.
  - exists []. rewrite app_nil_r. auto.
  - exists []. rewrite app_nil_r. auto.
  - exists []. rewrite app_nil_r. auto.
  - exists []. rewrite app_nil_r. auto.
  - exists []. rewrite app_nil_r. auto.
  - exists []. rewrite app_nil_r. repeat split; auto. apply Forall_app; split; auto.
  - exists []. rewrite app_nil_r. auto.
Qed.

Lemma wstep_dead_rq g w g' w' : wstep N C false g w g' w' -> rq g' = rq g.
Proof. destruct 1; cbn [rq]; try reflexivity; discriminate. Qed.

Definition sentE (s : state) : list entry := recvd s ++ ents (rq (gl s)).
Definition PInv (s : state) : Prop :=
  parent_first (sentE s) /\
  (alive (cons s) = true -> Forall (jann (sentE s)) (jobs (gl s)) /\ Forall (wann (sentE s)) (ws s)).

Lemma pinv_init root : PInv (init N root).
Proof.
  unfold PInv, sentE, init; cbn [gl ws cons recvd jobs rq ents flat_map app]. split.
  - intros a b p n k E. destruct a; discriminate.
  - intros _. split; [constructor; [left; reflexivity|constructor]|].
    induction N; cbn [repeat]; constructor; auto. exact I.
Qed.

Lemma pinv_step s s' : PInv s -> step N C s s' -> PInv s'.
Proof.
  intros [HP HA] Hs. unfold PInv, sentE in *.
  destruct Hs as [s a w b g' w' Hws Hst|s e r Hc Hrq|s r Hc Hrq|s Hc|s Hc Hrq Hex]; cbn [gl ws cons recvd jobs rq].
  - destruct (alive (cons s)) eqn:Hal.
    + destruct (HA eq_refl) as [HJ HW]. rewrite Hws in HW.
      apply Forall_app in HW as [Ha Hwb]. inversion Hwb as [|? ? Hw0 Hb]; subst.
      destruct (p_wstep _ _ _ _ _ Hst HP Hw0 HJ) as (x & E & P' & W' & J').
      split; [exact P'|]. intros _. split; [exact J'|].
      rewrite E. apply Forall_app; split; [|constructor; [rewrite <- E; exact W'|]];
        (eapply Forall_impl; [|eassumption]); intros w1; apply wann_mono.
    + rewrite (wstep_dead_rq _ _ _ _ Hst). split; [exact HP|discriminate].
  - rewrite Hrq in *. cbn [ents flat_map app] in *. rewrite <- app_assoc. cbn [app].
    split; [exact HP|]. intros _. apply HA. rewrite Hc. reflexivity.
  - rewrite Hrq in *. cbn [ents flat_map app] in *.
    split; [exact HP|]. intros _. apply HA. rewrite Hc. reflexivity.
  - cbn [ents flat_map]. rewrite app_nil_r. split; [eapply parent_first_prefix; eauto|discriminate].
  - split; [exact HP|]. intros _. apply HA. rewrite Hc. reflexivity.
Qed.

Lemma reach_pinv root s : reach N C root s -> PInv s.
Proof. induction 1; [apply pinv_init|eapply pinv_step; eauto]. Qed.

Lemma reach_parent_first root s : reach N C root s -> ancestors_first (recvd s).
Proof.
  intros Hr. destruct (reach_pinv _ _ Hr) as [HP _]. apply parent_first_ancestors.
  eapply parent_first_prefix. exact HP.
Qed.

End Order.
