(* C17 - proofs about the directory walker model (Model/Walker.v). *)
From RJ Require Import Base.Prelude Model.Walker.
From Coq Require Import Permutation.

(* ---- induction over trees (nested through the child list) ---- *)
Fixpoint tree_ind' (P : tree -> Prop)
  (HL : forall k, P (Leaf k))
  (HD : forall r ch, Forall (fun c : child => P (snd (snd c))) ch -> P (Dir r ch))
  (t : tree) : P t :=
  match t with
  | Leaf k => HL k
  | Dir r ch => HD r ch
      ((fix go (l : list child) : Forall (fun c : child => P (snd (snd c))) l :=
          match l with
          | [] => Forall_nil _
          | c :: l' => Forall_cons c (match c return P (snd (snd c)) with (_, (_, sub)) => tree_ind' P HL HD sub end) (go l')
          end) ch)
  end.

Definition is_entry (r : result) : bool := negb (is_err r).
Definition entries_of (l : list result) : list result := filter is_entry l.

Lemma walk_all_dir p ch : walk_all p (Dir true ch) = flat_map (child_items p) ch.
Proof. reflexivity. Qed.

Lemma filter_flat_map {A B} (f : B -> bool) (g : A -> list B) l :
  filter f (flat_map g l) = flat_map (fun x => filter f (g x)) l.
Proof. induction l as [|x l IH]; cbn [flat_map filter]; [reflexivity|]. rewrite filter_app, IH. reflexivity. Qed.

Lemma map_flat_map {A B C} (f : B -> C) (g : A -> list B) l :
  map f (flat_map g l) = flat_map (fun x => map f (g x)) l.
Proof. induction l as [|x l IH]; cbn [flat_map map]; [reflexivity|]. rewrite map_app, IH. reflexivity. Qed.

Lemma flat_map_ext_Forall {A B} (f g : A -> list B) l :
  Forall (fun x => f x = g x) l -> flat_map f l = flat_map g l.
Proof. induction 1 as [|x l Hx _ IH]; cbn [flat_map]; [reflexivity|]. rewrite Hx, IH. reflexivity. Qed.

(* The reference walk is exactly the entries among everything the workers send. *)
Lemma walk_spec_entries t : forall p, map REntry (walk_spec p t) = entries_of (walk_all p t).
Proof.
  induction t as [k|r ch IH] using tree_ind'; intros p.
  - reflexivity.
  - destruct r; [|reflexivity].
    cbn [walk_spec walk_all]. unfold entries_of. rewrite map_flat_map, filter_flat_map.
    apply flat_map_ext_Forall. eapply Forall_impl; [|exact IH].
    intros [n [sk sub]] Hsub; cbn [snd] in Hsub.
    destruct sk; [reflexivity|]. destruct sub as [[| | |]|r' ch']; try reflexivity.
    cbn [map filter is_entry is_err negb]. rewrite Hsub. reflexivity.
Qed.
