(* The destination stays a well-formed tree (every entry's ancestors are folders, one node per path) in
   every state a run can leave behind - so the next run's listing is a valid listing of it and C01/C08's
   theorems apply to the executable instance from ANY such state. *)
From RJ Require Import Base.Prelude Base.OrderedPlan Model.Settings Model.Core Model.Fs Model.Sync
  Proofs.FsProofs Proofs.PathLemmas Proofs.PlanCProofs Proofs.ExecProofs Proofs.MirrorProofs Proofs.InstanceProofs
  Proofs.CrashProofs.

(* ---- association lists ---- *)
Lemma aremove_keys_incl {V} k (m : list (path * V)) x : In x (map fst (aremove path path_eq_dec k m)) -> In x (map fst m) /\ x <> k.
Proof.
  induction m as [|[k' v] m IH]; cbn [aremove map fst]; [intros []|].
  destruct (path_eq_dec k k') as [->|Hne]; cbn [map fst In].
  - intros H. destruct (IH H) as [H1 H2]. split; [right; exact H1|exact H2].
  - intros [<-|H]; [split; [left; reflexivity|congruence]|]. destruct (IH H) as [H1 H2]. split; [right; exact H1|exact H2].
Qed.
Lemma aremove_nodup {V} k (m : list (path * V)) : NoDup (map fst m) -> NoDup (map fst (aremove path path_eq_dec k m)).
Proof.
  induction m as [|[k' v] m IH]; cbn [aremove map fst]; intros H; [constructor|].
  inversion H as [|? ? Hn Hnd]; subst. destruct (path_eq_dec k k'); [apply IH; exact Hnd|].
  cbn [map fst]. constructor; [|apply IH; exact Hnd]. intros Hin. apply Hn. apply (aremove_keys_incl k m k' Hin).
Qed.
Lemma uk_fdel f p : unique_keys f -> unique_keys (fdel f p).
Proof. apply aremove_nodup. Qed.
Lemma uk_fset f p n : unique_keys f -> unique_keys (fset f p n).
Proof.
  intros H. unfold unique_keys, fset, ainsert. cbn [map fst]. constructor; [|apply aremove_nodup; exact H].
  intros Hin. destruct (aremove_keys_incl p f p Hin) as [_ Hne]. congruence.
Qed.

(* ---- well-formedness under fset / fdel ---- *)
Lemma wf_fset f p n :
  wf_fs f -> (forall q, is_strict_prefix q p = true -> fget f q = Some NFolder) ->
  (fget f p <> Some NFolder \/ n = NFolder) -> wf_fs (fset f p n).
Proof.
  intros Hw Hpre Hleaf r m Hr q Hq. destruct (path_eq_dec q p) as [->|Hqp].
  - assert (Hrp : r <> p) by (intros ->; apply strict_prefix_neq in Hq; congruence).
    rewrite fget_fset_ne in Hr by exact Hrp. pose proof (Hw r m Hr p Hq) as Hp.
    destruct Hleaf as [Hl| ->]; [congruence|apply fget_fset_eq].
  - rewrite fget_fset_ne by exact Hqp. destruct (path_eq_dec r p) as [->|Hrp]; [apply Hpre; exact Hq|].
    rewrite fget_fset_ne in Hr by exact Hrp. exact (Hw r m Hr q Hq).
Qed.

Lemma wf_fdel f p :
  wf_fs f -> (forall r m, fget f r = Some m -> is_strict_prefix p r = false) -> wf_fs (fdel f p).
Proof.
  intros Hw Hnc r m Hr q Hq.
  assert (Hrp : r <> p) by (intros ->; rewrite fget_fdel_eq in Hr; discriminate).
  rewrite fget_fdel_ne in Hr by exact Hrp. destruct (path_eq_dec q p) as [->|Hqp].
  - rewrite (Hnc r m Hr) in Hq. discriminate.
  - rewrite fget_fdel_ne by exact Hqp. exact (Hw r m Hr q Hq).
Qed.

Lemma leaf_no_children f p : wf_fs f -> fget f p <> Some NFolder -> forall r m, fget f r = Some m -> is_strict_prefix p r = false.
Proof.
  intros Hw Hl r m Hr. destruct (is_strict_prefix p r) eqn:E; [|reflexivity]. exfalso. apply Hl. exact (Hw r m Hr p E).
Qed.
Lemma no_children_spec f p : has_children f p = false -> forall r m, fget f r = Some m -> is_strict_prefix p r = false.
Proof.
  unfold has_children. intros H r m Hr. apply alookup_some_in in Hr.
  destruct (is_strict_prefix p r) eqn:E; [|reflexivity]. exfalso.
  assert (Hex : existsb (fun e => is_strict_prefix p (fst e)) f = true) by (apply existsb_exists; exists (r, m); split; [exact Hr|exact E]).
  congruence.
Qed.

(* ---- path resolution: PROk means every strict prefix is a folder ---- *)
Lemma check_above_ok f : forall rest pre, check_above f pre rest = PROk ->
  forall k, k < length rest -> fget f (pre ++ firstn k rest) = Some NFolder.
Proof.
  induction rest as [|c rest IH]; intros pre H k Hk; [cbn in Hk; lia|].
  destruct rest as [|c2 rest'].
  - cbn [check_above] in H. cbn [length] in Hk. assert (k = 0) by lia. subst k. cbn [firstn]. rewrite app_nil_r.
    destruct (fget f pre) as [[| |t [| |]]|]; try discriminate. reflexivity.
  - cbn [check_above] in H.
    destruct (fget f pre) as [[| |t [| |]]|] eqn:E; try discriminate.
    destruct k as [|k']; [cbn [firstn]; rewrite app_nil_r; exact E|].
    cbn [firstn]. change (pre ++ c :: firstn k' (c2 :: rest')) with (pre ++ [c] ++ firstn k' (c2 :: rest')).
    rewrite app_assoc. apply IH; [exact H|]. cbn [length] in *. lia.
Qed.

Lemma resolve_ok_prefixes st p : resolve_above st p = PROk ->
  forall q, is_strict_prefix q p = true -> fget (d_fs st) q = Some NFolder.
Proof.
  intros H q Hq. apply strict_prefix_iff in Hq as (k & Hk & ->).
  destruct p as [|c r]; [cbn in Hk; lia|]. unfold resolve_above in H.
  exact (check_above_ok (d_fs st) (c :: r) [] H k Hk).
Qed.

Definition wfu (f : fs) : Prop := wf_fs f /\ unique_keys f.

Lemma wfu_set_leaf st p n :
  wfu (d_fs st) -> resolve_above st p = PROk -> fget (d_fs st) p <> Some NFolder -> wfu (fset (d_fs st) p n).
Proof.
  intros [Hw Hu] Hr Hl. split; [|apply uk_fset; exact Hu].
  apply wf_fset; [exact Hw|apply resolve_ok_prefixes; exact Hr|left; exact Hl].
Qed.
Lemma wfu_set_existing f p m d n : wfu f -> fget f p = Some (NFile m d) -> wfu (fset f p n).
Proof.
  intros [Hw Hu] Hp. split; [|apply uk_fset; exact Hu].
  apply wf_fset; [exact Hw|intros q Hq; exact (Hw p _ Hp q Hq)|left; rewrite Hp; discriminate].
Qed.
Lemma wfu_del_leaf f p : wfu f -> fget f p <> Some NFolder -> wfu (fdel f p).
Proof.
  intros [Hw Hu] Hl. split; [|apply uk_fdel; exact Hu]. apply wf_fdel; [exact Hw|apply leaf_no_children; assumption].
Qed.
Lemma wfu_del_empty f p : wfu f -> has_children f p = false -> wfu (fdel f p).
Proof.
  intros [Hw Hu] Hc. split; [|apply uk_fdel; exact Hu]. apply wf_fdel; [exact Hw|apply no_children_spec; exact Hc].
Qed.

(* ---- every command keeps the tree well-formed, in all the states it passes through ---- *)
Lemma write_chunk_wfu st p data m d : wfu (d_fs st) -> fget (d_fs st) p = Some (NFile m d) -> wfu (d_fs (write_chunk st p data)).
Proof. intros H Hp. unfold write_chunk. dsimpl. eapply wfu_set_existing; eauto. Qed.
Lemma stamp_wfu st p t m d : wfu (d_fs st) -> fget (d_fs st) p = Some (NFile m d) -> wfu (d_fs (stamp_file st p t)).
Proof. intros H Hp. unfold stamp_file. dsimpl. eapply wfu_set_existing; eauto. Qed.

Lemma open_wfu st p st1 :
  wfu (d_fs st) -> open_for_write st p = OpFile st1 ->
  wfu (d_fs st1) /\ exists m d, fget (d_fs st1) p = Some (NFile m d).
Proof.
  intros H Ho. unfold open_for_write in Ho.
  destruct (d_open st) as [q|].
  - destruct (path_eqb q p); [|discriminate]. destruct (fget (d_fs st) p) as [[m d| |t k]|] eqn:E; try discriminate.
    inversion Ho; subst. dsimpl. split; [exact H|eauto].
  - destruct (resolve_above st p) eqn:Er; try discriminate.
    destruct (fget (d_fs st) p) as [[m d| |t [| |]]|] eqn:E; try discriminate; inversion Ho; subst; dsimpl;
      (split; [apply wfu_set_leaf; [exact H|exact Er|rewrite E; discriminate]|rewrite fget_fset_eq; eauto]).
Qed.

Lemma cmd_states_wfu fl st c : wfu (d_fs st) -> forall s, In s (cmd_states fl st c) -> wfu (d_fs s).
Proof.
  intros H s Hin.
  assert (Hnc : is_chunk c = false -> wfu (d_fs (fst (doer_exec fl st c)))).
  { intros Hc. destruct (doer_exec fl st c) as [st' e] eqn:Hx. cbn [fst].
    destruct c; try discriminate Hc; cbn [doer_exec] in Hx;
      repeat (break_match_hyp Hx; try discriminate); inv_pair Hx; dsimpl; try exact H;
      match goal with
      | Hr : resolve_above _ ?p = PROk, E : fget _ ?p = None |- wfu (fset _ ?p _) =>
          apply wfu_set_leaf; [exact H|exact Hr|rewrite E; discriminate]
      | E : fget _ ?p = Some (NFile _ _) |- wfu (fdel _ ?p) => apply wfu_del_leaf; [exact H|rewrite E; discriminate]
      | E : fget _ ?p = Some (NLink _ _) |- wfu (fdel _ ?p) => apply wfu_del_leaf; [exact H|rewrite E; discriminate]
      | E : has_children _ ?p = false |- wfu (fdel _ ?p) => apply wfu_del_empty; [exact H|exact E]
      end. }
  destruct c; try (destruct Hin as [<-|[]]; apply Hnc; reflexivity).
  (* a file chunk *)
  cbn [cmd_states doer_exec] in Hin. destruct (blocked_at st p); [destruct Hin as [<-|[]]; dsimpl; exact H|].
  destruct (refuses st p); [destruct Hin as [<-|[]]; dsimpl; exact H|].
  set (st0 := with_failed st (if more then Some p else None)) in *.
  assert (H0 : wfu (d_fs st0)) by exact H.
  destruct (open_for_write st0 p) as [st1|st1|e] eqn:Eo.
  - destruct (open_wfu st0 p st1 H0 Eo) as [H1 (m & d & Hp1)].
    assert (Hw : forall dd, wfu (d_fs (write_chunk (count_write st1) p dd)))
      by (intros dd; eapply write_chunk_wfu; [exact H1|exact Hp1]).
    destruct Hin as [<-|Hin]; [exact H1|]. apply in_app_or in Hin as [Hin|[<-|[]]].
    + apply in_map_iff in Hin as (k & <- & _). apply Hw.
    + rewrite fst_if. destruct (write_fails st1); cbn [fst]; dsimpl; [apply Hw|].
      destruct set_mt as [t|]; [|dsimpl; apply Hw].
      assert (Hpw : exists m' d', fget (d_fs (write_chunk (count_write st1) p data)) p = Some (NFile m' d'))
        by (unfold write_chunk; dsimpl; rewrite fget_fset_eq; eauto).
      destruct Hpw as (m' & d' & Hpw). unfold stamp_file. dsimpl. eapply wfu_set_existing; [apply Hw|exact Hpw].
  - assert (H1 : d_fs st1 = d_fs st0).
    { unfold open_for_write in Eo. repeat (break_match_hyp Eo; try discriminate); inversion Eo; subst; reflexivity. }
    destruct Hin as [<-|[<-|[]]]; [rewrite H1; exact H0|dsimpl; rewrite H1; exact H0].
  - destruct Hin as [<-|[]]. dsimpl. exact H0.
Qed.

Lemma doer_exec_wfu fl st c : wfu (d_fs st) -> wfu (d_fs (fst (doer_exec fl st c))).
Proof.
  intros H. apply (cmd_states_wfu fl st c H).
  destruct c; try (left; reflexivity). cbn [cmd_states].
  destruct (blocked_at st p); [left; reflexivity|].
  destruct (refuses st p); [left; reflexivity|]. destruct (open_for_write _ p); [|right; left; reflexivity|left; reflexivity].
  right. apply in_or_app. right. left. reflexivity.
Qed.

Section Steps.
Variable fl : flavour.
Variable ft : faults.

Lemma run_step_wfu r s : wfu (d_fs (rs_d r)) -> wfu (d_fs (rs_d (run_step fl ft r s))).
Proof.
  intros H. rewrite run_step_d. destruct (executes ft r s); [apply doer_exec_wfu; exact H|].
  destruct (idle_same ft r s) as [E _]. rewrite E. exact H.
Qed.

Lemma steps_wfu steps : forall r, wfu (d_fs (rs_d r)) ->
  (forall s, In s (steps_states fl ft r steps) -> wfu (d_fs s)) /\ wfu (d_fs (rs_d (run_steps fl ft r steps))).
Proof.
  induction steps as [|s rest IH]; intros r H.
  { split; [intros x Hx; destruct Hx|exact H]. }
  change (run_steps fl ft r (s :: rest)) with (run_steps fl ft (run_step fl ft r s) rest). cbn [steps_states].
  destruct (IH _ (run_step_wfu r s H)) as [I1 I2]. split; [|exact I2].
  intros x Hin. apply in_app_or in Hin as [Hin|Hin]; [|apply I1; exact Hin].
  unfold step_states in Hin. destruct (executes ft r s) as [c|]; [exact (cmd_states_wfu fl (rs_d r) c H x Hin)|destruct Hin].
Qed.

End Steps.
