(* C14, encrypted TCP leg: every message the protocol can produce fits the fixed buffers of the link,
   is therefore sealed and framed by the sender of Model/Frame.v, and - with the stream theorem of the
   frames cluster - comes out of the receiving automaton exactly once, in order, and decodes to itself. *)
From RJ Require Import Base.Prelude Model.LEInt Model.Bincode Model.WireLink
  Proofs.LEIntProofs Proofs.BincodeProofs.
From RJ Require Model.Frame Proofs.FrameProofs.
Local Open Scope N_scope.

(* ------------------------------------------------------------------ sizes *)
Lemma size_target_var t : size_target t = 12 + target_len t.
Proof. destruct t; cbn [size_target target_len]; unfold size_buf; lia. Qed.

Lemma size_details_bound d : size_details d <= 24 + details_var d.
Proof.
  destruct d as [mt sz| |k t]; cbn [size_details details_var]; try lia.
  rewrite size_target_var. lia.
Qed.

Lemma size_command_bound c : size_command c <= fixed_max + data_command c + var_command c.
Proof.
  unfold fixed_max.
  destruct c as [r|f| |p|p d mt more|p k t|p|p|p|p k| |m|];
    cbn [size_command data_command var_command]; unfold size_buf; try lia.
  - destruct mt; cbn [size_option]; lia.
  - rewrite size_target_var. lia.
  - unfold size_marker. destruct (pm_phase m); cbn [size_phase]; lia.
Qed.

Lemma size_response_bound r : size_response r <= fixed_max + data_response r + var_response r.
Proof.
  unfold fixed_max.
  destruct r as [d diff c|p d| |d more|d|p|m|s];
    cbn [size_response data_response var_response]; unfold size_buf; try lia.
  - destruct d as [x|]; cbn [size_option]; [pose proof (size_details_bound x)|]; lia.
  - pose proof (size_details_bound d). lia.
  - unfold size_marker. destruct (pm_phase m); cbn [size_phase]; lia.
Qed.

(* the largest legitimate message with its tag and its length header fits the 8 MiB buffers *)
Theorem legit_command_fits c : legit_command c = true ->
  len_prefix + size_command c + tag_len <= Frame.buf_size.
Proof.
  unfold legit_command. intros H. apply andb_true_iff in H as [Hd Hv].
  apply N.leb_le in Hd, Hv. pose proof (size_command_bound c) as B.
  unfold Frame.buf_size, len_prefix, tag_len, fixed_max, max_chunk, other_max in *. lia.
Qed.

Theorem legit_response_fits r : legit_response r = true ->
  len_prefix + size_response r + tag_len <= Frame.buf_size.
Proof.
  unfold legit_response. intros H. apply andb_true_iff in H as [Hd Hv].
  apply N.leb_le in Hd, Hv. pose proof (size_response_bound r) as B.
  unfold Frame.buf_size, len_prefix, tag_len, fixed_max, max_chunk, other_max in *. lia.
Qed.

Lemma class_of_fits sz : len_prefix + sz + tag_len <= Frame.buf_size -> link_class_of true sz = LDelivered.
Proof.
  intros H. unfold link_class_of. cbn [negb].
  unfold Frame.buf_size, len_prefix, tag_len in *.
  destruct (8388608 - 8 <? sz) eqn:E1; [apply N.ltb_lt in E1; lia|].
  destruct (8388608 - 8 <? sz + 16) eqn:E2; [apply N.ltb_lt in E2; lia|].
  reflexivity.
Qed.

Theorem legit_command_delivered c : wf_command c = true -> legit_command c = true ->
  link_class_command c = LDelivered.
Proof.
  intros Hw Hl. unfold link_class_command. rewrite (wf_command_encodable c Hw).
  apply class_of_fits, legit_command_fits, Hl.
Qed.

Theorem legit_response_delivered r : wf_response r = true -> legit_response r = true ->
  link_class_response r = LDelivered.
Proof.
  intros Hw Hl. unfold link_class_response. rewrite (wf_response_encodable r Hw).
  apply class_of_fits, legit_response_fits, Hl.
Qed.

(* ------------------------------------------------------------------ the sender of Model/Frame.v *)
Lemma blen_lenN (b : list ascii) : Frame.blen b = lenN b.
Proof. unfold Frame.blen. symmetry. apply lenN_length. Qed.

Section Sender.
  Variable seal : list ascii -> list ascii -> list ascii.
  (* the AEAD appends a 16-byte tag (AES-128-GCM; the toy functionality of Frame.v has the same expansion) *)
  Hypothesis Hexp : forall ctr m, Frame.blen (seal (Frame.nonce_of ctr) m) = Frame.blen m + tag_len.

  (* [link_class_of] is what [Frame.send_step] does with a plaintext of that size *)
  Lemma send_step_class bump d ctr m :
    ctr mod 2 = Frame.lsb d -> ctr + 2 < Frame.u64_limit ->
    match link_class_of true (Frame.blen m) with
    | LDelivered => Frame.send_step seal bump d ctr m
                    = Ok (Frame.next_ctr bump ctr, Frame.frame_of (seal (Frame.nonce_of ctr) m))
    | LSerialize => exists e, Frame.send_step seal bump d ctr m = Err e
    | LTagPanic => exists s, Frame.send_step seal bump d ctr m = Panic s
    | LUnencodable => False
    end.
  Proof.
    intros Hp Ho. unfold link_class_of, Frame.send_step. cbn [negb]. unfold len_prefix.
    destruct (Frame.buf_size - 8 <? Frame.blen m) eqn:E1; [eexists; reflexivity|].
    rewrite Hp, N.eqb_refl. cbn [negb].
    destruct (Frame.u64_limit <=? ctr + 2) eqn:E2; [apply N.leb_le in E2; lia|].
    rewrite Hexp.
    destruct (Frame.buf_size - 8 <? Frame.blen m + tag_len) eqn:E3; [eexists; reflexivity | reflexivity].
  Qed.

  Lemma send_step_fits bump d ctr m :
    ctr mod 2 = Frame.lsb d -> ctr + 2 < Frame.u64_limit ->
    len_prefix + Frame.blen m + tag_len <= Frame.buf_size ->
    Frame.send_step seal bump d ctr m = Ok (Frame.next_ctr bump ctr, Frame.frame_of (seal (Frame.nonce_of ctr) m)).
  Proof.
    intros Hp Ho Hf. pose proof (send_step_class bump d ctr m Hp Ho) as S.
    rewrite (class_of_fits _ Hf) in S. exact S.
  Qed.

  Lemma parity_step ctr l : ctr mod 2 = l -> (ctr + 2) mod 2 = l.
  Proof. intros H. rewrite <- H. lia. Qed.

  (* a sender whose every message fits never fails (the counter stays below 2^64) *)
  Lemma send_all_fits d ms : forall ctr,
    ctr mod 2 = Frame.lsb d -> ctr + 2 * lenN ms < Frame.u64_limit ->
    Forall (fun m => len_prefix + Frame.blen m + tag_len <= Frame.buf_size) ms ->
    exists ctr' frames, Frame.send_all seal true d ctr ms = Ok (ctr', frames).
  Proof.
    induction ms as [|m r IH]; intros ctr Hp Ho Hf.
    - cbn [Frame.send_all]. eexists; eexists; reflexivity.
    - inversion Hf as [|? ? Hm Hr]; subst. cbn [lenN] in Ho.
      cbn [Frame.send_all]. rewrite (send_step_fits true d ctr m Hp ltac:(lia) Hm).
      cbn [obind fst snd Frame.next_ctr].
      destruct (IH (ctr + 2) (parity_step _ _ Hp) ltac:(lia) Hr) as (c2 & f2 & E).
      rewrite E. cbn [obind fst snd]. eexists; eexists; reflexivity.
  Qed.
End Sender.

(* ------------------------------------------------------------------ the whole leg, without an adversary *)
Lemma lsb_parity d : Frame.lsb d mod 2 = Frame.lsb d.
Proof. destruct d; reflexivity. Qed.

Lemma lenN_map {A B} (f : A -> B) l : lenN (map f l) = lenN l.
Proof. induction l as [|a t IH]; cbn [map lenN]; [reflexivity | now rewrite IH]. Qed.

Lemma deserializes_enc_command c : wf_command c = true -> deserializes_command (enc_command c) = true.
Proof.
  intros Hw. unfold deserializes_command.
  pose proof (decode_encode_command c [] Hw) as D. rewrite app_nil_r in D. rewrite D. reflexivity.
Qed.
Lemma deserializes_enc_response r : wf_response r = true -> deserializes_response (enc_response r) = true.
Proof.
  intros Hw. unfold deserializes_response.
  pose proof (decode_encode_response r [] Hw) as D. rewrite app_nil_r in D. rewrite D. reflexivity.
Qed.

Section Leg.
  Variable seal : list ascii -> list ascii -> list ascii.
  Variable open : list ascii -> list ascii -> option (list ascii).
  Variable fin : list ascii -> bool.
  Variable d : Frame.dir.
  Hypothesis H1 : forall n m, open n (seal n m) = Some m.
  Hypothesis Hexp : forall ctr m, Frame.blen (seal (Frame.nonce_of ctr) m) = Frame.blen m + tag_len.

  (* Any number (< 2^62) of legitimate commands, the final one (if any) last: the sender seals and frames
     them all, and whatever TCP segmentation the byte stream arrives in, the receiving automaton delivers
     exactly these plaintexts, in order - and each of them deserializes to the command it came from. *)
  Theorem link_delivers_commands (cmds : list command) (segs : list (list ascii)) :
    Forall (fun c => wf_command c = true /\ legit_command c = true) cmds ->
    Frame.lsb d + 2 * lenN cmds < Frame.u64_limit ->
    Frame.upto_final fin (map enc_command cmds) = map enc_command cmds ->
    exists ctr' frames,
      Frame.send_all seal true d (Frame.lsb d) (map enc_command cmds) = Ok (ctr', frames) /\
      (concat segs = concat frames ->
       Frame.decode_stream open deserializes_command fin true d segs = map enc_command cmds) /\
      Forall (fun c => decode_command (enc_command c) = Some (c, [])) cmds.
  Proof.
    intros Hl Hn Hfin.
    assert (Hfit : Forall (fun m => len_prefix + Frame.blen m + tag_len <= Frame.buf_size) (map enc_command cmds)).
    { apply Forall_map. eapply Forall_impl; [|exact Hl]. intros c [_ L]. cbn beta.
      rewrite blen_lenN, len_enc_command. apply legit_command_fits, L. }
    assert (Hwf : Forall (fun m => deserializes_command m = true) (map enc_command cmds)).
    { apply Forall_map. eapply Forall_impl; [|exact Hl]. intros c [W _]. apply deserializes_enc_command, W. }
    destruct (send_all_fits seal Hexp d (map enc_command cmds) (Frame.lsb d) (lsb_parity d)
                ltac:(rewrite lenN_map; exact Hn) Hfit) as (ctr' & frames & E).
    exists ctr', frames. split; [exact E|]. split.
    - intros Hseg.
      exact (FrameProofs.stream_roundtrip seal open deserializes_command fin d H1 _ segs ctr' frames E Hwf Hfin Hseg).
    - eapply Forall_impl; [|exact Hl]. intros c [W _].
      pose proof (decode_encode_command c [] W) as D. rewrite app_nil_r in D. exact D.
  Qed.

  Theorem link_delivers_responses (rs : list response) (segs : list (list ascii)) :
    Forall (fun r => wf_response r = true /\ legit_response r = true) rs ->
    Frame.lsb d + 2 * lenN rs < Frame.u64_limit ->
    Frame.upto_final fin (map enc_response rs) = map enc_response rs ->
    exists ctr' frames,
      Frame.send_all seal true d (Frame.lsb d) (map enc_response rs) = Ok (ctr', frames) /\
      (concat segs = concat frames ->
       Frame.decode_stream open deserializes_response fin true d segs = map enc_response rs) /\
      Forall (fun r => decode_response (enc_response r) = Some (r, [])) rs.
  Proof.
    intros Hl Hn Hfin.
    assert (Hfit : Forall (fun m => len_prefix + Frame.blen m + tag_len <= Frame.buf_size) (map enc_response rs)).
    { apply Forall_map. eapply Forall_impl; [|exact Hl]. intros r [_ L]. cbn beta.
      rewrite blen_lenN, len_enc_response. apply legit_response_fits, L. }
    assert (Hwf : Forall (fun m => deserializes_response m = true) (map enc_response rs)).
    { apply Forall_map. eapply Forall_impl; [|exact Hl]. intros r [W _]. apply deserializes_enc_response, W. }
    destruct (send_all_fits seal Hexp d (map enc_response rs) (Frame.lsb d) (lsb_parity d)
                ltac:(rewrite lenN_map; exact Hn) Hfit) as (ctr' & frames & E).
    exists ctr', frames. split; [exact E|]. split.
    - intros Hseg.
      exact (FrameProofs.stream_roundtrip seal open deserializes_response fin d H1 _ segs ctr' frames E Hwf Hfin Hseg).
    - eapply Forall_impl; [|exact Hl]. intros r [W _].
      pose proof (decode_encode_response r [] W) as D. rewrite app_nil_r in D. exact D.
  Qed.
End Leg.

(* non-vacuity of the expansion premise: the toy functionality of Frame.v expands by 16 bytes *)
Lemma toy_seal_expands k ctr m :
  Frame.blen (Frame.toy_seal k (Frame.nonce_of ctr) m) = Frame.blen m + tag_len.
Proof.
  unfold Frame.toy_seal, Frame.blen, Frame.toy_tag, Frame.nonce_of, tag_len.
  rewrite !app_length, FrameProofs.le_bytes_length, repeat_length, firstn_length, app_length, repeat_length.
  replace (Nat.min 4 (length k + 4)) with 4%nat by lia. lia.
Qed.
