(* C01 - A successful sync makes the destination a mirror of the source.  Statements only. *)
From RJ Require Import Base.Prelude Base.OrderedPlan Model.Settings Model.Core Model.Fs Model.Paths Model.Sync Model.SyncTop Model.Roots
  Spec.PlanSpec Spec.Mirror Proofs.ExecProofs Proofs.PathsProofs Proofs.MirrorProofs Proofs.InstanceProofs.
From RJ Require Model.Walker Proofs.WalkBridge Proofs.WalkedSync.
From RJ Require Import Model.SpecRun Proofs.SpecProofs Proofs.LinkTexts.

(* The mirror theorem: for every source tree, destination state, filter verdict, behaviour setting,
   answer sequence, listing order (any valid listing), interleaving and fault plan - if sync() returns
   Ok, nothing was skipped through a behaviour choice, it was no dry run and no effect left the
   destination through a link (C02/C12), then pointwise on every path that takes part on either side
   the destination equals the source (folder / link with the same normalised text / file with the same
   bytes and time, or an untouched file whose time already equalled the source's), entries the source
   lacks are gone, and every other path - in particular everything the filters exclude - is unchanged. *)
Theorem C01_mirror : forall now_z incl normalize chunker,
  (forall d, chunker d <> [] /\ concat (chunker d) = d) ->
  forall dest_fl cfg S D ans bits ls ld ft,
  valid_listing now_z incl normalize S ls -> valid_listing now_z incl normalize (d_fs D) ld ->
  wf_fs S -> src_times_set S -> links_roundtrip normalize dest_fl S -> d_open D = None ->
  let r := sync_one now_z normalize chunker cfg S D ans bits ls ld ft in
  r_ok r = true -> r_skipped r = [] -> r_root_skipped r = false -> cf_dry cfg = false ->
  no_through (d_events (r_dest r)) -> cf_fl cfg = dest_fl ->
  mirror now_z incl normalize (cf_diff cfg) dest_fl S (d_fs D) (d_fs (r_dest r)).
Proof. exact mirror_theorem. Qed.

(* ... instantiated for the executable model (sorted listings, 4 KiB chunker, Unix link text). *)
Theorem C01_mirror_executable : forall cfg S D a ans bits ex ft,
  unique_keys S -> wf_fs S -> unique_keys D -> wf_fs D -> src_times_set S -> links_utf8 S ->
  let r := run_top cfg S D a ans bits ex ft in
  r_ok r = true -> r_skipped r = [] -> r_root_skipped r = false -> cf_dry cfg = false ->
  no_through (d_events (r_dest r)) -> cf_fl cfg = Unix ->
  mirror now_far (excl_incl ex) normalize_unix (cf_diff cfg) Unix S D (d_fs (r_dest r)).
Proof. exact run_top_mirror. Qed.

(* ... and with the premise "nothing went through a link" discharged (Proofs/ConfinedMain.v): the
   executable model mirrors in EVERY run that returns Ok without skips. *)
Theorem C01_mirror_unconditional : forall cfg S D a ans bits ex ft,
  unique_keys S -> wf_fs S -> unique_keys D -> wf_fs D -> src_times_set S -> links_utf8 S ->
  let r := run_top cfg S D a ans bits ex ft in
  r_ok r = true -> r_skipped r = [] -> r_root_skipped r = false -> cf_dry cfg = false -> cf_fl cfg = Unix ->
  mirror now_far (excl_incl ex) normalize_unix (cf_diff cfg) Unix S D (d_fs (r_dest r)).
Proof. exact run_top_mirror_unconditional. Qed.

(* ... and with BOTH listing premises discharged by the directory walk (C17, Proofs/WalkBridge.v) and the
   premise "nothing went through a link" by C02's theorem for every run: the boss is given on each side
   whatever ANY execution of the N-worker walk over that side's tree delivers before its end-of-list
   marker ([walked]: any number of workers, any queue capacity, any interleaving; such an answer always
   exists) - and a sync that returns Ok without skips mirrors the source. *)
Theorem C01_mirror_walked : forall now_z incl normalize chunker,
  (forall d, chunker d <> [] /\ concat (chunker d) = d) ->
  forall dest_fl cfg S D ans bits ls ld ft,
  wf_fs S -> wf_fs (d_fs D) -> src_times_set S -> links_roundtrip normalize dest_fl S ->
  d_open D = None -> no_through (d_events D) ->
  WalkedSync.walked now_z incl normalize S ls -> WalkedSync.walked now_z incl normalize (d_fs D) ld ->
  let r := sync_one now_z normalize chunker cfg S D ans bits ls ld ft in
  r_ok r = true -> r_skipped r = [] -> r_root_skipped r = false -> cf_dry cfg = false -> cf_fl cfg = dest_fl ->
  mirror now_z incl normalize (cf_diff cfg) dest_fl S (d_fs D) (d_fs (r_dest r)).
Proof. exact WalkedSync.walked_sync_mirrors. Qed.
Theorem C01_walked_listing_exists : forall now_z incl normalize f, exists l, WalkedSync.walked now_z incl normalize f l.
Proof. exact WalkedSync.walked_exists. Qed.

(* SPEC FILES WITH SEVERAL SYNCS (Model/SpecRun.v).  Every sync that was started never went through a destination
   link, and if it returned Ok without skips its destination then mirrored its source - the two trees as they
   were when it began, i.e. including everything earlier syncs of the spec wrote (A -> B, then B -> C) ... *)
Theorem C01_spec_each_sync_mirrors : forall jobs st, store_ok st ->
  Forall (fun t =>
    let j := t_job t in let S := sget (t_store t) (j_src j) in let D := sget (t_store t) (j_dst j) in
    no_through (d_events (r_dest (t_res t))) /\
    (src_times_set S -> links_utf8 S ->
     r_ok (t_res t) = true -> r_skipped (t_res t) = [] -> r_root_skipped (t_res t) = false ->
     cf_dry (j_cfg j) = false -> cf_fl (j_cfg j) = Unix ->
     mirror now_far (excl_incl (j_ex j)) normalize_unix (cf_diff (j_cfg j)) Unix S D (d_fs (r_dest (t_res t)))))
    (spec_trace jobs st).
Proof. exact spec_each_sync. Qed.
(* ... what it left is still there at the end of the run unless a later sync of the spec wrote to that root ... *)
Theorem C01_spec_final_trees : forall jobs st pre t post,
  spec_trace jobs st = pre ++ t :: post ->
  j_src (t_job t) <> j_dst (t_job t) ->
  (forall t', In t' post -> j_dst (t_job t') <> j_dst (t_job t) /\ j_dst (t_job t') <> j_src (t_job t)) ->
  sget (sp_store (run_spec jobs st)) (j_dst (t_job t)) = d_fs (r_dest (t_res t)) /\
  sget (sp_store (run_spec jobs st)) (j_src (t_job t)) = sget (t_store t) (j_src (t_job t)).
Proof. exact spec_final_trees. Qed.
(* ... every tree stays a well-formed tree whatever happens, and a mirrored destination has all its times set, so
   it is fit to be the source of a later sync. *)
Theorem C01_spec_stores_well_formed : forall jobs st, store_ok st ->
  Forall (fun t => store_ok (t_store t)) (spec_trace jobs st) /\ store_ok (sp_store (run_spec jobs st)).
Proof. exact spec_stores_ok. Qed.
Theorem C01_mirror_keeps_times_set : forall incl diff S D D',
  mirror now_far incl normalize_unix diff Unix S D D' -> src_times_set S -> src_times_set D -> src_times_set D'.
Proof. exact mirror_keeps_times_set. Qed.

(* CLOSED for chains: if all trees are good at the start (well-formed, all times set, all link texts well-formed UTF-8)
   and no sync of the spec skips anything, then every sync that returns Ok mirrors its source as it was when that sync
   began - however many earlier syncs of the spec had written it - and every store along the way is good.  Nothing is
   assumed about the trees in the middle of the run: a mirrored destination keeps all times set
   (C01_mirror_keeps_times_set) and every link text a run writes is well formed again (C01_run_keeps_links_utf8,
   from Proofs/Utf8Join.v: well-formed UTF-8 is closed under concatenation). *)
Theorem C01_spec_chain_mirrors : forall jobs st, store_good st ->
  Forall clean_run (spec_trace jobs st) ->
  Forall (fun t =>
    let j := t_job t in let S := sget (t_store t) (j_src j) in let D := sget (t_store t) (j_dst j) in
    store_good (t_store t) /\
    (r_ok (t_res t) = true ->
     mirror now_far (excl_incl (j_ex j)) normalize_unix (cf_diff (j_cfg j)) Unix S D (d_fs (r_dest (t_res t)))))
    (spec_trace jobs st).
Proof. exact spec_chain_mirrors. Qed.
Theorem C01_run_keeps_links_utf8 : forall cfg S D a ans bits ex ft,
  unique_keys S -> wf_fs S -> unique_keys D -> wf_fs D -> links_utf8 S -> links_utf8 D -> cf_fl cfg = Unix ->
  let ls := list_fs now_far (excl_incl ex) normalize_unix S in
  let ld := list_fs now_far (excl_incl ex) normalize_unix D in
  (forall s, In s (Proofs.CrashMain.sync_kill_states now_far normalize_unix chunk_real cfg S (world D a []) ans bits ls ld ft) -> links_utf8 (d_fs s)) /\
  links_utf8 (d_fs (r_dest (run_top cfg S D a ans bits ex ft))).
Proof. exact run_top_keeps_links_utf8. Qed.

(* Link text: what is written on the destination has the same components as the source text for a
   relative target and is the text itself otherwise; and it normalises to the same target again. *)
Theorem C01_link_text : forall t, lossy t = t -> same_path_text t (denormalize Unix (normalize_unix t)) = true.
Proof. exact link_text_preserved. Qed.
Theorem C01_utf8_text_is_in_domain : forall t, utf8_valid t = true -> lossy t = t.
Proof. exact lossy_valid. Qed.

(* The effective destination follows the documented trailing-slash table, cell by cell. *)
Theorem C01_table : forall src ss dest ds, root_decision src ss dest ds = notes_table src ss dest ds.
Proof. intros [] [] [[]|] []; reflexivity. Qed.

(* Non-vacuity: a run with a kind conflict, an extra entry, an older file, an excluded destination
   entry and a symlink satisfies every premise and produces a changed, mirrored destination. *)
Definition ex_name (c : ascii) : str := [c].
Definition ex_S : fs :=
  [ ([], NFolder); ([ex_name "a"], NFile (TSet 10) ["x"%char]); ([ex_name "d"], NFolder);
    ([ex_name "d"; ex_name "f"], NFile (TSet 7) []); ([ex_name "l"], NLink ["a"%char] SKFile) ].
Definition ex_D : fs :=
  [ ([], NFolder); ([ex_name "a"], NFile (TSet 5) ["o"%char; "l"%char]); ([ex_name "d"], NFile (TSet 1) []);
    ([ex_name "x"], NFile (TSet 2) []); ([ex_name "e"], NFile (TSet 3) ["k"%char]) ].
Definition ex_cfg := mkCfg false Unix (mkB BAct BAct BSkip BAct) BAct false.
Example C01_example :
  let r := run_top ex_cfg ex_S ex_D AncOk [] [] [[ex_name "e"]] no_faults in
  r_ok r = true /\ r_skipped r = [] /\ r_root_skipped r = false /\ d_events (r_dest r) = [] /\
  fget (d_fs (r_dest r)) [ex_name "d"; ex_name "f"] = Some (NFile (TSet 7) []) /\
  fget (d_fs (r_dest r)) [ex_name "x"] = None /\
  fget (d_fs (r_dest r)) [ex_name "e"] = Some (NFile (TSet 3) ["k"%char]) /\
  fget (d_fs (r_dest r)) [ex_name "a"] = Some (NFile (TSet 10) ["x"%char]).
Proof. vm_compute. repeat split; reflexivity. Qed.

Print Assumptions C01_mirror.
Print Assumptions C01_mirror_unconditional.
Print Assumptions C01_mirror_executable.
Print Assumptions C01_table.
Print Assumptions C01_mirror_walked.
Print Assumptions C01_walked_listing_exists.
Print Assumptions C01_spec_each_sync_mirrors.
Print Assumptions C01_spec_final_trees.
Print Assumptions C01_spec_stores_well_formed.
Print Assumptions C01_mirror_keeps_times_set.
Print Assumptions C01_spec_chain_mirrors.
Print Assumptions C01_run_keeps_links_utf8.

(* ---- F14: the name under which a file or symlink source is placed inside a trailing-slash destination (Model/RootName.v) *)
From RJ Require Import Model.RootName Proofs.RootNameProofs.
From Coq Require Import String.
Theorem C01_file_lands_under_its_own_name : forall src dest, exists name, inside_root false src dest = dest ++ name /\ name = posix_basename src /\ Forall (fun c => c <> "/"%char) name.
Proof. exact C01_inside_root_is_child. Qed.
Print Assumptions C01_file_lands_under_its_own_name.
