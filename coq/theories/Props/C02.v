(* C02 - The source is never modified; nothing outside the destination is touched.  Statements only. *)
From RJ Require Import Base.Prelude Base.OrderedPlan Model.Settings Model.Core Model.Fs Model.Paths Model.Sync Model.SyncTop
  Spec.PlanSpec Spec.Mirror Proofs.FsProofs Proofs.ExecProofs Proofs.DryProofs Proofs.ConfineProofs Proofs.MirrorProofs
  Proofs.QuietProofs Proofs.ConfinedMain Proofs.InstanceProofs Proofs.BlockProofs Proofs.ConfineAll Proofs.RepairMain.
From RJ Require Model.Walker Proofs.WalkBridge Proofs.WalkedSync.
From RJ Require Import Model.SpecRun Proofs.SpecProofs.

(* In protocol terms: whatever the arguments, outcome, answers given to prompts or faults met, the
   source-side doer is only ever asked to report its root, list entries and read file contents ... *)
Theorem C02_source_only_read : forall now_z normalize chunker cfg S D ans bits ls ld ft,
  Forall (fun c => read_only c = true) (r_src_trace (sync_one now_z normalize chunker cfg S D ans bits ls ld ft)).
Proof. exact source_only_read. Qed.

(* ... and none of these requests changes anything in a doer's world (tree, ancestors, clock, event log). *)
Theorem C02_read_only_changes_nothing : forall fl st c, read_only c = true -> doer_exec fl st c = (st, None).
Proof. exact doer_exec_read_only. Qed.

(* An effect can leave the destination tree only by resolving through a symlink that exists in the
   destination at that moment (intermediate component, or final component of a file creation). *)
Theorem C02_through_needs_link : forall fl st c q,
  In (Through q) (skipn (length (d_events st)) (d_events (fst (doer_exec fl st c)))) ->
  exists t k, fget (d_fs st) q = Some (NLink t k).
Proof. exact through_needs_link. Qed.

(* Nothing outside the destination is touched (except for creating the missing ancestors) by a sync
   that returns Ok and skips nothing - for every tree pair (destination symlinks to anywhere included),
   setting, answer sequence, valid parents-first listing order, interleaving and fault plan. *)
Theorem C02_clean_run_confined : forall now_z incl normalize chunker,
  (forall d, chunker d <> [] /\ concat (chunker d) = d) ->
  forall cfg S D ans bits ls ld ft,
  valid_listing now_z incl normalize S ls -> valid_listing now_z incl normalize (d_fs D) ld ->
  parents_first (lkeys (side_listing now_z normalize S ls)) ->
  parents_first (lkeys (side_listing now_z normalize (d_fs D) ld)) ->
  wf_fs (d_fs D) -> d_open D = None -> no_through (d_events D) ->
  let r := sync_one now_z normalize chunker cfg S D ans bits ls ld ft in
  r_ok r = true -> r_skipped r = [] -> r_root_skipped r = false -> cf_dry cfg = false ->
  no_through (d_events (r_dest r)).
Proof. exact clean_run_confined. Qed.

(* ... and, with the F6b repair in place, for EVERY outcome: a sync in which nothing was skipped never resolves
   a path through a destination symlink - whatever command fails, at whatever position, real or injected,
   whatever source read fails, however late the boss notices, wherever the doer dies (Proofs/ConfineAll.v:
   invariant "a link on the destination is an original one not yet due for deletion, or one this run created
   - below which the plan has nothing -, or its path is blocked by a failed deletion, or nothing mutating
   runs any more"). *)
Theorem C02_every_run_confined : forall now_z incl normalize chunker cfg S D ans bits ls ld ft,
  valid_listing now_z incl normalize S ls -> valid_listing now_z incl normalize (d_fs D) ld ->
  parents_first (lkeys (side_listing now_z normalize S ls)) -> parents_first (lkeys (side_listing now_z normalize (d_fs D) ld)) ->
  wf_fs (d_fs D) -> no_through (d_events D) ->
  let r := sync_one now_z normalize chunker cfg S D ans bits ls ld ft in
  r_skipped r = [] -> no_through (d_events (r_dest r)).
Proof. exact all_runs_confined. Qed.

Theorem C02_every_run_confined_executable : forall cfg S D a ans bits ex ft,
  unique_keys S -> wf_fs S -> unique_keys D -> wf_fs D ->
  let r := run_top cfg S D a ans bits ex ft in
  r_skipped r = [] -> no_through (d_events (r_dest r)).
Proof. exact run_top_all_confined. Qed.

(* ... and also when the user skipped entries (the F6a repair: nothing is copied at or below a kept entry that
   is in the way): NO run ever resolves a path through a destination symlink. *)
Theorem C02_no_run_goes_through_a_link : forall now_z incl normalize chunker cfg S D ans bits ls ld ft,
  valid_listing now_z incl normalize S ls -> valid_listing now_z incl normalize (d_fs D) ld ->
  parents_first (lkeys (side_listing now_z normalize S ls)) -> parents_first (lkeys (side_listing now_z normalize (d_fs D) ld)) ->
  wf_fs (d_fs D) -> no_through (d_events D) ->
  no_through (d_events (r_dest (sync_one now_z normalize chunker cfg S D ans bits ls ld ft))).
Proof. exact no_run_goes_through_a_link. Qed.

Theorem C02_executable_never_through : forall cfg S D a ans bits ex ft,
  unique_keys S -> wf_fs S -> unique_keys D -> wf_fs D ->
  no_through (d_events (r_dest (run_top cfg S D a ans bits ex ft))).
Proof. exact run_top_never_through. Qed.

(* ... and with the listing premises discharged by the directory walk (C17, Proofs/WalkBridge.v): given on each
   side whatever any execution of the N-worker walk over that side's tree delivers, NO run resolves a path
   through a destination symlink. *)
Theorem C02_walked_never_through : forall now_z incl normalize chunker cfg S D ans bits ls ld ft,
  wf_fs S -> wf_fs (d_fs D) -> no_through (d_events D) ->
  WalkedSync.walked now_z incl normalize S ls -> WalkedSync.walked now_z incl normalize (d_fs D) ld ->
  no_through (d_events (r_dest (sync_one now_z normalize chunker cfg S D ans bits ls ld ft))).
Proof. exact WalkedSync.walked_sync_never_through. Qed.

(* A dry run leaves the whole destination world as it is (C05), in particular its event log. *)
Theorem C02_dry_run_confined : forall now_z normalize chunker cfg S D ans bits ls ld ft,
  cf_dry cfg = true -> r_dest (sync_one now_z normalize chunker cfg S D ans bits ls ld ft) = D.
Proof. intros. apply (dry_run_inert now_z normalize chunker cfg S D ans bits ls ld ft H). Qed.

(* F6b (repaired by a fix: commit): when the deletion of a destination entry FAILS, the commands already
   queued behind it for that path or anything inside it used to be performed - through the link, if a link
   was what could not be deleted.  The doer now remembers a failed deletion and refuses them: *)
Theorem C02_blocked_refused : forall fl st c p,
  path_cmd c = Some p -> blocked_at st p = true -> doer_exec fl st c = (st, Some ERefused).
Proof. exact blocked_refused. Qed.

Theorem C02_failed_delete_blocks : forall fl st c p e q,
  is_del c = true -> path_cmd c = Some p -> snd (doer_exec fl st c) = Some e ->
  is_prefix p q = true -> blocked_at (fst (doer_exec fl st c)) q = true.
Proof. exact failed_delete_blocks. Qed.

Theorem C02_blocked_stays : forall fl st c p, blocked_at st p = true -> blocked_at (fst (doer_exec fl st c)) p = true.
Proof. exact blocked_stays. Qed.

(* The former witness (link-delete answered with an error, the boss notices two steps later): the queued
   creation of f is now refused, nothing goes through the link, the link is still there. *)
Definition f6b_S : fs := [ ([], NFolder); ([["f"%char]], NFile (TSet 10) ["x"%char]) ].
Definition f6b_D : fs := [ ([], NFolder); ([["f"%char]], NLink ["t"%char] SKFile) ].
Example C02_former_witness_contained :
  let r := run_top (mkCfg false Unix (mkB BAct BAct BSkip BAct) BAct false) f6b_S f6b_D AncOk [] [] [] (mkFaults [0] [] 2 None) in
  r_ok r = false /\ d_events (r_dest r) = [] /\ r_errs r = [EInjected; ERefused] /\
  fget (d_fs (r_dest r)) [["f"%char]] = Some (NLink ["t"%char] SKFile).
Proof. vm_compute. repeat split; reflexivity. Qed.

(* A spec with several syncs (Model/SpecRun.v): a root that is no sync's destination - in particular every root
   that is only ever a source - holds exactly the same tree at the end of the run, however the run ends. *)
Theorem C02_spec_untouched : forall jobs i st,
  (forall j, In j jobs -> j_dst j <> i) -> sget (sp_store (run_spec jobs st)) i = sget st i.
Proof. exact spec_untouched. Qed.

Print Assumptions C02_source_only_read.
Print Assumptions C02_clean_run_confined.
Print Assumptions C02_through_needs_link.
Print Assumptions C02_every_run_confined.
Print Assumptions C02_every_run_confined_executable.
Print Assumptions C02_no_run_goes_through_a_link.
Print Assumptions C02_executable_never_through.
Print Assumptions C02_blocked_refused.
Print Assumptions C02_failed_delete_blocks.
Print Assumptions C02_blocked_stays.

(* The one syntactic fact (regenerated on every run from the source text being compiled): the only
   Command kinds boss_sync.rs sends through src_comms are the three read-only ones. *)
From RJ Require Import Gen.Facts_sites.
From Coq Require Import String.
Theorem C02_src_sites_read_only : impl_src_sends = Facts_sites.flit "GetEntries,GetFileContent,SetRoot"%string.
Proof. reflexivity. Qed.
Print Assumptions C02_walked_never_through.
Print Assumptions C02_spec_untouched.

(* ---- F14: the name under which a file or symlink source is placed inside a trailing-slash destination (Model/RootName.v) *)
From RJ Require Import Model.RootName Proofs.RootNameProofs.
From Coq Require Import String.
Theorem C02_inside_root_adds_one_component : forall src dest, exists name, inside_root false src dest = dest ++ name /\ name = posix_basename src /\ Forall (fun c => c <> "/"%char) name.
Proof. exact C01_inside_root_is_child. Qed.
Theorem C02_F14_refuted_before_fix : exists src dest, posix_basename src = s_of "x\.." /\ inside_root_old src dest = s_of "box/dest/.." /\ inside_root false src dest = s_of "box/dest/x\..".
Proof. exact F14_old_name_escapes. Qed.
Print Assumptions C02_inside_root_adds_one_component.
Print Assumptions C02_F14_refuted_before_fix.
