(* C03 - Nothing on the destination is deleted or overwritten without configured consent.
   Statements only (proofs: Proofs/ConfirmProofs.v, Proofs/SyncProofs.v, Proofs/FsProofs.v). *)
From RJ Require Import Base.Prelude Base.OrderedPlan Model.Settings Model.Core Model.Fs Model.Sync
  Spec.PlanSpec Spec.Mirror Proofs.FsProofs Proofs.ConfirmProofs Proofs.SyncProofs Proofs.MirrorProofs Proofs.InstanceProofs
  Proofs.CrashProofs Proofs.CrashMain Proofs.TouchedProofs Proofs.ConsentAll Proofs.KillEvents.
From RJ Require Import Model.Paths Model.SyncTop.
From RJ Require Model.Walker Proofs.WalkBridge Proofs.WalkedSync.

(* A destination entry stays in the delete list (= a Delete* command is issued for it) only if the
   entry-deletion behaviour is "delete", or it is "prompt" and some prompt was answered "delete".
   [b] is the setting on entry to the loop, [ans] every answer still to come. *)
Theorem C03_delete_needs_consent : forall l b ans np rm b' ans' np',
  confirm_deletes b ans l np = Some (rm, b', ans', np') ->
  forall p, In p (map fst l) -> ~ In p rm -> b = BAct \/ (b = BPrompt /\ has_act ans = true).
Proof. exact confirm_deletes_consent. Qed.

(* An existing destination file stays in the copy list only if the behaviour for ITS case (newer /
   older / same time) is "overwrite", or is "prompt" and a prompt was answered "overwrite". *)
Theorem C03_overwrite_needs_consent : forall l b ans np rm b' ans' np',
  confirm_copies b ans l np = Some (rm, b', ans', np') ->
  forall p e r, In (p, (e, r)) l -> ~ In p rm -> r <> NotOnDest ->
  get_beh b r = BAct \/ (get_beh b r = BPrompt /\ has_act ans = true).
Proof. exact confirm_copies_consent. Qed.

(* An "all occurrences" answer changes the behaviour of its own category only. *)
Theorem C03_no_leak : forall b r r' v, r <> r' -> get_beh (set_beh b r v) r' = get_beh b r'.
Proof. exact get_set_other. Qed.
Theorem C03_no_leak_entry : forall b r v, b_entry (set_beh b r v) = b_entry b.
Proof. exact set_beh_entry. Qed.

(* error setting / cancelled prompt / unattended terminal: the confirmation fails as a whole ... *)
Theorem C03_error_fails : forall ans e l np, confirm_deletes BError ans (e :: l) np = None.
Proof. exact confirm_deletes_error. Qed.
Theorem C03_unattended_fails : forall e l np, confirm_deletes BPrompt [] (e :: l) np = None.
Proof. exact confirm_deletes_unattended. Qed.
Theorem C03_cancel_fails : forall ans e l np, confirm_deletes BPrompt (AnsCancel :: ans) (e :: l) np = None.
Proof. exact confirm_deletes_cancel. Qed.
(* ... skip keeps every entry out of the delete list, delete removes none *)
Theorem C03_skip_removes_all : forall l ans np, confirm_deletes BSkip ans l np = Some (map fst l, BSkip, ans, np).
Proof. exact confirm_deletes_skip_all. Qed.
Theorem C03_only_confirmable_removed : forall l b ans np rm b' ans' np',
  confirm_copies b ans l np = Some (rm, b', ans', np') ->
  forall p, In p rm -> exists e r, In (p, (e, r)) l /\ r <> NotOnDest.
Proof. exact confirm_copies_keeps_new. Qed.

(* ... and a sync whose confirmation failed has exit status <> 0, an unchanged destination tree and
   has sent no mutating command, for every tree pair, listing order, interleaving and fault plan. *)
Theorem C03_error_is_clean : forall now_z normalize chunker cfg S D ans bits ls ld ft,
  NoDup (lkeys ls) -> ~ In [] (lkeys ls) ->
  let r := sync_one now_z normalize chunker cfg S D ans bits ls ld ft in
  r_confirm_failed r = true ->
  r_ok r = false /\ d_fs (r_dest r) = d_fs D /\ filter mutating (r_dest_trace r) = [].
Proof. exact decision_failure_is_clean. Qed.

(* All decisions are taken before the first change: a prompt can only occur when the destination
   root exists, and then no mutating command precedes the end of the confirmation pass. *)
Theorem C03_decide_first_a : forall now_z normalize chunker cfg S D ans bits ls ld ft,
  NoDup (lkeys ls) -> ~ In [] (lkeys ls) -> fget (d_fs D) [] = None ->
  r_prompts (sync_one now_z normalize chunker cfg S D ans bits ls ld ft) = [].
Proof. exact prompts_need_dest_root. Qed.
Theorem C03_decide_first_b : forall now_z normalize chunker cfg S D ans bits ls ld ft dn,
  fget (d_fs D) [] = Some dn ->
  let r := sync_one now_z normalize chunker cfg S D ans bits ls ld ft in
  r_confirm_failed r = true \/ r_root_skipped r = true \/ cf_dry cfg = true ->
  filter mutating (r_dest_trace r) = [].
Proof. exact nothing_sent_before_confirmation. Qed.

(* skip: a destination path that no sent command names keeps its node (bytes, timestamp, link text).
   PARTIAL with respect to the property text: for a skipped *copy* the path is named by no command
   (it is removed from the copy list and was never in the delete list); for a skipped *deletion* whose
   source entry is incompatible the creation command is still issued and fails or goes through a link
   - that the node itself survives is covered by the differential runs, not by this theorem. *)
Theorem C03_skip_keeps_partial : forall now_z normalize chunker cfg S D ans bits ls ld ft p,
  let r := sync_one now_z normalize chunker cfg S D ans bits ls ld ft in
  (forall c, In c (r_dest_trace r) -> cmd_path c <> Some p) ->
  fget (d_fs (r_dest r)) p = fget (d_fs D) p.
Proof. exact sync_frame. Qed.

(* END TO END, for all runs: whenever an existing destination entry is no longer what it was - at the end of a
   run, successful or failed, or in any state a kill can leave behind - the consent of its category was
   configured or given: the entry-deletion setting for an entry that is gone or replaced, the newer / older /
   same-time setting for an existing file whose bytes or time changed.  (Composition of C07's
   "only planned changes" with the confirmation theorems above and the plan's facts; the F6a repair -
   nothing is copied at or below a kept entry - is what makes the skipped-deletion case go through.) *)
Theorem C03_end_to_end : forall now_z incl normalize chunker,
  forall cfg S D ans bits ls ld,
  valid_listing now_z incl normalize S ls -> valid_listing now_z incl normalize (d_fs D) ld -> wf_fs (d_fs D) -> d_open D = None ->
  let steps := snd (sync_plan now_z normalize chunker cfg S D ans bits ls ld) in
  forall s, Touched (cf_fl cfg) S (d_fs D) (cmd_of_plan steps) (file_of_plan steps) s ->
  forall p n, fget (d_fs D) p = Some n -> fget (d_fs s) p <> Some n ->
    entry_consent cfg ans \/
    ((exists m d m' d', n = NFile m d /\ fget (d_fs s) p = Some (NFile m' d')) /\ overwrite_consent cfg ans).
Proof. intros now_z incl normalize chunker. exact (consent_end_to_end now_z incl normalize chunker). Qed.

(* ... the same with both listings delivered by arbitrary executions of the directory walk (C17, Proofs/WalkBridge.v). *)
Theorem C03_end_to_end_walked : forall now_z incl normalize chunker,
  forall cfg S D ans bits ls ld,
  wf_fs S -> wf_fs (d_fs D) -> d_open D = None ->
  WalkedSync.walked now_z incl normalize S ls -> WalkedSync.walked now_z incl normalize (d_fs D) ld ->
  let steps := snd (sync_plan now_z normalize chunker cfg S D ans bits ls ld) in
  forall s, Touched (cf_fl cfg) S (d_fs D) (cmd_of_plan steps) (file_of_plan steps) s ->
  forall p n, fget (d_fs D) p = Some n -> fget (d_fs s) p <> Some n ->
    entry_consent cfg ans \/
    ((exists m d m' d', n = NFile m d /\ fget (d_fs s) p = Some (NFile m' d')) /\ overwrite_consent cfg ans).
Proof. exact WalkedSync.walked_consent. Qed.

Theorem C03_end_to_end_executable : forall cfg S D a ans bits ex ft s,
  unique_keys S -> wf_fs S -> unique_keys D -> wf_fs D ->
  let ls := list_fs now_far (excl_incl ex) normalize_unix S in
  let ld := list_fs now_far (excl_incl ex) normalize_unix D in
  (In s (sync_kill_states now_far normalize_unix chunk_real cfg S (world D a []) ans bits ls ld ft) \/
   s = r_dest (run_top cfg S D a ans bits ex ft)) ->
  forall p n, fget D p = Some n -> fget (d_fs s) p <> Some n ->
    entry_consent cfg ans \/
    ((exists m d m' d', n = NFile m d /\ fget (d_fs s) p = Some (NFile m' d')) /\ overwrite_consent cfg ans).
Proof. exact consent_executable. Qed.

(* Non-vacuity: a prompt answered "skip once" then "delete all" on three extra entries. *)
Example C03_example :
  let e := (EFile 1 1, NotOnSource) in
  confirm_deletes BPrompt [AnsOnce false; AnsAll true] [([["a"%char]], e); ([["b"%char]], e); ([["c"%char]], e)] [] =
  Some ([[["a"%char]]], BAct, [], [PDelete [["a"%char]]; PDelete [["b"%char]]]).
Proof. vm_compute. reflexivity. Qed.

Print Assumptions C03_delete_needs_consent.
Print Assumptions C03_overwrite_needs_consent.
Print Assumptions C03_error_is_clean.
Print Assumptions C03_end_to_end.
Print Assumptions C03_end_to_end_executable.
Print Assumptions C03_end_to_end_walked.
