(* C04 - Repeating a successful sync does nothing.  Statements only. *)
From RJ Require Import Base.Prelude Base.OrderedPlan Model.Settings Model.Core Model.Fs Model.Paths Model.Sync
  Spec.PlanSpec Spec.Mirror Proofs.ExecProofs Proofs.PathsProofs Proofs.MirrorProofs Proofs.IdemProofs Proofs.IdemMain Proofs.InstanceProofs Proofs.RepairMain.
From RJ Require Import Model.SyncTop.
From RJ Require Model.Walker Proofs.WalkBridge Proofs.WalkedSync.
From RJ Require Import Model.SpecRun Proofs.SpecProofs.

(* If a sync returns Ok without skips (and it was no dry run and nothing went through a link), then
   running the same sync again on what it left behind - with any answers, interleaving, listing order
   of the new destination and fault plan - returns Ok, leaves the destination doer's whole state as it
   is, sends no create / update / delete, fetches no content, asks nothing and reports "Nothing to
   do".  (files-same-time = skip, the default; see C04_overwrite below for the other setting.) *)
Theorem C04_idempotent : forall now_z incl normalize chunker,
  (forall d, chunker d <> [] /\ concat (chunker d) = d) ->
  forall dest_fl cfg S D ans bits ls ld ft ans2 bits2 ld2 ft2,
  valid_listing now_z incl normalize S ls -> valid_listing now_z incl normalize (d_fs D) ld ->
  wf_fs S -> wf_fs (d_fs D) -> src_times_set S -> links_roundtrip normalize dest_fl S -> d_open D = None ->
  let r := sync_one now_z normalize chunker cfg S D ans bits ls ld ft in
  r_ok r = true -> r_skipped r = [] -> r_root_skipped r = false -> cf_dry cfg = false ->
  no_through (d_events (r_dest r)) -> cf_fl cfg = dest_fl ->
  b_same (cf_b cfg) = BSkip ->
  valid_listing now_z incl normalize (d_fs (r_dest r)) ld2 ->
  let r2 := sync_one now_z normalize chunker cfg S (r_dest r) ans2 bits2 ls ld2 ft2 in
  r_ok r2 = true /\ r_dest r2 = r_dest r /\ filter mutating (r_dest_trace r2) = [] /\
  (forall p, ~ In (CGetFileContent p) (r_src_trace r2)) /\ r_prompts r2 = [] /\ stats_nothing (r_stats r2) = true.
Proof. exact sync_twice. Qed.

(* The closed statement for the executable model: nothing is assumed about the second run's listing - the
   tree a run leaves behind is well-formed (Proofs/WfProofs.v), so its sorted listing is a valid listing. *)
Theorem C04_idempotent_executable : forall cfg S D a ans bits ex ft ans2 bits2 ft2,
  unique_keys S -> wf_fs S -> unique_keys D -> wf_fs D -> src_times_set S -> links_utf8 S ->
  let r := run_top cfg S D a ans bits ex ft in
  r_ok r = true -> r_skipped r = [] -> r_root_skipped r = false -> cf_dry cfg = false -> cf_fl cfg = Unix ->
  b_same (cf_b cfg) = BSkip ->
  let r2 := run_top cfg S (d_fs (r_dest r)) (d_anc (r_dest r)) ans2 bits2 ex ft2 in
  r_ok r2 = true /\ d_fs (r_dest r2) = d_fs (r_dest r) /\ filter mutating (r_dest_trace r2) = [] /\
  (forall p, ~ In (CGetFileContent p) (r_src_trace r2)) /\ r_prompts r2 = [] /\ stats_nothing (r_stats r2) = true.
Proof. exact run_top_twice. Qed.

(* ... and with every listing delivered by an arbitrary execution of the directory walk (C17, Proofs/WalkBridge.v),
   the "nothing went through a link" premise discharged by C02's theorem for every run, and the second destination
   listing walked over the tree the first run left (which is well-formed: Proofs/WfProofs.v). *)
Theorem C04_idempotent_walked : forall now_z incl normalize chunker,
  (forall d, chunker d <> [] /\ concat (chunker d) = d) ->
  forall dest_fl cfg S D ans bits ls ld ft ans2 bits2 ld2 ft2,
  wf_fs S -> src_times_set S -> links_roundtrip normalize dest_fl S ->
  wf_fs (d_fs D) -> unique_keys (d_fs D) -> d_open D = None -> no_through (d_events D) ->
  WalkedSync.walked now_z incl normalize S ls -> WalkedSync.walked now_z incl normalize (d_fs D) ld ->
  let r := sync_one now_z normalize chunker cfg S D ans bits ls ld ft in
  r_ok r = true -> r_skipped r = [] -> r_root_skipped r = false -> cf_dry cfg = false -> cf_fl cfg = dest_fl ->
  b_same (cf_b cfg) = BSkip ->
  WalkedSync.walked now_z incl normalize (d_fs (r_dest r)) ld2 ->
  let r2 := sync_one now_z normalize chunker cfg S (r_dest r) ans2 bits2 ls ld2 ft2 in
  r_ok r2 = true /\ r_dest r2 = r_dest r /\ filter mutating (r_dest_trace r2) = [] /\
  (forall p, ~ In (CGetFileContent p) (r_src_trace r2)) /\ r_prompts r2 = [] /\ stats_nothing (r_stats r2) = true.
Proof. exact WalkedSync.walked_sync_twice. Qed.

(* A SPEC WITH SEVERAL SYNCS run a second time does nothing (Model/SpecRun.v, Proofs/SpecProofs.v): if the first run
   exited 0, every sync of it ran without skips (no dry run, Unix destination, same-time files skipped), each source had
   set times and well-formed link texts when it was read, and no sync writes to the destination or the source of an
   EARLIER sync of the spec (a destination may be the source of a later one: A -> B, then B -> C) - then, run again on the
   trees the first run left, every sync returns Ok, sends no mutating command, fetches no content, asks nothing and
   reports "Nothing to do"; the status is 0 and every tree is as it was. *)
Theorem C04_spec_twice : forall jobs st,
  store_ok st ->
  sp_ok (run_spec jobs st) = true ->
  Forall (fun t => let j := t_job t in let S := sget (t_store t) (j_src j) in
            src_times_set S /\ links_utf8 S /\ j_src j <> j_dst j /\
            r_skipped (t_res t) = [] /\ r_root_skipped (t_res t) = false /\
            cf_dry (j_cfg j) = false /\ cf_fl (j_cfg j) = Unix /\ b_same (cf_b (j_cfg j)) = BSkip) (spec_trace jobs st) ->
  (forall pre t post, spec_trace jobs st = pre ++ t :: post ->
     forall t', In t' post -> j_dst (t_job t') <> j_dst (t_job t) /\ j_dst (t_job t') <> j_src (t_job t)) ->
  let F := sp_store (run_spec jobs st) in
  sp_ok (run_spec jobs F) = true /\ (forall i, sget (sp_store (run_spec jobs F)) i = sget F i) /\
  length (sp_runs (run_spec jobs F)) = length jobs /\ Forall quiet (sp_runs (run_spec jobs F)).
Proof. exact spec_twice. Qed.

(* The two halves, usable on their own: a mirrored destination plans nothing ... *)
Theorem C04_mirror_plans_nothing : forall now_z incl normalize diff fl S D D' ls ld',
  mirror now_z incl normalize diff fl S D D' -> wf_fs S -> wf_fs D -> fget S [] <> None ->
  valid_listing now_z incl normalize S ls -> valid_listing now_z incl normalize D' ld' ->
  plan_spec diff true (side_listing now_z normalize S ls) (side_listing now_z normalize D' ld') = mkActions [] [].
Proof. intros now_z incl normalize. exact (in_sync_plan_empty now_z incl normalize (fun d => [d])). Qed.

(* ... and whatever rjrssync writes compares equal when it is read back: link text ... *)
Theorem C04_link_text_reads_back : forall t, lossy t = t ->
  normalize_unix (denormalize Unix (normalize_unix t)) = normalize_unix t.
Proof. exact normalize_unix_idem. Qed.

(* Known finding F7: the full statement (for every link text) is FALSE of the faithful model: an
   ill-formed text is carried lossily and normalises differently when read back, so such a link is
   deleted and re-created by every run.  C04_idempotent above is the statement outside that class
   (links_roundtrip holds for all well-formed UTF-8 source link texts: InstanceProofs.links_utf8_roundtrip). *)
Theorem C04_refuted_for_ill_formed_link_text :
  exists t, normalize_unix (denormalize Unix (normalize_unix t)) <> normalize_unix t.
Proof. exact link_text_roundtrip_refuted. Qed.

(* ... and file times: the time set with the last chunk is the time listed afterwards. *)
Theorem C04_time_reads_back : forall now_z normalize st p t,
  exists d, fget (d_fs (stamp_file st p t)) p = Some (NFile (TSet t) d) /\
            entry_of now_z normalize (NFile (TSet t) d) = EFile t (N.of_nat (length d)).
Proof.
  intros now_z normalize st p t. unfold stamp_file. cbn [d_fs with_fs].
  eexists. split; [apply Proofs.FsProofs.fget_fset_eq|reflexivity].
Qed.

Print Assumptions C04_idempotent.
Print Assumptions C04_idempotent_executable.
Print Assumptions C04_mirror_plans_nothing.
Print Assumptions C04_link_text_reads_back.
Print Assumptions C04_idempotent_walked.
Print Assumptions C04_spec_twice.
