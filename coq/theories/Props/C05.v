(* C05 - --dry-run changes nothing and predicts exactly what a real run does.  Statements only. *)
From RJ Require Import Base.Prelude Base.OrderedPlan Model.Settings Model.Core Model.Fs Model.Sync
  Spec.PlanSpec Proofs.SyncProofs Proofs.DryProofs.

(* Inert: for every input, behaviour setting, answer sequence, listing order, interleaving and fault
   plan, a dry run leaves the destination doer's whole state (tree, ancestors, clock, open handle,
   event log) as it was, sends no mutating command - not even CreateRootAncestors -, never asks the
   source for file content, and provokes no error reply. *)
Theorem C05_inert : forall now_z normalize chunker cfg S D ans bits ls ld ft,
  cf_dry cfg = true ->
  let r := sync_one now_z normalize chunker cfg S D ans bits ls ld ft in
  r_dest r = D /\ filter mutating (r_dest_trace r) = [] /\
  (forall p, ~ In (CGetFileContent p) (r_src_trace r)) /\ r_errs r = [].
Proof. exact dry_run_inert. Qed.

(* Predicts: the dry run and the real run of the same command on the same inputs ask the same
   prompts, skip the same entries, fail the confirmation in the same cases; and when the real run
   succeeds there is one confirmed action list such that both summaries are its statistics, the
   "Would ..." lines are (kind, path) for exactly its steps, and the real run sent exactly its
   commands (after, at most, CreateRootAncestors) and fetched exactly its files. *)
Theorem C05_predicts : forall now_z normalize chunker cfg S D ans bits ls ld ft,
  let rd := sync_one now_z normalize chunker (with_dry cfg true) S D ans bits ls ld ft in
  let rr := sync_one now_z normalize chunker (with_dry cfg false) S D ans bits ls ld ft in
  r_prompts rd = r_prompts rr /\ r_skipped rd = r_skipped rr /\
  r_confirm_failed rd = r_confirm_failed rr /\ r_root_skipped rd = r_root_skipped rr /\
  (r_ok rr = true -> r_root_skipped rr = false ->
     exists acts,
       r_stats rd = plan_stats acts /\ r_stats rr = plan_stats acts /\
       map would_key (r_would rd) = flat_map step_key (exec_steps chunker S acts) /\
       (exists pre, r_dest_trace rr = pre ++ dest_cmds (exec_steps chunker S acts) /\
                    forall c, In c pre -> mutating c = true -> c = CCreateRootAncestors) /\
       (exists pre, r_src_trace rr = pre ++ src_fetches (exec_steps chunker S acts) /\
                    forall p, ~ In (CGetFileContent p) pre)).
Proof. exact dry_run_predicts. Qed.

Theorem C05_would_lines_name_the_steps : forall chunker S a,
  flat_map step_key (exec_steps chunker S a) = map would_key (would_lines a).
Proof. exact would_lines_are_the_steps. Qed.

Print Assumptions C05_inert.
Print Assumptions C05_predicts.
