(* C06 - Filters select by whole-path match, last match wins, same on both sides.
   Only statements, each closed by [exact], and their assumption audit.
   Domain of the theorems: filter lists whose patterns are in the subset of regex syntax accepted by
   Model/RegexParse.v, over 7-bit text (see design.d/C06.md for the subset and what is outside). *)
From RJ Require Import Base.Prelude Model.Regex Model.RegexParse Model.Filters.
From RJ Require Import Proofs.RegexProofs Proofs.RegexParseProofs Proofs.FiltersProofs Gen.Facts_filters.
From Coq Require Import String.
Local Open Scope char_scope.

(* The wrapping of the model is the wrapping of the running code (Gen/Facts_filters.v is regenerated
   from compile_filters on every run: the text handed to the regex crate for the filter "+X"). *)
Theorem C06_wrap_is_code : wrap ["X"] = impl_wrap_probe.
Proof. reflexivity. Qed.

(* Text-level anchoring is AST-level anchoring: whatever the pattern (top-level alternation,
   groups, flags, classes ...), if it parses to r then "^(?:" ++ pat ++ ")$" parses to ^(r)$. *)
Theorem anchor_wrap : forall pat r,
  parse pat = Some r -> parse (wrap pat) = Some (cats [Bol; Group r; Eol]).
Proof. exact RegexParseProofs.anchor_wrap. Qed.

(* A search (what RegexSet::matches does) for ^(r)$ is a match of r against the entire text. *)
Theorem search_anchored_is_fullmatch : forall r s, search (cats [Bol; Group r; Eol]) s = fullmatch r s.
Proof. exact RegexProofs.search_anchored_is_fullmatch. Qed.

(* The executable matcher is the relational semantics (the fuel used for * + {m,} is sufficient). *)
Theorem C06_matcher_correct : forall s r i j, In j (ends r s i) <-> mt s r i j.
Proof. exact ends_correct. Qed.
Theorem C06_fullmatch_is_whole : forall r s, fullmatch r s = true <-> matches_whole r s.
Proof. exact fullmatch_correct. Qed.

Theorem C06_search_is_somewhere : forall r s, search r s = true <-> matches_somewhere r s.
Proof. exact search_correct. Qed.

(* What the code does (wrap each text, compile, ship, compile again, search, last match wins, default
   opposite of the first kind, root included) is the documented rule evaluated with a whole-path
   match of each pattern's own AST. *)
Theorem C06_verdict : forall fs asts p,
  map own_ast fs = map Some asts -> model_verdict fs p = Ok (spec_verdict asts p).
Proof. exact verdict_is_rule. Qed.

(* ... and that executable rule is the property text. *)
Theorem C06_rule : forall asts p sg, p <> [] -> (spec_verdict asts p = sg <-> decides asts p sg).
Proof. exact rule_is_text. Qed.
Theorem C06_takes_part : forall asts p, takes_part asts p <-> spec_verdict asts p = Inc.
Proof. exact takes_part_iff. Qed.

(* Same on both sides: the set the boss validated always deserialises on a doer, never makes
   apply_filters index out of range, and gives the boss's verdict - a function of (filters, path). *)
Theorem C06_both_sides : forall fs fl, compile_filters fs = Ok fl ->
  List.length (fl_kinds fl) = List.length (fl_patterns fl) /\
  forall p, exists v, doer_verdict fl p = Ok v /\ boss_verdict fs p = Ok v.
Proof. exact shipped_set_works. Qed.

(* The walk lists exactly the entries that survive together with every ancestor folder ... *)
Theorem C06_listed_iff : forall inc t q,
  In q (walk inc [] t) <-> exists anc, In (q, anc) (entries [] [] t) /\ inc q = true /\ forallb inc anc = true.
Proof. exact listed_iff. Qed.
Theorem C06_walk_is_filter : forall inc t,
  walk inc [] t = map fst (filter (survives inc) (entries [] [] t)).
Proof. intros inc t. exact (walk_spec inc t [] [] eq_refl). Qed.
(* ... so an excluded folder hides everything beneath it ... *)
Theorem C06_hidden : forall inc t q, In q (walk inc [] t) ->
  forall anc d, In (q, anc) (entries [] [] t) -> In d anc ->
  (forall anc', In (q, anc') (entries [] [] t) -> anc' = anc) -> inc d = true.
Proof. exact hidden_beneath_excluded. Qed.
(* ... and source and destination list an entry they both have under the same conditions. *)
Theorem C06_same_on_both_trees : forall inc S D q anc,
  (forall a, In (q, a) (entries [] [] S) -> a = anc) -> (forall a, In (q, a) (entries [] [] D) -> a = anc) ->
  In (q, anc) (entries [] [] S) -> In (q, anc) (entries [] [] D) ->
  (In q (walk inc [] S) <-> In q (walk inc [] D)).
Proof. exact same_on_both_trees. Qed.

(* The defect F1 (pinned tree): with "^" ++ pat ++ "$" a top-level alternation captures the anchors. *)
Theorem C06_old_wrap_escapes :
  parse (wrap_old ["a"; "|"; "b"]) = Some (Alt (cats [Bol; lit false "a"]) (cats [lit false "b"; Eol])).
Proof. exact old_wrap_escapes. Qed.

Theorem C06_old_wrap_refuted :
  let fs := [["-"; "a"; "|"; "b"]] in let p := ["a"; "b"] in
  old_verdict fs p = Ok Exc /\ model_verdict fs p = Ok Inc /\
  exists asts, map own_ast fs = map Some asts /\ spec_verdict asts p = Inc.
Proof. exact old_wrap_refuted. Qed.

(* Non-vacuity: the F1 witness. "-build|dist": builder.txt takes part, build and dist do not. *)
Definition s (x : String.string) : str := String.list_ascii_of_string x.
Arguments s x%string.
Example C06_example :
  let fs := [s "-build|dist"; s "+dist/keep\.[a-c]{2,}"; s "-(?i)[^/]*\.TMP"] in
  map (model_verdict fs) [s "build"; s "builder.txt"; s "dist"; s "dist/keep.abc"; s "dist/keep.ad"; s "x.tmp"; []]
  = map Ok [Exc; Inc; Exc; Inc; Inc; Exc; Inc]
  /\ forallb (fun f => match own_ast f with Some _ => true | None => false end) fs = true.
Proof. split; vm_compute; reflexivity. Qed.

Print Assumptions anchor_wrap.
Print Assumptions C06_verdict.
Print Assumptions C06_matcher_correct.
Print Assumptions C06_listed_iff.
