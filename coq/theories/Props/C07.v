(* C07 - Exit status 0 means everything was applied; every failure is reported.  Statements only. *)
From RJ Require Import Base.Prelude Base.OrderedPlan Model.Settings Model.Core Model.Fs Model.Paths Model.Sync Model.SyncTop
  Proofs.ExecProofs Proofs.DryProofs Proofs.CrashProofs Proofs.CrashMain Proofs.ReportProofs Proofs.TouchedProofs Proofs.InstanceProofs Model.Async Proofs.AsyncProofs Proofs.MirrorProofs Proofs.KillEvents.
From RJ Require Import Model.SpecRun Proofs.SpecProofs.

(* sync() returns Ok (a real run, the root not skipped) only if EVERY step of the confirmed plan was carried
   out: every planned command sent, executed and answered without error, every source file fetched; the
   destination is exactly the result of executing them all; the statistics are those of that plan.  For
   every fault plan (failing commands, failing writes, failing reads, any notice lag, a dying doer). *)
Theorem C07_exit0_all_applied : forall now_z normalize chunker cfg S D ans bits ls ld ft,
  let r := sync_one now_z normalize chunker cfg S D ans bits ls ld ft in
  let pl := sync_plan now_z normalize chunker cfg S D ans bits ls ld in
  r_ok r = true -> cf_dry cfg = false -> r_root_skipped r = false ->
  exists acts pre,
    snd pl = pre ++ exec_steps chunker S acts /\ (pre = [] \/ pre = [DestCmd CCreateRootAncestors]) /\
    r_stats r = plan_stats acts /\
    r_dest r = exec_all (cf_fl cfg) D (dest_cmds (snd pl)) /\ all_ok (cf_fl cfg) D (dest_cmds (snd pl)) /\
    (exists t0, r_dest_trace r = t0 ++ dest_cmds (snd pl)) /\
    (exists s0, r_src_trace r = s0 ++ src_fetches (snd pl)) /\
    r_errs r = [] /\ r_src_failed r = false.
Proof. exact exit0_all_applied. Qed.

(* Every failure is reported, however late the failing operation sits: the error reply of a command that is
   reached and executed is in the final error list whatever precedes and follows it ... *)
Theorem C07_no_error_dropped : forall fl ft pre s rest r c e,
  executes ft (run_steps fl ft r pre) s = Some c ->
  snd (doer_exec fl (rs_d (run_steps fl ft r pre)) c) = Some e ->
  In e (rs_errs (run_steps fl ft r (pre ++ s :: rest))).
Proof. exact error_reaches_the_end. Qed.

(* ... and a non-empty error list or a failed source read makes sync() fail. *)
Theorem C07_failure_is_reported : forall now_z normalize chunker cfg S D ans bits ls ld ft,
  let r := sync_one now_z normalize chunker cfg S D ans bits ls ld ft in
  r_errs r <> [] \/ r_src_failed r = true -> r_ok r = false.
Proof. exact failure_is_reported. Qed.

(* The summary: the counters of the plan's statistics are the census of the commands that were carried
   out (files = completed file transfers).  Byte totals are the listed sizes (C11 ties them to the data). *)
Theorem C07_summary_is_census : forall chunker,
  (forall d, chunker d <> [] /\ concat (chunker d) = d) ->
  forall S a,
  (forall p mt sz r, In (p, (EFile mt sz, r)) (a_copy a) -> exists m d, fget S p = Some (NFile m d)) ->
  nobytes (plan_stats a) = census (dest_cmds (exec_steps chunker S a)).
Proof. exact plan_stats_is_census. Qed.

(* After ANY run - Ok, failed, or killed at any instant - every destination path is as it was, or as a
   command of the plan for that very path makes it, or a partly written file with the time of its last
   write; nothing else has been touched.  (Runs that went through a link: F6b.) *)
Theorem C07_only_planned_changes : forall now_z normalize chunker,
  (forall d, chunker d <> [] /\ concat (chunker d) = d) ->
  forall cfg S D ans bits ls ld ft,
  d_open D = None ->
  let steps := snd (sync_plan now_z normalize chunker cfg S D ans bits ls ld) in
  let T := Touched (cf_fl cfg) S (d_fs D) (cmd_of_plan steps) (file_of_plan steps) in
  (forall s, In s (sync_kill_states now_z normalize chunker cfg S D ans bits ls ld ft) -> no_through (d_events s) -> T s) /\
  (no_through (d_events (r_dest (sync_one now_z normalize chunker cfg S D ans bits ls ld ft))) ->
   T (r_dest (sync_one now_z normalize chunker cfg S D ans bits ls ld ft))).
Proof. exact only_planned_changes. Qed.

(* ... and for the executable sync with no premise at all about links (C02's general confinement theorem): *)
Theorem C07_only_planned_changes_unconditional : forall cfg S D a ans bits ex ft,
  unique_keys S -> wf_fs S -> unique_keys D -> wf_fs D ->
  let ls := list_fs now_far (excl_incl ex) normalize_unix S in
  let ld := list_fs now_far (excl_incl ex) normalize_unix D in
  let steps := snd (sync_plan now_far normalize_unix chunk_real cfg S (world D a []) ans bits ls ld) in
  let T := Touched (cf_fl cfg) S D (cmd_of_plan steps) (file_of_plan steps) in
  (forall s, In s (sync_kill_states now_far normalize_unix chunk_real cfg S (world D a []) ans bits ls ld ft) -> T s) /\
  T (r_dest (run_top cfg S D a ans bits ex ft)).
Proof. exact kill_states_touched_unconditional. Qed.

(* The asynchrony itself, as a two-process model (Model/Async.v): the boss streams commands and looks at
   replies now and then, the doer executes and answers in order, every interleaving is a path.  On EVERY
   path: Ok only after the doer has executed the whole plan without a single error reply; an error answered
   at ANY time - also after the boss has already sent its final marker - is never lost; and whenever the
   boss stops, the doer's world is the sequential execution of a prefix of the plan. *)
Theorem C07_async_ok_sound : forall exec d0 steps s,
  areach exec (ainit d0 steps) s -> a_boss s = BOk ->
  a_done s = dest_cmds steps /\ a_d s = run_all exec d0 (dest_cmds steps) /\
  errs_all exec d0 (dest_cmds steps) = [] /\ a_queue s = [].
Proof. exact async_ok_sound. Qed.

Theorem C07_async_no_error_lost : forall exec d0 steps s,
  areach exec (ainit d0 steps) s -> a_errs s <> [] -> a_boss s <> BOk.
Proof. exact async_no_error_lost. Qed.

Theorem C07_async_prefix : forall exec d0 steps s,
  areach exec (ainit d0 steps) s -> a_d s = run_all exec d0 (a_done s) /\
  (a_boss s <> BFail -> exists rest, dest_cmds steps = a_done s ++ rest).
Proof. exact async_prefix. Qed.

(* the two models of the destination side agree on successful runs: what the two-process model can end with Ok
   is exactly what the synchronous model (Model/Sync.run_steps, used by every other theorem) computes without faults *)
Theorem C07_async_ok_agrees_with_sync : forall fl D t0 s0 steps s,
  areach (doer_exec fl) (ainit D steps) s -> a_boss s = BOk ->
  let r := run_steps fl no_faults (mkR D t0 s0 [] false 0 0 None) steps in
  a_d s = rs_d r /\ rs_errs r = [] /\ rs_srcfail r = false.
Proof. exact async_ok_agrees_with_sync. Qed.

(* ... and on ALL runs the synchronous model covers the asynchronous one: whatever the two processes do, the doer's
   world is the one Model/Sync.run_steps computes under the fault plan "the doer dies after n commands" - so every
   theorem stated for all fault plans (C01-C05, C07, C08, C12) speaks about every interleaving of boss and doer. *)
Theorem C07_async_covered_by_sync : forall fl D t0 s0 steps s,
  (forall c, In c (dest_cmds steps) -> mutating c = true) ->
  areach (doer_exec fl) (ainit D steps) s ->
  a_d s = rs_d (run_steps fl (stop_plan (length (a_done s)) (S (length steps))) (mkR D t0 s0 [] false 0 0 None) steps).
Proof. exact async_covered_by_sync. Qed.

(* a late error: the only command fails after the boss has already sent the final marker and is waiting *)
Example C07_async_late_error :
  let d0 := world [([], NFolder)] AncOk [] in
  let c := CDeleteFile [["x"%char]] in
  exists s, areach (doer_exec Unix) (ainit d0 [DestCmd c]) s /\ a_boss s = BFail /\ a_errs s = [ENoEnt].
Proof.
  cbv zeta. eexists. split.
  - eapply ar_step. eapply ar_step. eapply ar_step. eapply ar_step. eapply ar_step. apply ar_refl.
    + apply st_boss_send.
    + apply st_boss_finish.
    + apply st_doer_cmd.
    + apply st_doer_done.
    + cbn. apply st_boss_sees_error_waiting.
  - split; reflexivity.
Qed.

(* Non-vacuity: a run whose LAST command fails (a write fault on the final chunk of the last file) is Ok
   in everything before it and still fails; the same run without the fault is Ok and its census matches. *)
Definition c07_S : fs := [ ([], NFolder); ([["a"%char]], NFile (TSet 10) ["x"%char]); ([["b"%char]], NFile (TSet 11) ["y"%char; "z"%char]) ].
Definition c07_D : fs := [ ([], NFolder); ([["c"%char]], NFile (TSet 5) ["o"%char]) ].
Definition c07_cfg := mkCfg false Unix (mkB BAct BAct BSkip BAct) BAct false.
Example C07_example :
  let ls := listing_top [] c07_S in let ld := listing_top [] c07_D in
  let bad := run_orders_w c07_cfg c07_S c07_D AncOk [1%N] [] [] ls ld no_faults in
  let good := run_orders_w c07_cfg c07_S c07_D AncOk [] [] [] ls ld no_faults in
  r_ok bad = false /\ r_errs bad = [EWrite] /\ r_ok good = true /\
  nobytes (r_stats good) = census (skipn 2 (r_dest_trace good)).
Proof. vm_compute. repeat split; reflexivity. Qed.

(* A SPEC WITH SEVERAL SYNCS (Model/SpecRun.v: execute_spec folds the syncs over a store of trees; a fresh doer
   context per sync; the first failing sync ends the run).  Exit status 0 exactly when EVERY sync of the spec was
   started and returned Ok ... *)
Theorem C07_spec_exit0_iff_all_ok : forall jobs st,
  sp_ok (run_spec jobs st) = true <->
  length (sp_runs (run_spec jobs st)) = length jobs /\ forallb r_ok (sp_runs (run_spec jobs st)) = true.
Proof. intros jobs st. exact (spec_ok_iff jobs st). Qed.
(* ... and status 12 exactly when some sync failed: it is the last one that was started, all before it returned Ok
   and none after it was started (a later success can never mask it). *)
Theorem C07_spec_failure_is_last : forall jobs st,
  forallb r_ok (removelast (sp_runs (run_spec jobs st))) = true /\
  length (sp_runs (run_spec jobs st)) <= length jobs /\
  (sp_ok (run_spec jobs st) = false <->
   exists r, last (sp_runs (run_spec jobs st)) r = r /\ r_ok r = false /\ sp_runs (run_spec jobs st) <> []).
Proof. intros jobs st. exact (spec_failure_is_last jobs st). Qed.
(* each started sync is the single-sync model on the trees as the syncs before it left them *)
Theorem C07_spec_runs_are_syncs : forall jobs st,
  sp_runs (run_spec jobs st) = map t_res (spec_trace jobs st) /\
  Forall (fun t => t_res t = run_job (t_job t) (t_store t)) (spec_trace jobs st) /\
  map t_job (spec_trace jobs st) = firstn (length (spec_trace jobs st)) jobs.
Proof. intros jobs st. exact (conj (runs_of_trace jobs st) (conj (trace_is_runs jobs st) (trace_jobs jobs st))). Qed.

Print Assumptions C07_exit0_all_applied.
Print Assumptions C07_no_error_dropped.
Print Assumptions C07_failure_is_reported.
Print Assumptions C07_summary_is_census.
Print Assumptions C07_only_planned_changes.
Print Assumptions C07_only_planned_changes_unconditional.
Print Assumptions C07_async_ok_sound.
Print Assumptions C07_async_no_error_lost.
Print Assumptions C07_async_prefix.
Print Assumptions C07_async_ok_agrees_with_sync.
Print Assumptions C07_async_covered_by_sync.
Print Assumptions C07_spec_exit0_iff_all_ok.
Print Assumptions C07_spec_failure_is_last.
Print Assumptions C07_spec_runs_are_syncs.

(* ---- arbitrary command sequences against the doer (Model/DoerOps.v; the doer-ops unit driver compares the real doer thread with it) *)
From RJ Require Import Model.DoerOps Proofs.DoerOpsProofs Proofs.WfProofs.
Theorem C07_any_sequence_touches_only_named_paths : forall fl cs st p,
  Forall (fun c => cmd_path c <> Some p) cs -> fget (d_fs (fst (doer_run fl st cs))) p = fget (d_fs st) p.
Proof. exact doer_run_frame. Qed.
Theorem C07_any_sequence_keeps_the_tree_well_formed : forall fl cs st, wfu (d_fs st) -> wfu (d_fs (fst (doer_run fl st cs))).
Proof. exact doer_run_wfu. Qed.
Theorem C07_any_sequence_error_leaves_tree : forall fl cs st k c e,
  nth_error cs k = Some c -> nth_error (snd (doer_run fl st cs)) k = Some (Some e) -> e <> EWrite ->
  d_fs (fst (doer_exec fl (state_before fl st cs k) c)) = d_fs (state_before fl st cs k).
Proof. exact doer_run_errors. Qed.
Print Assumptions C07_any_sequence_touches_only_named_paths.
Print Assumptions C07_any_sequence_keeps_the_tree_well_formed.
Print Assumptions C07_any_sequence_error_leaves_tree.
