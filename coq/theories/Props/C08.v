(* C08 - An interrupted or failed sync can always be repaired by running it again.  Statements only. *)
From RJ Require Import Base.Prelude Base.OrderedPlan Model.Settings Model.Core Model.Fs Model.Paths Model.Sync Model.SyncTop
  Spec.PlanSpec Spec.Mirror Proofs.ExecProofs Proofs.MirrorProofs Proofs.InstanceProofs Proofs.CrashProofs Proofs.CrashMain Proofs.WfProofs Proofs.RepairMain Proofs.KillEvents Proofs.ChunkTie.
From RJ Require Import Gen.Facts_chunks.
From RJ Require Model.Walker Proofs.WalkBridge Proofs.WalkedSync.

(* The invariant (Proofs/CrashProofs.v): on the destination a file that carries a SET time - as opposed
   to the time of its last write - is either the very file that was there before the run, or holds exactly
   the complete bytes of the source file of that path.

     Good S D0 s := forall q t d, fget (d_fs s) q = Some (NFile (TSet t) d) ->
                      fget D0 q = Some (NFile (TSet t) d) \/ exists m, fget S q = Some (NFile m d)

   It holds in every state a kill or a lost link can leave behind: at every command boundary, and inside
   a file command after create/truncate, after ANY part of the bytes of a write, after the write and after
   the time was set (cmd_states); for every plan, answer sequence, interleaving and listing order; under
   every fault plan: failing commands at any indices, failing writes at any chunks (the doer then refuses
   the rest of that file - the F4 repair), failing source reads, any delay before the boss notices an
   error, and a doer that dies after any number of commands (ft_stop).  Runs in which an effect left the
   tree through a link are outside the statement (F6b, C02). *)
Theorem C08_kill_states_safe : forall now_z normalize chunker,
  (forall d, chunker d <> [] /\ concat (chunker d) = d) ->
  forall cfg S D ans bits ls ld ft,
  d_open D = None ->
  (forall s, In s (sync_kill_states now_z normalize chunker cfg S D ans bits ls ld ft) ->
     no_through (d_events s) -> Good S (d_fs D) s) /\
  (no_through (d_events (r_dest (sync_one now_z normalize chunker cfg S D ans bits ls ld ft))) ->
   Good S (d_fs D) (r_dest (sync_one now_z normalize chunker cfg S D ans bits ls ld ft))).
Proof. exact crash_safe. Qed.

(* the kill states are those of the steps sync_one itself performs *)
Theorem C08_kill_states_are_of_this_run : forall now_z normalize chunker cfg S D ans bits ls ld ft,
  r_dest (sync_one now_z normalize chunker cfg S D ans bits ls ld ft) =
  rs_d (run_steps (cf_fl cfg) ft (fst (sync_plan now_z normalize chunker cfg S D ans bits ls ld))
                                 (snd (sync_plan now_z normalize chunker cfg S D ans bits ls ld))).
Proof. exact sync_one_runs_plan. Qed.

(* one file transfer in isolation: whatever phase it is in, every observable state of every chunk command is safe *)
Theorem C08_chunk_step : forall fl p mt full v0 f0, fget f0 p = v0 ->
  forall done st data set_mt more,
  blocked_at st p = false ->
  phase p v0 f0 done st ->
  (more = true -> set_mt = None) -> (more = false -> set_mt = Some mt /\ concat (done ++ [data]) = full) ->
  let c := CCreateOrUpdateFile p data set_mt more in
  (forall s, In s (cmd_states fl st c) -> no_new_through st s -> safe p mt full v0 f0 s) /\
  (no_new_through st (fst (doer_exec fl st c)) ->
     if more then phase p v0 f0 (done ++ [data]) (fst (doer_exec fl st c))
     else safe p mt full v0 f0 (fst (doer_exec fl st c)) /\ d_open (fst (doer_exec fl st c)) = None).
Proof. exact chunk_step. Qed.

(* Consequences.  A damaged file never passes for an up-to-date one ... *)
Theorem C08_no_damaged_file_passes : forall S D0 s p t b d,
  Good S D0 s -> fget S p = Some (NFile (TSet t) b) -> fget (d_fs s) p = Some (NFile (TSet t) d) ->
  d = b \/ fget D0 p = Some (NFile (TSet t) d).
Proof. exact good_no_damage. Qed.

(* ... so running the sync again from ANY such state (fresh doer) with nothing skipped mirrors the source:
   every source file is on the destination with its bytes and time - the only exception being a file that
   carried the source's time before the first run, which C01 itself exempts. *)
Theorem C08_rerun_repairs : forall now_z incl normalize chunker,
  (forall d, chunker d <> [] /\ concat (chunker d) = d) ->
  forall dest_fl cfg S D0 s ans bits ls ld ft,
  Good S D0 s ->
  valid_listing now_z incl normalize S ls -> valid_listing now_z incl normalize (d_fs s) ld ->
  wf_fs S -> src_times_set S -> links_roundtrip normalize dest_fl S ->
  let r := sync_one now_z normalize chunker cfg S (reboot s) ans bits ls ld ft in
  r_ok r = true -> r_skipped r = [] -> r_root_skipped r = false -> cf_dry cfg = false ->
  no_through (d_events (r_dest r)) -> cf_fl cfg = dest_fl ->
  mirror now_z incl normalize (cf_diff cfg) dest_fl S (d_fs s) (d_fs (r_dest r)) /\
  forall p t b, takes_part incl S p -> fget S p = Some (NFile (TSet t) b) -> (forall k, now_z k <> t) ->
    fget (d_fs (r_dest r)) p = Some (NFile (TSet t) b) \/
    exists b0, fget D0 p = Some (NFile (TSet t) b0) /\ fget (d_fs (r_dest r)) p = Some (NFile (TSet t) b0).
Proof. exact rerun_repairs. Qed.

(* The executable instance (growing chunker, Unix link text, a world with failing writes). *)
Theorem C08_executable : forall cfg S D a fw ans bits ls ld ft,
  (forall s, In s (sync_kill_states now_far normalize_unix chunk_real cfg S (world D a fw) ans bits ls ld ft) ->
     no_through (d_events s) -> Good S D s) /\
  (no_through (d_events (r_dest (run_orders_w cfg S D a fw ans bits ls ld ft))) ->
   Good S D (r_dest (run_orders_w cfg S D a fw ans bits ls ld ft))).
Proof. intros. exact (crash_safe now_far normalize_unix chunk_real chunk_real_ok cfg S (world D a fw) ans bits ls ld ft eq_refl). Qed.

(* Every such state is moreover a well-formed tree (ancestors of every entry are folders, one node per
   path), so the NEXT run's listing of it is a valid listing and nothing has to be assumed about it: *)
Theorem C08_states_well_formed : forall cfg S D a fw ans bits ls ld ft,
  unique_keys D -> wf_fs D ->
  (forall s, In s (sync_kill_states now_far normalize_unix chunk_real cfg S (world D a fw) ans bits ls ld ft) ->
     wf_fs (d_fs s) /\ unique_keys (d_fs s)) /\
  (wf_fs (d_fs (r_dest (run_orders_w cfg S D a fw ans bits ls ld ft))) /\
   unique_keys (d_fs (r_dest (run_orders_w cfg S D a fw ans bits ls ld ft)))).
Proof. exact kill_states_well_formed. Qed.

(* the closed statement for the executable model: first run arbitrary (any listings, interleaving, answers,
   faults, killed anywhere or run to its end), second run = the executable sync on what was left. *)
Theorem C08_rerun_executable : forall cfg S D a fw ans bits ls ld ft s,
  unique_keys D -> wf_fs D ->
  (In s (sync_kill_states now_far normalize_unix chunk_real cfg S (world D a fw) ans bits ls ld ft) \/
   s = r_dest (run_orders_w cfg S D a fw ans bits ls ld ft)) ->
  no_through (d_events s) ->
  forall cfg2 ans2 bits2 ex ft2,
  unique_keys S -> wf_fs S -> src_times_set S -> links_utf8 S ->
  let r2 := run_top cfg2 S (d_fs s) (d_anc s) ans2 bits2 ex ft2 in
  r_ok r2 = true -> r_skipped r2 = [] -> r_root_skipped r2 = false -> cf_dry cfg2 = false -> cf_fl cfg2 = Unix ->
  mirror now_far (excl_incl ex) normalize_unix (cf_diff cfg2) Unix S (d_fs s) (d_fs (r_dest r2)) /\
  forall p t b, takes_part (excl_incl ex) S p -> fget S p = Some (NFile (TSet t) b) -> (t < 4000000000000000000)%Z ->
    fget (d_fs (r_dest r2)) p = Some (NFile (TSet t) b) \/
    exists b0, fget D p = Some (NFile (TSet t) b0) /\ fget (d_fs (r_dest r2)) p = Some (NFile (TSet t) b0).
Proof. exact rerun_repairs_executable. Qed.

(* With C02's general confinement theorem (no run ever resolves through a destination link) the premise about
   links disappears for the executable sync: EVERY kill state and the final state of EVERY run - any outcome,
   any fault plan - satisfy Good, and none of them has logged a Through event. *)
Theorem C08_executable_unconditional : forall cfg S D a ans bits ex ft,
  unique_keys S -> wf_fs S -> unique_keys D -> wf_fs D ->
  let ls := list_fs now_far (excl_incl ex) normalize_unix S in
  let ld := list_fs now_far (excl_incl ex) normalize_unix D in
  let r := run_top cfg S D a ans bits ex ft in
  (forall s, In s (sync_kill_states now_far normalize_unix chunk_real cfg S (world D a []) ans bits ls ld ft) ->
     Good S D s /\ no_through (d_events s)) /\
  Good S D (r_dest r).
Proof. exact kill_states_good_unconditional. Qed.

(* The chunk sizes of the executable model are the ones the running code uses (measured by the harness on every
   run: 4 KiB doubling to 4 MiB); a changed ladder in the code re-checks this obligation. *)
Theorem C08_chunk_ladder_matches_code :
  map (fun k => N.of_nat (buf_size k)) (seq 0 14) = firstn 14 impl_ladder.
Proof. rewrite core_ladder_is_buf_size. exact core_ladder_matches_code. Qed.

(* Non-vacuity and the F4 scenario: a two-chunk file whose first write fails while the boss has already
   queued the last chunk (lag 3).  The last chunk is refused, the run fails, and the destination keeps an
   unstamped partial file; among the kill states there are states with a partially written file. *)
Definition c08_big : str := repeat "a"%char 4097.
Definition c08_S : fs := [ ([], NFolder); ([["f"%char]], NFile (TSet 10) c08_big) ].
Definition c08_D : fs := [ ([], NFolder); ([["f"%char]], NFile (TSet 5) ["o"%char]) ].
Definition c08_cfg := mkCfg false Unix (mkB BAct BAct BSkip BAct) BAct false.
Definition c08_ls : list (path * entry) := listing_top [] c08_S.
Definition c08_ld : list (path * entry) := listing_top [] c08_D.
Definition is_now (n : option node) : bool := match n with Some (NFile (TNow _) _) => true | _ => false end.
Example C08_example :
  let r := run_orders_w c08_cfg c08_S c08_D AncOk [0%N] [] [] c08_ls c08_ld (mkFaults [] [] 3 None) in
  r_ok r = false /\ r_errs r = [EWrite; ERefused] /\
  is_now (fget (d_fs (r_dest r)) [["f"%char]]) = true /\
  existsb (fun s => match fget (d_fs s) [["f"%char]] with Some (NFile (TNow _) d) => Nat.eqb (length d) 100 | _ => false end)
          (sync_kill_states now_far normalize_unix chunk_real c08_cfg c08_S (world c08_D AncOk [0%N]) [] [] c08_ls c08_ld (mkFaults [] [] 3 None)) = true.
Proof. vm_compute. repeat split; reflexivity. Qed.

(* END TO END with the directory walk (C17, Proofs/WalkBridge.v, Proofs/WalkedSync.v), for ANY clock, filter verdict,
   link-text normaliser and chunker: run a sync whose two listings are whatever arbitrary executions of the
   N-worker walk deliver, under ANY fault plan; let it end - Ok or failed - or kill the doer in any state a kill
   can leave behind.  That state is a well-formed tree satisfying Good in which nothing went through a link ... *)
Theorem C08_walked_crash_states : forall now_z incl normalize chunker,
  (forall d, chunker d <> [] /\ concat (chunker d) = d) ->
  forall cfg S D ans bits ls ld ft s,
  wf_fs S -> wf_fs (d_fs D) -> unique_keys (d_fs D) -> d_open D = None -> no_through (d_events D) ->
  WalkedSync.walked now_z incl normalize S ls -> WalkedSync.walked now_z incl normalize (d_fs D) ld ->
  (In s (sync_kill_states now_z normalize chunker cfg S D ans bits ls ld ft) \/
   s = r_dest (sync_one now_z normalize chunker cfg S D ans bits ls ld ft)) ->
  Good S (d_fs D) s /\ wf_fs (d_fs s) /\ unique_keys (d_fs s) /\ no_through (d_events s).
Proof. exact WalkedSync.walked_crash_states. Qed.
(* ... and a second sync started by a fresh doer on it - again with walked listings, any settings, answers and
   faults - mirrors the source whenever it returns Ok without skips; every source file then has its bytes and
   time on the destination (up to C01's exemption of a file that carried the source's time before the first run). *)
Theorem C08_walked_rerun_repairs : forall now_z incl normalize chunker,
  (forall d, chunker d <> [] /\ concat (chunker d) = d) ->
  forall dest_fl cfg S D ans bits ls ld ft s cfg2 ans2 bits2 ls2 ld2 ft2,
  wf_fs S -> src_times_set S -> links_roundtrip normalize dest_fl S ->
  wf_fs (d_fs D) -> unique_keys (d_fs D) -> d_open D = None -> no_through (d_events D) ->
  WalkedSync.walked now_z incl normalize S ls -> WalkedSync.walked now_z incl normalize (d_fs D) ld ->
  (In s (sync_kill_states now_z normalize chunker cfg S D ans bits ls ld ft) \/
   s = r_dest (sync_one now_z normalize chunker cfg S D ans bits ls ld ft)) ->
  WalkedSync.walked now_z incl normalize S ls2 -> WalkedSync.walked now_z incl normalize (d_fs s) ld2 ->
  let r2 := sync_one now_z normalize chunker cfg2 S (reboot s) ans2 bits2 ls2 ld2 ft2 in
  r_ok r2 = true -> r_skipped r2 = [] -> r_root_skipped r2 = false -> cf_dry cfg2 = false -> cf_fl cfg2 = dest_fl ->
  mirror now_z incl normalize (cf_diff cfg2) dest_fl S (d_fs s) (d_fs (r_dest r2)) /\
  forall p t b, takes_part incl S p -> fget S p = Some (NFile (TSet t) b) -> (forall k, now_z k <> t) ->
    fget (d_fs (r_dest r2)) p = Some (NFile (TSet t) b) \/
    exists b0, fget (d_fs D) p = Some (NFile (TSet t) b0) /\ fget (d_fs (r_dest r2)) p = Some (NFile (TSet t) b0).
Proof. exact WalkedSync.walked_rerun_repairs. Qed.

Print Assumptions C08_kill_states_safe.
Print Assumptions C08_kill_states_are_of_this_run.
Print Assumptions C08_chunk_step.
Print Assumptions C08_no_damaged_file_passes.
Print Assumptions C08_rerun_repairs.
Print Assumptions C08_executable.
Print Assumptions C08_states_well_formed.
Print Assumptions C08_rerun_executable.
Print Assumptions C08_executable_unconditional.
Print Assumptions C08_chunk_ladder_matches_code.
Print Assumptions C08_walked_crash_states.
Print Assumptions C08_walked_rerun_repairs.
