(* C09 - Every run terminates, also when something breaks mid-transfer.
   Statements only (proofs in Proofs/Shutdown*.v over Model/Shutdown.v), each closed by [exact].

   Full statement of the property, for the local placement:
     for every capacity (0 included), every source tree (any number of files, any chunk sequence - also one that
     differs from the listed size: the file grew or shrank), every fault plan (error reply to any destination
     command, to any GetFileContent; either doer thread dying at any moment) and every interleaving:
     (a) no reachable state is stuck before the process has returned [C09_no_stuck],
     (b) every step decreases a numeric measure, so every scheduler reaches the end within mu(init) steps,
         without any fairness assumption [C09_step_decreases, C09_terminates],
     (c) when the boss reported a failed sync or a doer thread died, the exit status is not 0; otherwise it is 0
         [C09_exit_nonzero, C09_clean_exit_zero].
   (a) holds for the repaired protocol (fixed = true) and is FALSE for the pinned tree (fixed = false):
   [C09_refuted_unfixed] is the F5 witness.  (b) and (c) hold for both.
   Premise of (a): ctl_ok - the control messages (commands to the source, replies of the destination) stay
   below the capacity in total; the data-carrying channels are unrestricted (below / at / above capacity).
   Not proved here (partial): the remote placement (comms threads, socket, ssh) - differential only;
   "every fault the doer *answered* is seen by the boss before the Done marker" is C07's theorem. *)
From RJ Require Import Base.Prelude Model.Shutdown Proofs.ShutdownProofs Proofs.ShutdownInv Proofs.ShutdownNoStuck Proofs.ShutdownImpl Proofs.ShutdownBelow Model.Async Proofs.AsyncProofs.

Theorem C09_no_stuck : forall c x s,
  fixed c = true -> ctl_ok c x -> reach c x s -> final s = true \/ exists s', step c s s'.
Proof. exact no_stuck. Qed.

(* The running code implements the repaired protocol (behavioural facts regenerated from the code on every
   run: a sender waiting for capacity wakes when its receiver is dropped; the local Comms::shutdown returns
   although the doer waits for capacity) - so (a) is a statement about the protocol the code runs. *)
Theorem C09_impl_repaired : impl_fixed = true.
Proof. exact impl_repaired. Qed.

Theorem C09_no_stuck_impl : forall c x s,
  fixed c = impl_fixed -> ctl_ok c x -> reach c x s -> final s = true \/ exists s', step c s s'.
Proof. exact no_stuck_impl. Qed.

Theorem C09_step_decreases : forall c s s', step c s s' -> mu s' < mu s.
Proof. intros c s s' [a H]. exact (step_decreases c a s s' H). Qed.

Theorem C09_terminates : forall c s, Acc (fun a b => step c b a) s.
Proof. exact terminates. Qed.

Theorem C09_exit_nonzero : forall c x s, reach c x s -> final s = true ->
  berr (bo s) = true \/ is_dead (slife (sd s)) = true \/ is_dead (dlife (dd s)) = true ->
  bexit (bo s) <> 0%N.
Proof. exact exit_nonzero. Qed.

Theorem C09_clean_exit_zero : forall c x s, reach c x s -> final s = true ->
  berr (bo s) = false -> is_dead (slife (sd s)) = false -> is_dead (dlife (dd s)) = false ->
  bexit (bo s) = 0%N.
Proof. exact clean_exit_zero. Qed.

(* The pinned tree: a reachable, non-final state without any enabled step (the boss joins the source doer,
   which waits for capacity in a channel nobody drains). *)
Theorem C09_refuted_unfixed : exists c x s,
  fixed c = false /\ ctl_ok c x /\ reach c x s /\ final s = false /\ forall s', ~ step c s s'.
Proof.
  destruct refuted_unfixed as (c & x & s & H1 & H2 & H3 & H4).
  exists c, x, s. destruct (stuck_sound _ _ H4). auto.
Qed.

(* ... and only above capacity: when everything that can ever be queued in the two data-carrying channels fits
   in the capacity (data_ok), no reachable state is stuck - with or without the repair. *)
Theorem C09_holds_below_capacity : forall c x s,
  ctl_ok c x -> data_ok c x -> reach c x s -> final s = true \/ exists s', step c s s'.
Proof. exact holds_below_capacity. Qed.

(* The executable model the judge runs (priority schedules, fuel = measure + 1) only visits reachable states
   and ends where no action of the order is enabled. *)
Theorem C09_run_sound : forall c x ord,
  reach c x (run_to_end c ord (init x)) /\
  forall a, In a ord -> next c a (run_to_end c ord (init x)) = None.
Proof. exact run_sound. Qed.

(* Non-vacuity: the F5 scenario on the repaired protocol ends with exit status 12 and the source doer
   thread returning Err ("Lost communication with Local boss"), as the repaired implementation does. *)
Example C09_example :
  let s := run_to_end (w_cfg true) w_order (init w_sc) in
  ctl_ok (w_cfg true) w_sc /\ final s = true /\ bexit (bo s) = 12%N /\ slife (sd s) = ExitErr.
Proof. split; [split; apply N.leb_le; vm_compute; reflexivity | vm_compute; repeat split]. Qed.

(* The sync layer above it (Model/Async.v: the boss streaming the plan's commands, the destination doer executing
   and answering in order, the final marker): every interleaving is finite - at most 3 * |plan| + 4 transitions -
   whatever the commands do and whichever of them fail. *)
Theorem C09_sync_layer_step_decreases : forall exec s s', Async.astep exec s s' -> ameasure s' < ameasure s.
Proof. exact astep_decreases. Qed.
Theorem C09_sync_layer_terminates : forall exec d0 steps n s,
  apath exec n (Async.ainit d0 steps) s -> n <= 3 * length steps + 4.
Proof. exact async_terminates. Qed.

Print Assumptions C09_no_stuck.
Print Assumptions C09_terminates.
Print Assumptions C09_exit_nonzero.
Print Assumptions C09_refuted_unfixed.
Print Assumptions C09_holds_below_capacity.
Print Assumptions C09_sync_layer_terminates.

(* ==================================================================================================
   REMOTE placement: one boss <-> one remote doer session (Model/RemoteSession.v: boss main thread, its sending and
   receiving threads, the doer's main thread, its two comms threads and its stdin watchdog, four byte-accounted
   channels of any capacity (0 included), one bounded FIFO of frames per direction (any capacity >= 1), ssh;
   faults from a finite budget at any moment: TCP cut, bad frame in either direction, doer killed, the doer's
   stdin closed early, Error replies).  Proofs in Proofs/RemoteSession{Base,Flow,Witness}.v.

   Proved for EVERY protocol the boss can run on the connection (a list of send / blocking receive / polling
   receive operations), every capacity, every socket capacity, every fault plan and interleaving:
     (S4) every step decreases the numeric measure RemoteSession.mu; Acc of the reversed step relation -
          no scheduler, fair or not, can run for ever [C09_remote_step_decreases, C09_remote_terminates];
          the executable runs of the judge only visit reachable states [C09_remote_run_sound, C09_remote_plan_run_sound].
   NOT proved (partial - the full statements, for the record):
     (S3) C09_remote_no_stuck : forall c x s, resp_ok c x -> covered 0 (sc_ops x) = true -> reach c x s ->
              final s = true \/ exists s', step c s s'.
          What is here instead: both premises are NEEDED (reachable stuck states without them:
          [C09_remote_needs_resp_ok], [C09_remote_needs_covered]); the statement itself is checked only by the
          differential runs (tools/remote_session_lib.py: the judge reports stuck=1 for any schedule that ends in
          a non-final state; none does on the 1250 fault plans of the quick tier).
     (S5) "a fault before the boss has received the final message => the boss's result is an error" is FALSE of the
          faithful model and of the real binary [C09_remote_exit_refuted]: a cut after the last response was written
          leaves a complete, correctly reported sync with exit status 0 (Comms::shutdown only logs the missing final
          message).  Closed examples of the statuses: 12 / 20 / 65 / 137 [C09_remote_example_statuses]; a fault-free
          run may end with doer status 65 instead of 0 (race between `return` from doer_main and the stdin watchdog
          once the boss has dropped stdin) [C09_remote_example_clean_65]. *)
From RJ Require Model.RemoteSession Proofs.RemoteSessionBase Proofs.RemoteSessionFlow Proofs.RemoteSessionWitness.

Theorem C09_remote_step_decreases : forall c s s',
  RemoteSession.step c s s' -> RemoteSession.mu s' < RemoteSession.mu s.
Proof. intros c s s' [a H]. exact (RemoteSessionBase.step_decreases c a s s' H). Qed.

Theorem C09_remote_terminates : forall c s, Acc (fun a b => RemoteSession.step c b a) s.
Proof. exact RemoteSessionBase.terminates. Qed.

Theorem C09_remote_run_sound : forall c x ord,
  RemoteSession.reach c x (RemoteSession.run_to_end c ord (RemoteSession.init x)) /\
  forall a, In a ord -> RemoteSession.next c a (RemoteSession.run_to_end c ord (RemoteSession.init x)) = None.
Proof. exact RemoteSessionBase.run_sound. Qed.

Theorem C09_remote_plan_run_sound : forall c x ord pl,
  RemoteSession.reach c x (RemoteSession.run_plan_to_end c ord pl (RemoteSession.init x)).
Proof. exact RemoteSessionBase.run_plan_sound. Qed.

(* the premises of (S3) are needed: reachable, non-final states without any enabled step *)
Theorem C09_remote_needs_resp_ok : exists c x s,
  RemoteSession.covered 0 (RemoteSession.sc_ops x) = true /\ ~ RemoteSession.resp_ok c x /\
  RemoteSession.reach c x s /\ RemoteSession.final s = false /\ forall s', ~ RemoteSession.step c s s'.
Proof.
  destruct RemoteSessionWitness.needs_resp_ok as (H1 & H2 & H3 & H4).
  eexists _, _, _. destruct (RemoteSessionBase.stuck_sound _ _ H4). eauto.
Qed.

Theorem C09_remote_needs_covered : exists c x s,
  RemoteSession.resp_ok c x /\ RemoteSession.covered 0 (RemoteSession.sc_ops x) = false /\
  RemoteSession.reach c x s /\ RemoteSession.final s = false /\ forall s', ~ RemoteSession.step c s s'.
Proof.
  destruct RemoteSessionWitness.needs_covered as (H1 & H2 & H3 & H4).
  eexists _, _, _. destruct (RemoteSessionBase.stuck_sound _ _ H4). eauto.
Qed.

(* (S5) as literally stated is false: a fault step, before the boss had the final message, and exit status 0 *)
Theorem C09_remote_exit_refuted : exists c x s,
  RemoteSession.reach c x s /\ RemoteSession.final s = true /\ 0 < RemoteSession.nfault (RemoteSession.ev s) /\
  RemoteSession.bfin (RemoteSession.bm s) = false /\ RemoteSession.bexit (RemoteSession.bm s) = 0%N /\
  RemoteSession.dstat (RemoteSession.ev s) = Some 0%N /\ RemoteSession.dexec (RemoteSession.dm s) = [1%N].
Proof. exact RemoteSessionWitness.exit_refuted. Qed.

Example C09_remote_example_clean : exists c x s,
  RemoteSession.reach c x s /\ RemoteSession.final s = true /\ RemoteSession.bexit (RemoteSession.bm s) = 0%N /\
  RemoteSession.dstat (RemoteSession.ev s) = Some 0%N /\ RemoteSession.dexec (RemoteSession.dm s) = [1; 2; 3]%N.
Proof.
  eexists _, RemoteSessionWitness.sc_small, _. split; [apply RemoteSessionBase.run_sound|].
  destruct RemoteSessionWitness.clean_run as (A & B & C & D & _). eauto.
Qed.

Example C09_remote_example_clean_65 : exists c x s,
  RemoteSession.reach c x s /\ RemoteSession.final s = true /\ RemoteSession.bexit (RemoteSession.bm s) = 0%N /\
  RemoteSession.dstat (RemoteSession.ev s) = Some 65%N /\ RemoteSession.nfault (RemoteSession.ev s) = 0.
Proof.
  eexists _, RemoteSessionWitness.sc_small, _. split; [apply RemoteSessionBase.run_sound|].
  destruct RemoteSessionWitness.clean_run_status_65 as (A & B & C & D & _). eauto.
Qed.

Example C09_remote_example_statuses :
  (exists c x s, RemoteSession.reach c x s /\ RemoteSession.final s = true /\
     RemoteSession.bexit (RemoteSession.bm s) = 12%N /\ RemoteSession.dstat (RemoteSession.ev s) = Some 20%N) /\
  (exists c x s, RemoteSession.reach c x s /\ RemoteSession.final s = true /\
     RemoteSession.bexit (RemoteSession.bm s) = 12%N /\ RemoteSession.dstat (RemoteSession.ev s) = Some 65%N) /\
  (exists c x s, RemoteSession.reach c x s /\ RemoteSession.final s = true /\
     RemoteSession.bexit (RemoteSession.bm s) = 12%N /\ RemoteSession.dstat (RemoteSession.ev s) = Some 137%N).
Proof.
  split; [|split].
  - eexists _, _, _. split; [apply RemoteSessionBase.run_plan_sound|]. exact RemoteSessionWitness.doer_status_20.
  - eexists _, _, _. split; [apply RemoteSessionBase.run_plan_sound|]. exact RemoteSessionWitness.stdin_closed_early.
  - eexists _, _, _. split; [apply RemoteSessionBase.run_plan_sound|].
    destruct RemoteSessionWitness.doer_killed as (A & B & C & _). eauto.
Qed.

Print Assumptions C09_remote_step_decreases.
Print Assumptions C09_remote_terminates.
Print Assumptions C09_remote_run_sound.
Print Assumptions C09_remote_plan_run_sound.
Print Assumptions C09_remote_needs_resp_ok.
Print Assumptions C09_remote_needs_covered.
Print Assumptions C09_remote_exit_refuted.

(* --------------------------------------------------------------------------------------------------
   (S3, partial) the part of C09_remote_no_stuck that needs NO premise: once the doer process is gone - killed at any
   moment, exited with 0 / 20 / 65, whatever was queued anywhere, any capacity - the boss side is never stuck: every
   reachable state with the doer process ended is final or has a successor, so (with C09_remote_terminates) the boss
   returns from Comms::shutdown.  Proof: Proofs/RemoteSessionComplete.v over the invariants of Proofs/RemoteSessionAInv.v.
   MISSING for the full statement: the states in which the doer process still lives (all seven threads; this is where
   resp_ok and covered are needed). *)
From RJ Require Proofs.RemoteSessionAInv Proofs.RemoteSessionComplete.

Theorem C09_remote_no_stuck_partial : forall c x s, RemoteSession.reach c x s ->
  RemoteSession.dalive (RemoteSession.ev s) = false ->
  RemoteSession.final s = true \/ exists s', RemoteSession.step c s s'.
Proof. exact RemoteSessionComplete.no_stuck_doer_gone. Qed.

(* non-trivial instance of the premise: the doer killed after two commands, the run ends with status 12 *)
Example C09_remote_example_doer_gone : exists c x s,
  RemoteSession.reach c x s /\ RemoteSession.dalive (RemoteSession.ev s) = false /\
  RemoteSession.final s = true /\ RemoteSession.bexit (RemoteSession.bm s) = 12%N.
Proof.
  exists (RemoteSessionWitness.cfg 1000%N 0),
    (RemoteSession.mkSc (RemoteSession.sc_ops RemoteSessionWitness.sc_small) [] false true false 0),
    (RemoteSession.run_plan_to_end (RemoteSessionWitness.cfg 1000%N 0) RemoteSessionWitness.eager_boss
       [(RemoteSession.TExec 2, RemoteSession.FKill)]
       (RemoteSession.init (RemoteSession.mkSc (RemoteSession.sc_ops RemoteSessionWitness.sc_small) [] false true false 0))).
  split; [apply RemoteSessionBase.run_plan_sound | vm_compute; repeat split].
Qed.

Print Assumptions C09_remote_no_stuck_partial.

(* --------------------------------------------------------------------------------------------------
   (S3, second piece) no premise: every reachable state in which the link is down in ANY way - the TCP connection is
   cut, or the boss has closed its end of the socket, or the doer's stdin is closed, or the doer process is gone - is
   final or has a successor.  Proofs/RemoteSessionLinkDown.v: while the doer lives and its socket is broken some thread
   of the doer can always move (blocked sends wake through receiver_alive / the dying threads, joins see their threads
   end, the final write fails at once); with stdin closed the watchdog can move; with the doer gone
   C09_remote_no_stuck_partial applies.  Corollaries named after the fault: _after_cut, _after_stdin_closed.
   STILL MISSING for the full C09_remote_no_stuck: the states with the link UP (not cut, both socket ends open, stdin
   open, doer alive) - fault-free runs and runs after a bad frame or an Error reply; this is where resp_ok and covered
   are needed (C09_remote_needs_resp_ok / _needs_covered are such states).  Not proved. *)
From RJ Require Proofs.RemoteSessionLinkDown Proofs.RemoteSessionWitness2.

Theorem C09_remote_no_stuck_link_down : forall c x s, RemoteSession.reach c x s ->
  RemoteSessionLinkDown.link_down s = true ->
  RemoteSession.final s = true \/ exists s', RemoteSession.step c s s'.
Proof. exact RemoteSessionLinkDown.no_stuck_link_down. Qed.

Theorem C09_remote_no_stuck_after_cut : forall c x s, RemoteSession.reach c x s ->
  RemoteSession.cut (RemoteSession.ev s) = true ->
  RemoteSession.final s = true \/ exists s', RemoteSession.step c s s'.
Proof.
  intros c x s R H. apply (RemoteSessionLinkDown.no_stuck_link_down c x s R).
  unfold RemoteSessionLinkDown.link_down. rewrite H. reflexivity.
Qed.

Theorem C09_remote_no_stuck_after_stdin_closed : forall c x s, RemoteSession.reach c x s ->
  RemoteSession.stdin_open (RemoteSession.ev s) = false ->
  RemoteSession.final s = true \/ exists s', RemoteSession.step c s s'.
Proof.
  intros c x s R H. apply (RemoteSessionLinkDown.no_stuck_link_down c x s R).
  unfold RemoteSessionLinkDown.link_down. rewrite H. cbn [negb]. now rewrite orb_true_r.
Qed.

(* the premise is met by a non-final state: the connection cut while the boss's first command is on the wire *)
Example C09_remote_example_cut_state : exists c x s,
  RemoteSession.reach c x s /\ RemoteSession.cut (RemoteSession.ev s) = true /\ RemoteSession.final s = false /\
  RemoteSession.dalive (RemoteSession.ev s) = true.
Proof.
  exists (RemoteSessionWitness.cfg 1000%N 0), RemoteSessionWitness2.sc_cut, RemoteSessionWitness2.s_cut.
  destruct RemoteSessionWitness2.cut_state as (A & B & C & D & _). split; [exact A|]. split; [exact B|]. split; [exact C | exact D].
Qed.

Print Assumptions C09_remote_no_stuck_link_down.
Print Assumptions C09_remote_no_stuck_after_cut.
Print Assumptions C09_remote_no_stuck_after_stdin_closed.

(* --------------------------------------------------------------------------------------------------
   Link-UP half of (S3): what is closed.  Proofs/RemoteSessionBlocked.v (one lemma per thread kind: what must hold
   when it cannot move; C09_remote_stuck_shape assembles them), Proofs/RemoteSessionPot.v (the potential rpot: everything
   that can still arrive in the boss's receive channel; it never grows, under every fault),
   Proofs/RemoteSessionSInv.v (10 more structural invariants), Proofs/RemoteSessionLinkUp.v.
     C09_remote_receiver_never_waits : under resp_ok, in EVERY reachable state (faults or not) the boss's receiving
        thread can push what it holds - the blocked kind "receiving thread of the boss waits for capacity" never occurs.
     C09_remote_stuck_shape : a non-final state with the link up and no successor has every one of its six threads
        blocked in one of the listed ways (boss_blocked / snd_blocked / rcv_blocked / doer_blocked).
     C09_remote_no_stuck_faultfree_partial : NO premise about capacities or the protocol: a reachable state of a run
        without fault steps in which the boss waits for the final message (BFinal) or joins its receiving thread
        (BJoinR) is final or has a successor.
   STILL MISSING for C09_remote_no_stuck_faultfree (and hence for the full C09_remote_no_stuck): the boss blocked
     (B1) in a send (application command or Shutdown): needs receiver_never_waits (proved) + the boss-side mirror of FFA
          for the RECEIVING thread (it ends with Err only after the boss dropped its receiver or the doer ended; it ends Ok
          only after pushing the final message) - not proved;
     (B2) in an application-level blocking receive: needs `covered` as a counting invariant over the whole pipeline
          (answers in flight + answers of commands in flight >= what the remaining protocol still waits for) - not proved;
     (B3) in the join of its sending thread with the wire boss->doer full: needs (B1)'s mirror facts plus "once the doer's
          receiving thread ended Ok nothing is left in the boss->doer pipeline" - not proved.
   Error replies are not fault steps (nfault counts cut / bad frame / kill / stdin only), so every piece above covers
   them; the runs after a bad frame are not covered. *)
From RJ Require Proofs.RemoteSessionBlocked Proofs.RemoteSessionPot Proofs.RemoteSessionSInv Proofs.RemoteSessionLinkUp.

Theorem C09_remote_receiver_never_waits : forall c x s,
  RemoteSession.resp_ok c x -> RemoteSession.reach c x s ->
  RemoteSession.can_send c (RemoteSession.inc (RemoteSession.be s)) = true.
Proof. exact RemoteSessionPot.receiver_never_waits. Qed.

Theorem C09_remote_stuck_shape : forall c s,
  RemoteSession.final s = false -> RemoteSession.at_end s = false -> RemoteSessionBlocked.link_up s ->
  (forall s', ~ RemoteSession.step c s s') ->
  RemoteSessionBlocked.boss_blocked c s /\
  RemoteSessionBlocked.snd_blocked c (RemoteSession.be s) (RemoteSession.b2d s) /\
  RemoteSessionBlocked.rcv_blocked c (RemoteSession.be s) (RemoteSession.d2b s) /\
  RemoteSessionBlocked.doer_blocked c s /\
  RemoteSessionBlocked.snd_blocked c (RemoteSession.de s) (RemoteSession.d2b s) /\
  RemoteSessionBlocked.rcv_blocked c (RemoteSession.de s) (RemoteSession.b2d s).
Proof. exact RemoteSessionBlocked.stuck_shape. Qed.

Theorem C09_remote_no_stuck_faultfree_partial : forall c x s, RemoteSession.reach c x s ->
  RemoteSession.nfault (RemoteSession.ev s) = 0 ->
  RemoteSession.pc (RemoteSession.bm s) = RemoteSession.BFinal \/ RemoteSession.pc (RemoteSession.bm s) = RemoteSession.BJoinR ->
  RemoteSession.final s = true \/ exists s', RemoteSession.step c s s'.
Proof. exact RemoteSessionLinkUp.no_stuck_ff_final_wait. Qed.

(* the premises are met: a fault-free non-final state with the boss in its final wait; a protocol with resp_ok *)
Example C09_remote_example_final_wait : exists c x s,
  RemoteSession.reach c x s /\ RemoteSession.pc (RemoteSession.bm s) = RemoteSession.BFinal /\
  RemoteSession.nfault (RemoteSession.ev s) = 0 /\ RemoteSession.final s = false.
Proof.
  exists (RemoteSessionWitness.cfg 1000%N 0), RemoteSessionWitness2.sc_empty, RemoteSessionWitness2.s_wait.
  exact RemoteSessionWitness2.wait_state.
Qed.

Example C09_remote_example_resp_ok : exists c x,
  RemoteSession.resp_ok c x /\ RemoteSession.covered 0 (RemoteSession.sc_ops x) = true /\
  length (RemoteSession.sc_ops x) = 7.
Proof.
  exists (RemoteSessionWitness.cfg 1000%N 0), RemoteSessionWitness2.sc_cov.
  destruct RemoteSessionWitness2.resp_ok_cov as [A B]. split; [exact A|]. split; [exact B | reflexivity].
Qed.

Print Assumptions C09_remote_receiver_never_waits.
Print Assumptions C09_remote_stuck_shape.
Print Assumptions C09_remote_no_stuck_faultfree_partial.
