(* C10 - The boss-doer link rejects forged, altered, replayed or reordered frames.
   Only statements, each closed by [exact], an example that the premises are satisfiable, and the
   assumption audit.  Model: Model/Frame.v (encrypted_comms.rs send / receive / thread loops), the
   repaired code is [bump = true]; the pinned tree ([bump = false], finding F2) is refuted below.

   AEAD premises ([ideal_aead open log], explicit premises - not axioms):
     H1  what an honest end sealed under the session key opens, under the same nonce, to its plaintext;
     H2  whatever opens under the session key and a nonce was sealed by an honest end under that nonce.
   [honest_run seal d ms frames]: the sender of direction d sent ms and produced frames without failing.
   [wf] / [fin]: the plaintext deserializes / is the final message of its direction (message layer, abstract). *)
From Coq Require Import String.
From RJ Require Import Base.Prelude Model.Frame Proofs.FrameProofs Gen.Facts_frames.
Local Open Scope N_scope.

(* For every byte stream on the wire (any manipulation, any history, any key), what the receiver
   delivers is exactly the messages of the leading frames that are the honest frames of this
   direction in order (cut after the final message, after which the receiving thread stops). *)
Theorem C10_prefix : forall seal open wf fin d sent_d sent_o frames_d frames_o,
  honest_run seal d sent_d frames_d -> honest_run seal (other d) sent_o frames_o ->
  ideal_aead open (dir_log seal d sent_d sent_o) ->
  Forall (fun m => wf m = true) sent_d ->
  forall wire,
    snd (recv_bytes open wf fin true d (r_init d) wire) = upto_final fin (firstn (lead frames_d wire) sent_d).
Proof. exact final_prefix. Qed.

(* ... and at the first deviating frame the receiver fails for good (it merely waits while the bytes
   it has do not yet make up a length field and a complete body). *)
Theorem C10_fails_at_first_deviation : forall seal open wf fin d sent_d sent_o frames_d frames_o,
  honest_run seal d sent_d frames_d -> honest_run seal (other d) sent_o frames_o ->
  ideal_aead open (dir_log seal d sent_d sent_o) ->
  Forall (fun m => wf m = true) sent_d ->
  forall wire,
    let st := fst (recv_bytes open wf fin true d (r_init d) wire) in
    if existsb fin (firstn (lead frames_d wire) sent_d) then r_st st = RFinished
    else if decidable_head (after_lead frames_d wire) then is_failed st = true
         else is_waiting st = true.
Proof. exact final_status. Qed.

(* The manipulations of the property text, uniformly: whatever complete frame [frame_of c'] stands where
   the j-th honest frame should be - bit-flipped, shortened, sealed without the key, a copy of an earlier
   frame (replay), a later frame (reorder, or after a drop), a frame of the other direction (reflection) -
   the first j messages are delivered, nothing of [c'] or of what follows, and the receiver has failed. *)
Theorem C10_deviating_frame_rejected : forall seal open wf fin d sent_d sent_o frames_d frames_o,
  honest_run seal d sent_d frames_d -> honest_run seal (other d) sent_o frames_o ->
  ideal_aead open (dir_log seal d sent_d sent_o) ->
  Forall (fun m => wf m = true) sent_d ->
  forall j c' rest,
    (j <= length sent_d)%nat -> existsb fin (firstn j sent_d) = false ->
    blen c' <= buf_size -> nth_error frames_d j <> Some (frame_of c') ->
    let wire := concat (firstn j frames_d) ++ frame_of c' ++ rest in
    snd (recv_bytes open wf fin true d (r_init d) wire) = firstn j sent_d /\
    is_failed (fst (recv_bytes open wf fin true d (r_init d) wire)) = true.
Proof. exact final_deviating. Qed.

(* Frames of a different session - another boss-doer link of the same run (source and destination both remote),
   sealed by its honest senders under its own key [seal'] - are rejected as well, whichever direction d' and
   position j' of the other link they come from (in particular the same direction and position, j' = j, d' = d):
   a corollary of the theorem above, because H2 speaks about this link's key only ([dir_log seal ...]: nothing but
   this link's two senders ever sealed under it - "every doer launch gets a newly generated key", C15; the tie
   checks that premise on the real binaries with the cross-link man in the middle and the key comparison).
   The last premise excludes the one harmless case: the foreign frame being byte for byte this link's own j-th frame. *)
Theorem C10_foreign_session_frame_rejected : forall seal seal' open wf fin d sent_d sent_o frames_d frames_o d' sent' frames',
  honest_run seal d sent_d frames_d -> honest_run seal (other d) sent_o frames_o ->
  ideal_aead open (dir_log seal d sent_d sent_o) ->
  Forall (fun m => wf m = true) sent_d ->
  honest_run seal' d' sent' frames' ->
  forall j j' f' rest,
    (j <= length sent_d)%nat -> existsb fin (firstn j sent_d) = false ->
    nth_error frames' j' = Some f' -> nth_error frames_d j <> Some f' ->
    let wire := concat (firstn j frames_d) ++ f' ++ rest in
    snd (recv_bytes open wf fin true d (r_init d) wire) = firstn j sent_d /\
    is_failed (fst (recv_bytes open wf fin true d (r_init d) wire)) = true.
Proof. exact final_foreign_session. Qed.

(* A length field beyond the 8 MiB buffer: the receiving thread panics on the slice index - a failed
   connection (noted for C18). *)
Theorem C10_oversize_length_panics : forall seal open wf fin d sent_d sent_o frames_d frames_o,
  honest_run seal d sent_d frames_d -> honest_run seal (other d) sent_o frames_o ->
  ideal_aead open (dir_log seal d sent_d sent_o) ->
  Forall (fun m => wf m = true) sent_d ->
  forall j h rest,
    (j <= length sent_d)%nat -> existsb fin (firstn j sent_d) = false ->
    length h = 8%nat -> buf_size < le_value h ->
    let wire := concat (firstn j frames_d) ++ h ++ rest in
    snd (recv_bytes open wf fin true d (r_init d) wire) = firstn j sent_d /\
    is_failed (fst (recv_bytes open wf fin true d (r_init d) wire)) = true.
Proof. exact final_oversize. Qed.

(* Nonces: direction and index are recoverable from the nonce ... *)
Theorem C10_nonces_distinct : forall d i d' i',
  i < idx_limit -> i' < idx_limit -> nonce d i = nonce d' i' -> d = d' /\ i = i'.
Proof. exact nonces_distinct. Qed.

(* ... hence no two frames of a session, in either direction, are sealed under the same (key, nonce);
   a sender that would have to wrap its counter panics instead ([honest_run] is then false). *)
Theorem C10_no_nonce_reuse : forall seal sent0 sent1 frames0 frames1,
  honest_run seal BossToDoer sent0 frames0 -> honest_run seal DoerToBoss sent1 frames1 ->
  NoDup (map (fun e => fst (fst e)) (dir_log seal BossToDoer sent0 sent1)).
Proof. exact final_no_reuse. Qed.

(* A peer that does not hold the key (nothing was ever sealed under it by anybody else): no message is
   delivered, whatever it sends - the doer performs no command.  Holds for the unrepaired code as well. *)
Theorem C10_no_key_no_command : forall open wf fin bump d,
  ideal_aead open [] ->
  forall wire, snd (recv_bytes open wf fin bump d (r_init d) wire) = [].
Proof. exact final_no_key. Qed.

(* ... also when the keyless peer reflects the receiver's own side's frames back to it. *)
Theorem C10_reflection_only_no_command : forall seal open wf fin d own frames,
  honest_run seal (other d) own frames ->
  (forall n m c, open n c = Some m -> In (n, m, c) (seal_log seal true (lsb (other d)) own)) ->
  forall wire, snd (recv_bytes open wf fin true d (r_init d) wire) = [].
Proof. exact final_reflection. Qed.

(* TCP segmentation is irrelevant: feeding segments one by one is feeding their concatenation. *)
Theorem C10_segmentation : forall open wf fin bump d st segs,
  recv_segments open wf fin bump d st segs = recv_bytes open wf fin bump d st (concat segs).
Proof. exact final_segmentation. Qed.

(* C14, TCP half: without an adversary the messages arrive exactly once, in order, intact, for every
   segmentation of the byte stream (needs only H1, for all nonces and plaintexts). *)
Theorem C14_stream : forall seal open wf fin d,
  (forall n m, open n (seal n m) = Some m) ->
  forall msgs segs ctr' frames,
    send_all seal true d (lsb d) msgs = Ok (ctr', frames) ->
    Forall (fun m => wf m = true) msgs ->
    upto_final fin msgs = msgs ->
    concat segs = concat frames ->
    decode_stream open wf fin true d segs = msgs.
Proof. exact stream_roundtrip. Qed.

(* The pinned tree (the counter never advances): with the premises H1/H2 satisfied, a frame put on the
   wire twice is delivered twice, and two frames share one (key, nonce).  Finding F2. *)
Theorem C10_refuted_without_bump :
  let k := refute_key in
  let sent := [refute_m0; refute_m1] in
  let log := toy_session_log false k sent [] in
  (forall n m c, In (n, m, c) log -> toy_open log n c = Some m) /\
  (forall n m c, toy_open log n c = Some m -> In (n, m, c) log) /\
  exists f0 f1 ctr',
    toy_send false k BossToDoer (lsb BossToDoer) sent = Ok (ctr', [f0; f1]) /\
    snd (toy_recv false log BossToDoer (r_init BossToDoer) (f0 ++ f0 ++ f1)) = [refute_m0; refute_m0; refute_m1] /\
    lead [f0; f1] (f0 ++ f0 ++ f1) = 1%nat /\
    ~ NoDup (log_nonces log).
Proof. exact refuted_without_bump. Qed.

(* The theorems above are about [bump = true]; that is the code only if the running code steps its
   counter (Gen/Facts_frames.v is regenerated from the real `send` on every run). *)
Theorem C10_code_advances_counter : impl_frames_counter_advances = true /\ impl_frames_ctr_after_two = 4.
Proof. split; reflexivity. Qed.

Theorem C10_buffer_matches_code : impl_frames_buf = buf_size /\ impl_frames_tag = 16.
Proof. split; reflexivity. Qed.

(* Non-vacuity: the toy ideal functionality satisfies every premise of C10_prefix, and the honest
   stream is delivered. *)
Theorem C10_premises_satisfiable :
  let seal := toy_seal ex_key in
  let open := toy_open (dir_log seal BossToDoer ex_sent0 ex_sent1) in
  exists f0 f1,
    honest_run seal BossToDoer ex_sent0 f0 /\ honest_run seal DoerToBoss ex_sent1 f1 /\
    ideal_aead open (dir_log seal BossToDoer ex_sent0 ex_sent1) /\
    Forall (fun m => toy_wf m = true) ex_sent0 /\
    snd (recv_bytes open toy_wf toy_fin true BossToDoer (r_init BossToDoer) (concat f0)) = ex_sent0.
Proof. exact premises_satisfiable. Qed.

Example C10_example_duplicate_rejected :
  let k := refute_key in
  let sent := [refute_m0; refute_m1] in
  let log := toy_session_log true k sent [] in
  exists f0 f1 ctr',
    toy_send true k BossToDoer (lsb BossToDoer) sent = Ok (ctr', [f0; f1]) /\
    snd (toy_recv true log BossToDoer (r_init BossToDoer) (f0 ++ f0 ++ f1)) = [refute_m0] /\
    is_failed (fst (toy_recv true log BossToDoer (r_init BossToDoer) (f0 ++ f0 ++ f1))) = true.
Proof. exact repaired_rejects_duplicate. Qed.

Print Assumptions C10_prefix.
Print Assumptions C10_deviating_frame_rejected.
Print Assumptions C10_foreign_session_frame_rejected.
Print Assumptions C10_no_nonce_reuse.
Print Assumptions C14_stream.

(* ==================================================================================================
   The nonce counters of a whole boss <-> remote doer session (Model/RemoteSession.v carries them exactly as the
   code does: one counter per thread starting at the direction's lsb - boss sends 0 / expects 1, doer sends 1 /
   expects 0 -, +2 per frame, the counter RETURNED by the doer's sending thread re-used by its main thread for the
   final message; Model/RemoteSessionLog.v adds a ghost log of every frame ever written, per direction, on top of the
   unchanged transition system: lreach / reach are the same runs - C10_remote_log_is_conservative).
   Proofs: Proofs/RemoteSessionNonce.v.  For every protocol, capacity, socket capacity, fault plan, interleaving:
     (S6) C10_remote_nonces_distinct: all frames ever written in a session - both directions, the doer's final
          message included - have pairwise distinct nonces; the i-th frame of a direction carries lsb + 2*i; the frames
          on the wire are a suffix of the log; the sending counters are lsb + 2 * (frames written).
          C10_remote_expected_nonce: while a receiving thread lives, its expected counter IS the nonce of the next
          frame on its wire - an honest frame is never rejected for its nonce. *)
From RJ Require Model.RemoteSession Model.RemoteSessionLog Proofs.RemoteSessionNonce Proofs.RemoteSessionWitness2.

Theorem C10_remote_nonces_distinct : forall c x l, RemoteSessionLog.lreach c x l ->
  NoDup (map RemoteSession.fnonce (RemoteSessionLog.lb2d l ++ RemoteSessionLog.ld2b l)) /\
  (forall i f, nth_error (RemoteSessionLog.lb2d l) i = Some f -> RemoteSession.fnonce f = (0 + 2 * N.of_nat i)%N) /\
  (forall i f, nth_error (RemoteSessionLog.ld2b l) i = Some f -> RemoteSession.fnonce f = (1 + 2 * N.of_nat i)%N) /\
  (exists pre, RemoteSessionLog.lb2d l = pre ++ RemoteSession.b2d (RemoteSessionLog.base l)) /\
  (exists pre, RemoteSessionLog.ld2b l = pre ++ RemoteSession.d2b (RemoteSessionLog.base l)) /\
  RemoteSession.sn (RemoteSession.be (RemoteSessionLog.base l)) = RemoteSessionLog.nend 0 (RemoteSessionLog.lb2d l) /\
  RemoteSession.sn (RemoteSession.de (RemoteSessionLog.base l)) = RemoteSessionLog.nend 1 (RemoteSessionLog.ld2b l).
Proof. exact RemoteSessionNonce.nonces_distinct. Qed.

Theorem C10_remote_expected_nonce : forall c x s, RemoteSession.reach c x s ->
  (RemoteSession.rcv_ended (RemoteSession.rcv_t (RemoteSession.de s)) = false ->
     forall f t, RemoteSession.b2d s = f :: t -> RemoteSession.fnonce f = RemoteSession.rn (RemoteSession.de s)) /\
  (RemoteSession.rcv_ended (RemoteSession.rcv_t (RemoteSession.be s)) = false ->
     forall f t, RemoteSession.d2b s = f :: t -> RemoteSession.fnonce f = RemoteSession.rn (RemoteSession.be s)).
Proof. exact RemoteSessionNonce.expected_nonce. Qed.

(* the logged system has exactly the runs of the model the other theorems are about *)
Theorem C10_remote_log_is_conservative : forall c x,
  (forall l, RemoteSessionLog.lreach c x l -> RemoteSession.reach c x (RemoteSessionLog.base l)) /\
  (forall s, RemoteSession.reach c x s -> exists l, RemoteSessionLog.lreach c x l /\ RemoteSessionLog.base l = s).
Proof. intros c x. split; [apply RemoteSessionNonce.lreach_base | apply RemoteSessionNonce.reach_has_log]. Qed.

(* non-trivial: the log of a complete fault-free session; the final message is the doer's 4th frame, nonce 7 *)
Example C10_remote_example_log : exists c x l,
  RemoteSessionLog.lreach c x l /\ RemoteSession.final (RemoteSessionLog.base l) = true /\
  map RemoteSession.fnonce (RemoteSessionLog.lb2d l) = [0; 2; 4; 6]%N /\
  map RemoteSession.fnonce (RemoteSessionLog.ld2b l) = [1; 3; 5; 7]%N /\
  map RemoteSession.fpay (RemoteSessionLog.ld2b l) =
    [RemoteSession.MResp 11; RemoteSession.MResp 12; RemoteSession.MResp 31; RemoteSession.MFinal]%N.
Proof.
  exists (RemoteSessionWitness.cfg 0 0), RemoteSessionWitness2.sc_cov, RemoteSessionWitness2.l_cov.
  destruct RemoteSessionWitness2.log_of_a_complete_session as (A & B & C & D & E & _). auto.
Qed.

Print Assumptions C10_remote_nonces_distinct.
Print Assumptions C10_remote_expected_nonce.
Print Assumptions C10_remote_log_is_conservative.
