(* C11 - File contents are transferred exactly, whatever the length.
   This file contains only statements, each closed by [exact], and their assumption audit.

   Model/Chunk.v:  read_chunks  = handle_get_file_contents (doer.rs), for a file content and a
                                  short-read schedule (which 1..buffer-size result each read(2) returns)
                   relay        = the chunk loop of copy_file (boss_sync.rs) after the fix of F3,
                                  relay_unfixed = before it
                   write_cmds   = CreateOrUpdateFile on the destination doer (doer.rs)
                   transfer     = the three together. *)
From RJ Require Import Base.Prelude Model.Chunk Proofs.ChunkProofs Proofs.ChunkFacts Gen.Facts_chunks.
Local Open Scope N_scope.

(* The chunk reader, for every file content and every short-read schedule: it terminates, the chunks
   concatenate to the file, more_to_follow is true,...,true,false, no chunk exceeds 4 MiB, an empty
   file gives exactly one empty chunk and a non-empty file gives only non-empty chunks. *)
Theorem C11_chunks : forall (file : list ascii) (sched : list N),
  exists cs, read_chunks file sched = Some cs /\
    concat (map fst cs) = file /\
    map snd cs = repeat true (List.length cs - 1) ++ [false] /\
    Forall (fun c => lenN (fst c) <= 4194304) cs /\
    (file <> [] -> Forall (fun c => fst c <> []) cs) /\
    (file = [] -> cs = [([], false)]).
Proof. exact C11_chunks_proof. Qed.

(* There is exactly one chunk iff the file is empty or the first read (4096-byte buffer) returned all
   of it; with full reads: iff the file has at most 4096 bytes. *)
Theorem C11_one_chunk : forall (file : list ascii) (sched : list N) cs,
  read_chunks file sched = Some cs ->
  (List.length cs = 1%nat <-> file = [] \/ read_len 4096 (lenN file) (hd_error sched) = lenN file) /\
  (sched = [] -> (List.length cs = 1%nat <-> lenN file <= 4096)).
Proof. exact read_chunks_one_chunk_both. Qed.

(* The chunk writer: whatever the destination held before (nothing, a shorter, a longer file), after the
   commands of a complete chunk sequence it holds exactly the concatenation, stamped with the source's
   modification time, and the handle is closed ... *)
Theorem C11_write : forall (mt : Z) (cs : list chunk) (prev : option dfile),
  flags_ok cs ->
  write_cmds (WClosed prev) (map (cmd_of mt) cs) = WClosed (Some (mkFile (concat (map fst cs)) (Some mt))).
Proof. exact write_transfer. Qed.

(* ... and after any proper, non-empty prefix of the commands the file holds the bytes so far and is
   NOT stamped (the modification time is applied only with the last chunk). *)
Theorem C11_write_prefix_unstamped : forall (mt : Z) (cs : list chunk) (prev : option dfile) pre post,
  flags_ok cs -> cs = pre ++ post -> pre <> [] -> post <> [] ->
  write_cmds (WClosed prev) (map (cmd_of mt) pre) = WOpen (mkFile (concat (map fst pre)) None).
Proof. exact write_prefix_unstamped. Qed.

(* The relay: when the bytes sent add up to the listed size, exactly the chunks are forwarded (the
   last one with the modification time) and the result is Ok ... *)
Theorem C11_relay_ok : forall listed (mt : Z) (cs : list chunk),
  flags_ok cs -> total cs = listed ->
  relay listed mt cs = (map (cmd_of mt) cs, Ok tt).
Proof. exact (fun listed mt cs Hf Ht => relay_from_ok true listed mt cs 0 Hf Ht). Qed.

(* ... and when they do not (the file grew or shrank between listing and the last read, by any amount,
   at any chunk position) the result is the size-changed error. *)
Theorem C11_relay_detects : forall listed (mt : Z) (cs : list chunk),
  flags_ok cs -> total cs <> listed ->
  snd (relay listed mt cs) = Err e_size_changed.
Proof. exact (fun listed mt cs Hf Ht => relay_from_detects listed mt cs 0 Hf Ht). Qed.

(* For ANY answer of the source doer (well formed or not): Ok only if a complete chunk sequence of
   exactly the listed size was forwarded. *)
Theorem C11_relay_ok_only_if : forall listed (mt : Z) (cs : list chunk) cmds,
  relay listed mt cs = (cmds, Ok tt) ->
  exists pre post, cs = pre ++ post /\ flags_ok pre /\ total pre = listed /\ cmds = map (cmd_of mt) pre.
Proof. exact (fun listed mt cs cmds H => relay_from_ok_inv listed mt cs 0 cmds H). Qed.

(* Reader, relay and writer together: if the size is the listed one, the destination ends up with
   exactly the source bytes and the source's modification time, for every content, every short-read
   schedule, every previous destination ... *)
Theorem C11_end_to_end : forall (file : list ascii) (sched : list N) (prev : option dfile) (mt : Z),
  transfer (lenN file) mt file sched prev = Some (WClosed (Some (mkFile file (Some mt))), Ok tt).
Proof. exact transfer_same_size. Qed.

(* ... and if it is not, the transfer fails with the size-changed error. *)
Theorem C11_size_change_detected : forall listed (file : list ascii) (sched : list N) (prev : option dfile) (mt : Z),
  listed <> lenN file ->
  exists st, transfer listed mt file sched prev = Some (st, Err e_size_changed).
Proof. exact transfer_size_changed. Qed.

(* F3: the code before the fix reports Ok for a file that grew from 4096 to 8192 bytes. *)
Theorem C11_relay_unfixed_refuted :
  exists listed mt cs, flags_ok cs /\ total cs <> listed /\
    snd (relay_unfixed listed mt cs) = Ok tt /\
    write_cmds (WClosed None) (fst (relay_unfixed listed mt cs))
      = WOpen (mkFile (repeat "a"%char 4096) None).
Proof. exact relay_unfixed_refuted. Qed.

(* Against the facts regenerated from the running code. *)
Theorem C11_constants_match_code : first_buf = impl_first_chunk /\ max_chunk = impl_max_chunk.
Proof. exact constants_match_code. Qed.

Theorem C11_ladder_matches_code : forall file : list ascii, lenN file = 20971520 ->
  exists cs, read_chunks file [] = Some cs /\ sizes cs = impl_ladder.
Proof. exact ladder_matches_code. Qed.

Theorem C11_fits :
  impl_max_chunk + impl_overhead_file_content + 16 + 8 <= impl_frame_buf /\
  (forall path_len, path_len <= 4096 ->
     impl_max_chunk + impl_overhead_create_file + path_len + 16 + 8 <= impl_frame_buf) /\
  max_chunk <= impl_frame_payload_max /\
  impl_create_file_fits = true.
Proof. exact frame_fits. Qed.

(* Non-vacuity: a 5000-byte file read with a short first read, relayed and written over a longer file. *)
Example C11_example :
  let file := repeat "x"%char (N.to_nat 5000) in
  option_map (fun cs => map (fun c => (lenN (fst c), snd c)) cs) (read_chunks file [100; 5000]) =
    Some [(100, true); (32, true); (4868, false)] /\
  transfer 5000 7%Z file [100; 5000] (Some (mkFile (repeat "y"%char (N.to_nat 9000)) None)) =
    Some (WClosed (Some (mkFile file (Some 7%Z))), Ok tt).
Proof. vm_compute. split; reflexivity. Qed.

Print Assumptions C11_chunks.
Print Assumptions C11_end_to_end.
Print Assumptions C11_size_change_detected.
Print Assumptions C11_relay_ok_only_if.
Print Assumptions C11_ladder_matches_code.
