(* C11 - File contents are transferred exactly, whatever the length.
   This file contains only statements, each closed by [exact], and their assumption audit. *)
From RJ Require Import Base.Prelude Model.Chunk Proofs.ChunkProofs Gen.Facts_chunks.
Local Open Scope N_scope.

(* The chunk reader, for every file content and every short-read schedule: it terminates, the chunks
   concatenate to the file, more_to_follow is true,...,true,false, no chunk exceeds 4 MiB, an empty
   file gives exactly one empty chunk and a non-empty file gives only non-empty chunks. *)
Theorem C11_chunks : forall (file : list ascii) (sched : list N),
  exists cs, read_chunks file sched = Some cs /\
    concat (map fst cs) = file /\
    map snd cs = repeat true (List.length cs - 1) ++ [false] /\
    Forall (fun c => lenN (fst c) <= 4194304) cs /\
    (file <> [] -> Forall (fun c => fst c <> []) cs) /\
    (file = [] -> cs = [([], false)]).
Proof. exact C11_chunks_proof. Qed.

Print Assumptions C11_chunks.
