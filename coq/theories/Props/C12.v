(* C12 - Symlinks are copied as links and never followed.  Statements only. *)
From RJ Require Import Base.Prelude Base.OrderedPlan Model.Settings Model.Core Model.Fs Model.Paths Model.Sync
  Spec.PlanSpec Spec.Mirror Proofs.FsProofs Proofs.ExecProofs Proofs.PathsProofs Proofs.ConfineProofs Proofs.MirrorProofs
  Proofs.QuietProofs Proofs.ConfinedMain Proofs.ConfineAll.
From RJ Require Model.Walker Proofs.WalkBridge Proofs.WalkedSync.
From RJ Require Import Proofs.Utf8Join.

(* A symlink is a leaf of every listing: nothing below a symlink is visible, whatever it points at. *)
Theorem C12_leaf : forall incl f p q t k,
  q <> [] -> visible incl f p = true -> is_strict_prefix q p = true -> fget f q = Some (NLink t k) -> False.
Proof. exact visible_no_link_above. Qed.

(* Deleting or replacing a destination symlink removes only the link: every other path keeps its
   node, and when the link's ancestors are folders nothing outside the tree is reached. *)
Theorem C12_delete_only_link : forall fl st p k st' e,
  doer_exec fl st (CDeleteSymlink p k) = (st', e) ->
  (forall q, q <> p -> fget (d_fs st') q = fget (d_fs st) q) /\
  (quiet_at st p -> d_events st' = d_events st).
Proof. exact delete_symlink_only_link. Qed.

(* A link is re-created iff its (normalised) text changed or, on a destination that distinguishes
   file from folder links, its kind changed. *)
Theorem C12_recreate_iff : forall diff ks ts kd td,
  needs_delete diff (ESymlink ks ts) (ESymlink kd td) = true <-> ts <> td \/ (diff = true /\ ks <> kd).
Proof. exact needs_delete_links. Qed.

(* Relative link text reaches a Unix destination with the same components (separators adapted, redundant
   ones dropped); any other text - absolute, with a backslash - is carried over verbatim; on a Windows
   destination the separators of a normalised text become backslashes (modelled, not validated here). *)
Theorem C12_text_relative : forall t, lossy t = t -> same_path_text t (denormalize Unix (normalize_unix t)) = true.
Proof. exact link_text_preserved. Qed.
Theorem C12_text_verbatim : forall t s, lossy t = t -> normalize_unix t = TRaw s -> denormalize Unix (normalize_unix t) = t.
Proof. exact raw_text_verbatim. Qed.
Theorem C12_text_windows : forall s,
  denormalize Windows (TNorm s) = map (fun c => if Ascii.eqb c slash then backslash else c) s /\
  forall r, denormalize Windows (TRaw r) = r.
Proof. intros s. split; reflexivity. Qed.
(* F7: ill-formed UTF-8 text is NOT carried over verbatim (known finding). *)
Theorem C12_text_refuted_for_ill_formed :
  exists t, normalize_unix (denormalize Unix (normalize_unix t)) <> normalize_unix t.
Proof. exact link_text_roundtrip_refuted. Qed.

(* rjrssync never reads, copies, creates or deletes anything THROUGH a link in a sync that returns Ok
   and skips nothing (shared with C02). *)
Theorem C12_never_through : forall now_z incl normalize chunker,
  (forall d, chunker d <> [] /\ concat (chunker d) = d) ->
  forall cfg S D ans bits ls ld ft,
  valid_listing now_z incl normalize S ls -> valid_listing now_z incl normalize (d_fs D) ld ->
  parents_first (lkeys (side_listing now_z normalize S ls)) ->
  parents_first (lkeys (side_listing now_z normalize (d_fs D) ld)) ->
  wf_fs (d_fs D) -> d_open D = None -> no_through (d_events D) ->
  let r := sync_one now_z normalize chunker cfg S D ans bits ls ld ft in
  r_ok r = true -> r_skipped r = [] -> r_root_skipped r = false -> cf_dry cfg = false ->
  no_through (d_events (r_dest r)).
Proof. exact clean_run_confined. Qed.

(* ... and, with the F6a/F6b repairs modelled, in NO run at all - whatever is skipped, whatever fails, however
   late the boss notices (Proofs/ConfineAll.v). *)
Theorem C12_never_through_in_any_run : forall now_z incl normalize chunker cfg S D ans bits ls ld ft,
  valid_listing now_z incl normalize S ls -> valid_listing now_z incl normalize (d_fs D) ld ->
  parents_first (lkeys (side_listing now_z normalize S ls)) ->
  parents_first (lkeys (side_listing now_z normalize (d_fs D) ld)) ->
  wf_fs (d_fs D) -> no_through (d_events D) ->
  no_through (d_events (r_dest (sync_one now_z normalize chunker cfg S D ans bits ls ld ft))).
Proof. exact no_run_goes_through_a_link. Qed.

(* ... and with the listing premises discharged by the directory walk (C17, Proofs/WalkBridge.v): given on each
   side whatever any execution of the N-worker walk over that side's tree delivers, NO run resolves a path
   through a destination symlink. *)
Theorem C12_walked_never_through : forall now_z incl normalize chunker cfg S D ans bits ls ld ft,
  wf_fs S -> wf_fs (d_fs D) -> no_through (d_events D) ->
  WalkedSync.walked now_z incl normalize S ls -> WalkedSync.walked now_z incl normalize (d_fs D) ld ->
  no_through (d_events (r_dest (sync_one now_z normalize chunker cfg S D ans bits ls ld ft))).
Proof. exact WalkedSync.walked_sync_never_through. Qed.

(* The text a Unix destination doer writes for a well-formed source text is well-formed UTF-8 again (so it is in the
   domain of the theorems above when the destination is synced onwards). *)
Theorem C12_written_text_well_formed : forall t, utf8_valid t = true -> utf8_valid (denormalize Unix (normalize_unix t)) = true.
Proof. exact written_text_valid. Qed.

Print Assumptions C12_leaf.
Print Assumptions C12_never_through_in_any_run.
Print Assumptions C12_recreate_iff.
Print Assumptions C12_never_through.
Print Assumptions C12_walked_never_through.
Print Assumptions C12_written_text_well_formed.
