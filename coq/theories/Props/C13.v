(* C13 - What gets deleted and copied does not depend on message timing.
   Statements only; proofs in Proofs/PlanCProofs.v and Base/OrderedPlan.v. *)
From RJ Require Import Base.Prelude Base.OrderedPlan Model.Settings Model.Core Model.Fs Model.Sync Spec.PlanSpec Proofs.PlanCProofs.
From Coq Require Import Permutation.
From RJ Require Import Spec.Mirror Proofs.TimingProofs.

(* For EVERY interleaving sg of the two listing streams (sg is any sequence of arrivals; its two
   projections are the listings) the planner ends with exactly plan_spec of the two listings: the
   action LISTS (hence the sets) are functions of the listings alone. *)
Theorem C13_plan_deterministic : forall diff ss (sg : list arrival_t),
  NoDup (lkeys (srcs path entry sg)) -> NoDup (lkeys (dests path entry sg)) ->
  actions_of diff ss sg = Some (plan_spec diff ss (srcs path entry sg) (dests path entry sg)).
Proof. exact actions_of_spec. Qed.

Theorem C13_interleaving_independent : forall diff ss sg1 sg2,
  srcs path entry sg1 = srcs path entry sg2 -> dests path entry sg1 = dests path entry sg2 ->
  NoDup (lkeys (srcs path entry sg1)) -> NoDup (lkeys (dests path entry sg1)) ->
  actions_of diff ss sg1 = actions_of diff ss sg2.
Proof. exact interleaving_independent. Qed.

(* ... hence the WHOLE sync - exit status, final destination state, both command traces in order, prompts, skipped
   entries, statistics, under any fault plan - is literally the same for every interleaving of the two listing streams
   (Proofs/TimingProofs.v). *)
Theorem C13_whole_sync_independent_of_interleaving : forall now_z incl normalize chunker cfg S D ans ls ld ft bits1 bits2,
  valid_listing now_z incl normalize S ls -> valid_listing now_z incl normalize (d_fs D) ld ->
  sync_one now_z normalize chunker cfg S D ans bits1 ls ld ft = sync_one now_z normalize chunker cfg S D ans bits2 ls ld ft.
Proof. exact sync_independent_of_interleaving. Qed.

(* Sibling order inside a listing changes the order of the actions, never the set. *)
Theorem C13_sibling_order : forall diff ss Ls Ls' Ld Ld',
  Permutation Ls Ls' -> Permutation Ld Ld' -> NoDup (lkeys Ls) -> NoDup (lkeys Ld) ->
  Permutation (a_copy (plan_spec diff ss Ls Ld)) (a_copy (plan_spec diff ss Ls' Ld')) /\
  Permutation (a_delete (plan_spec diff ss Ls Ld)) (a_delete (plan_spec diff ss Ls' Ld')).
Proof. exact sibling_order_irrelevant. Qed.

(* Each entry is deleted before its parent folder; every folder is created before its contents
   (for listings that report parents first, which C17 establishes for the walker). *)
Theorem C13_children_deleted_first : forall diff ss Ls Ld,
  NoDup (lkeys Ld) -> parents_first (lkeys Ld) ->
  children_first (map fst (a_delete (plan_spec diff ss Ls Ld))).
Proof. exact delete_order. Qed.

Theorem C13_parents_created_first : forall diff ss Ls Ld,
  NoDup (lkeys Ls) -> parents_first (lkeys Ls) ->
  parents_first (map fst (a_copy (plan_spec diff ss Ls Ld))).
Proof. exact copy_order. Qed.

(* All deletions are issued before any creation: the execution phase is the delete commands
   followed by the copy steps. *)
Theorem C13_deletes_before_creates : forall chunker S a,
  exec_steps chunker S a =
  map (fun e => DestCmd (delete_cmd e)) (a_delete a) ++ flat_map (copy_steps chunker S) (a_copy a).
Proof. reflexivity. Qed.

(* The two `unwrap`s of OrderedMap::update are never reached. *)
Theorem C13_planner_never_panics : forall diff ss sg,
  NoDup (lkeys (srcs path entry sg)) -> NoDup (lkeys (dests path entry sg)) -> actions_of diff ss sg <> None.
Proof. exact planner_never_panics. Qed.

(* Non-vacuity: two interleavings of a kind conflict below a folder give the same non-empty plan. *)
Example C13_example :
  let d := ["d"%char] in let f := ["d"%char] :: [["f"%char]] in
  let s1 := [FromSrc path entry [] EFolder; FromDest path entry [] EFolder;
             FromSrc path entry [d] EFolder; FromDest path entry [d] (EFile 5 1);
             FromSrc path entry ([d] ++ [["f"%char]]) (EFile 7 2)] in
  let s2 := [FromSrc path entry [] EFolder; FromDest path entry [] EFolder;
             FromDest path entry [d] (EFile 5 1); FromSrc path entry [d] EFolder;
             FromSrc path entry ([d] ++ [["f"%char]]) (EFile 7 2)] in
  actions_of false true s1 = actions_of false true s2 /\
  option_map (fun a => (length (a_delete a), length (a_copy a))) (actions_of false true s1) = Some (1, 2).
Proof. vm_compute. split; reflexivity. Qed.

Print Assumptions C13_plan_deterministic.
Print Assumptions C13_children_deleted_first.
Print Assumptions C13_sibling_order.
Print Assumptions C13_whole_sync_independent_of_interleaving.
