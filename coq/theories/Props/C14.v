(* C14 - placeholder, filled in below *)
From RJ Require Import Base.Prelude Model.LEInt Model.Bincode.
