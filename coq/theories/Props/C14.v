(* C14 - Messages arrive exactly once, in order and intact, with bounded buffering.
   This file contains only statements, each closed by [exact], examples and the assumption audit.
   Message codec: Model/Bincode.v; channel: Model/Channel.v (one sender, one receiver, every interleaving).
   The encrypted TCP leg (frame codec) is Model/Frame.v of the frames cluster (C10); the interface
   it uses is [C14_decode_encode_command] / [C14_decode_encode_response]. *)
From RJ Require Import Base.Prelude Model.LEInt Model.Bincode Model.Channel
  Proofs.LEIntProofs Proofs.BincodeProofs Proofs.ChannelProofs.
Local Open Scope N_scope.

(* ------------------------------------------------------------------ intact: the message codec *)

(* Every well-formed Command (integers in range, strings valid UTF-8, every SystemTime at or after
   the epoch with nanoseconds < 10^9) serializes, decodes back to itself from any stream position
   leaving exactly the rest, and its serialized_size - also the size the channel accounts - is the
   number of bytes written. *)
Theorem C14_codec_command : forall c rest, wf_command c = true ->
  exists b, encode_command c = Ok b /\ decode_command (b ++ rest) = Some (c, rest) /\
            serialized_size_command c = Ok (lenN b) /\ send_size_command c = Ok (lenN b).
Proof. exact codec_command. Qed.

Theorem C14_codec_response : forall x rest, wf_response x = true ->
  exists b, encode_response x = Ok b /\ decode_response (b ++ rest) = Some (x, rest) /\
            serialized_size_response x = Ok (lenN b) /\ send_size_response x = Ok (lenN b).
Proof. exact codec_response. Qed.

(* both directions of the link in one statement *)
Theorem C14_codec :
  (forall c rest, wf_command c = true ->
     exists b, encode_command c = Ok b /\ decode_command (b ++ rest) = Some (c, rest) /\
               serialized_size_command c = Ok (lenN b) /\ send_size_command c = Ok (lenN b)) /\
  (forall x rest, wf_response x = true ->
     exists b, encode_response x = Ok b /\ decode_response (b ++ rest) = Some (x, rest) /\
               serialized_size_response x = Ok (lenN b) /\ send_size_response x = Ok (lenN b)).
Proof. exact (conj codec_command codec_response). Qed.

(* interface for the frame codec *)
Theorem C14_decode_encode_command : forall c rest, wf_command c = true ->
  decode_command (enc_command c ++ rest) = Some (c, rest).
Proof. exact decode_encode_command. Qed.
Theorem C14_decode_encode_response : forall x rest, wf_response x = true ->
  decode_response (enc_response x ++ rest) = Some (x, rest).
Proof. exact decode_encode_response. Qed.

(* |encode m| = serialized_size m for every message that serializes at all *)
Theorem C14_size_command : forall c b, encode_command c = Ok b -> serialized_size_command c = Ok (lenN b).
Proof. exact size_is_length_command. Qed.
Theorem C14_size_response : forall x b, encode_response x = Ok b -> serialized_size_response x = Ok (lenN b).
Proof. exact size_is_length_response. Qed.

(* two different messages never have the same bytes *)
Theorem C14_encode_injective_command : forall c1 c2,
  wf_command c1 = true -> wf_command c2 = true -> enc_command c1 = enc_command c2 -> c1 = c2.
Proof. exact encode_command_injective. Qed.
Theorem C14_encode_injective_response : forall x1 x2,
  wf_response x1 = true -> wf_response x2 = true -> enc_response x1 = enc_response x2 -> x1 = x2.
Proof. exact encode_response_injective. Qed.

(* the size computation inside the channel send (`.expect("Error in serialized_size")`) does not
   panic on a well-formed message ... *)
Theorem C14_encode_total_command : forall c, wf_command c = true -> is_panic (send_size_command c) = false.
Proof. exact send_size_total_command. Qed.
Theorem C14_encode_total_response : forall x, wf_response x = true -> is_panic (send_size_response x) = false.
Proof. exact send_size_total_response. Qed.
(* ... it panics exactly for messages carrying a time before the epoch (defect F8, property C18) *)
Theorem C14_send_size_panics_iff_command : forall c, is_panic (send_size_command c) = negb (command_encodable c).
Proof. exact send_size_panics_iff_command. Qed.
Theorem C14_send_size_panics_iff_response : forall x, is_panic (send_size_response x) = negb (response_encodable x).
Proof. exact send_size_panics_iff_response. Qed.
Theorem C14_size_panics_before_epoch :
  is_panic (send_size_command (CCreateOrUpdateFile [] [] (Some t1960) false)) = true /\
  is_panic (send_size_response (REntry [] (EDFile t1960 0))) = true /\
  is_panic (send_size_response (RRootDetails (Some (EDFile t1960 0)) false [ascii_of_N 47])) = true.
Proof. exact size_panics_before_epoch. Qed.

(* ------------------------------------------------------------------ the channel, every interleaving *)

(* the step function the theorems (and the judge) use is the rule-by-rule relation of Model/Channel.v *)
Theorem C14_step_rules : forall (M : Type) (s s' : chan M), step s s' <-> astep s s'.
Proof. exact @step_astep. Qed.

(* exactly once, in order: what send() was given = what recv() returned ++ what is in transit *)
Theorem C14_fifo : forall (M : Type) cap (s : chan M), reach cap s ->
  c_handed s = c_delivered s ++ in_transit s.
Proof. exact @fifo. Qed.
Theorem C14_fifo_quiescent : forall (M : Type) cap (s : chan M), reach cap s -> quiescent s ->
  c_delivered s = c_handed s.
Proof. exact @fifo_quiescent. Qed.

(* the counter is the queued bytes + the sender's in-flight message + the receiver's *)
Theorem C14_account : forall (M : Type) cap (s : chan M), reach cap s ->
  c_usage s = qbytes (c_queue s) + s_inflight (c_spc s) + r_inflight (c_rpc s).
Proof. exact @account. Qed.
Theorem C14_drained : forall (M : Type) cap (s : chan M), reach cap s -> quiescent s -> c_usage s = 0.
Proof. exact @drained_zero. Qed.

(* neither `load - memory_usage` in the wait loop nor the fetch_sub ever underflows *)
Theorem C14_no_underflow : forall (M : Type) cap (s : chan M), reach cap s ->
  c_spc s <> SUnderflow /\ c_rpc s <> RUnderflow.
Proof. exact @no_underflow. Qed.
Theorem C14_wait_loop_sub_ok : forall (M : Type) cap (s : chan M) m sz, reach cap s ->
  c_spc s = SWaiting m sz -> sz <= c_usage s.
Proof. exact @wait_loop_sub_ok. Qed.
Theorem C14_fetch_sub_ok : forall (M : Type) cap (s : chan M) m sz, reach cap s ->
  c_rpc s = RPopped m sz -> sz <= c_usage s.
Proof. exact @fetch_sub_ok. Qed.
(* explicit premise for the upward direction: live bytes below 2^64 keep the counter below 2^64 *)
Theorem C14_no_overflow : forall (M : Type) cap (s : chan M), reach cap s ->
  qbytes (c_queue s) + s_inflight (c_spc s) + r_inflight (c_rpc s) < 18446744073709551616 ->
  c_usage s < 18446744073709551616.
Proof. exact @no_overflow. Qed.

(* a sender is held back only while more than the capacity is already queued *)
Theorem C14_admission : forall (M : Type) cap (s : chan M) m sz s', reach cap s ->
  chan_step s (OFetchAdd m sz) = Some s' ->
  c_usage s = others s /\
  (cap < others s -> c_spc s' = SWaiting m sz) /\
  (others s <= cap -> c_spc s' = SPush m sz).
Proof. exact @admission_entry. Qed.
Theorem C14_admission_loop : forall (M : Type) cap (s : chan M) m sz s', reach cap s ->
  c_spc s = SWaiting m sz -> chan_step s OLoad = Some s' ->
  c_usage s - sz = others s /\
  (cap < others s -> c_spc s' = SWaiting m sz) /\
  (others s <= cap -> c_spc s' = SPush m sz).
Proof. exact @admission_loop. Qed.

(* a single message larger than the capacity is still let through (capacity 0 included) *)
Theorem C14_oversize : forall (M : Type) cap (s : chan M) m sz s', reach cap s ->
  c_queue s = [] -> c_rpc s = RIdle ->
  chan_step s (OFetchAdd m sz) = Some s' -> c_spc s' = SPush m sz.
Proof. exact @oversize. Qed.

(* no deadlock while the receiver keeps receiving *)
Theorem C14_progress : forall (M : Type) cap (s : chan M) m sz, reach cap s ->
  c_spc s = SWaiting m sz -> cap < others s ->
  (exists s', chan_step s OPop = Some s') \/ (exists s', chan_step s OFetchSub = Some s').
Proof. exact @progress. Qed.
Theorem C14_progress_recv_decreases : forall (M : Type) cap (s : chan M) o s', reach cap s ->
  is_recv_op o = true -> chan_step s o = Some s' -> (rmeasure s' < rmeasure s)%nat.
Proof. exact @recv_step_decreases. Qed.
Theorem C14_progress_wait_keeps : forall (M : Type) (s : chan M) m sz s',
  c_spc s = SWaiting m sz -> chan_step s OLoad = Some s' -> rmeasure s' = rmeasure s.
Proof. exact @waiting_sender_keeps_measure. Qed.
Theorem C14_progress_admitted_at_zero : forall (M : Type) cap (s : chan M) m sz s', reach cap s ->
  c_spc s = SWaiting m sz -> rmeasure s = 0%nat -> chan_step s OLoad = Some s' -> c_spc s' = SPush m sz.
Proof. exact @measure_zero_admits. Qed.
Theorem C14_sender_never_stuck : forall (M : Type) cap (s : chan M), reach cap s ->
  match c_spc s with
  | SIdle => forall m sz, exists s', chan_step s (OFetchAdd m sz) = Some s'
  | SWaiting _ _ => exists s', chan_step s OLoad = Some s'
  | SPush _ _ => exists s', chan_step s OPush = Some s'
  | SUnderflow => False
  end.
Proof. exact @sender_never_stuck. Qed.

(* bounded buffering *)
Theorem C14_bounded : forall (M : Type) cap (s : chan M), reach cap s ->
  others s <= cap + c_maxsz s /\ c_usage s <= cap + 2 * c_maxsz s.
Proof. exact @bounded. Qed.

(* the executable step function of the judge only visits states the theorems speak about *)
Theorem C14_run_reach : forall (M : Type) cap (os : list (op M)) s, reach cap s -> reach cap (fst (chan_run s os)).
Proof. exact @chan_run_reach. Qed.

(* ------------------------------------------------------------------ non-vacuity *)
Example C14_example_codec :
  let c := CCreateOrUpdateFile (map ascii_of_N [97; 47; 98]) (map ascii_of_N [1; 2; 255]) (Some (mkTime 12 5)) true in
  wf_command c = true /\
  option_map (fun b => map N_of_ascii b) (match encode_command c with Ok b => Some b | _ => None end)
  = Some [4;0;0;0; 3;0;0;0;0;0;0;0; 97;47;98; 3;0;0;0;0;0;0;0; 1;2;255; 1; 12;0;0;0;0;0;0;0; 5;0;0;0; 1] /\
  send_size_command c = Ok 40.
Proof. vm_compute. repeat split. Qed.

(* capacity 5: a 9-byte message is admitted into the empty channel, the next one waits, spins while
   the first is still queued, is admitted after pop + fetch_sub, and everything drains to zero *)
Example C14_example_channel :
  let os := [OFetchAdd 1 9; OPush; OFetchAdd 2 3; OLoad; OPop; OLoad; OFetchSub; OLoad; OPush; OPop; OFetchSub] in
  let s := fst (chan_run (chan_init 5) os) in
  snd (chan_run (chan_init 5) os) = [true; true; true; true; true; true; true; true; true; true; true] /\
  c_spc (fst (chan_run (chan_init 5) [OFetchAdd 1 9; OPush; OFetchAdd 2 3; OLoad])) = SWaiting 2 3 /\
  c_delivered s = [1; 2] /\ c_handed s = [1; 2] /\ c_usage s = 0 /\ c_queue s = [] /\ reach 5 s.
Proof.
  repeat split; try (vm_compute; reflexivity).
  apply (chan_run_reach 5). apply reach_init.
Qed.

Print Assumptions C14_codec_command.
Print Assumptions C14_codec_response.
Print Assumptions C14_fifo.
Print Assumptions C14_account.
Print Assumptions C14_progress.
