(* C14 - Messages arrive exactly once, in order and intact, with bounded buffering.
   This file contains only statements, each closed by [exact], examples and the assumption audit.
   Message codec: Model/Bincode.v; channel: Model/Channel.v (one sender, one receiver, every interleaving).
   The encrypted TCP leg: the frame codec and the sender / receiver automata are Model/Frame.v of the frames
   cluster (C10, which owns the adversarial theorems and [C14_stream]); this file adds that every message the
   protocol can produce FITS the fixed buffers of that leg ([C14_legit_*], Model/WireLink.v), composes it with
   the stream theorem ([C14_link_delivers_*]) and checks the limits against the running code
   ([C14_frame_limits_match_code], [C14_chunk_frames_fit_code]; Gen/Facts_wire.v and Gen/Facts_chunks.v are
   regenerated from the real AsyncEncryptedComms on every run). *)
From RJ Require Import Base.Prelude Model.LEInt Model.Bincode Model.Channel Model.WireLink
  Proofs.LEIntProofs Proofs.BincodeProofs Proofs.ChannelProofs Proofs.WireLinkProofs.
From RJ Require Model.Frame Proofs.FrameProofs.
From RJ Require Gen.Facts_wire Gen.Facts_chunks.
Local Open Scope N_scope.

(* ------------------------------------------------------------------ intact: the message codec *)

(* Every well-formed Command (integers in range, strings valid UTF-8, every SystemTime at or after
   the epoch with nanoseconds < 10^9) serializes, decodes back to itself from any stream position
   leaving exactly the rest, and its serialized_size - also the size the channel accounts - is the
   number of bytes written. *)
Theorem C14_codec_command : forall c rest, wf_command c = true ->
  exists b, encode_command c = Ok b /\ decode_command (b ++ rest) = Some (c, rest) /\
            serialized_size_command c = Ok (lenN b) /\ send_size_command c = Ok (lenN b).
Proof. exact codec_command. Qed.

Theorem C14_codec_response : forall x rest, wf_response x = true ->
  exists b, encode_response x = Ok b /\ decode_response (b ++ rest) = Some (x, rest) /\
            serialized_size_response x = Ok (lenN b) /\ send_size_response x = Ok (lenN b).
Proof. exact codec_response. Qed.

(* both directions of the link in one statement *)
Theorem C14_codec :
  (forall c rest, wf_command c = true ->
     exists b, encode_command c = Ok b /\ decode_command (b ++ rest) = Some (c, rest) /\
               serialized_size_command c = Ok (lenN b) /\ send_size_command c = Ok (lenN b)) /\
  (forall x rest, wf_response x = true ->
     exists b, encode_response x = Ok b /\ decode_response (b ++ rest) = Some (x, rest) /\
               serialized_size_response x = Ok (lenN b) /\ send_size_response x = Ok (lenN b)).
Proof. exact (conj codec_command codec_response). Qed.

(* interface for the frame codec *)
Theorem C14_decode_encode_command : forall c rest, wf_command c = true ->
  decode_command (enc_command c ++ rest) = Some (c, rest).
Proof. exact decode_encode_command. Qed.
Theorem C14_decode_encode_response : forall x rest, wf_response x = true ->
  decode_response (enc_response x ++ rest) = Some (x, rest).
Proof. exact decode_encode_response. Qed.

(* |encode m| = serialized_size m for every message that serializes at all *)
Theorem C14_size_command : forall c b, encode_command c = Ok b -> serialized_size_command c = Ok (lenN b).
Proof. exact size_is_length_command. Qed.
Theorem C14_size_response : forall x b, encode_response x = Ok b -> serialized_size_response x = Ok (lenN b).
Proof. exact size_is_length_response. Qed.

(* two different messages never have the same bytes *)
Theorem C14_encode_injective_command : forall c1 c2,
  wf_command c1 = true -> wf_command c2 = true -> enc_command c1 = enc_command c2 -> c1 = c2.
Proof. exact encode_command_injective. Qed.
Theorem C14_encode_injective_response : forall x1 x2,
  wf_response x1 = true -> wf_response x2 = true -> enc_response x1 = enc_response x2 -> x1 = x2.
Proof. exact encode_response_injective. Qed.

(* the size computation inside the channel send (`.expect("Error in serialized_size")`) does not
   panic on a well-formed message ... *)
Theorem C14_encode_total_command : forall c, wf_command c = true -> is_panic (send_size_command c) = false.
Proof. exact send_size_total_command. Qed.
Theorem C14_encode_total_response : forall x, wf_response x = true -> is_panic (send_size_response x) = false.
Proof. exact send_size_total_response. Qed.
(* ... it panics exactly for messages carrying a time before the epoch (defect F8, property C18) *)
Theorem C14_send_size_panics_iff_command : forall c, is_panic (send_size_command c) = negb (command_encodable c).
Proof. exact send_size_panics_iff_command. Qed.
Theorem C14_send_size_panics_iff_response : forall x, is_panic (send_size_response x) = negb (response_encodable x).
Proof. exact send_size_panics_iff_response. Qed.
Theorem C14_size_panics_before_epoch :
  is_panic (send_size_command (CCreateOrUpdateFile [] [] (Some t1960) false)) = true /\
  is_panic (send_size_response (REntry [] (EDFile t1960 0))) = true /\
  is_panic (send_size_response (RRootDetails (Some (EDFile t1960 0)) false [ascii_of_N 47])) = true.
Proof. exact size_panics_before_epoch. Qed.

(* ------------------------------------------------------------------ the encrypted TCP channel: every message fits *)

(* A message is legitimate when it carries at most one full chunk of file data (4 MiB) and all its strings
   together (paths, link targets, root, filter patterns, error text) stay within 4 MiB - 1 KiB.  With its
   AEAD tag and its length header it fits the 8 MiB buffer of either thread of the link. *)
Theorem C14_legit_command_fits : forall c, legit_command c = true ->
  len_prefix + size_command c + tag_len <= Frame.buf_size.
Proof. exact legit_command_fits. Qed.
Theorem C14_legit_response_fits : forall r, legit_response r = true ->
  len_prefix + size_response r + tag_len <= Frame.buf_size.
Proof. exact legit_response_fits. Qed.

(* [link_class_of] (what the judge answers for one message) is what the sender of Model/Frame.v does with a
   plaintext of that size: framed, serialization error, or the panic of the tag that does not fit *)
Theorem C14_link_class_is_send_step : forall seal,
  (forall ctr m, Frame.blen (seal (Frame.nonce_of ctr) m) = Frame.blen m + tag_len) ->
  forall bump d ctr m, ctr mod 2 = Frame.lsb d -> ctr + 2 < Frame.u64_limit ->
  match link_class_of true (Frame.blen m) with
  | LDelivered => Frame.send_step seal bump d ctr m
                  = Ok (Frame.next_ctr bump ctr, Frame.frame_of (seal (Frame.nonce_of ctr) m))
  | LSerialize => exists e, Frame.send_step seal bump d ctr m = Err e
  | LTagPanic => exists s, Frame.send_step seal bump d ctr m = Panic s
  | LUnencodable => False
  end.
Proof. exact send_step_class. Qed.

Theorem C14_legit_command_delivered : forall c, wf_command c = true -> legit_command c = true ->
  link_class_command c = LDelivered.
Proof. exact legit_command_delivered. Qed.
Theorem C14_legit_response_delivered : forall r, wf_response r = true -> legit_response r = true ->
  link_class_response r = LDelivered.
Proof. exact legit_response_delivered. Qed.

(* The whole leg without an adversary, for every sequence of legitimate messages (fewer than 2^62, the
   final message of the direction - if any - last), every AEAD that opens what it sealed and appends 16
   bytes, every TCP segmentation: the sender never fails, the receiving automaton delivers exactly the
   plaintexts that were sent, in order, and each one deserializes to the message it came from. *)
Theorem C14_link_delivers_commands : forall seal open fin d,
  (forall n m, open n (seal n m) = Some m) ->
  (forall ctr m, Frame.blen (seal (Frame.nonce_of ctr) m) = Frame.blen m + tag_len) ->
  forall (cmds : list command) (segs : list (list ascii)),
  Forall (fun c => wf_command c = true /\ legit_command c = true) cmds ->
  Frame.lsb d + 2 * lenN cmds < Frame.u64_limit ->
  Frame.upto_final fin (map enc_command cmds) = map enc_command cmds ->
  exists ctr' frames,
    Frame.send_all seal true d (Frame.lsb d) (map enc_command cmds) = Ok (ctr', frames) /\
    (concat segs = concat frames ->
     Frame.decode_stream open deserializes_command fin true d segs = map enc_command cmds) /\
    Forall (fun c => decode_command (enc_command c) = Some (c, [])) cmds.
Proof. exact link_delivers_commands. Qed.

Theorem C14_link_delivers_responses : forall seal open fin d,
  (forall n m, open n (seal n m) = Some m) ->
  (forall ctr m, Frame.blen (seal (Frame.nonce_of ctr) m) = Frame.blen m + tag_len) ->
  forall (rs : list response) (segs : list (list ascii)),
  Forall (fun r => wf_response r = true /\ legit_response r = true) rs ->
  Frame.lsb d + 2 * lenN rs < Frame.u64_limit ->
  Frame.upto_final fin (map enc_response rs) = map enc_response rs ->
  exists ctr' frames,
    Frame.send_all seal true d (Frame.lsb d) (map enc_response rs) = Ok (ctr', frames) /\
    (concat segs = concat frames ->
     Frame.decode_stream open deserializes_response fin true d segs = map enc_response rs) /\
    Forall (fun r => decode_response (enc_response r) = Some (r, [])) rs.
Proof. exact link_delivers_responses. Qed.

(* Obligations against the running code.  The receiving thread of a real AsyncEncryptedComms accepts length
   fields up to exactly the model's buffer size; the largest payload a real pair of them delivered implies
   the same buffer on the sending side; the real sending thread appends 16 bytes after an 8-byte header;
   the top of the real chunk ladder is the model's [max_chunk]. *)
Theorem C14_frame_limits_match_code :
  Facts_wire.impl_wire_recv_max = Frame.buf_size /\ Facts_chunks.impl_frame_buf = Frame.buf_size /\
  Facts_wire.impl_wire_tag = tag_len /\ Facts_wire.impl_wire_len_prefix = len_prefix /\
  Facts_chunks.impl_max_chunk = max_chunk.
Proof. repeat split; reflexivity. Qed.

(* ... and, stated on the code's own numbers only: a CreateOrUpdateFile command with a full chunk of the
   real ladder and any path of up to 96 KiB (PATH_MAX is 4096 on Linux; 32767 UTF-16 units on Windows), with or
   without a modification time, and a FileContent response with a full chunk, are accepted by the real
   receiving thread and are within what a real pair of comms objects delivered. *)
Theorem C14_chunk_frames_fit_code : forall p d mt more,
  lenN d <= Facts_chunks.impl_max_chunk -> lenN p <= 98304 ->
  size_command (CCreateOrUpdateFile p d mt more) + Facts_wire.impl_wire_tag <= Facts_wire.impl_wire_recv_max /\
  Facts_wire.impl_wire_len_prefix + size_command (CCreateOrUpdateFile p d mt more) + Facts_wire.impl_wire_tag
    <= Facts_chunks.impl_frame_buf /\
  size_response (RFileContent d more) + Facts_wire.impl_wire_tag <= Facts_wire.impl_wire_recv_max /\
  Facts_wire.impl_wire_len_prefix + size_response (RFileContent d more) + Facts_wire.impl_wire_tag
    <= Facts_chunks.impl_frame_buf.
Proof.
  intros p d mt more Hd Hp.
  unfold Facts_chunks.impl_max_chunk, Facts_chunks.impl_frame_buf, Facts_wire.impl_wire_tag,
    Facts_wire.impl_wire_recv_max, Facts_wire.impl_wire_len_prefix in *.
  cbn [size_command size_response]. unfold size_buf. destruct mt; cbn [size_option]; lia.
Qed.

(* ------------------------------------------------------------------ the channel, every interleaving *)

(* the step function the theorems (and the judge) use is the rule-by-rule relation of Model/Channel.v *)
Theorem C14_step_rules : forall (M : Type) (s s' : chan M), step s s' <-> astep s s'.
Proof. exact @step_astep. Qed.

(* exactly once, in order: what send() was given = what recv() returned ++ what is in transit *)
Theorem C14_fifo : forall (M : Type) cap (s : chan M), reach cap s ->
  c_handed s = c_delivered s ++ in_transit s.
Proof. exact @fifo. Qed.
Theorem C14_fifo_quiescent : forall (M : Type) cap (s : chan M), reach cap s -> quiescent s ->
  c_delivered s = c_handed s.
Proof. exact @fifo_quiescent. Qed.

(* the counter is the queued bytes + the sender's in-flight message + the receiver's *)
Theorem C14_account : forall (M : Type) cap (s : chan M), reach cap s ->
  c_usage s = qbytes (c_queue s) + s_inflight (c_spc s) + r_inflight (c_rpc s).
Proof. exact @account. Qed.
Theorem C14_drained : forall (M : Type) cap (s : chan M), reach cap s -> quiescent s -> c_usage s = 0.
Proof. exact @drained_zero. Qed.

(* neither `load - memory_usage` in the wait loop nor the fetch_sub ever underflows *)
Theorem C14_no_underflow : forall (M : Type) cap (s : chan M), reach cap s ->
  c_spc s <> SUnderflow /\ c_rpc s <> RUnderflow.
Proof. exact @no_underflow. Qed.
Theorem C14_wait_loop_sub_ok : forall (M : Type) cap (s : chan M) m sz, reach cap s ->
  c_spc s = SWaiting m sz -> sz <= c_usage s.
Proof. exact @wait_loop_sub_ok. Qed.
Theorem C14_fetch_sub_ok : forall (M : Type) cap (s : chan M) m sz, reach cap s ->
  c_rpc s = RPopped m sz -> sz <= c_usage s.
Proof. exact @fetch_sub_ok. Qed.
(* explicit premise for the upward direction: live bytes below 2^64 keep the counter below 2^64 *)
Theorem C14_no_overflow : forall (M : Type) cap (s : chan M), reach cap s ->
  qbytes (c_queue s) + s_inflight (c_spc s) + r_inflight (c_rpc s) < 18446744073709551616 ->
  c_usage s < 18446744073709551616.
Proof. exact @no_overflow. Qed.

(* a sender is held back only while more than the capacity is already queued *)
Theorem C14_admission : forall (M : Type) cap (s : chan M) m sz s', reach cap s ->
  chan_step s (OFetchAdd m sz) = Some s' ->
  c_usage s = others s /\
  (cap < others s -> c_spc s' = SWaiting m sz) /\
  (others s <= cap -> c_spc s' = SPush m sz).
Proof. exact @admission_entry. Qed.
Theorem C14_admission_loop : forall (M : Type) cap (s : chan M) m sz s', reach cap s ->
  c_spc s = SWaiting m sz -> chan_step s OLoad = Some s' ->
  c_usage s - sz = others s /\
  (cap < others s -> c_spc s' = SWaiting m sz) /\
  (others s <= cap -> c_spc s' = SPush m sz).
Proof. exact @admission_loop. Qed.

(* a single message larger than the capacity is still let through (capacity 0 included) *)
Theorem C14_oversize : forall (M : Type) cap (s : chan M) m sz s', reach cap s ->
  c_queue s = [] -> c_rpc s = RIdle ->
  chan_step s (OFetchAdd m sz) = Some s' -> c_spc s' = SPush m sz.
Proof. exact @oversize. Qed.

(* no deadlock while the receiver keeps receiving *)
Theorem C14_progress : forall (M : Type) cap (s : chan M) m sz, reach cap s ->
  c_spc s = SWaiting m sz -> cap < others s ->
  (exists s', chan_step s OPop = Some s') \/ (exists s', chan_step s OFetchSub = Some s').
Proof. exact @progress. Qed.
Theorem C14_progress_recv_decreases : forall (M : Type) cap (s : chan M) o s', reach cap s ->
  is_recv_op o = true -> chan_step s o = Some s' -> (rmeasure s' < rmeasure s)%nat.
Proof. exact @recv_step_decreases. Qed.
Theorem C14_progress_wait_keeps : forall (M : Type) (s : chan M) m sz s',
  c_spc s = SWaiting m sz -> chan_step s OLoad = Some s' -> rmeasure s' = rmeasure s.
Proof. exact @waiting_sender_keeps_measure. Qed.
Theorem C14_progress_admitted_at_zero : forall (M : Type) cap (s : chan M) m sz s', reach cap s ->
  c_spc s = SWaiting m sz -> rmeasure s = 0%nat -> chan_step s OLoad = Some s' -> c_spc s' = SPush m sz.
Proof. exact @measure_zero_admits. Qed.
Theorem C14_sender_never_stuck : forall (M : Type) cap (s : chan M), reach cap s ->
  match c_spc s with
  | SIdle => forall m sz, exists s', chan_step s (OFetchAdd m sz) = Some s'
  | SWaiting _ _ => exists s', chan_step s OLoad = Some s'
  | SPush _ _ => exists s', chan_step s OPush = Some s'
  | SUnderflow => False
  end.
Proof. exact @sender_never_stuck. Qed.

(* bounded buffering *)
Theorem C14_bounded : forall (M : Type) cap (s : chan M), reach cap s ->
  others s <= cap + c_maxsz s /\ c_usage s <= cap + 2 * c_maxsz s.
Proof. exact @bounded. Qed.

(* the executable step function of the judge only visits states the theorems speak about *)
Theorem C14_run_reach : forall (M : Type) cap (os : list (op M)) s, reach cap s -> reach cap (fst (chan_run s os)).
Proof. exact @chan_run_reach. Qed.

(* ------------------------------------------------------------------ non-vacuity *)
Example C14_example_codec :
  let c := CCreateOrUpdateFile (map ascii_of_N [97; 47; 98]) (map ascii_of_N [1; 2; 255]) (Some (mkTime 12 5)) true in
  wf_command c = true /\
  option_map (fun b => map N_of_ascii b) (match encode_command c with Ok b => Some b | _ => None end)
  = Some [4;0;0;0; 3;0;0;0;0;0;0;0; 97;47;98; 3;0;0;0;0;0;0;0; 1;2;255; 1; 12;0;0;0;0;0;0;0; 5;0;0;0; 1] /\
  send_size_command c = Ok 40.
Proof. vm_compute. repeat split. Qed.

(* capacity 5: a 9-byte message is admitted into the empty channel, the next one waits, spins while
   the first is still queued, is admitted after pop + fetch_sub, and everything drains to zero *)
Example C14_example_channel :
  let os := [OFetchAdd 1 9; OPush; OFetchAdd 2 3; OLoad; OPop; OLoad; OFetchSub; OLoad; OPush; OPop; OFetchSub] in
  let s := fst (chan_run (chan_init 5) os) in
  snd (chan_run (chan_init 5) os) = [true; true; true; true; true; true; true; true; true; true; true] /\
  c_spc (fst (chan_run (chan_init 5) [OFetchAdd 1 9; OPush; OFetchAdd 2 3; OLoad])) = SWaiting 2 3 /\
  c_delivered s = [1; 2] /\ c_handed s = [1; 2] /\ c_usage s = 0 /\ c_queue s = [] /\ reach 5 s.
Proof.
  repeat split; try (vm_compute; reflexivity).
  apply (chan_run_reach 5). apply reach_init.
Qed.

(* a full 4 MiB chunk under a 4096-byte path, with a modification time, is legitimate (size 4 MiB + 4130),
   and so is a symlink whose path and target are 4096 bytes each: the premises of the theorems above are met *)
Example C14_example_legit :
  let p := repeat (ascii_of_N 97) 4096 in
  legit_command (CCreateOrUpdateFile p [] (Some (mkTime 12 5)) true) = true /\
  wf_command (CCreateOrUpdateFile p [] (Some (mkTime 12 5)) true) = true /\
  (forall d, lenN d = max_chunk ->
     size_command (CCreateOrUpdateFile p d (Some (mkTime 12 5)) true) = 4198434) /\
  legit_command (CCreateSymlink p SKFile (STNormalized p)) = true /\
  legit_response (REntry p (EDSymlink SKUnknown (STNotNormalized p))) = true /\
  link_class_of true 8388584 = LDelivered /\ link_class_of true 8388585 = LTagPanic /\
  link_class_of true 8388601 = LSerialize /\
  (forall k ctr m, Frame.blen (Frame.toy_seal k (Frame.nonce_of ctr) m) = Frame.blen m + tag_len).
Proof.
  repeat split; try (vm_compute; reflexivity).
  - intros d Hd. cbn [size_command size_option]. unfold size_buf. rewrite Hd.
    replace (lenN (repeat (ascii_of_N 97) 4096)) with 4096 by (vm_compute; reflexivity).
    unfold max_chunk. lia.
  - exact toy_seal_expands.
Qed.

Print Assumptions C14_codec_command.
Print Assumptions C14_codec_response.
Print Assumptions C14_fifo.
Print Assumptions C14_account.
Print Assumptions C14_progress.
Print Assumptions C14_link_delivers_commands.
Print Assumptions C14_chunk_frames_fit_code.

(* ==================================================================================================
   The encrypted TCP channel as a COMPOSITION (Model/RemoteSession.v): channel -> sending thread -> socket ->
   receiving thread -> channel, per direction, under every interleaving of the seven threads of a boss <-> remote
   doer session, every channel capacity (0 included), every socket capacity, every fault plan (cut, bad frames,
   doer killed, stdin closed, Error replies) and every protocol the boss runs.  Proofs: Proofs/RemoteSessionFlow.v.
     (S1) C14_remote_delivery: in EVERY reachable state, in each direction, (what the receiving application has
          taken from its channel ++ what is still queued in that channel) is a prefix, element for element, of what the
          sending application handed over: no loss in the middle, no duplication, no reordering, no alteration; a bad
          frame ends the stream at that point.  C14_remote_pipeline extends the prefix through the receiving thread's
          hands and the frames on the wire before the first bad one.
   NOT proved (partial; the full statement for the record):
     (S2) C14_remote_complete : forall c x s, reach c x s -> final s = true -> nfault (ev s) = 0 -> (no Error planned) ->
            hgot (de s) = hsent (be s) /\ hgot (be s) ++ q (inc (be s)) = hsent (de s) /\
            dexec (dm s) = the identifiers of the commands in hsent (be s).
          Needs the nonce synchronisation invariant (receiver's counter = nonce of the next honest frame) and
          "a final state has empty pipelines", neither of which is proved; what is here is the closed instance
          [C14_remote_example_complete] and the differential runs. *)
From RJ Require Model.RemoteSession Proofs.RemoteSessionBase Proofs.RemoteSessionFlow Proofs.RemoteSessionWitness.

Theorem C14_remote_delivery : forall c x s, RemoteSession.reach c x s ->
  (exists rest, RemoteSession.hsent (RemoteSession.be s) =
     (RemoteSession.hgot (RemoteSession.de s) ++ RemoteSession.q (RemoteSession.inc (RemoteSession.de s))) ++ rest) /\
  (exists rest, RemoteSession.hsent (RemoteSession.de s) =
     (RemoteSession.hgot (RemoteSession.be s) ++ RemoteSession.q (RemoteSession.inc (RemoteSession.be s))) ++ rest).
Proof. exact RemoteSessionFlow.remote_delivery. Qed.

Theorem C14_remote_pipeline : forall c x s, RemoteSession.reach c x s ->
  (RemoteSession.rcv_ended (RemoteSession.rcv_t (RemoteSession.de s)) = false ->
     exists rest, RemoteSession.hsent (RemoteSession.be s) =
       RemoteSession.hgot (RemoteSession.de s) ++ RemoteSession.q (RemoteSession.inc (RemoteSession.de s)) ++
       RemoteSessionFlow.rheld (RemoteSession.rcv_t (RemoteSession.de s)) ++ RemoteSessionFlow.wpre (RemoteSession.b2d s) ++ rest) /\
  (RemoteSession.rcv_ended (RemoteSession.rcv_t (RemoteSession.be s)) = false ->
     exists rest, RemoteSession.hsent (RemoteSession.de s) =
       RemoteSession.hgot (RemoteSession.be s) ++ RemoteSession.q (RemoteSession.inc (RemoteSession.be s)) ++
       RemoteSessionFlow.rheld (RemoteSession.rcv_t (RemoteSession.be s)) ++ RemoteSessionFlow.wpre (RemoteSession.d2b s) ++ rest).
Proof. exact RemoteSessionFlow.remote_pipeline. Qed.

(* the premise is met by non-trivial states: a fault-free run at capacity 0 over a one-frame socket delivers
   everything exactly once in both directions and the doer executes exactly the boss's commands in order;
   with a bad frame the stream ends there *)
Example C14_remote_example_complete : exists c x s,
  RemoteSession.reach c x s /\ RemoteSession.final s = true /\
  RemoteSession.hgot (RemoteSession.de s) = RemoteSession.hsent (RemoteSession.be s) /\
  RemoteSession.hgot (RemoteSession.be s) = RemoteSession.hsent (RemoteSession.de s) /\
  RemoteSession.dexec (RemoteSession.dm s) = [1; 2; 3]%N /\
  length (RemoteSession.hsent (RemoteSession.be s)) = 4%nat /\ length (RemoteSession.hsent (RemoteSession.de s)) = 4%nat.
Proof.
  exists (RemoteSessionWitness.cfg 0 0), RemoteSessionWitness.sc_small,
    (RemoteSession.run_to_end (RemoteSessionWitness.cfg 0 0) RemoteSessionWitness.eager_boss
       (RemoteSession.init RemoteSessionWitness.sc_small)).
  split; [apply RemoteSessionBase.run_sound | vm_compute; repeat split].
Qed.

Example C14_remote_example_bad_frame : exists c x s,
  RemoteSession.reach c x s /\ RemoteSession.final s = true /\
  RemoteSession.hgot (RemoteSession.de s) = [RemoteSession.MCmd 1 [11; 12]]%N /\
  RemoteSession.dexec (RemoteSession.dm s) = [1%N].
Proof.
  eexists _, _, _. split; [apply RemoteSessionBase.run_plan_sound|].
  destruct RemoteSessionWitness.bad_frame_ends_stream as (A & B & C & D). eauto.
Qed.

Print Assumptions C14_remote_delivery.
Print Assumptions C14_remote_pipeline.

(* --------------------------------------------------------------------------------------------------
   (S2) completeness.  Proofs: Proofs/RemoteSessionAInv.v (structural invariants of every reachable state),
   Proofs/RemoteSessionComplete.v.
   Full statement (for the record): forall c x s, reach c x s -> final s = true -> nfault (ev s) = 0 ->
       hgot (de s) = hsent (be s) /\ hgot (be s) = hsent (de s) /\ dexec (dm s) = cmd_ids (hsent (be s)).
   As stated it is FALSE of the faithful model for protocols in which the boss does not read all its answers
   [C14_remote_complete_needs_final: no fault step, boss exit 0, the Shutdown and an answer never delivered, the doer
   ended by its stdin watchdog]; the real boss reads every answer before Comms::shutdown unless the sync has already
   failed.  Proved instead, in EVERY reachable state and whatever the faults [C14_remote_complete_partial]:
   once the doer has taken the Shutdown and the boss has taken the final message as its final message, everything
   handed over was delivered exactly once, in order, in both directions, both receiving channels are empty, and the doer
   executed exactly the boss's commands in order.  Each half on its own: C14_remote_shutdown_complete,
   C14_remote_final_complete.
   MISSING for the full (S2): "fault-free /\ final /\ the boss took the final message => the doer took the Shutdown"
   (needs the fault-free invariant: no comms thread of the doer ends with Err while the boss still holds its socket;
   the ingredients - all frames on the wire good, C10_remote_expected_nonce - are proved, the invariant is not). *)
From RJ Require Proofs.RemoteSessionAInv Proofs.RemoteSessionComplete Proofs.RemoteSessionWitness2.

Theorem C14_remote_complete_partial : forall c x s, RemoteSession.reach c x s ->
  In RemoteSession.MShut (RemoteSession.hgot (RemoteSession.de s)) ->
  RemoteSession.bfin (RemoteSession.bm s) = true ->
  RemoteSession.hgot (RemoteSession.de s) = RemoteSession.hsent (RemoteSession.be s) /\
  RemoteSession.hgot (RemoteSession.be s) = RemoteSession.hsent (RemoteSession.de s) /\
  RemoteSession.dexec (RemoteSession.dm s) = RemoteSessionAInv.cmd_ids (RemoteSession.hsent (RemoteSession.be s)) /\
  RemoteSession.q (RemoteSession.inc (RemoteSession.de s)) = [] /\
  RemoteSession.q (RemoteSession.inc (RemoteSession.be s)) = [].
Proof. exact RemoteSessionComplete.remote_complete_partial. Qed.

Theorem C14_remote_shutdown_complete : forall c x s, RemoteSession.reach c x s ->
  In RemoteSession.MShut (RemoteSession.hgot (RemoteSession.de s)) ->
  RemoteSession.hgot (RemoteSession.de s) = RemoteSession.hsent (RemoteSession.be s) /\
  RemoteSession.dexec (RemoteSession.dm s) = RemoteSessionAInv.cmd_ids (RemoteSession.hsent (RemoteSession.be s)) /\
  RemoteSession.q (RemoteSession.inc (RemoteSession.de s)) = [].
Proof. exact RemoteSessionComplete.got_shutdown_complete. Qed.

Theorem C14_remote_final_complete : forall c x s, RemoteSession.reach c x s ->
  RemoteSession.bfin (RemoteSession.bm s) = true ->
  RemoteSession.hgot (RemoteSession.be s) = RemoteSession.hsent (RemoteSession.de s) /\
  RemoteSession.q (RemoteSession.inc (RemoteSession.be s)) = [].
Proof. exact RemoteSessionComplete.got_final_complete. Qed.

Theorem C14_remote_complete_needs_final : exists c x s,
  RemoteSession.reach c x s /\ RemoteSession.final s = true /\ RemoteSession.nfault (RemoteSession.ev s) = 0%nat /\
  Forall (fun b => b = false) (RemoteSession.sc_eplan x) /\
  RemoteSession.bexit (RemoteSession.bm s) = 0%N /\ RemoteSession.bfin (RemoteSession.bm s) = false /\
  RemoteSession.dstat (RemoteSession.ev s) = Some 65%N /\
  RemoteSession.hsent (RemoteSession.be s) = [RemoteSession.MCmd 1 [11; 12]; RemoteSession.MShut]%N /\
  RemoteSession.hgot (RemoteSession.de s) = [RemoteSession.MCmd 1 [11; 12]]%N /\
  RemoteSession.hsent (RemoteSession.de s) = [RemoteSession.MResp 11; RemoteSession.MResp 12]%N /\
  RemoteSession.hgot (RemoteSession.be s) = [RemoteSession.MResp 11]%N.
Proof. exact RemoteSessionWitness2.complete_needs_final. Qed.

(* the premises of C14_remote_complete_partial are met by the final state of a complete fault-free session *)
Example C14_remote_example_premises : exists c x s,
  RemoteSession.reach c x s /\ RemoteSession.final s = true /\
  In RemoteSession.MShut (RemoteSession.hgot (RemoteSession.de s)) /\
  RemoteSession.bfin (RemoteSession.bm s) = true /\ RemoteSession.nfault (RemoteSession.ev s) = 0%nat.
Proof.
  exists (RemoteSessionWitness.cfg 0 0), RemoteSessionWitness2.sc_cov, (RemoteSessionLog.base RemoteSessionWitness2.l_cov).
  destruct RemoteSessionWitness2.log_of_a_complete_session as (A & B & _ & _ & _ & _ & C & D & E & _).
  split; [apply RemoteSessionNonce.lreach_base; exact A|]. split; [exact B|]. split; [exact D|]. split; [exact C | exact E].
Qed.

Print Assumptions C14_remote_complete_partial.
Print Assumptions C14_remote_shutdown_complete.
Print Assumptions C14_remote_final_complete.
Print Assumptions C14_remote_complete_needs_final.

(* --------------------------------------------------------------------------------------------------
   (S2) for runs without fault steps.  Proofs/RemoteSessionFaultFree.v: invariant FFA of every reachable state with
   nfault = 0 - the connection is not cut, every frame boss->doer on the wire is good, NO COMMS THREAD OF THE DOER ENDS
   WITH Err WHILE THE BOSS STILL HOLDS ITS SOCKET (sending thread: k_i7; receiving thread: k_i2 - it can end with Err
   only after the doer's main thread dropped its receiver or the boss closed its end; uses C10_remote_expected_nonce),
   the doer's receiving thread ends Ok only after pushing the Shutdown, and a doer that left its message loop without
   having seen the Shutdown did so after the boss had given up waiting for the final message.
     C14_remote_faultfree_shutdown_seen : fault-free, the boss took the final message as its final message
                                          => the doer took the Shutdown.
     C14_remote_complete_faultfree      : fault-free, the boss took the final message as its final message
                                          => everything handed over was delivered exactly once, in order, in both
                                          directions, both receiving channels are empty, the doer executed exactly the
                                          boss's commands in order.  (In every reachable state - final or not.)
   The premise "bfin = true" is observable: it is false exactly when Comms::shutdown logs "Unexpected response as final
   message".  STILL MISSING: its derivation from a premise on the op list.  RemoteSessionFaultFree.reads_all_answers is
   that decidable premise (every answer a command produces is received by a blocking receive before the final wait;
   polls anywhere, not counted on to drain anything; C14_remote_complete_needs_final's protocol violates it, the
   protocols of the real boss satisfy it when each poll that found an answer is rendered as a receive - design.d/C14.md);
   "fault-free /\ final /\ reads_all_answers ops => bfin" is NOT proved (needs the boss-side mirror of FFA, the
   accounting |answers taken| >= |answers of the commands handed over|, and "a fault-free run does not fail"). *)
From RJ Require Proofs.RemoteSessionFaultFree.

Theorem C14_remote_faultfree_shutdown_seen : forall c x s, RemoteSession.reach c x s ->
  RemoteSession.nfault (RemoteSession.ev s) = 0%nat -> RemoteSession.bfin (RemoteSession.bm s) = true ->
  In RemoteSession.MShut (RemoteSession.hgot (RemoteSession.de s)).
Proof. exact RemoteSessionFaultFree.faultfree_final_taken. Qed.

Theorem C14_remote_complete_faultfree : forall c x s, RemoteSession.reach c x s ->
  RemoteSession.nfault (RemoteSession.ev s) = 0%nat -> RemoteSession.bfin (RemoteSession.bm s) = true ->
  RemoteSession.hgot (RemoteSession.de s) = RemoteSession.hsent (RemoteSession.be s) /\
  RemoteSession.hgot (RemoteSession.be s) = RemoteSession.hsent (RemoteSession.de s) /\
  RemoteSession.dexec (RemoteSession.dm s) = RemoteSessionAInv.cmd_ids (RemoteSession.hsent (RemoteSession.be s)) /\
  RemoteSession.q (RemoteSession.inc (RemoteSession.de s)) = [] /\
  RemoteSession.q (RemoteSession.inc (RemoteSession.be s)) = [].
Proof. exact RemoteSessionFaultFree.remote_complete_faultfree_bfin. Qed.

(* the premises are met by the final state of a complete session whose protocol satisfies reads_all_answers;
   the protocol of C14_remote_complete_needs_final does not satisfy it *)
Example C14_remote_example_faultfree : exists c x s,
  RemoteSession.reach c x s /\ RemoteSession.final s = true /\ RemoteSession.nfault (RemoteSession.ev s) = 0%nat /\
  RemoteSession.bfin (RemoteSession.bm s) = true /\
  RemoteSessionFaultFree.reads_all_answers (RemoteSession.sc_ops x) = true /\
  RemoteSessionFaultFree.reads_all_answers (RemoteSession.sc_ops RemoteSessionWitness2.sc_noread) = false.
Proof.
  exists (RemoteSessionWitness.cfg 0 0), RemoteSessionWitness2.sc_cov, (RemoteSessionLog.base RemoteSessionWitness2.l_cov).
  destruct RemoteSessionWitness2.log_of_a_complete_session as (A & B & _ & _ & _ & _ & C & D & E & _).
  split; [apply RemoteSessionNonce.lreach_base; exact A|]. split; [exact B|]. split; [exact E|]. split; [exact C|].
  split; reflexivity.
Qed.

Print Assumptions C14_remote_faultfree_shutdown_seen.
Print Assumptions C14_remote_complete_faultfree.
