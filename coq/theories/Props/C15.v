(* C15 - A remote doer is used only after a version match; deployment needs consent.
   This file contains only statements, each closed by [exact], and their assumption audit. *)
From RJ Require Import Base.Prelude Model.KeyHex Proofs.KeyHexProofs.
Local Open Scope N_scope.

(* The doer reconstructs every 16-byte key bit-exactly from what the boss prints
   (induction over the byte list: leading zero bytes are not a special case). *)
Theorem C15_key_roundtrip : forall k,
  length k = 16%nat -> Forall (fun b => b < 256) k -> parse_hex_u128_be (print_hex k) = Some k.
Proof. exact key_roundtrip. Qed.

(* ... also through the line protocol (boss appends a newline, the doer pops it). *)
Theorem C15_key_line_roundtrip : forall k,
  length k = 16%nat -> Forall (fun b => b < 256) k -> doer_key_of_line (key_line k) = Some k.
Proof. exact key_line_roundtrip. Qed.

(* The printed key is always 32 characters, and different keys print differently. *)
Theorem C15_key_print_width : forall k, length k = 16%nat -> List.length (print_hex k) = 32%nat.
Proof. exact key_print_width. Qed.

Theorem C15_key_print_injective : forall k1 k2,
  length k1 = 16%nat -> length k2 = 16%nat -> Forall (fun b => b < 256) k1 -> Forall (fun b => b < 256) k2 ->
  print_hex k1 = print_hex k2 -> k1 = k2.
Proof. exact print_hex_injective. Qed.

Example C15_key_example :
  parse_hex_u128_be (print_hex [0;0;0;0;0;0;0;0;0;0;0;0;0;0;0;10]) = Some [0;0;0;0;0;0;0;0;0;0;0;0;0;0;0;10]
  /\ print_hex [0;1;255] = ["0";"0";"0";"1";"f";"f"]%char.
Proof. vm_compute. split; reflexivity. Qed.

Print Assumptions C15_key_roundtrip.
