(* C15 - A remote doer is used only after a version match; deployment needs consent.
   This file contains only statements, each closed by [exact], and their assumption audit. *)
From RJ Require Import Base.Prelude Model.KeyHex Model.Handshake Model.Launch Model.LaunchSystem
  Proofs.KeyHexProofs Proofs.HandshakeProofs Proofs.LaunchProofs Proofs.LaunchSystemProofs Gen.Facts.
From Coq Require Import String.
Local Open Scope N_scope.

(* ------------------------------------------------------------------ the key codec *)
(* The doer reconstructs every 16-byte key bit-exactly from what the boss prints
   (induction over the byte list: leading zero bytes are not a special case). *)
Theorem C15_key_roundtrip : forall k,
  List.length k = 16%nat -> Forall (fun b => b < 256) k -> parse_hex_u128_be (print_hex k) = Some k.
Proof. exact key_roundtrip. Qed.

(* ... also through the line protocol (boss appends a newline, the doer pops it). *)
Theorem C15_key_line_roundtrip : forall k,
  List.length k = 16%nat -> Forall (fun b => b < 256) k -> doer_key_of_line (key_line k) = Some k.
Proof. exact key_line_roundtrip. Qed.

(* The printed key is always 32 characters, and different keys print differently. *)
Theorem C15_key_print_width : forall k, List.length k = 16%nat -> List.length (print_hex k) = 32%nat.
Proof. exact key_print_width. Qed.

Theorem C15_key_print_injective : forall k1 k2,
  List.length k1 = 16%nat -> List.length k2 = 16%nat -> Forall (fun b => b < 256) k1 -> Forall (fun b => b < 256) k2 ->
  print_hex k1 = print_hex k2 -> k1 = k2.
Proof. exact print_hex_injective. Qed.

(* ------------------------------------------------------------------ the handshake *)
(* The configuration of the running code (Gen/Facts.v is regenerated from it on every run):
   its two handshake prefixes cannot be confused with each other. *)
Definition impl_cfg : hcfg := mkCfg impl_version impl_handshake_started impl_handshake_completed.

Theorem C15_prefixes_of_code : prefixes_ok impl_cfg.
Proof. vm_compute. reflexivity. Qed.

(* For every arrival order ([interleave]: any merge of what the two reader threads send, each
   thread stopping after its Completed line) that is causally possible ([causal]: no Completed
   line is seen before the stdout Started line, because the doer prints them only after it got
   the key), with any noise lines anywhere on both streams, of a doer that announces version [v]
   and listens on port [p]:
     v is our version  -> the launch succeeds with port p and the one key that was written, and
                          that single write happened while processing the stdout Started line;
     v is anything else -> IncompatibleVersion and no key write at all. *)
Theorem C15_handshake : forall c v p no1 no2 ne1 ne2 rest_o rest_e evs,
  prefixes_ok c -> p < 65536 ->
  Forall (fun l => is_noise c l = true) no1 -> Forall (fun l => is_noise c l = true) no2 ->
  Forall (fun l => is_noise c l = true) ne1 -> Forall (fun l => is_noise c l = true) ne2 ->
  interleave (reader c (transcript c v p no1 no2 rest_o)) (reader c (transcript c v p ne1 ne2 rest_e)) evs ->
  causal evs = true ->
  (v = own_version c ->
     exists j, run c true evs = (LSuccess p O, [j]) /\
               nth_error evs j = Some (Stdout, MStarted (started_line c v))) /\
  (v <> own_version c -> run c true evs = (LIncompat v, [])).
Proof. exact handshake_theorem. Qed.

(* Any event sequence whatsoever whose first Started line (on either stream) carries another
   version: no key is ever written and the launch does not succeed; when only harmless lines came
   before, the result is IncompatibleVersion with the announced version. *)
Theorem C15_no_key_on_mismatch : forall c wok pre s l post,
  Forall not_started pre -> version_of c l <> own_version c ->
  let r := run c wok (pre ++ (s, MStarted l) :: post) in
  snd r = [] /\
  (fst r = LIncompat (version_of c l) \/ fst r = LNotPresent \/ fst r = LCommErr) /\
  (Forall harmless pre -> fst r = LIncompat (version_of c l)).
Proof. exact run_no_key_on_mismatch. Qed.

(* For any event sequence at all: every key write happens while processing a Started line on
   stdout that carries exactly our version. *)
Theorem C15_key_only_after_match : forall c wok evs r ws,
  run c wok evs = (r, ws) -> forall j, In j ws ->
  exists l, nth_error evs j = Some (Stdout, MStarted l) /\ version_of c l = own_version c.
Proof. exact run_key_only_after_match. Qed.

(* For any event sequence at all: a successful launch wrote a key for a stdout Started line with
   our version, and every Started line it passed carried our version. *)
Theorem C15_success_only_after_match : forall c evs,
  is_success (fst (run c true evs)) -> matched_launch c evs.
Proof. exact success_matched. Qed.

(* ------------------------------------------------------------------ boss and doer composed *)
(* The same statement without the [causal] premise: the loop composed with the doer side as a
   transition system (Model/LaunchSystem.v: per-stream FIFO delivery, streams independent, a
   Completed line deliverable only once the boss has written a key), for every schedule:
     safety       the loop never returns anything but Success p (our version; exactly one key
                  written by then, at most one before) resp. IncompatibleVersion v (another version;
                  no key ever written);
     no deadlock  a state in which neither stream can deliver is a state in which the loop has
                  returned Success with one key written;
     termination  every effective step consumes a message, so at most |stdout| + |stderr| of them. *)
Theorem C15_system_safe : forall c v p no1 no2 ne1 ne2 rest_o rest_e sched,
  prefixes_ok c -> p < 65536 ->
  Forall (fun l => is_noise c l = true) no1 -> Forall (fun l => is_noise c l = true) no2 ->
  Forall (fun l => is_noise c l = true) ne1 -> Forall (fun l => is_noise c l = true) ne2 ->
  let y := sys_run c sched (doer_streams c v p no1 no2 ne1 ne2 rest_o rest_e) in
  (v = own_version c ->
     (s_res y = None /\ (s_writes y <= 1)%nat) \/ (s_res y = Some (LSuccess p O) /\ s_writes y = 1%nat)) /\
  (v <> own_version c ->
     s_writes y = 0%nat /\ (s_res y = None \/ s_res y = Some (LIncompat v))).
Proof. exact system_safe. Qed.

Theorem C15_system_progress : forall c v p no1 no2 ne1 ne2 rest_o rest_e sched,
  prefixes_ok c -> p < 65536 -> v = own_version c ->
  Forall (fun l => is_noise c l = true) no1 -> Forall (fun l => is_noise c l = true) no2 ->
  Forall (fun l => is_noise c l = true) ne1 -> Forall (fun l => is_noise c l = true) ne2 ->
  let y := sys_run c sched (doer_streams c v p no1 no2 ne1 ne2 rest_o rest_e) in
  sys_stuck c y = true -> s_res y = Some (LSuccess p O) /\ s_writes y = 1%nat.
Proof. exact system_progress. Qed.

Theorem C15_system_terminates : forall c s y y',
  sys_step c s y = Some y' -> (sys_measure y' < sys_measure y)%nat.
Proof. exact sys_step_measure. Qed.

(* ------------------------------------------------------------------ launch, deploy, retry *)
(* An upload happens only with consent: --deploy ok / force, or the prompt answered "Deploy". *)
Theorem C15_deploy_consent : forall b l1 l2 c1 c2 e,
  In AUpload (fst (setup_comms_r b l1 l2 c1 c2 e)) -> consent b e.
Proof. exact setup_upload_consent. Qed.

(* --deploy error or a cancelled (or unattended) prompt: nothing is uploaded, there is no second
   launch, a connection is only ever made to a doer that matched on the first launch, and when a
   deployment would have been needed the result is an error. *)
Theorem C15_no_consent_no_upload : forall b l1 l2 c1 c2 e,
  refused b e ->
  ~ In AUpload (fst (setup_comms_r b l1 l2 c1 c2 e)) /\
  (count_action ALaunch (fst (setup_comms_r b l1 l2 c1 c2 e)) <= 1)%nat /\
  (forall n, snd (setup_comms_r b l1 l2 c1 c2 e) = SConnected n -> n = 1%nat /\ is_success l1) /\
  (needs_deploy l1 -> snd (setup_comms_r b l1 l2 c1 c2 e) = SErr).
Proof. exact setup_refused. Qed.

(* At most two launches; a connection after the second one needs an upload and a successful second
   launch; a failing second launch is an error; setup_comms never reaches the panic. *)
Theorem C15_retry_once : forall b l1 l2 c1 c2 e,
  (count_action ALaunch (fst (setup_comms_r b l1 l2 c1 c2 e)) <= 2)%nat /\
  (forall n, snd (setup_comms_r b l1 l2 c1 c2 e) = SConnected n ->
     (n = 1%nat /\ is_success l1 /\ b <> DbForce /\ count_action ALaunch (fst (setup_comms_r b l1 l2 c1 c2 e)) = 1%nat) \/
     (n = 2%nat /\ is_success l2 /\ In AUpload (fst (setup_comms_r b l1 l2 c1 c2 e)))) /\
  (count_action ALaunch (fst (setup_comms_r b l1 l2 c1 c2 e)) = 2%nat -> ~ is_success l2 -> l2 <> LBlocked ->
     snd (setup_comms_r b l1 l2 c1 c2 e) = SErr) /\
  snd (setup_comms_r b l1 l2 c1 c2 e) <> SPanic.
Proof. exact setup_retry_once. Qed.

Theorem C15_deploy_never_panics : forall b e, is_panic (snd (deploy b e)) = false.
Proof. exact deploy_no_panic. Qed.

(* Composition with the handshake: a connection (hence any sync traffic) exists only with a doer
   whose launch wrote its key for a stdout Started line carrying exactly our version. *)
Theorem C15_traffic_only_after_match : forall c b evs1 evs2 c1 c2 e,
  (forall n, snd (setup_comms c b evs1 evs2 c1 c2 e) = SConnected n ->
     (n = 1%nat /\ matched_launch c evs1) \/ (n = 2%nat /\ matched_launch c evs2)) /\
  (In AConnect (fst (setup_comms c b evs1 evs2 c1 c2 e)) -> matched_launch c evs1 \/ matched_launch c evs2).
Proof. exact traffic_only_after_match. Qed.

(* Both doers remote: the syncs run only when both sides connected; a failing source stops the
   run (exit 10) before the destination is even launched, a failing destination gives exit 11. *)
Theorem C15_both_doers : forall src dest,
  (snd (connect_both src dest) = BothConnected ->
     (exists n, snd src = SConnected n) /\ (exists n, snd dest = SConnected n)) /\
  (snd src = SErr -> connect_both src dest = (fst src, BothExit 10)) /\
  ((exists n, snd src = SConnected n) -> snd dest = SErr -> snd (connect_both src dest) = BothExit 11).
Proof. exact connect_both_facts. Qed.

(* ------------------------------------------------------------------ non-vacuity *)
Example C15_key_example :
  parse_hex_u128_be (print_hex [0;0;0;0;0;0;0;0;0;0;0;0;0;0;0;10]) = Some [0;0;0;0;0;0;0;0;0;0;0;0;0;0;0;10]
  /\ print_hex [0;1;255] = ["0";"0";"0";"1";"f";"f"]%char.
Proof. vm_compute. split; reflexivity. Qed.

(* The premises of C15_handshake hold for the running code's configuration and a stderr-first
   arrival order with noise; the conclusion is what the extracted automaton computes. *)
Example C15_handshake_example :
  let c := impl_cfg in
  let n := hlit "Warning: Permanently added"%string in
  let evs := [ (Stderr, MLine n); (Stderr, MStarted (started_line c (own_version c)));
               (Stdout, MStarted (started_line c (own_version c))); (Stdout, MLine n);
               (Stdout, MCompleted (completed_line c 40123)); (Stderr, MCompleted (completed_line c 40123)) ] in
  is_noise c n = true /\
  interleave (reader c (transcript c (own_version c) 40123 [] [n] [REof])) (reader c (transcript c (own_version c) 40123 [n] [] [])) evs /\
  causal evs = true /\ run c true evs = (LSuccess 40123 O, [2%nat]).
Proof. vm_compute. repeat split; repeat constructor. Qed.

Example C15_deploy_example :
  setup_comms_r DbPrompt LNotPresent (LSuccess 1 O) true true (mkDenv (OsOk false true) true AnsDeploy true true)
    = ([ALaunch; AOsTest; APrompt; AUpload; AChmod; ALaunch; AConnect], SConnected 2) /\
  setup_comms_r DbPrompt LNotPresent (LSuccess 1 O) true true (mkDenv (OsOk false true) true AnsCancel true true)
    = ([ALaunch; AOsTest; APrompt], SErr).
Proof. vm_compute. split; reflexivity. Qed.

Example C15_system_example :
  let c := impl_cfg in
  let y := sys_run c [Stderr; Stdout; Stderr; Stdout; Stdout; Stderr; Stderr; Stdout]
             (doer_streams c (own_version c) 40123 [] [hlit "x"%string] [hlit "motd"%string] [] [] []) in
  s_res y = Some (LSuccess 40123 O) /\ s_writes y = 1%nat /\ sys_stuck c y = true.
Proof. vm_compute. repeat split. Qed.

Print Assumptions C15_key_roundtrip.
Print Assumptions C15_system_safe.
Print Assumptions C15_handshake.
Print Assumptions C15_traffic_only_after_match.
Print Assumptions C15_retry_once.
