(* C16 - Effective settings follow the documented precedence and defaults.
   This file contains only statements, each closed by [exact], and their assumption audit. *)
From RJ Require Import Base.Prelude Model.Settings Proofs.SettingsProofs Gen.Facts.
From Coq Require Import String.

(* Precedence, for each behaviour, for every value triple. *)
Theorem C16_precedence : forall flag alld base,
  resolve_beh flag alld base = documented_rule flag alld base.
Proof. exact resolve_beh_documented. Qed.

(* ... and for every sync of a spec with any number of syncs: sources, destinations are kept,
   command-line filters replace spec-file filters, each of the five behaviours follows the rule. *)
Theorem C16_all_syncs : forall c base,
  Forall2 (sync_resolved c) (sp_syncs base) (sp_syncs (resolve_over c base)).
Proof. exact resolve_over_all_syncs. Qed.

Theorem C16_rest_of_spec : forall c base,
  sp_src_host (resolve_over c base) = sp_src_host base /\
  sp_src_user (resolve_over c base) = sp_src_user base /\
  sp_dest_host (resolve_over c base) = sp_dest_host base /\
  sp_dest_user (resolve_over c base) = sp_dest_user base /\
  sp_deploy (resolve_over c base) = match c_deploy c with Some d => d | None => sp_deploy base end.
Proof. exact resolve_over_rest. Qed.

(* A behaviour the spec file does not mention has its documented default as base value. *)
Theorem C16_absent_key_gives_default : forall kvs acc s,
  sync_fields acc kvs = Some s ->
  (forallb (fun kv => negb (key_is "dest_file_newer_behaviour" kv)) kvs = true -> s_newer s = s_newer acc) /\
  (forallb (fun kv => negb (key_is "dest_file_older_behaviour" kv)) kvs = true -> s_older s = s_older acc) /\
  (forallb (fun kv => negb (key_is "files_same_time_behaviour" kv)) kvs = true -> s_same s = s_same acc) /\
  (forallb (fun kv => negb (key_is "dest_entry_needs_deleting_behaviour" kv)) kvs = true -> s_entry s = s_entry acc) /\
  (forallb (fun kv => negb (key_is "dest_root_needs_deleting_behaviour" kv)) kvs = true -> s_root s = s_root acc) /\
  (forallb (fun kv => negb (key_is "filters" kv)) kvs = true -> s_filters s = s_filters acc).
Proof. exact sync_fields_absent. Qed.

Theorem C16_documented_defaults :
  s_newer default_sync = BPrompt /\ s_older default_sync = BAct /\ s_same default_sync = BSkip /\
  s_entry default_sync = BAct /\ s_root default_sync = BPrompt /\ sp_deploy default_spec = DPrompt /\
  s_filters default_sync = [].
Proof. exact documented_defaults. Qed.

(* The defaults of the model are the defaults of the running code (Gen/Facts.v is regenerated
   from `SyncSpec::default()` / `Spec::default()` on every run). *)
Theorem C16_defaults_match_code :
  default_sync = impl_default_sync /\ default_spec = impl_default_spec.
Proof. split; reflexivity. Qed.

Theorem C16_spec_equiv : forall c sh su dh du p q,
  p <> [] -> q <> [] ->
  resolve_spec c (Some (Some (one_sync_doc sh su dh du p q))) =
  resolve_spec (with_paths c sh su dh du p q) None.
Proof. exact spec_equiv. Qed.

Theorem C16_yaml_strict : forall y s, parse_sync_spec y = Some s ->
  exists kvs, y = YHash kvs /\
    forallb (fun kv => known_sync_key kv && sync_value_ok kv) kvs = true /\
    s_src s <> [] /\ s_dest s <> [].
Proof. exact parse_sync_spec_strict. Qed.

Theorem C16_reject_unparsable : forall c doc,
  parse_spec_doc doc = None -> resolve_spec c (Some (Some doc)) = None.
Proof. exact reject_unparsable. Qed.

(* Non-vacuity: a concrete spec file with two syncs parses, and resolution changes it. *)
Example C16_example :
  let doc := YHash [ (YString (lit "syncs"), YArray [
      YHash [ (YString (lit "src"), YString (lit "a")); (YString (lit "dest"), YString (lit "b"));
              (YString (lit "files_same_time_behaviour"), YString (lit "Error")) ];
      YHash [ (YString (lit "src"), YString (lit "c")); (YString (lit "dest"), YString (lit "d")) ] ]) ] in
  let c := mkCli None None [] None None (Some BSkip) None None None (Some AError) in
  option_map (fun s => map (fun y => (s_newer y, s_older y, s_same y, s_entry y, s_root y)) (sp_syncs s))
             (resolve_spec c (Some (Some doc)))
  = Some [ (BError, BSkip, BError, BError, BError); (BError, BSkip, BSkip, BError, BError) ].
Proof. vm_compute. reflexivity. Qed.

Print Assumptions C16_precedence.
Print Assumptions C16_all_syncs.
Print Assumptions C16_spec_equiv.
