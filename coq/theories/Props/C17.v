(* C17 - The directory walk lists every included entry exactly once and always finishes.

   "Listing a folder reports every entry beneath it that the filters keep exactly once, each folder
    before anything inside it, never descends into an excluded folder or through a symlink, and ends
    with an end-of-list marker - for every tree shape and any number of walker threads.  A read error
    on any directory surfaces as an error instead of a silently shorter listing."

   The system (Model/Walker.v): N workers (worker_main), the unbounded FIFO job queue, the counter
   num_unfinished_jobs, the bounded FIFO result queue of capacity C, the consumer (handle_get_entries).
   [reach N C root s]: s is reachable from the initial state by ANY interleaving of atomic actions.
   Every theorem is for all N >= 1, all C >= 1 (where needed), all trees, all interleavings.

   This file contains only statements, each closed by [exact], and their assumption audit. *)
From RJ Require Import Base.Prelude Model.Walker Proofs.WalkerProofs Proofs.WalkerJudge.
From Coq Require Import Permutation.
From RJ Require Model.Core Model.Fs Spec.PlanSpec Spec.Mirror Proofs.WalkBridge.

(* The reference walk is what remains of everything the workers send once the errors are removed. *)
Theorem C17_reference_walk : forall t p, map REntry (walk_spec p t) = entries_of (walk_all p t).
Proof. exact walk_spec_entries. Qed.

(* Exactly once: when the consumer sees the end of the list it has received a permutation of the
   reference walk (each included entry once, nothing else) - and the tree had no read error. *)
Theorem C17_exactly_once : forall N C, N >= 1 -> forall root s,
  reach N C root s -> cons s = CEos ->
  has_error root = false /\ Permutation (recvd s) (walk_spec [] root).
Proof. exact eos_exactly_once. Qed.

(* Each folder before anything inside it - in every reachable state, for what has been received so far. *)
Theorem C17_parent_first : forall N C root s,
  reach N C root s -> ancestors_first (recvd s).
Proof. exact reach_parent_first. Qed.

(* Never into an excluded folder or through a link: every job ever queued or held by a worker, every
   result in the queue and every received entry lies in a directory reached from the root through
   readable, real (a link is a leaf), non-excluded directories only ... *)
Theorem C17_no_descent : forall N C root s, reach N C root s ->
  Forall (jok root) (jobs (gl s)) /\ Forall (wok root) (ws s) /\
  Forall (rok root) (rq (gl s)) /\ Forall (included root) (recvd s).
Proof. exact reach_sinv. Qed.
(* ... and so does every ancestor of such a directory. *)
Theorem C17_no_descent_ancestors : forall root p t, dir_at root p t -> forall q r, p = q ++ r -> r <> [] ->
  exists ch, dir_at root q (Dir true ch).
Proof. exact dir_at_prefix. Qed.

(* Read with unique sibling names (as in a real directory): whatever is found at a non-empty prefix
   of the path of a job - or of the directory containing a result - is a real directory that the
   filters keep: not excluded, not a link. *)
Theorem C17_no_descent_unique : forall root p t, unique_names root -> dir_at root p t ->
  forall q r c, p = q ++ r -> q <> [] -> at_path root q c -> fst c = false /\ is_dir (snd c) = true.
Proof. exact no_descent_unique. Qed.

(* Always finishes: the measure [mu] decreases on every step from every state, so every execution
   is finite under every scheduler (no fairness assumption) ... *)
Theorem C17_step_decreases : forall N C s s', step N C s s' -> mu N s' < mu N s.
Proof. exact step_decreases. Qed.
Theorem C17_terminates : forall N C s, Acc (fun a b => step N C b a) s.
Proof. exact terminates. Qed.
(* ... and cannot stop early: a reachable state either has an enabled step or is final.  In particular
   a full result queue never deadlocks against the consumer, and the counter reaches 0 exactly when
   all jobs are finished (so the Done broadcast happens, and happens once). *)
Theorem C17_no_stuck : forall N C, N >= 1 -> C >= 1 -> forall root s,
  reach N C root s -> final s \/ exists s', step N C s s'.
Proof. exact no_stuck. Qed.

(* End of stream: where an execution stops, either the tree has no read error, every worker has
   exited, the consumer has seen the disconnect (= sends EndOfEntries) after the complete listing;
   or the tree has a read error and the consumer has failed. *)
Theorem C17_end_of_stream : forall N C, N >= 1 -> C >= 1 -> forall root s,
  reach N C root s -> (forall s', ~ step N C s s') ->
  (has_error root = false /\ cons s = CEos /\ Permutation (recvd s) (walk_spec [] root) /\ ws s = repeat WExit N) \/
  (has_error root = true /\ cons s = CDropped /\ Forall (blocked (gl s)) (ws s)).
Proof. exact stuck_outcome. Qed.

(* Non-vacuity of the above, for every tree: an execution that runs until nothing is enabled exists. *)
Theorem C17_some_run_finishes : forall N C, N >= 1 -> C >= 1 -> forall root,
  exists s, reach N C root s /\ final s /\ (forall s', ~ step N C s s').
Proof. intros N C HN HC root. exact (run_to_final N C HN HC root _ (r_init N C root)). Qed.

(* A read error surfaces: if a directory that has to be read cannot be read (or an entry cannot be
   examined), the consumer never reports end-of-list; without one it never fails. *)
Theorem C17_error_surfaces : forall N C, N >= 1 -> forall root s,
  reach N C root s -> has_error root = true -> cons s <> CEos.
Proof. exact error_never_eos. Qed.
Theorem C17_no_spurious_error : forall N C, N >= 1 -> forall root s,
  reach N C root s -> has_error root = false -> cons s = CRun \/ cons s = CEos.
Proof. exact noerror_never_fails. Qed.

(* The counter invariant itself, and: no worker ever panics (assert_eq!(job_sender.len(), 0) holds,
   fetch_sub never wraps). *)
Theorem C17_counter_invariant : forall N C root s, reach N C root s ->
  cnt (gl s) = sumf jdir (jobs (gl s)) + sumf inprog (ws s) + leaked (gl s).
Proof. intros N C root s H. exact (proj1 (I_C _ _ _ (reach_inv _ _ _ _ H))). Qed.
Theorem C17_no_panic : forall N C root s, reach N C root s -> forall w, In w (ws s) -> w <> WBad.
Proof. exact no_panic. Qed.

(* The extracted judge used by the tie accepts a complete listing iff it is what the theorems above
   promise, and accepts every complete listing the model can produce. *)
Theorem C17_admits_spec : forall t l, admits t true l = true <->
  has_error t = false /\ Permutation l (walk_spec [] t) /\ parent_first l.
Proof. exact admits_complete_spec. Qed.
Theorem C17_model_listing_admitted : forall N C, N >= 1 -> forall root s,
  reach N C root s -> cons s = CEos -> admits root true (recvd s) = true.
Proof. exact model_listing_admitted. Qed.

(* ... and also every failed listing: the tree has an error and what was received before the failure
   is a parents-first part of the reference walk (never something that is not an included entry). *)
Theorem C17_model_failed_listing_admitted : forall N C, N >= 1 -> forall root s,
  reach N C root s -> cons s = CErr \/ cons s = CDropped -> admits root false (recvd s) = true.
Proof. exact model_failed_listing_admitted. Qed.

(* A concrete tree (excluded folder with content, link, nested folder), its reference walk, and what
   the judge [admits] says about a good and a bad listing. *)
Example C17_example :
  let t := Dir true [ ("a"%char :: nil, (false, Dir true [ ("f"%char :: nil, (false, Leaf LFile)) ]));
                      ("s"%char :: nil, (true, Dir true [ ("g"%char :: nil, (false, Leaf LFile)) ]));
                      ("l"%char :: nil, (false, Leaf LLink)) ] in
  walk_spec [] t = [ (["a"%char :: nil], KDir); (["a"%char :: nil; "f"%char :: nil], KFile); (["l"%char :: nil], KLink) ]
  /\ admits t true [ (["l"%char :: nil], KLink); (["a"%char :: nil], KDir); (["a"%char :: nil; "f"%char :: nil], KFile) ] = true
  /\ admits t true [ (["a"%char :: nil; "f"%char :: nil], KFile); (["a"%char :: nil], KDir); (["l"%char :: nil], KLink) ] = false.
Proof. vm_compute. repeat split. Qed.

(* THE BRIDGE to the sync core (Proofs/WalkBridge.v).  [tree_of_fs incl f] is the walker's view of a
   file-system model f of the core (Model/Fs.v): the children of a folder are the keys one component
   longer, each with the filter verdict [incl] on its path; a link is a leaf; no unreadable folder.
   The reference walk of that tree lists exactly the entries the core calls visible (every strict
   non-root prefix an included real folder, the entry itself included) ... *)
Theorem C17_walk_lists_the_visible_entries : forall incl f, Fs.fget f [] = Some Fs.NFolder -> forall q k,
  In (q, k) (walk_spec [] (WalkBridge.tree_of_fs incl f)) <->
  Fs.visible incl f q = true /\ exists n, Fs.fget f q = Some n /\ k = WalkBridge.kind_of_node n.
Proof. exact WalkBridge.walk_tree_visible. Qed.

(* ... so what the consumer of the N-worker walk has received when it sees the end-of-list marker,
   completed with the entry details, is a [valid_listing] in [parents_first] order - the premise of the
   mirror, confinement, crash and idempotence theorems (C01, C02, C03, C04, C08, C12) - for every number of
   workers, queue capacity and interleaving; and every execution that runs until nothing is enabled
   ends that way. *)
Theorem C17_delivers_a_valid_listing : forall now_z incl normalize f N C s,
  N >= 1 -> Fs.fget f [] = Some Fs.NFolder ->
  reach N C (WalkBridge.tree_of_fs incl f) s -> cons s = CEos ->
  Mirror.valid_listing now_z incl normalize f (WalkBridge.with_details now_z normalize f (recvd s)) /\
  PlanSpec.parents_first (PlanSpec.lkeys (WalkBridge.with_details now_z normalize f (recvd s))).
Proof. intros now_z incl normalize. exact (WalkBridge.walker_listing_valid incl now_z normalize). Qed.
Theorem C17_every_run_ends_with_a_valid_listing : forall now_z incl normalize f N C s,
  N >= 1 -> C >= 1 -> Fs.fget f [] = Some Fs.NFolder ->
  reach N C (WalkBridge.tree_of_fs incl f) s -> (forall s', ~ step N C s s') ->
  cons s = CEos /\
  Mirror.valid_listing now_z incl normalize f (WalkBridge.with_details now_z normalize f (recvd s)) /\
  PlanSpec.parents_first (PlanSpec.lkeys (WalkBridge.with_details now_z normalize f (recvd s))).
Proof. intros now_z incl normalize. exact (WalkBridge.walker_run_ends_with_listing incl now_z normalize). Qed.

(* the bridge on a concrete tree: an excluded folder with content, a link, a nested folder *)
Example C17_bridge_example :
  let nm c := (c :: nil)%list in
  let f := [ ([], Fs.NFolder); ([nm "a"%char], Fs.NFolder); ([nm "a"%char; nm "f"%char], Fs.NFile (Fs.TSet 1) []);
             ([nm "s"%char], Fs.NFolder); ([nm "s"%char; nm "g"%char], Fs.NFile (Fs.TSet 2) []);
             ([nm "l"%char], Fs.NLink [] Core.SKFolder) ] in
  let incl p := negb (Core.path_eqb p [nm "s"%char]) in
  walk_spec [] (WalkBridge.tree_of_fs incl f) =
    [ ([nm "a"%char], KDir); ([nm "a"%char; nm "f"%char], KFile); ([nm "l"%char], KLink) ].
Proof. vm_compute. reflexivity. Qed.

Print Assumptions C17_exactly_once.
Print Assumptions C17_parent_first.
Print Assumptions C17_no_descent.
Print Assumptions C17_terminates.
Print Assumptions C17_no_stuck.
Print Assumptions C17_end_of_stream.
Print Assumptions C17_error_surfaces.
Print Assumptions C17_admits_spec.
Print Assumptions C17_model_listing_admitted.
Print Assumptions C17_model_failed_listing_admitted.
Print Assumptions C17_no_descent_unique.
Print Assumptions C17_walk_lists_the_visible_entries.
Print Assumptions C17_delivers_a_valid_listing.
Print Assumptions C17_every_run_ends_with_a_valid_listing.
