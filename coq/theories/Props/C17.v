(* C17 - The directory walk lists every included entry exactly once and always finishes.
   Only statements, each closed by [exact], and their assumption audit. *)
From RJ Require Import Base.Prelude Model.Walker Proofs.WalkerProofs.
From Coq Require Import Permutation.

(* The reference walk is what remains of everything the workers send once the errors are removed. *)
Theorem C17_reference_walk : forall t p, map REntry (walk_spec p t) = entries_of (walk_all p t).
Proof. exact walk_spec_entries. Qed.

Print Assumptions C17_reference_walk.
