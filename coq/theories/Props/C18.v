(* C18 - No input makes rjrssync crash.

   "For every tree content (any names, lengths, timestamps including pre-1970 and far-future ones,
    special files), every argument vector and every spec-file text, rjrssync ends with one of its
    documented exit statuses (0, 2 for usage errors, 10, 11, 12, 18, 19) and, when it fails, an error
    message - never a panic, an abort or a signal."

   What is PROVED here is the absence of a panic at the panic sites of the anchors that an executable
   model of this code can express, for ALL inputs of that site (no bound on plan size, file sizes,
   chunk lists, value sequences, timestamps):
     1. the progress accounting of the boss with its three debug assertions   (Model/Progress.v)
     2. the file-size histogram: bucket index and Display                      (Model/Histogram.v)
     3. entry metadata -> message -> `serialized_size(..).expect(..)`          (Model/Meta.v, Model/Bincode.v)
     4. the exit status literals of the source text                            (Gen/Facts_exits.v)
   Everything else of the property (clap, yaml-rust, regex, indicatif, env_logger, the operating
   system) is covered by the end-to-end runs of tools/props/c18.py - tests, not theorems.

   This file contains only statements, each closed by [exact], and their assumption audit. *)
From RJ Require Import Base.Prelude Model.Chunk Model.Bincode Model.Progress Model.Histogram Model.Meta
  Proofs.ChunkProofs Proofs.ProgressProofs Proofs.HistMetaProofs Proofs.C18Facts
  Gen.Facts_progress Gen.Facts_exits.
From Coq Require Import String.
Local Open Scope N_scope.

(* ---------------------------------------------------------------------------------------------- *)
(* 1. Progress accounting.

   [boss_run a detailed dry dels copies answers]: Progress::new on the plan (to_delete, to_copy), then
   every call that sync_impl / delete_dest_entry / copy_entry / copy_file make into the Progress object,
   in their order; [answers] are the replies of the source doer to the GetFileContent commands (chunk
   lengths with more_to_follow), ARBITRARY except for the premise [tail_nonempty]: only the first chunk
   of a reply may be empty.  The boss's own size checks are part of the model, so replies that do not
   add up to the listed size are covered (they end in the "size has changed" error, not in a panic).
   Premises: the plan has fewer than 2^32 entries per list (the u32 counters) and sizes are u64.
   [a] = Saturating is the code as it is (byte and work totals use saturating_add). *)

(* No panic at all: not in Progress::new, not at any marker, not at all_work_sent, no overflow. *)
Theorem C18_progress_no_panic : forall detailed dry dels copies answers,
  lenN dels < 4294967296 -> lenN copies < 4294967296 ->
  Forall entry_fits copies -> Forall tail_nonempty answers ->
  is_panic (boss_run Saturating detailed dry dels copies answers) = false.
Proof. exact progress_no_panic. Qed.

(* The two marker assertions hold after EVERY prefix of the calls (so also wherever an early return -
   a failed send, an error reported by the destination - cuts the sequence short):
   sent.delete <= total.delete and sent.copy <= total.copy, and the prefix itself ran without a panic. *)
Theorem C18_progress_assertions_hold : forall detailed dry dels copies answers,
  lenN dels < 4294967296 -> lenN copies < 4294967296 ->
  Forall entry_fits copies -> Forall tail_nonempty answers ->
  exists s0, progress_new Saturating detailed dels copies = Ok s0 /\
  forall pre post, fst (boss_calls dry dels copies answers) = pre ++ post ->
  exists s ms, exec_calls Saturating s0 pre = Ok (s, ms) /\
    ps_total s = ps_total s0 /\
    pv_delete (ps_sent s) <= pv_delete (ps_total s) /\ pv_copy (ps_sent s) <= pv_copy (ps_total s).
Proof. exact progress_prefix_invariant. Qed.

(* When the boss gets to all_work_sent (every file arrived with its listed size): total = sent. *)
Theorem C18_progress_all_sent : forall detailed dry dels copies answers,
  lenN dels < 4294967296 -> lenN copies < 4294967296 ->
  Forall entry_fits copies -> Forall tail_nonempty answers ->
  is_ok (snd (boss_calls dry dels copies answers)) = true ->
  exists s0 body s ms m,
    progress_new Saturating detailed dels copies = Ok s0 /\
    fst (boss_calls dry dels copies answers) = body ++ [KAllSent] /\
    exec_calls Saturating s0 body = Ok (s, ms) /\
    ps_total s = ps_sent s /\
    exec_call Saturating s KAllSent = Ok (s, Some m) /\ pm_phase m = PDone.
Proof. exact progress_all_sent. Qed.

(* The real reader (Model/Chunk.v read_chunks = handle_get_file_contents, for every file content and
   every short-read schedule) satisfies the premise, and a file read at its listed size is accepted. *)
Theorem C18_real_reader_satisfies_premise : forall (file : list ascii) (sched : list N) cs,
  read_chunks file sched = Some cs ->
  tail_nonempty (answer_of cs) /\ snd (file_calls (lenN file) 0 (answer_of cs)) = Ok tt.
Proof. exact reader_file_accepted. Qed.

(* Why the premise is needed: an EMPTY chunk after a complete file counts the file twice.  The real
   boss does panic on this reply (replayed through a scripted source doer by the check); the real
   doer cannot produce it (previous theorem), so no input of the property reaches it. *)
Theorem C18_trailing_empty_chunk_refuted :
  Forall entry_fits [EDFile t0 5] /\ ~ tail_nonempty [(5, true); (0, false)] /\
  boss_run Saturating false false [] [EDFile t0 5] [[(5, true); (0, false)]] = Panic e_assert_total.
Proof. exact trailing_empty_chunk_refuted. Qed.
Theorem C18_trailing_empty_chunk_marker_refuted : usual_constants ->
  boss_run Saturating true false [] [EDFile t0 10] [[(10, true); (0, true); (0, false)]] = Panic e_assert_copy.
Proof. exact trailing_empty_chunk_marker_refuted. Qed.

(* The byte totals of the statistics (saturating after the repair): never a panic. *)
Theorem C18_byte_totals_no_panic : forall sizes, Forall (fun x => x <= u64_max) sizes ->
  stats_total Saturating 0 sizes = Ok (N.min u64_max (fold_right N.add 0 sizes)).
Proof. exact stats_total_no_panic. Qed.

(* F12: before that repair (`+=` with overflow checks) three sparse files of 2^63 - 1 bytes panic. *)
Theorem C18_unfixed_totals_refuted :
  let big := EDFile t0 9223372036854775807 in
  Forall entry_fits [big; big; big] /\
  progress_new Checked false [] [big; big; big] = Panic e_add_overflow /\
  boss_run Checked false true [] [big; big; big] [] = Panic e_add_overflow /\
  stats_total Checked 0 [9223372036854775807; 9223372036854775807; 9223372036854775807] = Panic e_add_overflow /\
  (exists ms, boss_run Saturating false true [] [big; big; big] [] = Ok ms) /\
  stats_total Saturating 0 [9223372036854775807; 9223372036854775807; 9223372036854775807] = Ok u64_max.
Proof. exact unfixed_totals_refuted. Qed.

(* The model's constants are the ones the running code reports (so every theorem above is re-checked
   for whatever values the code has); [usual_constants] says they are the 1 MiB of today - only the two
   computed illustrations that mention it depend on that. *)
Theorem C18_progress_constants_match_code :
  min_file_size = impl_min_file_size /\ delete_work = impl_delete_work /\ marker_threshold = impl_marker_threshold.
Proof. exact progress_constants_match_code. Qed.

(* ---------------------------------------------------------------------------------------------- *)
(* 2. Histogram.  For EVERY bucket index (whatever `(val as f64).log10() as usize` evaluates to) the
   index is within bounds after the while loop; for every index function and every sequence of fewer
   than 2^32 - 1 values no add panics; Display never panics and divides by a positive maximum. *)
Theorem C18_hist_add_in_bounds : forall h b, hsum h + 1 < 4294967296 ->
  exists h', hist_add_at h b = Ok h' /\ b < lenN h' /\ lenN h' = N.max (lenN h) (b + 1) /\ hsum h' = hsum h + 1.
Proof. exact hist_add_at_ok. Qed.

Theorem C18_hist_adds_no_panic : forall (bucket_of : N -> N) vals h, hsum h + lenN vals < 4294967296 ->
  exists h', hist_adds bucket_of h vals = Ok h' /\ hsum h' = hsum h + lenN vals /\ (vals <> [] -> h' <> []).
Proof. exact hist_adds_ok. Qed.

Theorem C18_hist_display_total : forall h, exists lines, hist_display h = Ok lines.
Proof. exact hist_display_total. Qed.

Theorem C18_hist_display_max_positive : forall (bucket_of : N -> N) vals h,
  lenN vals < 4294967296 -> hist_adds bucket_of [] vals = Ok h -> h <> [] ->
  exists m, max_opt h = Some m /\ m = list_max h /\ 0 < m.
Proof. exact hist_display_max_positive. Qed.

(* the ideal index of a u64 is at most 19: the vector never has more than 20 buckets *)
Theorem C18_hist_bucket_bound : forall v, v <= u64_max -> bucket_ideal v <= 19.
Proof. exact bucket_ideal_u64. Qed.

(* ---------------------------------------------------------------------------------------------- *)
(* 3. Entry metadata.  Whatever lstat says about a root or a listed entry (any type, any time, any
   size): what the doer then sends - the Entry / RootDetails message, or the Error message - has a
   computable serialized size, so the expect() of memory_bound_channel.rs cannot fire; and neither can
   it for any command whose time is the time of a listed entry (CreateOrUpdateFile). *)
Theorem C18_meta_ok_encodable : forall m d, entry_of_meta true m = Ok d -> details_encodable d = true.
Proof. exact meta_ok_encodable. Qed.

Theorem C18_listed_entry_never_panics_send : forall path m, is_panic (send_listed true path m) = false.
Proof. exact send_listed_never_panics. Qed.

Theorem C18_root_never_panics_send : forall m diff sep, is_panic (send_root true m diff sep) = false.
Proof. exact send_root_never_panics. Qed.

Theorem C18_commands_from_listed_never_panic : forall listed c,
  Forall (fun d => exists m, entry_of_meta true m = Ok d) listed ->
  cmd_from_listed listed c -> is_panic (send_size_command c) = false.
Proof. exact command_from_listed_never_panics. Qed.

(* F8: the decision before the repair lets a file dated 1960 through, and sending it panics. *)
Theorem C18_pre_epoch_unfixed_refuted :
  let m := mkMeta FTFile (Some (mkTime (-315619200) 0)) 3 None in
  entry_of_meta false m = Ok (EDFile (mkTime (-315619200) 0) 3) /\
  is_panic (send_listed false [] m) = true /\
  is_panic (send_root false m false (wlit "/"%string)) = true /\
  entry_of_meta true m = Err e_pre_epoch /\
  is_panic (send_listed true [] m) = false.
Proof. exact pre_epoch_unfixed_refuted. Qed.

(* ---------------------------------------------------------------------------------------------- *)
(* 4. Exit statuses in the source text (finite facts about the generated list). *)
Theorem C18_exit_codes_boss_documented :
  impl_exit_nonliteral = 0 /\ forall c, In c impl_exit_codes_boss -> In c [0; 2; 10; 11; 12; 18; 19].
Proof. exact boss_exits_documented. Qed.

Theorem C18_exit_codes_doer_classified :
  forall c, In c impl_exit_codes_doer -> In c [0; 2; 10; 11; 12; 18; 19] \/ In c [20; 22; 23; 24; 25; 321].
Proof. exact doer_exits_classified. Qed.

(* F10 (known): a process started with --doer ends with statuses the documentation does not list;
   `std::process::exit(321)` is reported by the OS as 65. *)
Theorem C18_doer_status_refuted : forall c, In c [20; 22; 23; 24; 25; 321] -> ~ In c [0; 2; 10; 11; 12; 18; 19].
Proof. exact doer_internal_undocumented. Qed.
Theorem C18_doer_os_status : map os_status [20; 22; 23; 24; 25; 321] = [20; 22; 23; 24; 25; 65].
Proof. exact doer_internal_os_status. Qed.
Theorem C18_exits_outside_known : forall c, In c (impl_exit_codes_boss ++ impl_exit_codes_doer) ->
  ~ In c [20; 22; 23; 24; 25; 321] -> In c [0; 2; 10; 11; 12; 18; 19].
Proof. exact exits_outside_known. Qed.

(* ---------------------------------------------------------------------------------------------- *)
(* Non-vacuity: the premises are satisfiable by non-trivial inputs, with the computed results. *)
Example C18_progress_example :
  let dels := [EDFolder; EDFile t0 7] in
  let copies := [EDFolder; EDSymlink SKFile (STNormalized []); EDFile t0 0; EDFile t0 10; EDFile t0 3145728] in
  let answers := [[(0, false)]; [(4, true); (6, false)]; [(1048576, true); (2097152, false)]] in
  Forall tail_nonempty answers /\
  is_ok (boss_run Saturating true false dels copies answers) = true /\
  (usual_constants ->
   boss_run Saturating true false dels copies answers =
    Ok [mkMarker 1048576 (PDeleting 1); mkMarker 2097152 (PCopying 0 0); mkMarker 3145728 (PCopying 1 0);
        mkMarker 4194304 (PCopying 2 0); mkMarker 5242880 (PCopying 3 0); mkMarker 6291456 (PCopying 4 10);
        mkMarker 7340032 (PCopying 4 1048586); mkMarker 9437184 PDone]).
Proof. exact progress_example. Qed.

Example C18_hist_example :
  obind (hist_adds bucket_ideal [] [0; 5; 1500; 1500; 20000000]) (fun h => obind (hist_display h) (fun l => Ok (h, l)))
  = Ok ([2; 0; 0; 2; 0; 0; 0; 1],
        [plit "#  #    "%string; plit "#  #    "%string; plit "#  #   #"%string; plit "#  #   #"%string; plit "#  #   #"%string; plit "012K45M7"%string]).
Proof. exact hist_example. Qed.

Example C18_meta_example :
  entry_of_meta true (mkMeta FTFile (Some (mkTime 0 0)) 0 None) = Ok (EDFile (mkTime 0 0) 0) /\
  entry_of_meta true (mkMeta FTFile (Some (mkTime (-1) 999999999)) 5 None) = Err e_pre_epoch /\
  entry_of_meta true (mkMeta FTOther None 0 None) = Err e_file_type /\
  cmd_from_listed [EDFile (mkTime 7 1) 3] (CCreateOrUpdateFile [] [] (Some (mkTime 7 1)) false).
Proof. repeat split; try (vm_compute; reflexivity). exists 3. now left. Qed.

Print Assumptions C18_progress_no_panic.
Print Assumptions C18_progress_assertions_hold.
Print Assumptions C18_progress_all_sent.
Print Assumptions C18_real_reader_satisfies_premise.
Print Assumptions C18_hist_adds_no_panic.
Print Assumptions C18_hist_display_max_positive.
Print Assumptions C18_listed_entry_never_panics_send.
Print Assumptions C18_commands_from_listed_never_panic.
Print Assumptions C18_exit_codes_boss_documented.
Print Assumptions C18_exits_outside_known.
