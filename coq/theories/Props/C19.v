(* C19 - A deployed binary is a faithful, runnable, self-propagating copy.
   Statements only, each closed by [exact]; the proofs are in Proofs/LEProofs.v, ExeNoPanic.v,
   ElfProofs.v, PeProofs.v.  Model: Model/LE.v, Elf.v, Pe.v (exe_utils.rs on byte lists). *)
From RJ Require Import Base.Prelude Model.LE Model.Elf Model.Pe Model.ExeWitness Model.DeployFile Gen.Facts.
From RJ Require Import Proofs.LEProofs Proofs.ExeLemmas Proofs.ExeNoPanic Proofs.ExeWitnessProofs Proofs.ElfProofs Proofs.PeProofs Proofs.ExeExamples Proofs.DeployFileProofs.
From Coq Require Import String.
Local Open Scope N_scope.

(* ---------------------------------------------------------------------------------------------
   A malformed executable is rejected with an error rather than a crash (fixed code, any build mode):
   for every byte string, section name and payload each of the four functions yields Ok or Err. *)
Theorem C19_no_panic : forall (m : mode) (bytes name payload : list byte) (site : str),
  add_elf m bytes name payload <> Panic site /\ extract_elf m bytes name <> Panic site /\
  add_pe m bytes name payload <> Panic site /\ extract_pe m bytes name <> Panic site.
Proof. exact no_panic_all. Qed.

Theorem C19_total : forall (m : mode) (bytes name payload : list byte),
  ((exists r, add_elf m bytes name payload = Ok r) \/ (exists e, add_elf m bytes name payload = Err e)) /\
  ((exists r, extract_elf m bytes name = Ok r) \/ (exists e, extract_elf m bytes name = Err e)) /\
  ((exists r, add_pe m bytes name payload = Ok r) \/ (exists e, add_pe m bytes name payload = Err e)) /\
  ((exists r, extract_pe m bytes name = Ok r) \/ (exists e, extract_pe m bytes name = Err e)).
Proof. exact total_all. Qed.

(* The same statement is FALSE of the pinned code (finding F9).  Witnesses (corpus/C19/F9-*.json holds
   the same bytes; every run replays them on the real code): in both build modes ... *)
Theorem C19_no_panic_refuted : forall m : mode,
  add_pe0 m w_pe_fa0 w_name w_abc = Panic (slit "div") /\            (* FileAlignment = 0 *)
  add_pe0 m w_pe_trunc w_name w_abc = Panic (slit "index") /\        (* truncated after the section headers *)
  extract_pe0 m w_pe_split w_name_s0 = Panic (slit "split") /\       (* PointerToRawData beyond the file *)
  add_elf0 m w_elf_names_out w_name w_abc = Panic (slit "index") /\  (* names section outside the file *)
  extract_elf0 m w_elf_split w_name_text = Panic (slit "split").     (* sh_offset beyond the file *)
Proof. exact refuted_both_modes. Qed.

(* ... and depending on the build mode: overflow checks panic in debug builds, release builds wrap
   (and then either succeed with a nonsensical file or panic later). *)
Theorem C19_no_panic_refuted_release :
  add_pe0 Debug w_pe_nosec w_name w_abc = Panic (slit "sub") /\ is_ok (add_pe0 Release w_pe_nosec w_name w_abc) = true /\
  add_pe0 Debug w_pe_empty w_name [] = Panic (slit "sub") /\ is_ok (add_pe0 Release w_pe_empty w_name []) = true /\
  add_pe0 Debug w_pe_ffff w_name w_abc = Panic (slit "add") /\
  extract_elf0 Debug w_elf_shoff_max w_name_text = Panic (slit "add") /\ extract_elf0 Release w_elf_shoff_max w_name_text = Err eother /\
  add_elf0 Debug w_elf_shoff_wrap w_name w_abc = Panic (slit "add") /\ add_elf0 Release w_elf_shoff_wrap w_name w_abc = Panic (slit "split").
Proof. exact refuted_by_mode. Qed.

(* ---------------------------------------------------------------------------------------------
   Little-endian fields. *)
Theorem C19_le_roundtrip : forall (sz : nat) (v : N) (bs : list byte),
  decode_le (encode_le sz v) = v mod 256 ^ N.of_nat sz /\ encode_le (List.length bs) (decode_le bs) = bs.
Proof. exact le_roundtrip. Qed.

(* a written field is read back; other fields are untouched; the length does not change *)
Theorem C19_field_roundtrip : forall m sz bs off v bs',
  write_field true m sz bs off v = Ok bs' ->
  read_field true m sz bs' off = Ok (v mod 256 ^ N.of_nat sz) /\ lenN bs' = lenN bs.
Proof. exact field_roundtrip. Qed.

Theorem C19_field_frame : forall m sz bs off v bs' sz2 off2,
  write_field true m sz bs off v = Ok bs' ->
  off2 + N.of_nat sz2 <= off \/ off + N.of_nat sz <= off2 ->
  read_field true m sz2 bs' off2 = read_field true m sz2 bs off2.
Proof. exact field_frame. Qed.

(* The section name used by the running code (Gen/Facts.v) satisfies the name premises below. *)
Theorem C19_section_name_is_code :
  lenN impl_section_name <= 8 /\ ~ In zero impl_section_name /\ impl_section_name <> [].
Proof. exact section_name_ok. Qed.

(* ---------------------------------------------------------------------------------------------
   ELF64.  [wf_elf e] (Proofs/ElfProofs.v): the name table starts after the 64-byte ELF header, is not
   empty, ends with NUL, and every section's sh_name points into it.  Everything else a layout must
   satisfy is implied by [add_elf .. = Ok _] (magic / 64 bit / little endian / v1, section header
   table at the end of the file: e_shoff + e_shnum * e_shentsize = |e|, e_shentsize >= 40,
   e_shstrndx < e_shnum, name table before the section header table, sizes representable).
   [has_section e name]: some section's name, read the way extract_section_from_elf reads it (at most
   32 bytes), equals [name] - extraction returns the FIRST match, so the premise matters.
   [name_ok]: no NUL inside, at most 32 bytes (the read_string cap).  The size premise says the file
   is far smaller than 2^64 bytes (true of every Vec<u8>; list lengths are unbounded in the model).
   Holds for every payload (any length, any content) and every layout: any number of sections, any
   position of the names section, any e_shentsize >= 40, any gaps. *)
Theorem C19_elf_roundtrip : forall (m m' : mode) (e name p e' : list byte),
  wf_elf e -> ~ has_section e name -> name_ok name ->
  lenN e + lenN name + lenN p + 65537 < 18446744073709551616 ->
  add_elf m e name p = Ok e' -> extract_elf m' e' name = Ok p.
Proof. exact elf_roundtrip. Qed.

(* What is preserved (full statement): bytes of e' below the insertion point (the end of the name
   table) equal e's except e_shoff (0x28) and e_shnum (0x3C), which take their new values; the name and a
   NUL are inserted there; every byte from the insertion point up to the old section header table is
   found |name|+1 bytes later - so every old section's contents are found at its unchanged offset
   (sections before the insertion point) or at its offset + |name|+1 (sections behind it); the
   payload follows, then the new section header table, in which every old section header is kept byte
   for byte except sh_offset of the sections listed after the names section (+ |name|+1) and sh_size of
   the names section (+ |name|+1).  (Whether "listed after the names section" coincides with "lies
   behind the insertion point in the file" is a property of the input layout, true of linker output
   and checked on the real binary; the theorem states what the code does for every layout.)
   Not claimed: program headers (the loader's view) - they are untouched iff they lie below the
   insertion point, which the check verifies on the real binary before running it. *)
Theorem C19_elf_preserves : forall (m : mode) (e name p e' : list byte),
  wf_elf e ->
  lenN e + lenN name + lenN p + 65537 < 18446744073709551616 ->
  add_elf m e name p = Ok e' ->
  let shoff := e_shoff e in let se := e_shentsize e in let shnum := e_shnum e in let sx := e_shstrndx e in
  let pos := names_off e + names_size e in let k := lenN name + 1 in
  lenN e = shoff + shnum * se /\ pos <= shoff /\ sx < shnum /\ 40 <= se /\
  (forall o n, o + n <= pos -> (o + n <= 40 \/ 48 <= o) -> (o + n <= 60 \/ 62 <= o) -> subN e' o n = subN e o n) /\
  fieldN e' 40 8 = shoff + k + lenN p /\ fieldN e' 60 2 = shnum + 1 /\
  subN e' pos k = name ++ [zero] /\
  (forall o n, pos <= o -> o + n <= shoff -> subN e' (o + k) n = subN e o n) /\
  subN e' (shoff + k) (lenN p) = p /\
  lenN e' = shoff + k + lenN p + (shnum + 1) * se /\
  (forall o n, (forall j, sx < j < shnum -> o + n <= j * se + 24 \/ j * se + 32 <= o) ->
               (o + n <= sx * se + 32 \/ sx * se + 40 <= o) -> o + n <= shnum * se ->
               subN e' (shoff + k + lenN p + o) n = subN e (shoff + o) n) /\
  (forall j, sx < j < shnum -> fieldN e' (shoff + k + lenN p + (j * se + 24)) 8 = sh_field e j 24 8 + k) /\
  fieldN e' (shoff + k + lenN p + (sx * se + 32)) 8 = names_size e + k.
Proof. exact elf_preserves. Qed.

(* ---------------------------------------------------------------------------------------------
   PE.  [wf_pe e]: e_lfanew >= 64 (the PE header does not overlap the DOS header's e_lfanew field) and
   SizeOfOptionalHeader >= 64 (SizeOfImage / SizeOfHeaders lie inside the optional header, before the
   section headers).  Everything else is implied by [add_pe .. = Ok _] (signature, at least one
   section, non-zero alignments, room for the new header, sizes representable in 32 bits).
   [pe_has_section]: some section header's 8-byte name field reads as [name] (first match wins).
   One theorem covers both layouts - a gap of >= 40 bytes after the section headers, or the contents
   moved up by align(40, FileAlignment) - and every payload size, including the empty payload. *)
Theorem C19_pe_roundtrip : forall (m m' : mode) (e name p e' : list byte),
  wf_pe e -> ~ pe_has_section e name -> pe_name_ok name ->
  add_pe m e name p = Ok e' ->
  exists pad, extract_pe m' e' name = Ok (p ++ zerosN pad) /\ pad < pe_fa e.
Proof. exact pe_roundtrip. Qed.

(* Every old section header still points at the same bytes: there is a [shift] (0 in the gap layout, a
   multiple of FileAlignment >= 40 otherwise) such that every PointerToRawData grew by [shift], every
   other byte of every old section header is unchanged, every byte of the file from the end of the
   section headers on (from 40 bytes later in the gap layout, where the new header takes the place of
   padding) is found [shift] bytes later, and below the section headers only NumberOfSections,
   SizeOfImage and SizeOfHeaders change.  Hence a section whose raw data lies behind the headers (as
   in every valid PE: PointerToRawData >= SizeOfHeaders) is found unaltered at its new
   PointerToRawData.  Not claimed: the Windows loader's view (SizeOfImage / VirtualAddress of the new
   section are computed by the model exactly as by the code, but no loader model exists here). *)
Theorem C19_pe_sections : forall (m : mode) (e name p e' : list byte),
  wf_pe e -> add_pe m e name p = Ok e' ->
  let fh := pe_fh e in let oh := pe_oh e in let sh := pe_sh e in let n := pe_n e in let hend := pe_hend e in
  exists shift, (shift = 0 \/ 40 <= shift) /\
  (forall j, j < n -> fieldN e' (sh + j * 40 + 20) 4 = pe_ptr e j + shift) /\
  (forall j x k, j < n -> x + k <= 20 \/ (24 <= x /\ x + k <= 40) -> subN e' (sh + j * 40 + x) k = subN e (sh + j * 40 + x) k) /\
  (forall o k, hend + (if shift =? 0 then 40 else 0) <= o -> o + k <= lenN e -> subN e' (o + shift) k = subN e o k) /\
  (forall o k, o + k <= sh -> (o + k <= fh + 2 \/ fh + 4 <= o) -> (o + k <= oh + 56 \/ oh + 64 <= o) -> subN e' o k = subN e o k) /\
  fieldN e' (fh + 2) 2 = n + 1.
Proof. exact pe_sections. Qed.

(* ---------------------------------------------------------------------------------------------
   Non-vacuity: the premises hold for concrete small files, both PE layouts occur, and the
   functions really produce / read back something. *)
Example C19_example_elf :
  wf_elf w_elf_ok /\ ~ has_section w_elf_ok w_name /\ name_ok w_name /\
  exists e', add_elf Debug w_elf_ok w_name w_abc = Ok e' /\ extract_elf Release e' w_name = Ok w_abc /\
             lenN e' = lenN w_elf_ok + 9 + 3 + 64.
Proof. exact example_elf. Qed.

Example C19_example_pe :
  wf_pe w_pe_ok /\ ~ pe_has_section w_pe_ok w_name /\ wf_pe w_pe16_ok /\ ~ pe_has_section w_pe16_ok w_name /\
  (exists e', add_pe Debug w_pe_ok w_name w_abc = Ok e' /\ lenN e' = lenN w_pe_ok + 512 /\
              extract_pe Debug e' w_name = Ok (w_abc ++ zerosN 509)) /\
  (exists e', add_pe Debug w_pe16_ok w_name [] = Ok e' /\ lenN e' = lenN w_pe16_ok + 48 /\
              extract_pe Debug e' w_name = Ok []).
Proof. exact example_pe. Qed.

(* ---------------------------------------------------------------------------------------------
   "The binary that deployment places on a remote starts": the permission-bit side of it
   (Model/DeployFile.v).  After the steps of a deployment to a unix remote - upload with scp, chmod +x,
   launch - the program file has the owner's x bit and the launch starts it: for both ways of staging
   the binary (a copy of the running program / a generated big binary written as a new 0o666 file),
   every mode of the running program, every umask of the boss, a remote file that is new or replaces
   an existing one of any mode, as owner or as root; the only premise is that the remote umask does
   not mask the owner's x bit.  That the steps are those of the code, that the staged file has the
   modelled mode and that scp/chmod/exec behave as modelled is the differential run against the
   fake remote (tools/deploy_lib.py), not a theorem. *)
Theorem C19_deployed_file_executable :
  forall (native root : bool) (self_mode bumask rumask : N) (existing : option N),
  N.testbit rumask 6 = false ->
  deploy_file false native root self_mode bumask rumask existing =
    mkWorld (Some (chmod_plus_x (scp_mode existing (staged_mode (choose_staging native) self_mode bumask) rumask) rumask))
            (Some true).
Proof. exact deployed_file_starts. Qed.

Theorem C19_deploy_steps : deploy_steps false = [SScp; SChmod; SLaunch] /\ deploy_steps true = [SScp; SLaunch].
Proof. exact deploy_steps_shape. Qed.

(* The chmod step is what makes it true: without it a generated binary uploaded as a new file never
   starts (whatever the umasks), while a copy of the running program does - which is why a
   same-platform deployment cannot show a missing chmod. *)
Theorem C19_chmod_needed : forall (root : bool) (self_mode bumask rumask : N),
  w_started (run_steps false root (staged_mode (choose_staging false) self_mode bumask) rumask
                       (mkWorld None None) [SScp; SLaunch]) = Some false.
Proof. exact chmod_needed. Qed.

Theorem C19_copyself_hides_chmod : forall (root : bool) (self_mode bumask rumask : N),
  N.testbit self_mode 6 = true -> N.testbit rumask 6 = false ->
  w_started (run_steps false root (staged_mode (choose_staging true) self_mode bumask) rumask
                       (mkWorld None None) [SScp; SLaunch]) = Some true.
Proof. exact copyself_hides_chmod. Qed.

Example C19_example_deploy :
  deploy_trace false false true 493 18 18 None =
    (420, [(SScp, mkWorld (Some 420) None); (SChmod, mkWorld (Some 493) None); (SLaunch, mkWorld (Some 493) (Some true))]) /\
  deploy_trace false true true 493 18 18 None =
    (493, [(SScp, mkWorld (Some 493) None); (SChmod, mkWorld (Some 493) None); (SLaunch, mkWorld (Some 493) (Some true))]) /\
  deploy_trace true false true 493 18 18 None =
    (420, [(SScp, mkWorld (Some 420) None); (SLaunch, mkWorld (Some 420) (Some true))]).
Proof. exact deploy_example. Qed.

Print Assumptions C19_no_panic.
Print Assumptions C19_elf_roundtrip.
Print Assumptions C19_pe_roundtrip.
Print Assumptions C19_pe_sections.
Print Assumptions C19_no_panic_refuted.
Print Assumptions C19_deployed_file_executable.
Print Assumptions C19_chmod_needed.
