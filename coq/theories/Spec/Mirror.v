(* What "the destination is a mirror of the source" means (C01), and what a listing must satisfy. *)
From RJ Require Import Base.Prelude Base.OrderedPlan Model.Settings Model.Core Model.Fs Spec.PlanSpec.

Section MirrorSpec.
Variable now_z : N -> Z.
Variable incl : path -> bool.
Variable normalize : str -> target.
Notation entry_of := (entry_of now_z normalize).

(* A listing of tree f under the filter verdict incl: duplicate-free, never the root, and exactly the
   visible entries (every strict non-root prefix is an included folder, the entry itself is included)
   with their details.  This is what C17 states about the walker and C06 about the filter. *)
Definition valid_listing (f : fs) (L : listing) : Prop :=
  NoDup (lkeys L) /\ ~ In [] (lkeys L) /\
  forall p e, In (p, e) L <-> (visible incl f p = true /\ exists n, fget f p = Some n /\ e = entry_of n).

(* the entries one side reports: the root object, then (for a folder root) its listing *)
Definition side_listing (f : fs) (L : listing) : listing :=
  match fget f [] with
  | Some n => ([], entry_of n) :: match n with NFolder => L | _ => [] end
  | None => []
  end.

(* p takes part in the sync on tree f: it is the root, or a visible entry below a folder root *)
Definition takes_part (f : fs) (p : path) : Prop :=
  p = [] \/ (fget f [] = Some NFolder /\ visible incl f p = true).

(* Mirror, pointwise.  fl is the destination flavour, diff whether it distinguishes file from folder links. *)
Definition mirror_at (diff : bool) (fl : flavour) (S D D' : fs) (p : path) : Prop :=
  match fget S p with
  | None => fget D' p = None
  | Some NFolder => fget D' p = Some NFolder
  | Some (NLink t k) => exists t' k', fget D' p = Some (NLink t' k') /\ normalize t' = normalize t /\
                                       (diff = false \/ k' = k)
  | Some (NFile m b) =>
      fget D' p = Some (NFile m b) \/
      (exists b0 m0, fget D p = Some (NFile m0 b0) /\ stamp_z now_z m0 = stamp_z now_z m /\ fget D' p = fget D p)
  end.

Definition mirror (diff : bool) (fl : flavour) (S D D' : fs) : Prop :=
  forall p,
    ((takes_part S p /\ fget S p <> None) \/ (takes_part D p /\ fget D p <> None) -> mirror_at diff fl S D D' p) /\
    (~ (takes_part S p /\ fget S p <> None) -> ~ (takes_part D p /\ fget D p <> None) -> fget D' p = fget D p).

End MirrorSpec.
