(* The decisions as functions of the two complete listings alone (DESIGN Appendix B). *)
From RJ Require Import Base.Prelude Base.OrderedPlan Model.Settings Model.Core.

Definition listing := list (path * entry).
Definition lkeys (l : listing) : list path := map fst l.

Definition copy_dec (diff ss : bool) (Ld : listing) : path * entry -> list (path * (entry * creason)) :=
  copy_decision path path_eq_dec entry (needs_delete diff) (needs_copy ss) Ld.
Definition delete_dec (diff : bool) (Ls : listing) : path * entry -> list (path * (entry * dreason)) :=
  delete_decision path path_eq_dec entry (needs_delete diff) Ls.

Definition plan_spec (diff ss : bool) (Ls Ld : listing) : actions :=
  mkActions (rev (flat_map (delete_dec diff Ls) Ld)) (flat_map (copy_dec diff ss Ld) Ls).

(* a occurs in l and b occurs strictly later *)
Inductive before {A} (a b : A) : list A -> Prop :=
| before_here l : In b l -> before a b (a :: l)
| before_skip x l : before a b l -> before a b (x :: l).

Definition parents_first (l : list path) : Prop :=
  forall a b, In a l -> In b l -> is_strict_prefix a b = true -> before a b l.
Definition children_first (l : list path) : Prop :=
  forall a b, In a l -> In b l -> is_strict_prefix a b = true -> before b a l.
