(* Design spike for C07 (and the proof pattern of C09/C14/C17):
   the boss's asynchronous error collection against a doer that answers in FIFO order.
   Safety for every interleaving + termination for every scheduler via a measure. *)
From Coq Require Import List Bool Arith Lia.
Import ListNotations.

Inductive cmd := COp (fails:bool) | CMark (done:bool).
Inductive resp := RErr | RMark (done:bool).
Inductive phase := Sending | Polling | Waiting | Drain | RetOk | RetErr.

Record st := { todo : list cmd; cq : list cmd; rq : list resp; ph : phase; errs : bool }.

Definition respond (c:cmd) : list resp :=
  match c with COp true => [RErr] | COp false => [] | CMark d => [RMark d] end.
Definition has_err (l:list resp) := existsb (fun r => match r with RErr => true | _ => false end) l.

(* boss_sync.rs:61-118, 296-325 and doer.rs:336-361, one atomic action per step *)
Inductive step : st -> st -> Prop :=
| s_send c t s : ph s = Sending -> todo s = c :: t ->
    step s {| todo := t; cq := cq s ++ [c]; rq := rq s; ph := match t with [] => Waiting | _ => Polling end; errs := errs s |}
| s_poll s : ph s = Polling ->          (* process_dest_responses(.., false): drain what is there *)
    step s {| todo := todo s; cq := cq s; rq := []; ph := if has_err (rq s) then RetErr else Sending; errs := errs s |}
| s_wait_err s t : ph s = Waiting -> rq s = RErr :: t ->
    step s {| todo := todo s; cq := cq s; rq := t; ph := Drain; errs := true |}
| s_wait_mark s d t : ph s = Waiting -> rq s = RMark d :: t ->
    step s {| todo := todo s; cq := cq s; rq := t;
              ph := if d then (if errs s then RetErr else RetOk) else Waiting; errs := errs s |}
| s_drain s : ph s = Drain ->
    step s {| todo := todo s; cq := cq s; rq := []; ph := RetErr; errs := true |}
| s_doer c t s : cq s = c :: t ->
    step s {| todo := todo s; cq := t; rq := rq s ++ respond c; ph := ph s; errs := errs s |}.

Definition init (ops:list bool) : st :=
  {| todo := map COp ops ++ [CMark true]; cq := []; rq := []; ph := Sending; errs := false |}.

Inductive reach (ops:list bool) : st -> Prop :=
| r_init : reach ops (init ops)
| r_step s s' : reach ops s -> step s s' -> reach ops s'.

(* everything still "in the pipe", in FIFO order as responses *)
Definition pipe (s:st) : list resp := rq s ++ flat_map respond (cq s) ++ flat_map respond (todo s).
Arguments pipe : simpl never.
Definition done_last (l:list resp) := exists pre, l = pre ++ [RMark true] /\ Forall (fun r => r <> RMark true) pre.

(* Invariant: while the boss has not returned, either an error has been recorded/is still in the pipe
   in front of the Done echo, or no sent command failed. *)
Definition Inv (ops:list bool) (s:st) : Prop :=
  match ph s with
  | RetOk => ~ In true ops
  | RetErr => True
  | Drain => True
  | _ => done_last (pipe s) /\ (In true ops -> errs s = true \/ In RErr (pipe s))
  end /\
  ((ph s = Sending \/ ph s = Polling) -> exists t0, todo s = t0 ++ [CMark true]) /\
  (ph s = Waiting -> todo s = []).

Lemma has_err_In l : has_err l = true <-> In RErr l.
Proof. unfold has_err. rewrite existsb_exists. split.
  - intros (r & Hin & Hr). destruct r; try discriminate. auto.
  - intros H. exists RErr. auto. Qed.

Lemma respond_COp_map ops : In RErr (flat_map respond (map COp ops)) <-> In true ops.
Proof. induction ops as [|[|] ops IH]; simpl; [tauto|tauto|]. rewrite IH. split; auto. intros [H|H]; [discriminate|auto]. Qed.
Lemma respond_no_done ops : Forall (fun r => r <> RMark true) (flat_map respond (map COp ops)).
Proof. induction ops as [|[|] ops IH]; simpl; auto. constructor; auto. discriminate. Qed.

Lemma inv_init ops : Inv ops (init ops).
Proof. unfold Inv, init, pipe; simpl. split; [split|split].
  - exists (flat_map respond (map COp ops)). rewrite flat_map_app. simpl. split; auto. apply respond_no_done.
  - intros H. right. rewrite flat_map_app, in_app_iff. left. apply respond_COp_map; auto.
  - intros _. eexists; reflexivity.
  - discriminate. Qed.

Lemma done_last_cons_mark l : done_last (RMark true :: l) -> l = [].
Proof. intros (pre & E & F). destruct pre as [|x pre]; simpl in E; inversion E; subst; auto.
  inversion F; subst. exfalso; auto. Qed.
Lemma done_last_tail r l : r <> RMark true -> done_last (r :: l) -> done_last l.
Proof. intros Hr (pre & E & F). destruct pre as [|x pre]; simpl in E; inversion E; subst.
  - congruence.
  - inversion F; subst. exists pre; auto. Qed.

Lemma pipe_send s c t p e : todo s = c :: t ->
  pipe {| todo := t; cq := cq s ++ [c]; rq := rq s; ph := p; errs := e |} = pipe s.
Proof. intros H. unfold pipe; simpl. rewrite H, flat_map_app; simpl. rewrite app_nil_r, <- !app_assoc. reflexivity. Qed.
Lemma pipe_doer s c t p e : cq s = c :: t ->
  pipe {| todo := todo s; cq := t; rq := rq s ++ respond c; ph := p; errs := e |} = pipe s.
Proof. intros H. unfold pipe; simpl. rewrite H; simpl. rewrite <- !app_assoc. reflexivity. Qed.
Lemma pipe_rq s r p e : pipe {| todo := todo s; cq := cq s; rq := r; ph := p; errs := e |} =
  r ++ flat_map respond (cq s) ++ flat_map respond (todo s).
Proof. reflexivity. Qed.

Lemma done_last_drop l1 l2 : has_err l1 = false -> done_last (l1 ++ l2) -> Forall (fun r => r <> RMark true) l1 -> done_last l2.
Proof. induction l1 as [|r l1 IH]; simpl; auto. intros He HD HF. inversion HF; subst.
  apply IH; auto. - destruct r; try discriminate; auto. - eapply done_last_tail; eauto. Qed.

Lemma done_last_prefix_clean l1 l2 : l2 <> [] -> done_last (l1 ++ l2) -> Forall (fun r => r <> RMark true) l1.
Proof. induction l1 as [|r l1 IH]; simpl; auto. intros Hne HD. constructor.
  - intros ->. apply done_last_cons_mark in HD. destruct l1; simpl in HD; subst; auto; discriminate.
  - apply IH; auto. eapply done_last_tail; eauto. intros ->. apply done_last_cons_mark in HD. destruct l1; simpl in HD; subst; auto; discriminate. Qed.

Lemma inv_step ops s s' : Inv ops s -> step s s' -> Inv ops s'.
Proof.
  intros [HI [HT HW]] Hs. destruct Hs; unfold Inv in *; cbn [ph errs todo].
  - (* send: the pipe is unchanged *)
    rewrite H in HI. destruct (HT (or_introl H)) as (t0 & Et). rewrite H0 in Et.
    destruct t as [|c' t'].
    + rewrite (pipe_send _ _ _ _ _ H0). split; [exact HI|split; [intros [|]; discriminate|auto]].
    + rewrite (pipe_send _ _ _ _ _ H0). split; [exact HI|split; [|discriminate]].
      intros _. destruct t0 as [|x t0]; simpl in Et; [destruct t'; discriminate|]. injection Et as _ Et. eauto.
  - (* poll *)
    rewrite H in HI. destruct HI as [HD HE]. destruct (HT (or_intror H)) as (t0 & Et).
    destruct (has_err (rq s)) eqn:Herr; [split; [auto|split; [intros [|]; discriminate|discriminate]]|].
    rewrite pipe_rq; simpl. unfold pipe in HD, HE.
    assert (Hne : flat_map respond (cq s) ++ flat_map respond (todo s) <> []).
    { rewrite Et, flat_map_app; simpl. intro E0. apply app_eq_nil in E0 as [_ E0]. apply app_eq_nil in E0 as [_ E0]. discriminate. }
    split; [split|split; [eauto|discriminate]].
    + eapply done_last_drop; eauto. eapply done_last_prefix_clean; eauto.
    + intros Hin. destruct (HE Hin) as [?|Hp]; auto. right. rewrite in_app_iff in Hp. destruct Hp; auto.
      apply has_err_In in H0. congruence.
  - (* wait: error *) split; [auto|split; [intros [|]; discriminate|discriminate]].
  - (* wait: marker *)
    rewrite H in HI. destruct HI as [HD HE]. unfold pipe in HD, HE. rewrite H0 in *; simpl in *.
    destruct d.
    + apply done_last_cons_mark in HD. split; [|split; [destruct (errs s); intros [|]; discriminate|destruct (errs s); discriminate]].
      destruct (errs s) eqn:Ee; auto.
      intros Hin. destruct (HE Hin) as [|[|Hp]]; try discriminate. rewrite HD in Hp. destruct Hp.
    + rewrite pipe_rq. split; [split|split; [intros [|]; discriminate|auto]]; [eapply done_last_tail; eauto; discriminate|].
      intros Hin. destruct (HE Hin) as [|[|]]; auto; discriminate.
  - (* drain *) split; [auto|split; [intros [|]; discriminate|discriminate]].
  - (* doer: the pipe is unchanged *)
    split; [|auto]. destruct (ph s); auto; rewrite (pipe_doer _ _ _ _ _ H); exact HI.
Qed.

Lemma reach_inv ops s : reach ops s -> Inv ops s.
Proof. induction 1; [apply inv_init|eapply inv_step; eauto]. Qed.

Theorem all_errors_seen ops s : reach ops s -> ph s = RetOk -> ~ In true ops.
Proof. intros Hr Hp. destruct (reach_inv _ _ Hr) as [HI _]. rewrite Hp in HI. exact HI. Qed.

(* ---- termination for every scheduler ---- *)
Definition pw (p:phase) := match p with Sending => 1 | Polling => 2 | Waiting => 1 | Drain => 1 | _ => 0 end.
Definition mu (s:st) := 6 * length (todo s) + 2 * length (cq s) + length (rq s) + pw (ph s).
Lemma respond_len c : length (respond c) <= 1.
Proof. destruct c as [[|]|]; simpl; lia. Qed.
Theorem step_decreases s s' : step s s' -> mu s' < mu s.
Proof. intros H. destruct H; unfold mu; simpl; rewrite ?H, ?H0; simpl.
  - rewrite app_length; simpl. destruct t; simpl; lia.
  - destruct (has_err (rq s)); simpl; lia.
  - lia.
  - destruct d; [destruct (errs s)|]; simpl; lia.
  - lia.
  - rewrite app_length. pose proof (respond_len c). lia.
Qed.
Corollary terminates s : Acc (fun a b => step b a) s.
Proof. apply (well_founded_lt_compat _ mu). intros a b H. apply step_decreases; exact H. Qed.

(* no reachable non-final state is stuck (the doer is alive and the Done echo is in the pipe) *)
Theorem no_stuck ops s : reach ops s -> ph s = RetOk \/ ph s = RetErr \/ exists s', step s s'.
Proof.
  intros Hr. destruct (reach_inv _ _ Hr) as [HI [HT HW]].
  destruct (ph s) eqn:Hp; auto; right; right.
  - destruct (HT (or_introl eq_refl)) as (t0 & Et).
    destruct (todo s) as [|c t] eqn:Ht; [destruct t0; discriminate|]. eexists; eapply s_send; eauto.
  - eexists; eapply s_poll; eauto.
  - (* Waiting: either a response is there, or the doer still has a command, since Done is in the pipe *)
    destruct HI as [HD _]. unfold pipe in HD. rewrite (HW eq_refl) in HD. simpl in HD. rewrite app_nil_r in HD.
    destruct (rq s) as [|r t] eqn:Hr'.
    + destruct (cq s) as [|c t] eqn:Hc; [|eexists; eapply s_doer; eauto].
      exfalso. destruct HD as (pre & E & _). destruct pre; discriminate.
    + destruct r; [eexists; eapply s_wait_err; eauto|eexists; eapply s_wait_mark; eauto].
  - eexists; eapply s_drain; eauto.
Qed.
Print Assumptions all_errors_seen.
Print Assumptions terminates.
Print Assumptions no_stuck.
