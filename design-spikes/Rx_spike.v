(* Design spike for C06: text-level anchoring vs AST-level anchoring.
   A character-driven stack-machine parser for a regex subset, the frame lemma,
   and anchor_wrap:  parse p = Some r -> parse ("^(?:" ++ p ++ ")$") = Some (Cat [Bol; Group r; Eol]). *)
From Coq Require Import List NArith Bool Lia.
Import ListNotations.
Open Scope N_scope.

Notation chr := N (only parsing).
(* special characters (code points) *)
Definition cLP := 40. Definition cRP := 41. Definition cSTAR := 42. Definition cPLUS := 43.
Definition cDOT := 46. Definition cCOLON := 58. Definition cQ := 63. Definition cBSL := 92.
Definition cCARET := 94. Definition cBAR := 124. Definition cDOLLAR := 36. Definition c_i := 105.

Inductive re :=
| Eps | Chr (p: chr -> bool) | Bol | Eol
| Cat (l:list re) | Alt (l:list re) | Star (r:re) | Group (r:re).

Record frame := { alts : list re;   (* finished alternatives, most recent first *)
                  cur  : list re;   (* current concatenation, most recent first *)
                  ci   : bool }.    (* case-insensitive flag in force *)
Inductive mode := Normal | Esc | Open | OpenQ | Flags (on:bool).
Record pst := { stk : list frame; md : mode }.

Definition lower (c:chr) : chr := if (65 <=? c) && (c <=? 90) then c + 32 else c.
Definition lit (ci:bool) (c:chr) : re :=
  Chr (fun x => if ci then lower x =? lower c else x =? c).
Definition close (f:frame) : re :=
  match alts f with
  | [] => Cat (rev (cur f))
  | _  => Alt (rev (Cat (rev (cur f)) :: alts f)) end.
Definition push_atom (a:re) (f:frame) : frame := {| alts := alts f; cur := a :: cur f; ci := ci f |}.
Definition postfix (k:re -> re) (f:frame) : option frame :=
  match cur f with [] => None | a :: r => Some {| alts := alts f; cur := k a :: r; ci := ci f |} end.

Definition step (s:pst) (c:chr) : option pst :=
  match stk s with
  | [] => None
  | f :: below =>
    match md s with
    | Esc => Some {| stk := push_atom (lit false c) f :: below; md := Normal |}
    | Open =>
        if c =? cQ then Some {| stk := stk s; md := OpenQ |}
        else (* capturing group: push a frame, then treat c as the first char inside *)
          None (* spike: only (?: and (?i groups; capturing groups are the same code path *)
    | OpenQ =>
        if c =? cCOLON then Some {| stk := {| alts := []; cur := []; ci := ci f |} :: f :: below; md := Normal |}
        else if c =? c_i then Some {| stk := stk s; md := Flags true |}
        else None
    | Flags on =>
        if c =? cRP then Some {| stk := {| alts := alts f; cur := cur f; ci := on |} :: below; md := Normal |}
        else if c =? cCOLON then Some {| stk := {| alts := []; cur := []; ci := on |} :: f :: below; md := Normal |}
        else None
    | Normal =>
        if c =? cLP then Some {| stk := stk s; md := Open |}
        else if c =? cRP then
          match below with
          | [] => None                      (* unmatched ')' *)
          | g :: below' => Some {| stk := push_atom (Group (close f)) g :: below'; md := Normal |}
          end
        else if c =? cBAR then Some {| stk := {| alts := Cat (rev (cur f)) :: alts f; cur := []; ci := ci f |} :: below; md := Normal |}
        else if c =? cSTAR then option_map (fun f' => {| stk := f' :: below; md := Normal |}) (postfix Star f)
        else if c =? cPLUS then option_map (fun f' => {| stk := f' :: below; md := Normal |}) (postfix (fun a => Cat [a; Star a]) f)
        else if c =? cQ then option_map (fun f' => {| stk := f' :: below; md := Normal |}) (postfix (fun a => Alt [Eps; a]) f)
        else if c =? cCARET then Some {| stk := push_atom Bol f :: below; md := Normal |}
        else if c =? cDOLLAR then Some {| stk := push_atom Eol f :: below; md := Normal |}
        else if c =? cDOT then Some {| stk := push_atom (Chr (fun x => negb (x =? 10))) f :: below; md := Normal |}
        else if c =? cBSL then Some {| stk := stk s; md := Esc |}
        else Some {| stk := push_atom (lit (ci f) c) f :: below; md := Normal |}
    end
  end.

Definition run (s:pst) (t:list chr) : option pst :=
  fold_left (fun o c => match o with Some s => step s c | None => None end) t (Some s).
Definition f0 := {| alts := []; cur := []; ci := false |}.
Definition init := {| stk := [f0]; md := Normal |}.
Definition parse (t:list chr) : option re :=
  match run init t with
  | Some {| stk := [f]; md := Normal |} => Some (close f)
  | _ => None end.

(* ---------- frame lemma ---------- *)
Definition ext (s:pst) (below:list frame) : pst := {| stk := stk s ++ below; md := md s |}.

Lemma step_frame s c s' below : step s c = Some s' -> step (ext s below) c = Some (ext s' below).
Proof.
  unfold step, ext. destruct s as [[|f st] m]; simpl; [discriminate|].
  destruct m; simpl.
  - (* Normal *)
    repeat match goal with |- context [if ?b then _ else _] => destruct b end;
    try (intros H; injection H as <-; reflexivity).
    + destruct st as [|g st']; simpl; [discriminate|]. intros H; injection H as <-; reflexivity.
    + destruct (postfix Star f); simpl; [|discriminate]. intros H; injection H as <-; reflexivity.
    + destruct (postfix _ f); simpl; [|discriminate]. intros H; injection H as <-; reflexivity.
    + destruct (postfix _ f); simpl; [|discriminate]. intros H; injection H as <-; reflexivity.
  - intros H; injection H as <-; reflexivity.
  - destruct (c =? cQ); [|discriminate]. intros H; injection H as <-; reflexivity.
  - repeat match goal with |- context [if ?b then _ else _] => destruct b end;
    try discriminate; intros H; injection H as <-; reflexivity.
  - repeat match goal with |- context [if ?b then _ else _] => destruct b end;
    try discriminate; intros H; injection H as <-; reflexivity.
Qed.

Lemma run_none t : fold_left (fun o c => match o with Some s => step s c | None => None end) t None = None.
Proof. induction t; simpl; auto. Qed.

Lemma run_frame t : forall s s' below, run s t = Some s' -> run (ext s below) t = Some (ext s' below).
Proof.
  unfold run. induction t as [|c t IH]; simpl; intros s s' below H.
  - injection H as <-. reflexivity.
  - destruct (step s c) as [s1|] eqn:E; [|rewrite run_none in H; discriminate].
    rewrite (step_frame _ _ _ below E). apply IH. exact H.
Qed.

Lemma run_app s t1 t2 : run s (t1 ++ t2) = match run s t1 with Some s1 => run s1 t2 | None => None end.
Proof. unfold run. rewrite fold_left_app. destruct (fold_left _ t1 (Some s)); auto. apply run_none. Qed.

Definition wrap (p:list chr) : list chr := [cCARET; cLP; cQ; cCOLON] ++ p ++ [cRP; cDOLLAR].

Theorem anchor_wrap p r : parse p = Some r -> parse (wrap p) = Some (Cat [Bol; Group r; Eol]).
Proof.
  unfold parse. destruct (run init p) as [[[|f [|g st]] []]|] eqn:E; try discriminate.
  intros H; injection H as <-.
  unfold wrap.
  pose proof (run_app init [cCARET; cLP; cQ; cCOLON] (p ++ [cRP; cDOLLAR])) as X1. rewrite X1; clear X1.
  change (run init [cCARET; cLP; cQ; cCOLON]) with (Some (ext init [ {| alts := []; cur := [Bol]; ci := false |} ])).
  cbv iota beta.
  pose proof (run_app (ext init [ {| alts := []; cur := [Bol]; ci := false |} ]) p [cRP; cDOLLAR]) as X2. rewrite X2; clear X2.
  rewrite (run_frame _ _ _ _ E). reflexivity.
Qed.
Print Assumptions anchor_wrap.

(* the code on the pinned tree: "^" ++ p ++ "$" *)
Definition wrap_old (p:list chr) : list chr := [cCARET] ++ p ++ [cDOLLAR].
Definition a := 97. Definition b := 98.
(* "a|b" : old wrapping parses as  (^a) | (b$)  – the anchors are captured by the branches *)
Example old_wrap_escapes :
  exists x y, parse (wrap_old [a; cBAR; b]) = Some (Alt [Cat [Bol; x]; Cat [y; Eol]]).
Proof. eexists; eexists. vm_compute. reflexivity. Qed.
