// Accessors for C16: resolve an argument vector to the effective spec; parse a spec file; dump a YAML tree.
pub fn vh_hex(b: &[u8]) -> String { if b.is_empty() { "-".to_string() } else { b.iter().map(|x| format!("{:02x}", x)).collect() } }

pub fn fmt_sync(s: &SyncSpec) -> String {
    format!("src={} dest={} filters={}[{}] newer={:?} older={:?} same={:?} entry={:?} root={:?}",
        vh_hex(s.src.as_bytes()), vh_hex(s.dest.as_bytes()), s.filters.len(),
        s.filters.iter().map(|f| vh_hex(f.as_bytes())).collect::<Vec<_>>().join(","),
        s.dest_file_newer_behaviour, s.dest_file_older_behaviour, s.files_same_time_behaviour,
        s.dest_entry_needs_deleting_behaviour, s.dest_root_needs_deleting_behaviour)
}
fn fmt_spec(s: &Spec) -> String {
    let mut r = format!("deploy={:?} sh={} su={} dh={} du={} nsyncs={}", s.deploy_behaviour,
        vh_hex(s.src_hostname.as_bytes()), vh_hex(s.src_username.as_bytes()),
        vh_hex(s.dest_hostname.as_bytes()), vh_hex(s.dest_username.as_bytes()), s.syncs.len());
    for y in &s.syncs { r += " | "; r += &fmt_sync(y); }
    r
}
/// Runs the real clap parser and the real resolve_spec on `argv` (without the program name).
pub fn resolve_argv(argv: &[String]) -> String {
    let it = std::iter::once("rjrssync".to_string()).chain(argv.iter().cloned());
    let args = match BossCliArgs::try_parse_from(it) {
        Ok(a) => a,
        Err(e) => return format!("CLAPERR {:?}", e.kind()),
    };
    match resolve_spec(&args) {
        Ok(s) => format!("OK {}", fmt_spec(&s)),
        Err(e) => format!("ERR {}", vh_hex(e.as_bytes())),
    }
}
pub fn defaults() -> String {
    format!("{} | {}", fmt_spec(&Spec::default()), fmt_sync(&SyncSpec::default()))
}
pub fn parse_spec_file_str(path: &str) -> String {
    match parse_spec_file(Path::new(path)) {
        Ok(s) => format!("OK {}", fmt_spec(&s)),
        Err(e) => format!("ERR {}", vh_hex(e.as_bytes())),
    }
}
/// Token dump of a YAML tree: H n k v ..., A n e ..., S hex, I, R, B, N, X
pub fn dump_yaml(y: &Yaml, out: &mut String) {
    match y {
        Yaml::Hash(h) => { out.push_str(&format!("H {} ", h.len())); for (k, v) in h { dump_yaml(k, out); dump_yaml(v, out); } }
        Yaml::Array(a) => { out.push_str(&format!("A {} ", a.len())); for e in a { dump_yaml(e, out); } }
        Yaml::String(s) => out.push_str(&format!("S {} ", vh_hex(s.as_bytes()))),
        Yaml::Integer(_) => out.push_str("I "),
        Yaml::Real(_) => out.push_str("R "),
        Yaml::Boolean(_) => out.push_str("B "),
        Yaml::Null => out.push_str("N "),
        _ => out.push_str("X "),
    }
}
pub fn yaml_tree_of_file(path: &str) -> String {
    let contents = match std::fs::read_to_string(path) { Ok(c) => c, Err(_) => return "READERR".to_string() };
    match YamlLoader::load_from_str(&contents) {
        Err(_) => "SCANERR".to_string(),
        Ok(docs) => { if docs.is_empty() { "NODOC".to_string() } else { let mut s = String::from("DOC "); dump_yaml(&docs[0], &mut s); s } }
    }
}
