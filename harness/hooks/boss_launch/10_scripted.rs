/// Builds a `Comms::Local` whose doer thread runs `f` instead of the real doer loop. Used by the
/// scripted drivers: the real boss (`sync()`) talks to a doer whose behaviour the harness dictates
/// (arrival order of entries, platform flavour, error replies, chunk sequences) or to a wrapper that
/// records the commands before handing them to the real doer.
pub fn comms_with_doer<F>(debug_name: &str, f: F) -> Comms
where F: FnOnce(memory_bound_channel::Receiver<Command>, memory_bound_channel::Sender<Response>) -> Result<(), String> + Send + 'static
{
    let (command_sender, command_receiver) = memory_bound_channel::new(BOSS_DOER_CHANNEL_MEMORY_CAPACITY);
    let (response_sender, response_receiver) = memory_bound_channel::new(BOSS_DOER_CHANNEL_MEMORY_CAPACITY);
    let thread = thread::Builder::new().name(debug_name.to_string()).spawn(move || f(command_receiver, response_sender)).unwrap();
    Comms::Local { debug_name: debug_name.to_string(), thread, sender: command_sender, receiver: response_receiver }
}
/// The real local doer behind a Comms (what setup_comms does for an empty hostname).
pub fn comms_with_real_doer(debug_name: &str) -> Comms {
    comms_with_doer(debug_name, |r, s| doer_thread_running_on_boss(r, s))
}
