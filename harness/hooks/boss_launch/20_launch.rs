// C15 accessors: the boss-side key formatting and one real launch_doer_via_ssh.
pub fn launch_vh_hex(b: &[u8]) -> String { if b.is_empty() { "-".to_string() } else { b.iter().map(|x| format!("{:02x}", x)).collect() } }

/// Formats a given 16-byte key the way launch_doer_via_ssh formats the generated one:
/// the LowerHex of the `Key<Aes128Gcm>` generic array, followed by a newline.
pub fn launch_format_key(bytes: &[u8]) -> String {
    let key: Key<Aes128Gcm> = *Key::<Aes128Gcm>::from_slice(bytes);
    format!("{:x}\n", key)
}

/// Runs the real `launch_doer_via_ssh` (whatever `ssh` is first on PATH) and describes the result.
/// On success the ssh process, its streams and the key are dropped again (its stdin closes).
pub fn launch_describe(host: &str, user: &str, port: Option<u16>) -> String {
    let pb = ProgressBar::hidden();
    match launch_doer_via_ssh(host, user, port, &pb) {
        SshDoerLaunchResult::FailedToRunSsh(_) => "FAILEDSSH".to_string(),
        SshDoerLaunchResult::NotPresentOnRemote => "NOTPRESENT".to_string(),
        SshDoerLaunchResult::ExitedUnexpectedly(_) => "EXITED".to_string(),
        SshDoerLaunchResult::CommunicationError(_) => "COMMERR".to_string(),
        SshDoerLaunchResult::HandshakeIncompatibleVersion { expected, actual } =>
            format!("INCOMPAT {} {}", launch_vh_hex(expected.as_bytes()), launch_vh_hex(actual.as_bytes())),
        SshDoerLaunchResult::Success { secret_key, actual_port, .. } =>
            format!("SUCCESS {} {}", actual_port, launch_vh_hex(secret_key.as_slice())),
    }
}
