/// C17: the real `handle_get_entries` driven by a scripted boss over a `Comms::Local` whose thread is
/// the real doer loop.  Returns the tokens `<hex relpath>:<f|d|l>`... followed by `END` or `ERR`,
/// then `LAST` if nothing but the echo of a Marker followed (EndOfEntries / Error was the last
/// message of the listing), `TRAILING` otherwise.  `exclude_patterns` are full regexes (already anchored).
pub fn walk_get_entries(root: &str, exclude_patterns: &[String]) -> Vec<String> {
    use crate::boss_doer_interface::{Filters, FilterKind, EntryDetails, ProgressMarker, ProgressPhase};
    let hex = |s: &str| -> String { if s.is_empty() { "-".to_string() } else { s.bytes().map(|b| format!("{:02x}", b)).collect() } };
    let mut out = vec![];
    let comms = comms_with_real_doer("walk");
    if comms.send_command(Command::SetRoot { root: root.to_string() }).is_err() { return vec!["COMMSERR".to_string()]; }
    match comms.receive_response() {
        Ok(Response::RootDetails { root_details: Some(EntryDetails::Folder), .. }) => (),
        Ok(Response::RootDetails { .. }) => return vec!["ROOTNOTDIR".to_string()],
        Ok(Response::Error(_)) => return vec!["ROOTERR".to_string()],
        _ => return vec!["COMMSERR".to_string()],
    }
    let filters = Filters {
        regex_set: regex::RegexSet::new(exclude_patterns).unwrap(),
        kinds: exclude_patterns.iter().map(|_| FilterKind::Exclude).collect(),
    };
    if comms.send_command(Command::GetEntries { filters }).is_err() { return vec!["COMMSERR".to_string()]; }
    loop {
        match comms.receive_response() {
            Ok(Response::Entry((p, d))) => {
                let k = match d { EntryDetails::File { .. } => 'f', EntryDetails::Folder => 'd', EntryDetails::Symlink { .. } => 'l' };
                out.push(format!("{}:{}", hex(&p.to_string()), k));
            }
            Ok(Response::EndOfEntries) => { out.push("END".to_string()); break; }
            Ok(Response::Error(_)) => { out.push("ERR".to_string()); break; }
            _ => { out.push("COMMSERR".to_string()); return out; }
        }
    }
    let m = ProgressMarker { completed_work: 4242, phase: ProgressPhase::Done };
    if comms.send_command(Command::Marker(m)).is_err() { out.push("COMMSERR".to_string()); return out; }
    match comms.receive_response() {
        Ok(Response::Marker(x)) if x.completed_work == 4242 => out.push("LAST".to_string()),
        _ => out.push("TRAILING".to_string()),
    }
    out
}
