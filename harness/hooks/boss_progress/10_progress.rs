// C18: drive the REAL `Progress` object (private to boss_progress.rs) with a scripted sequence of the calls
// the boss makes, each under catch_unwind, and report counters and markers as text.
pub fn progress_consts() -> (u64, u64, u64) { (MIN_FILE_SIZE, DELETE_WORK, MARKER_THRESHOLD) }

#[derive(Clone, Debug)]
pub enum ProgressCall {
    Limited,
    Marker,
    Delete,
    Copy(EntryDetails),
    Partial(u64, u64, u64),
    AllSent,
}

fn progress_pv_text(v: &ProgressValues) -> String { format!("{},{},{},{}", v.work, v.delete, v.copy, v.copy_bytes) }
fn progress_marker_text(m: &ProgressMarker) -> String {
    match m.phase {
        ProgressPhase::Deleting { num_entries_deleted } => format!("M{}:D{}", m.completed_work, num_entries_deleted),
        ProgressPhase::Copying { num_entries_copied, num_bytes_copied } => format!("M{}:C{}:{}", m.completed_work, num_entries_copied, num_bytes_copied),
        ProgressPhase::Done => format!("M{}:X", m.completed_work),
    }
}

/// (work, delete, copy, copy_bytes) overrides applied after Progress::new: total, sent, last_progress_marker
pub struct ProgressOverride { pub total: Option<(u64, u32, u32, u64)>, pub sent: Option<(u64, u32, u32, u64)>, pub last: Option<u64> }

/// Returns "new=<total> ; <one token per call> ; sent=<sent> last=<n>".  A panic ends the token list with PANIC.
pub fn progress_script(detailed: bool, dels: &[EntryDetails], copies: &[EntryDetails], ov: &ProgressOverride, calls: &[ProgressCall]) -> String {
    let mut to_delete = crate::ordered_map::OrderedMap::new();
    for (i, d) in dels.iter().enumerate() {
        to_delete.add(crate::root_relative_path::verif_hooks::rrp_from_text(&format!("d{}", i)), (d.clone(), crate::boss_sync::DeleteReason::NotOnSource));
    }
    let mut to_copy = crate::ordered_map::OrderedMap::new();
    for (i, c) in copies.iter().enumerate() {
        to_copy.add(crate::root_relative_path::verif_hooks::rrp_from_text(&format!("c{}", i)), (c.clone(), crate::boss_sync::CopyReason::NotOnDest));
    }
    let actions = Actions { to_delete, to_copy };
    let bar = ProgressBar::hidden();
    let p = std::panic::catch_unwind(std::panic::AssertUnwindSafe(|| Progress::new(&actions, &bar, false)));
    let mut p = match p { Ok(p) => p, Err(_) => return "new=PANIC ; ; ".to_string() };
    // `detailed` is what is left of the parameter after the is_hidden() test; forced here so that the
    // limiter branch of get_progress_marker_limited runs without a terminal.
    p.detailed = detailed;
    if let Some(t) = ov.total { p.total = ProgressValues { work: t.0, delete: t.1, copy: t.2, copy_bytes: t.3 }; }
    if let Some(t) = ov.sent { p.sent = ProgressValues { work: t.0, delete: t.1, copy: t.2, copy_bytes: t.3 }; }
    if let Some(l) = ov.last { p.last_progress_marker = l; }
    let mut out = format!("new={} ;", progress_pv_text(&p.total));
    for c in calls {
        let r = std::panic::catch_unwind(std::panic::AssertUnwindSafe(|| -> Option<ProgressMarker> {
            match c {
                ProgressCall::Limited => p.get_progress_marker_limited(),
                ProgressCall::Marker => Some(p.get_progress_marker()),
                ProgressCall::Delete => { p.delete_sent(&EntryDetails::Folder); None }
                ProgressCall::Copy(e) => { p.copy_sent(e); None }
                ProgressCall::Partial(a, b, c) => { p.copy_sent_partial(*a, *b, *c); None }
                ProgressCall::AllSent => Some(p.all_work_sent()),
            }
        }));
        match r {
            Ok(None) => out += " .",
            Ok(Some(m)) => { out += " "; out += &progress_marker_text(&m); }
            Err(_) => { out += " PANIC"; return out + " ;"; }
        }
    }
    out + &format!(" ; sent={} last={}", progress_pv_text(&p.sent), p.last_progress_marker)
}

/// The three ProgressValues constructors, as text.
pub fn progress_values(e: &EntryDetails) -> String { progress_pv_text(&ProgressValues::for_copy(e)) }
pub fn progress_values_delete() -> String { progress_pv_text(&ProgressValues::for_delete(&EntryDetails::Folder)) }
pub fn progress_values_partial(a: u64, b: u64, c: u64) -> String {
    match std::panic::catch_unwind(|| ProgressValues::for_copy_partial(a, b, c)) { Ok(v) => progress_pv_text(&v), Err(_) => "PANIC".to_string() }
}
