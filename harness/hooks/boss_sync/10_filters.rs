// C06: the real compile_filters on a filter list (a SyncSpec with only the filters set).
pub fn filters_compile(filters: &[String]) -> Result<Filters, String> {
    let spec = crate::boss_frontend::SyncSpec { filters: filters.to_vec(), ..Default::default() };
    compile_filters(&spec)
}
/// The pattern texts that were handed to the regex crate (what is shipped to the doers).
pub fn filters_patterns(f: &Filters) -> Vec<String> { f.regex_set.patterns().to_vec() }
