// Fault plan and crash points of the doer, driven by environment variables (read once).
//   RJRSSYNC_VERIF_FAULTS   comma separated:
//        cmd:<k>:error     the k-th (0-based) *mutating* command is answered with an Error and not executed
//        get:<k>:error     the k-th GetFileContent is answered with an Error
//        write:<k>:fail    the k-th write_all is reported as failed (after the data was written)
//        mtime:<k>:fail    the k-th set_file_mtime is reported as failed (after it was applied)
//   RJRSSYNC_VERIF_CRASH_AT=<n>    abort the process when the n-th (0-based) crash point is reached
//   RJRSSYNC_VERIF_POINT_LOG=<file> append one line per crash point reached ("<n> <name>")
use std::sync::atomic::{AtomicUsize, Ordering as AtOrd};
static VH_MUT_CMDS: AtomicUsize = AtomicUsize::new(0);
static VH_GETS: AtomicUsize = AtomicUsize::new(0);
static VH_WRITES: AtomicUsize = AtomicUsize::new(0);
static VH_MTIMES: AtomicUsize = AtomicUsize::new(0);
static VH_POINTS: AtomicUsize = AtomicUsize::new(0);

fn vh_plan_has(kind: &str, k: usize, what: &str) -> bool {
    match std::env::var("RJRSSYNC_VERIF_FAULTS") {
        Ok(v) => v.split(',').any(|e| e == format!("{}:{}:{}", kind, k, what)),
        Err(_) => false,
    }
}

pub fn point(name: &str) {
    let n = VH_POINTS.fetch_add(1, AtOrd::SeqCst);
    if let Ok(f) = std::env::var("RJRSSYNC_VERIF_POINT_LOG") {
        if let Ok(mut fh) = std::fs::OpenOptions::new().create(true).append(true).open(f) {
            let line = format!("{} {}\n", n, name);
            let _ = fh.write_all(line.as_bytes());
        }
    }
    if let Ok(v) = std::env::var("RJRSSYNC_VERIF_CRASH_AT") {
        if v.parse::<usize>().ok() == Some(n) {
            std::process::abort();
        }
    }
}

pub fn command_kind(c: &Command) -> &'static str {
    match c {
        Command::SetRoot { .. } => "SetRoot",
        Command::GetEntries { .. } => "GetEntries",
        Command::CreateRootAncestors => "CreateRootAncestors",
        Command::GetFileContent { .. } => "GetFileContent",
        Command::CreateOrUpdateFile { .. } => "CreateOrUpdateFile",
        Command::CreateSymlink { .. } => "CreateSymlink",
        Command::CreateFolder { .. } => "CreateFolder",
        Command::DeleteFile { .. } => "DeleteFile",
        Command::DeleteFolder { .. } => "DeleteFolder",
        Command::DeleteSymlink { .. } => "DeleteSymlink",
        Command::ProfilingTimeSync => "ProfilingTimeSync",
        Command::Marker(_) => "Marker",
        Command::Shutdown => "Shutdown",
    }
}
pub fn is_mutating(c: &Command) -> bool {
    matches!(c, Command::CreateRootAncestors | Command::CreateOrUpdateFile { .. } | Command::CreateSymlink { .. }
        | Command::CreateFolder { .. } | Command::DeleteFile { .. } | Command::DeleteFolder { .. } | Command::DeleteSymlink { .. })
}

pub fn inject(c: &Command) -> Option<String> {
    if let Ok(f) = std::env::var("RJRSSYNC_VERIF_CMD_LOG") {
        if let Ok(mut fh) = std::fs::OpenOptions::new().create(true).append(true).open(f) {
            let line = format!("{:?} {}\n", std::thread::current().name().unwrap_or("?"), describe_command(c));
            let _ = fh.write_all(line.as_bytes());
        }
    }
    if is_mutating(c) {
        point(command_kind(c));
        let k = VH_MUT_CMDS.fetch_add(1, AtOrd::SeqCst);
        // (a chunk of a file fails inside its handler - write:<k>:fail - so that the doer's own bookkeeping of a
        // failed transfer is exercised; it is counted here but never answered with a command-level error)
        if vh_plan_has("cmd", k, "error") && !matches!(c, Command::CreateOrUpdateFile { .. }) {
            return Some(format!("verif: injected failure at mutating command {}", k));
        }
    } else if let Command::GetFileContent { .. } = c {
        let k = VH_GETS.fetch_add(1, AtOrd::SeqCst);
        if vh_plan_has("get", k, "error") {
            return Some(format!("verif: injected failure at GetFileContent {}", k));
        }
    }
    None
}

pub fn after_write(r: std::io::Result<()>) -> std::io::Result<()> {
    let k = VH_WRITES.fetch_add(1, AtOrd::SeqCst);
    if r.is_ok() && vh_plan_has("write", k, "fail") {
        return Err(std::io::Error::new(ErrorKind::Other, format!("verif: injected write failure {}", k)));
    }
    r
}
pub fn after_set_mtime(r: std::io::Result<()>) -> std::io::Result<()> {
    let k = VH_MTIMES.fetch_add(1, AtOrd::SeqCst);
    if r.is_ok() && vh_plan_has("mtime", k, "fail") {
        return Err(std::io::Error::new(ErrorKind::Other, format!("verif: injected set-mtime failure {}", k)));
    }
    r
}

fn vh_hex(b: &[u8]) -> String { b.iter().map(|x| format!("{:02x}", x)).collect() }
/// One-line, machine readable description of a command (paths hex encoded, data as length).
pub fn describe_command(c: &Command) -> String {
    fn t(t: &SymlinkTarget) -> String { match t { SymlinkTarget::Normalized(s) => format!("N{}", vh_hex(s.as_bytes())), SymlinkTarget::NotNormalized(s) => format!("U{}", vh_hex(s.as_bytes())) } }
    fn p(p: &RootRelativePath) -> String { if p.is_root() { "-".to_string() } else { vh_hex(p.to_platform_path('/').as_bytes()) } }
    match c {
        Command::SetRoot { root } => format!("SetRoot {}", vh_hex(root.as_bytes())),
        Command::GetEntries { .. } => "GetEntries".to_string(),
        Command::CreateRootAncestors => "CreateRootAncestors".to_string(),
        Command::GetFileContent { path } => format!("GetFileContent {}", p(path)),
        Command::CreateOrUpdateFile { path, data, set_modified_time, more_to_follow } => format!("CreateOrUpdateFile {} {} {} {}", p(path), data.len(),
            match set_modified_time { None => "-".to_string(), Some(t) => match t.duration_since(std::time::UNIX_EPOCH) { Ok(d) => format!("{}", d.as_nanos()), Err(e) => format!("-{}", e.duration().as_nanos()) } },
            if *more_to_follow { 1 } else { 0 }),
        Command::CreateSymlink { path, kind, target } => format!("CreateSymlink {} {:?} {}", p(path), kind, t(target)),
        Command::CreateFolder { path } => format!("CreateFolder {}", p(path)),
        Command::DeleteFile { path } => format!("DeleteFile {}", p(path)),
        Command::DeleteFolder { path } => format!("DeleteFolder {}", p(path)),
        Command::DeleteSymlink { path, kind } => format!("DeleteSymlink {} {:?}", p(path), kind),
        Command::ProfilingTimeSync => "ProfilingTimeSync".to_string(),
        Command::Marker(_) => "Marker".to_string(),
        Command::Shutdown => "Shutdown".to_string(),
    }
}
