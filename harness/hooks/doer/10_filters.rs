// C06: the real apply_filters on a root-relative path given as text (true = Include).
pub fn filters_apply(path: &crate::root_relative_path::RootRelativePath, filters: &Filters) -> bool {
    apply_filters(path, filters) == FilterResult::Include
}
