// C11: the real chunk reader `handle_get_file_contents`, reached through a `Comms::Local` (private to doer.rs).
/// Runs the real `handle_get_file_contents` on `path` and returns every FileContent response it sent
/// (data, more_to_follow), in order, plus the function's own result.
pub fn chunks_get_file_contents(path: &str) -> (Vec<(Vec<u8>, bool)>, Result<(), String>) {
    // capacity far above any file used by the checks: the reader must never block on the channel here
    let (response_sender, response_receiver) = memory_bound_channel::new::<Response>(1usize << 40);
    let (_command_sender, command_receiver) = memory_bound_channel::new::<Command>(1usize << 20);
    let mut comms = Comms::Local { sender: response_sender, receiver: command_receiver };
    let r = handle_get_file_contents(&mut comms, Path::new(path));
    drop(comms);
    let mut out = vec![];
    let mut bad = None;
    while let Ok(x) = response_receiver.try_recv() {
        match x {
            Response::FileContent { data, more_to_follow } => out.push((data, more_to_follow)),
            other => bad = Some(format!("unexpected response {:?}", other)),
        }
    }
    match bad { Some(b) => (out, Err(b)), None => (out, r) }
}
