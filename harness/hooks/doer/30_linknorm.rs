/// C12: the real link-text normalisation (entry_details_from_metadata on a real symlink).
/// Answer: `N<hex>` / `U<hex>` + kind, or `ERR`.
pub fn linknorm_of(path: &std::path::Path) -> String {
    let m = match std::fs::symlink_metadata(path) { Ok(m) => m, Err(_) => return "ERR".to_string() };
    match entry_details_from_metadata(m, path) {
        Ok(EntryDetails::Symlink { kind, target }) => {
            let (tag, s) = match target { SymlinkTarget::Normalized(s) => ("N", s), SymlinkTarget::NotNormalized(s) => ("U", s) };
            let h: String = if s.is_empty() { "-".to_string() } else { s.as_bytes().iter().map(|x| format!("{:02x}", x)).collect() };
            format!("{}{} {:?}", tag, h, kind)
        }
        _ => "ERR".to_string(),
    }
}
