// C18: the real `entry_details_from_metadata` on the lstat result of `path`, then the real send of the
// resulting Entry message through a memory_bound_channel (the `serialized_size(..).expect(..)` site), both
// under catch_unwind.
//   F <sec> <nsec> <size> send=<ok|PANIC>   D send=..   L <f|d|u> <N|U><hextext> send=..
//   ERR <pre1970|filetype|readlink|mtime|other:<hex>>        NOENT | LSTATERR        PANIC
pub fn meta_probe(path: &Path) -> String {
    let m = match std::fs::symlink_metadata(path) {
        Ok(m) => m,
        Err(e) if e.kind() == ErrorKind::NotFound => return "NOENT".to_string(),
        Err(_) => return "LSTATERR".to_string(),
    };
    let r = std::panic::catch_unwind(std::panic::AssertUnwindSafe(|| entry_details_from_metadata(m, path)));
    let d = match r {
        Err(_) => return "PANIC".to_string(),
        Ok(Err(e)) => {
            let class = if e.contains("before 1970") { "pre1970".to_string() }
                else if e.contains("Unknown file type") { "filetype".to_string() }
                else if e.contains("Unable to read symlink target") { "readlink".to_string() }
                else if e.contains("Unknown modified time") { "mtime".to_string() }
                else { format!("other:{}", e.bytes().map(|b| format!("{:02x}", b)).collect::<String>()) };
            return format!("ERR {}", class);
        }
        Ok(Ok(d)) => d,
    };
    let text = match &d {
        EntryDetails::Folder => "D".to_string(),
        EntryDetails::File { modified_time, size } => {
            let (sec, nsec) = match modified_time.duration_since(std::time::UNIX_EPOCH) {
                Ok(d) => (d.as_secs() as i128, d.subsec_nanos()),
                Err(e) => { let d = e.duration(); if d.subsec_nanos() == 0 { (-(d.as_secs() as i128), 0) } else { (-(d.as_secs() as i128) - 1, 1_000_000_000 - d.subsec_nanos()) } }
            };
            format!("F {} {} {}", sec, nsec, size)
        }
        EntryDetails::Symlink { kind, target } => {
            let k = match kind { SymlinkKind::File => "f", SymlinkKind::Folder => "d", SymlinkKind::Unknown => "u" };
            let (tag, t) = match target { SymlinkTarget::Normalized(s) => ("N", s), SymlinkTarget::NotNormalized(s) => ("U", s) };
            format!("L {} {}{}", k, tag, t.bytes().map(|b| format!("{:02x}", b)).collect::<String>())
        }
    };
    let (tx, rx) = memory_bound_channel::new::<Response>(1usize << 30);
    let sent = std::panic::catch_unwind(std::panic::AssertUnwindSafe(|| tx.send(Response::Entry((RootRelativePath::root(), d.clone()))).is_ok()));
    let sent2 = std::panic::catch_unwind(std::panic::AssertUnwindSafe(|| tx.send(Response::RootDetails { root_details: Some(d), platform_differentiates_symlinks: false, platform_dir_separator: '/' }).is_ok()));
    drop(rx);
    format!("{} send={}", text, if sent.is_ok() && sent2.is_ok() { "ok" } else { "PANIC" })
}
