// C10 / C14: gives the harness the private `send` / `receive` and the real comms threads.
// Everything here runs the real functions over a real localhost TcpStream pair with a real Aes128Gcm.
use std::net::TcpListener;
use std::sync::{Arc, Mutex};

#[derive(Serialize, Deserialize, Debug, Clone)]
pub struct FrMsg { pub id: u32, pub payload: Vec<u8> }
impl IsFinalMessage for FrMsg { fn is_final_message(&self) -> bool { self.id == u32::MAX } }

/// What the honest sender is asked to send: a normal message, or one byte that does not
/// deserialize as an FrMsg on the other side.
#[derive(Clone)]
pub enum FrOut { Msg(FrMsg), Short(u8) }

pub fn fr_pair() -> (TcpStream, TcpStream) {
    let l = TcpListener::bind(("127.0.0.1", 0)).expect("bind");
    let a = TcpStream::connect(l.local_addr().unwrap()).expect("connect");
    let (b, _) = l.accept().expect("accept");
    a.set_nodelay(true).ok();
    b.set_nodelay(true).ok();
    (a, b)
}

fn fr_panic_text(p: Box<dyn std::any::Any + Send>) -> String {
    if let Some(s) = p.downcast_ref::<String>() { s.clone() }
    else if let Some(s) = p.downcast_ref::<&str>() { s.to_string() }
    else { "?".to_string() }
}

/// Maps an Err(..) text of send/receive or a panic text to a small class name.
pub fn fr_class(text: &str, panicked: bool) -> String {
    if panicked {
        if text.contains("out of range for slice") || text.contains("range end index") { "panic-oversize".into() }
        else if text.contains("called `Option::unwrap()` on a `None` value") { "panic-overflow".into() }
        else if text.contains("assertion failed") { "panic-parity".into() }
        else { format!("panic-other:{}", text.replace(' ', "_")) }
    } else if text.starts_with("Error reading len") || text.starts_with("Error reading encrypted data") { "eof".into() }
    else if text.starts_with("Error decrypting") { "decrypt".into() }
    else if text.starts_with("Error deserializing") { "deserialize".into() }
    else if text.starts_with("Error serializing") { "serialize".into() }
    else if text.starts_with("Error sending") || text.starts_with("Error flushing") { "io".into() }
    else { format!("other:{}", text.replace(' ', "_")) }
}

/// Calls the real `send` for each message with one counter, starting at `start_ctr`; the bytes
/// that arrive at the other end of the socket are returned together with how the sender ended
/// ("ok" or a class) and the counter value after the last call.
pub fn fr_send_frames(key: [u8; 16], lsb: u64, start_ctr: u64, msgs: Vec<FrOut>) -> (String, u64, Vec<u8>) {
    let (mut a, mut b) = fr_pair();
    let reader = std::thread::spawn(move || { let mut v = Vec::new(); let _ = b.read_to_end(&mut v); v });
    let ctr_out = Arc::new(Mutex::new(start_ctr));
    let ctr_out2 = ctr_out.clone();
    let sender = std::thread::spawn(move || -> Result<(), String> {
        let cipher = Aes128Gcm::new(&Key::<Aes128Gcm>::from(key));
        let mut buffer = vec![0u8; 8192 * 1024];
        let mut ctr = start_ctr;
        for m in msgs {
            let r = match m {
                FrOut::Msg(x) => send(x, &mut a, &cipher, &mut ctr, lsb, &mut buffer),
                FrOut::Short(x) => send(x, &mut a, &cipher, &mut ctr, lsb, &mut buffer),
            };
            *ctr_out2.lock().unwrap() = ctr;
            r?;
        }
        Ok(())
    });
    let end = match sender.join() {
        Ok(Ok(())) => "ok".to_string(),
        Ok(Err(e)) => fr_class(&e, false),
        Err(p) => fr_class(&fr_panic_text(p), true),
    };
    let wire = reader.join().unwrap();
    let c = *ctr_out.lock().unwrap();
    (end, c, wire)
}

/// Writes the segments (one write + flush each) to one end of a socket pair and closes it; the
/// other end is read by a loop around the real `receive` (the loop of the receiving thread:
/// deliver, stop after the final message, stop at the first error).  Returns the delivered ids,
/// how the receiver ended ("finished" or a class) and the counter afterwards.
pub fn fr_receive_direct(key: [u8; 16], lsb: u64, start_ctr: u64, segments: Vec<Vec<u8>>) -> (Vec<u32>, String, u64) {
    let (mut a, mut b) = fr_pair();
    let writer = std::thread::spawn(move || {
        for s in segments { if a.write_all(&s).is_err() { break; } let _ = a.flush(); }
        let _ = a.shutdown(std::net::Shutdown::Write);
        // keep the socket until the receiver is done so that a reset cannot overtake the data
        a
    });
    let ids = Arc::new(Mutex::new(Vec::new()));
    let ctr_out = Arc::new(Mutex::new(start_ctr));
    let (ids2, ctr_out2) = (ids.clone(), ctr_out.clone());
    let receiver = std::thread::spawn(move || -> Result<(), String> {
        let cipher = Aes128Gcm::new(&Key::<Aes128Gcm>::from(key));
        let mut buffer = vec![0u8; 8192 * 1024];
        let mut ctr = start_ctr;
        loop {
            let r: Result<FrMsg, String> = receive(&mut b, &cipher, &mut ctr, lsb, &mut buffer);
            *ctr_out2.lock().unwrap() = ctr;
            let m = r?;
            ids2.lock().unwrap().push(m.id);
            if m.is_final_message() { return Ok(()); }
        }
    });
    let end = match receiver.join() {
        Ok(Ok(())) => "finished".to_string(),
        Ok(Err(e)) => fr_class(&e, false),
        Err(p) => fr_class(&fr_panic_text(p), true),
    };
    drop(writer.join());
    let v = ids.lock().unwrap().clone();
    let c = *ctr_out.lock().unwrap();
    (v, end, c)
}

/// The same through the real `AsyncEncryptedComms` object: its own receiving thread runs, the
/// delivered messages are taken from its public channel, the thread's result is joined.
pub fn fr_receive_thread(key: [u8; 16], lsb: u64, segments: Vec<Vec<u8>>) -> (Vec<u32>, String) {
    let (mut a, b) = fr_pair();
    let comms: AsyncEncryptedComms<FrMsg, FrMsg> =
        AsyncEncryptedComms::new(b, Key::<Aes128Gcm>::from(key), 1 - lsb, lsb, ("harness", "peer"));
    let writer = std::thread::spawn(move || {
        for s in segments { if a.write_all(&s).is_err() { break; } let _ = a.flush(); }
        let _ = a.shutdown(std::net::Shutdown::Write);
        a
    });
    let AsyncEncryptedComms { tcp_connection, sending_thread, sender, receiving_thread, receiver } = comms;
    let mut ids = Vec::new();
    while let Ok(m) = receiver.recv() { ids.push(m.id); }
    let end = match receiving_thread.join() {
        Ok(Ok(())) => "finished".to_string(),
        Ok(Err(e)) => fr_class(&e, false),
        Err(p) => fr_class(&fr_panic_text(p), true),
    };
    drop(sender);
    let _ = sending_thread.join();
    drop(tcp_connection);
    drop(writer.join());
    (ids, end)
}

/// Sends `msgs` through the real sending thread of an `AsyncEncryptedComms` and then one more
/// message through `shutdown_with_final_message_sent_after_threads_joined` (the way the doer
/// sends its ProfilingData).  The peer end first sends one honest final frame so that the
/// receiving thread of the object stops, as the boss's Shutdown does.  Returns the captured bytes.
pub fn fr_send_thread_with_final(key: [u8; 16], lsb: u64, msgs: Vec<FrMsg>, last: FrMsg) -> Vec<u8> {
    let (mut a, b) = fr_pair();
    let comms: AsyncEncryptedComms<FrMsg, FrMsg> =
        AsyncEncryptedComms::new(b, Key::<Aes128Gcm>::from(key), lsb, 1 - lsb, ("harness", "peer"));
    // the peer's final message, produced with the real send in the other direction
    let (_, _, stop) = fr_send_frames(key, 1 - lsb, 1 - lsb, vec![FrOut::Msg(FrMsg { id: u32::MAX, payload: vec![] })]);
    a.write_all(&stop).unwrap();
    a.flush().unwrap();
    let mut a2 = a.try_clone().unwrap();
    let reader = std::thread::spawn(move || { let mut v = Vec::new(); let _ = a2.read_to_end(&mut v); v });
    for m in msgs { comms.sender.send(m).expect("send"); }
    let _ = comms.receiver.recv();
    comms.shutdown_with_final_message_sent_after_threads_joined(move || last);
    // the object is gone: its socket clones are closed, the reader sees EOF
    let v = reader.join().unwrap();
    drop(a);
    v
}

/// Which counter value in 0..max was used as the nonce of this ciphertext (AES-GCM under `key`)?
pub fn fr_find_nonce(key: [u8; 16], ciphertext: &[u8], max: u64) -> Option<u64> {
    let cipher = Aes128Gcm::new(&Key::<Aes128Gcm>::from(key));
    for c in 0..max {
        let mut nonce_bytes = [0u8; 12];
        nonce_bytes[0..8].copy_from_slice(&c.to_le_bytes());
        let nonce = Nonce::<Aes128Gcm>::from_slice(&nonce_bytes);
        let mut v = ciphertext.to_vec();
        let l = v.len();
        let mut s = SliceBuffer { slice: &mut v, len: l };
        if cipher.decrypt_in_place(nonce, &[], &mut s).is_ok() { return Some(c); }
    }
    None
}

/// Plaintext of a ciphertext under (key, counter), if it authenticates.
pub fn fr_open(key: [u8; 16], ctr: u64, ciphertext: &[u8]) -> Option<Vec<u8>> {
    let cipher = Aes128Gcm::new(&Key::<Aes128Gcm>::from(key));
    let mut nonce_bytes = [0u8; 12];
    nonce_bytes[0..8].copy_from_slice(&ctr.to_le_bytes());
    let nonce = Nonce::<Aes128Gcm>::from_slice(&nonce_bytes);
    let mut v = ciphertext.to_vec();
    let l = v.len();
    let mut s = SliceBuffer { slice: &mut v, len: l };
    if cipher.decrypt_in_place(nonce, &[], &mut s).is_ok() { let n = s.len; Some(v[0..n].to_vec()) } else { None }
}

/// Kind of a Command / Response plaintext captured on the real link (for the end-to-end leg).
pub fn fr_describe_plain(dir: u64, plain: &[u8]) -> String {
    if dir == 0 {
        match bincode::deserialize::<crate::boss_doer_interface::Command>(plain) {
            Ok(c) => format!("{:?}", c).split(|ch: char| !ch.is_alphanumeric()).next().unwrap_or("?").to_string(),
            Err(_) => "undecodable".to_string(),
        }
    } else {
        match bincode::deserialize::<crate::boss_doer_interface::Response>(plain) {
            Ok(c) => format!("{:?}", c).split(|ch: char| !ch.is_alphanumeric()).next().unwrap_or("?").to_string(),
            Err(_) => "undecodable".to_string(),
        }
    }
}

/// Real boss commands (SetRoot{root}, CreateRootAncestors, Shutdown) through the real `send` under
/// `key`: what a peer that wants a doer to act would put on the wire.
pub fn fr_command_frames(key: [u8; 16], root: String) -> Vec<u8> {
    use crate::boss_doer_interface::Command;
    let (mut a, mut b) = fr_pair();
    let reader = std::thread::spawn(move || { let mut v = Vec::new(); let _ = b.read_to_end(&mut v); v });
    {
        let cipher = Aes128Gcm::new(&Key::<Aes128Gcm>::from(key));
        let mut buffer = vec![0u8; 8192 * 1024];
        let mut ctr = 0u64;
        for (i, c) in [Command::SetRoot { root }, Command::CreateRootAncestors, Command::Shutdown].into_iter().enumerate() {
            // explicit counters so that the frames are well formed whatever `send` does with its counter
            ctr = 2 * i as u64;
            send(c, &mut a, &cipher, &mut ctr, 0, &mut buffer).expect("send");
        }
    }
    drop(a);
    reader.join().unwrap()
}
