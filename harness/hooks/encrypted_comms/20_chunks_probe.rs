// C11 (C11_fits): does a message carrying `data_len` bytes of file data get through the REAL
// AsyncEncryptedComms (its own pre-allocated buffers) over a localhost TCP connection?
//   kind 0: Response::FileContent { data, more_to_follow }            (source doer -> boss)
//   kind 1: Command::CreateOrUpdateFile { path (path_len bytes), data, Some(mtime), more }  (boss -> dest doer)
pub fn chunks_probe(kind: u32, data_len: usize, path_len: usize) -> Result<bool, String> {
    use crate::boss_doer_interface::{Command, Response};
    let listener = std::net::TcpListener::bind("127.0.0.1:0").map_err(|e| e.to_string())?;
    let addr = listener.local_addr().map_err(|e| e.to_string())?;
    let client = TcpStream::connect(addr).map_err(|e| e.to_string())?;
    let (server, _) = listener.accept().map_err(|e| e.to_string())?;
    let key = Key::<Aes128Gcm>::clone_from_slice(&[7u8; 16]);
    let doer_side = AsyncEncryptedComms::<Response, Command>::new(server, key, 1, 0, ("doer", "boss"));
    let boss_side = AsyncEncryptedComms::<Command, Response>::new(client, key, 0, 1, ("boss", "doer"));
    let data = vec![0x5au8; data_len];
    let ok;
    if kind == 0 {
        doer_side.sender.send(Response::FileContent { data, more_to_follow: true }).map_err(|_| "send".to_string())?;
        loop {
            match boss_side.receiver.try_recv() {
                Ok(Response::FileContent { data, .. }) => { ok = data.len() == data_len; break; }
                Ok(_) => { ok = false; break; }
                Err(crossbeam::channel::TryRecvError::Empty) => {
                    if doer_side.sending_thread.is_finished() { ok = false; break; }
                    std::thread::sleep(std::time::Duration::from_millis(1));
                }
                Err(_) => { ok = false; break; }
            }
        }
    } else {
        let mut p = String::new();
        while p.len() < path_len { if p.len() % 200 == 199 { p.push('/'); } else { p.push('a'); } }
        let path = crate::root_relative_path::RootRelativePath::try_from(std::path::Path::new(&p))?;
        let t = std::time::UNIX_EPOCH + std::time::Duration::new(1_600_000_000, 123_456_789);
        boss_side.sender.send(Command::CreateOrUpdateFile { path, data, set_modified_time: Some(t), more_to_follow: false }).map_err(|_| "send".to_string())?;
        loop {
            match doer_side.receiver.try_recv() {
                Ok(Command::CreateOrUpdateFile { data, .. }) => { ok = data.len() == data_len; break; }
                Ok(_) => { ok = false; break; }
                Err(crossbeam::channel::TryRecvError::Empty) => {
                    if boss_side.sending_thread.is_finished() { ok = false; break; }
                    std::thread::sleep(std::time::Duration::from_millis(1));
                }
                Err(_) => { ok = false; break; }
            }
        }
    }
    let _ = doer_side.tcp_connection.shutdown(std::net::Shutdown::Both);
    let _ = boss_side.tcp_connection.shutdown(std::net::Shutdown::Both);
    Ok(ok)
}
