// C14 (wire cluster): real Command / Response values through a REAL pair of AsyncEncryptedComms objects
// (the boss's and the doer's: their own threads, their own pre-allocated buffers, real Aes128Gcm) over a
// localhost TCP connection.  Nothing here re-implements send / receive: the objects are built with the
// public constructor, used through their public channels and only taken apart at the end to see how their
// private threads ended.
use crate::boss_doer_interface::{Command as LkCommand, Response as LkResponse};

pub fn lk_crc32(data: &[u8]) -> u32 {
    // CRC-32 (IEEE 802.3), the one zlib.crc32 computes
    let mut table = [0u32; 256];
    for i in 0..256u32 { let mut c = i; for _ in 0..8 { c = if c & 1 != 0 { 0xEDB8_8320 ^ (c >> 1) } else { c >> 1 }; } table[i as usize] = c; }
    let mut c = 0xFFFF_FFFFu32;
    for b in data { c = table[((c ^ (*b as u32)) & 0xff) as usize] ^ (c >> 8); }
    c ^ 0xFFFF_FFFF
}

fn lk_panic_text(p: Box<dyn std::any::Any + Send>) -> String {
    if let Some(s) = p.downcast_ref::<String>() { s.clone() }
    else if let Some(s) = p.downcast_ref::<&str>() { s.to_string() }
    else { "?".to_string() }
}

/// Small class name of an Err(..) text of send / receive or of a panic text.
pub fn lk_class(text: &str, panicked: bool) -> String {
    let squash = |t: &str| t.chars().map(|c| if c.is_whitespace() || c == ',' { '_' } else { c }).collect::<String>();
    if panicked {
        if text.contains("out of range for slice") || text.contains("range end index") { "panic-slice".into() }
        else { format!("panic:{}", squash(text)) }
    } else if text.starts_with("Error reading len") { "eof-len".into() }
    else if text.starts_with("Error reading encrypted data") { "eof-body".into() }
    else if text.starts_with("Error decrypting") { "decrypt".into() }
    else if text.starts_with("Error deserializing") { "deserialize".into() }
    else if text.starts_with("Error serializing") { "serialize".into() }
    else if text.starts_with("Error sending") || text.starts_with("Error flushing") { "io".into() }
    else if text.starts_with("Communications with main thread broken") { "main-gone".into() }
    else { format!("other:{}", squash(text)) }
}

/// State of one of the private threads at the moment of asking: "running", or how it ended.
fn lk_thread_state<T>(h: &mut Option<JoinHandle<Result<T, String>>>, ok_name: &str) -> String {
    match h {
        Some(j) if !j.is_finished() => "running".to_string(),
        Some(_) => match h.take().unwrap().join() {
            Ok(Ok(_)) => ok_name.to_string(),
            Ok(Err(e)) => lk_class(&e, false),
            Err(p) => lk_class(&lk_panic_text(p), true),
        },
        None => "joined".to_string(),
    }
}

fn lk_pair() -> (TcpStream, TcpStream) {
    let l = std::net::TcpListener::bind(("127.0.0.1", 0)).expect("bind");
    let a = TcpStream::connect(l.local_addr().unwrap()).expect("connect");
    let (b, _) = l.accept().expect("accept");
    (a, b)
}

pub struct LkOut {
    /// (length, crc32) of bincode::serialize of every command handed to the boss's sender, in order
    pub sent_c: Vec<(usize, u32)>,
    /// the same of every command that came out of the doer's receiver, in order
    pub recv_c: Vec<(usize, u32)>,
    pub sent_r: Vec<(usize, u32)>,
    pub recv_r: Vec<(usize, u32)>,
    /// boss sending thread, doer receiving thread, doer sending thread, boss receiving thread - before the tear-down
    pub ends: [String; 4],
    pub timed_out: bool,
}

/// The boss hands `cmds` to its AsyncEncryptedComms, the doer hands `resps` to its own, both at once; the other
/// side takes what arrives from its public receiver.  Ends when everything expected (and nothing more for a
/// grace period) has arrived, when a thread on the way has ended and nothing arrives any more, or after `idle_ms`
/// without any arrival.
pub fn lk_exchange(cmds: Vec<LkCommand>, resps: Vec<LkResponse>, idle_ms: u64) -> LkOut {
    use crossbeam::channel::TryRecvError;
    let digest = |b: &[u8]| (b.len(), lk_crc32(b));
    let sent_c: Vec<(usize, u32)> = cmds.iter().map(|c| digest(&bincode::serialize(c).expect("serialize command"))).collect();
    let sent_r: Vec<(usize, u32)> = resps.iter().map(|r| digest(&bincode::serialize(r).expect("serialize response"))).collect();
    let (client, server) = lk_pair();
    let key = Key::<Aes128Gcm>::clone_from_slice(&[7u8; 16]);
    // as in doer.rs / boss_launch.rs: the boss sends with even nonces, the doer with odd ones
    let doer_side = AsyncEncryptedComms::<LkResponse, LkCommand>::new(server, key, 1, 0, ("doer", "boss"));
    let boss_side = AsyncEncryptedComms::<LkCommand, LkResponse>::new(client, key, 0, 1, ("boss", "doer"));
    let AsyncEncryptedComms { tcp_connection: boss_tcp, sending_thread: bst, sender: boss_sender, receiving_thread: brt, receiver: boss_receiver } = boss_side;
    let AsyncEncryptedComms { tcp_connection: doer_tcp, sending_thread: dst, sender: doer_sender, receiving_thread: drt, receiver: doer_receiver } = doer_side;
    let (mut bst, mut brt, mut dst, mut drt) = (Some(bst), Some(brt), Some(dst), Some(drt));
    let (nc, nr) = (cmds.len(), resps.len());
    // the two main-thread sides hand their messages over on their own threads (a send may block on the 100 MiB capacity)
    let hand_c = std::thread::spawn(move || { for c in cmds { if boss_sender.send(c).is_err() { break; } } boss_sender });
    let hand_r = std::thread::spawn(move || { for r in resps { if doer_sender.send(r).is_err() { break; } } doer_sender });
    let (mut recv_c, mut recv_r) = (Vec::new(), Vec::new());
    let (mut c_closed, mut r_closed) = (false, false);
    let mut last = std::time::Instant::now();
    let mut complete_since: Option<std::time::Instant> = None;
    let mut timed_out = false;
    loop {
        let mut progress = false;
        if !c_closed {
            match doer_receiver.try_recv() {
                Ok(m) => { recv_c.push(digest(&bincode::serialize(&m).unwrap_or_default())); progress = true; }
                Err(TryRecvError::Empty) => {}
                Err(TryRecvError::Disconnected) => c_closed = true,
            }
        }
        if !r_closed {
            match boss_receiver.try_recv() {
                Ok(m) => { recv_r.push(digest(&bincode::serialize(&m).unwrap_or_default())); progress = true; }
                Err(TryRecvError::Empty) => {}
                Err(TryRecvError::Disconnected) => r_closed = true,
            }
        }
        if progress { last = std::time::Instant::now(); complete_since = None; continue; }
        let c_done = recv_c.len() >= nc || c_closed;
        let r_done = recv_r.len() >= nr || r_closed;
        if c_done && r_done {
            // a little longer: a message delivered twice would show up now
            match complete_since {
                None => complete_since = Some(std::time::Instant::now()),
                Some(t) if t.elapsed().as_millis() >= 30 => break,
                _ => {}
            }
        } else {
            // a thread on the way of what is still missing has ended: nothing more will come once the pipe is empty
            let c_dead = recv_c.len() < nc && (bst.as_ref().map_or(true, |j| j.is_finished()) || drt.as_ref().map_or(true, |j| j.is_finished()));
            let r_dead = recv_r.len() < nr && (dst.as_ref().map_or(true, |j| j.is_finished()) || brt.as_ref().map_or(true, |j| j.is_finished()));
            let waiting_only_for_dead = (c_done || c_dead) && (r_done || r_dead);
            if waiting_only_for_dead && last.elapsed().as_millis() >= 300 { break; }
            if last.elapsed().as_millis() as u64 >= idle_ms { timed_out = true; break; }
        }
        std::thread::sleep(std::time::Duration::from_millis(1));
    }
    let ends = [lk_thread_state(&mut bst, "returned"), lk_thread_state(&mut drt, "finished"),
                lk_thread_state(&mut dst, "returned"), lk_thread_state(&mut brt, "finished")];
    // tear down: close the sockets (every comms thread comes back), let go of the receivers, then of the senders
    let _ = boss_tcp.shutdown(std::net::Shutdown::Both);
    let _ = doer_tcp.shutdown(std::net::Shutdown::Both);
    drop(boss_receiver);
    drop(doer_receiver);
    // (the handing-over threads come back: their comms thread is either idle or has just failed on the closed socket)
    drop(hand_c.join());
    drop(hand_r.join());
    for j in [brt.take(), drt.take()].into_iter().flatten() { let _ = j.join(); }
    for j in [bst.take(), dst.take()].into_iter().flatten() { let _ = j.join(); }
    LkOut { sent_c, recv_c, sent_r, recv_r, ends, timed_out }
}

/// What the REAL receiving thread of an AsyncEncryptedComms does with a frame header announcing `len` bytes when the
/// peer closes right after the header: "eof-body" = it went on to read the body (the length was acceptable),
/// "decrypt" for an empty body, anything else = the length was refused.
pub fn lk_recv_len_class(len: u64) -> String {
    let (mut a, b) = lk_pair();
    let key = Key::<Aes128Gcm>::clone_from_slice(&[7u8; 16]);
    let comms = AsyncEncryptedComms::<LkResponse, LkCommand>::new(b, key, 1, 0, ("doer", "boss"));
    let _ = a.write_all(&len.to_le_bytes());
    let _ = a.flush();
    let _ = a.shutdown(std::net::Shutdown::Write);
    let AsyncEncryptedComms { tcp_connection, sending_thread, sender, receiving_thread, receiver } = comms;
    let end = match receiving_thread.join() {
        Ok(Ok(())) => "finished".to_string(),
        Ok(Err(e)) => lk_class(&e, false),
        Err(p) => lk_class(&lk_panic_text(p), true),
    };
    drop(sender);
    let _ = sending_thread.join();
    drop(receiver);
    drop(tcp_connection);
    drop(a);
    end
}

/// Length field and plaintext length of the frame the REAL sending thread puts on the wire for one small command.
pub fn lk_small_frame() -> (u64, u64) {
    let (mut a, b) = lk_pair();
    let key = Key::<Aes128Gcm>::clone_from_slice(&[7u8; 16]);
    let comms = AsyncEncryptedComms::<LkCommand, LkResponse>::new(b, key, 0, 1, ("boss", "doer"));
    let plain = bincode::serialized_size(&LkCommand::CreateRootAncestors).unwrap();
    comms.sender.send(LkCommand::CreateRootAncestors).expect("send");
    let mut hdr = [0u8; 8];
    a.read_exact(&mut hdr).expect("read header");
    let l = u64::from_le_bytes(hdr);
    let mut body = vec![0u8; l as usize];
    a.read_exact(&mut body).expect("read body");
    let _ = a.shutdown(std::net::Shutdown::Both);
    let AsyncEncryptedComms { tcp_connection, sending_thread, sender, receiving_thread, receiver } = comms;
    drop(sender);
    let _ = sending_thread.join();
    drop(receiver);
    let _ = receiving_thread.join();
    drop(tcp_connection);
    (l, plain)
}
