/// Capacity override: RJRSSYNC_VERIF_CAPACITY=<bytes> replaces the capacity of every channel created.
pub fn capacity_override(c: usize) -> usize {
    match std::env::var("RJRSSYNC_VERIF_CAPACITY") {
        Ok(v) => v.parse::<usize>().unwrap_or(c),
        Err(_) => c,
    }
}
/// Accessors for the accounted-bytes counter (private field of Sender/Receiver).
pub fn sender_usage<T>(s: &Sender<T>) -> usize { s.channel_memory_usage.load(Ordering::SeqCst) }
pub fn receiver_usage<T>(r: &Receiver<T>) -> usize { r.channel_memory_usage.load(Ordering::SeqCst) }
pub fn receiver_queue_len<T>(r: &Receiver<T>) -> usize { r.inner.len() }
pub fn sender_queue_len<T>(s: &Sender<T>) -> usize { s.inner.len() }
pub fn sender_receiver_alive<T>(s: &Sender<T>) -> bool { s.receiver_alive.load(Ordering::SeqCst) }
