/// Walker thread-count override: RJRSSYNC_VERIF_WALK_THREADS=<n>.
pub fn num_threads_override(n: usize) -> usize {
    match std::env::var("RJRSSYNC_VERIF_WALK_THREADS") {
        Ok(v) => v.parse::<usize>().ok().filter(|x| *x >= 1).unwrap_or(n),
        Err(_) => n,
    }
}
