/// Builds a RootRelativePath from its normalised text ("" = root) - the field is private.
pub fn rrp_from_text(s: &str) -> RootRelativePath { RootRelativePath { inner: s.to_string() } }
pub fn rrp_text(p: &RootRelativePath) -> String { p.inner.clone() }
