// C06: a RootRelativePath with exactly this text (apply_filters is exercised on arbitrary strings,
// not only on the spellings TryFrom<&Path> produces).
pub fn filters_raw_path(s: &str) -> RootRelativePath { RootRelativePath { inner: s.to_string() } }
