/// C14: build a RootRelativePath from its wire representation (the one private String field).
pub fn wire_from_raw(s: String) -> RootRelativePath { RootRelativePath { inner: s } }
