/* LD_PRELOAD shim for the C08 check: the n-th creating open() below a path prefix fails once with EMFILE, after a
   short stall (so that the boss has queued the following chunks by the time the error reply exists).
   VERIF_SHIM_PREFIX=<absolute path prefix>  VERIF_SHIM_FAIL_NTH=<n, 0-based>  VERIF_SHIM_STALL_US=<microseconds> */
#define _GNU_SOURCE
#include <dlfcn.h>
#include <fcntl.h>
#include <stdarg.h>
#include <string.h>
#include <errno.h>
#include <stdlib.h>
#include <unistd.h>
#include <sys/types.h>

static int shim_count = 0;

static int shim_should_fail(const char *path, int flags) {
    const char *pre = getenv("VERIF_SHIM_PREFIX");
    const char *nth = getenv("VERIF_SHIM_FAIL_NTH");
    if (!pre || !nth || !(flags & O_CREAT) || !path) return 0;
    if (strncmp(path, pre, strlen(pre)) != 0) return 0;
    int k = __sync_fetch_and_add(&shim_count, 1);
    if (k != atoi(nth)) return 0;
    const char *st = getenv("VERIF_SHIM_STALL_US");
    if (st) usleep((useconds_t)atoi(st));
    return 1;
}

int open64(const char *path, int flags, ...) {
    static int (*real)(const char *, int, ...) = 0;
    mode_t mode = 0;
    if (flags & (O_CREAT | O_TMPFILE)) { va_list ap; va_start(ap, flags); mode = va_arg(ap, mode_t); va_end(ap); }
    if (!real) real = (int (*)(const char *, int, ...))dlsym(RTLD_NEXT, "open64");
    if (shim_should_fail(path, flags)) { errno = EMFILE; return -1; }
    return real(path, flags, mode);
}

int open(const char *path, int flags, ...) {
    static int (*real)(const char *, int, ...) = 0;
    mode_t mode = 0;
    if (flags & (O_CREAT | O_TMPFILE)) { va_list ap; va_start(ap, flags); mode = va_arg(ap, mode_t); va_end(ap); }
    if (!real) real = (int (*)(const char *, int, ...))dlsym(RTLD_NEXT, "open");
    if (shim_should_fail(path, flags)) { errno = EMFILE; return -1; }
    return real(path, flags, mode);
}
