/* LD_PRELOAD shim for the C17 check: the n-th pthread_create() of the process fails once with EAGAIN
   (what a process at its thread / memory limit sees).  VERIF_SHIM_SPAWN_FAIL_NTH=<n, 0-based>; a line is appended to
   VERIF_SHIM_SPAWN_LOG (if set) when the failure was delivered, so that the check knows the fault really happened. */
#define _GNU_SOURCE
#include <dlfcn.h>
#include <pthread.h>
#include <errno.h>
#include <stdlib.h>
#include <stdio.h>

static int spawn_count = 0;

int pthread_create(pthread_t *t, const pthread_attr_t *a, void *(*fn)(void *), void *arg) {
    static int (*real)(pthread_t *, const pthread_attr_t *, void *(*)(void *), void *) = 0;
    if (!real) real = (int (*)(pthread_t *, const pthread_attr_t *, void *(*)(void *), void *))dlsym(RTLD_NEXT, "pthread_create");
    const char *nth = getenv("VERIF_SHIM_SPAWN_FAIL_NTH");
    int k = __sync_fetch_and_add(&spawn_count, 1);
    if (nth && k == atoi(nth)) {
        const char *log = getenv("VERIF_SHIM_SPAWN_LOG");
        if (log) { FILE *f = fopen(log, "a"); if (f) { fprintf(f, "failed %d\n", k); fclose(f); } }
        return EAGAIN;
    }
    return real(t, a, fn, arg);
}
