// C14 (message codec): one request per stdin line, one answer line each.
//   E C <command description> | E R <response description>
//        -> "OK size=<serialized_size> send=<counter after a real channel send> rt=<0|1> <hex of bincode::serialize>"
//           or "ERR size=ERR send=PANIC" style classes when serialization fails
//   D C <hex> | D R <hex>   bincode::deserialize the bytes -> "OK <hex of the re-serialized value>" | "ERR"
// Descriptions: see ocaml/drv_wire.ml (the extracted model parses the same lines).
use std::io::BufRead;
use std::time::{Duration, SystemTime, UNIX_EPOCH};
use crate::boss_doer_interface::*;
use crate::root_relative_path::RootRelativePath;

fn unhex(s: &str) -> Vec<u8> {
    if s == "-" { return vec![]; }
    (0..s.len() / 2).map(|i| u8::from_str_radix(&s[2 * i..2 * i + 2], 16).unwrap()).collect()
}
fn hex(b: &[u8]) -> String {
    if b.is_empty() { return "-".to_string(); }
    const HX: &[u8; 16] = b"0123456789abcdef";
    let mut s = String::with_capacity(b.len() * 2);
    for x in b { s.push(HX[(x >> 4) as usize] as char); s.push(HX[(x & 15) as usize] as char); }
    s
}
pub fn payload(len: usize, seed: u32) -> Vec<u8> {
    let mut x = seed;
    let mut v = Vec::with_capacity(len);
    for _ in 0..len { x = x.wrapping_mul(1664525).wrapping_add(1013904223); v.push((x >> 24) as u8); }
    v
}
pub struct Toks<'a> { pub t: Vec<&'a str>, pub i: usize }
impl<'a> Toks<'a> {
    pub fn next(&mut self) -> &'a str { let x = self.t[self.i]; self.i += 1; x }
    fn string(&mut self) -> String { String::from_utf8(unhex(self.next())).unwrap() }
    fn path(&mut self) -> RootRelativePath { crate::root_relative_path::verif_hooks::wire_from_raw(self.string()) }
    fn u64(&mut self) -> u64 { self.next().parse().unwrap() }
    fn u32(&mut self) -> u32 { self.next().parse().unwrap() }
    fn boolean(&mut self) -> bool { self.next() == "1" }
    fn payload(&mut self) -> Vec<u8> { let (a, b) = self.next().split_once(':').unwrap(); payload(a.parse().unwrap(), b.parse().unwrap()) }
    fn duration(&mut self) -> Duration { let (a, b) = self.next().split_once(':').unwrap(); Duration::new(a.parse().unwrap(), b.parse().unwrap()) }
    fn kind(&mut self) -> SymlinkKind { match self.next() { "File" => SymlinkKind::File, "Folder" => SymlinkKind::Folder, "Unknown" => SymlinkKind::Unknown, x => panic!("kind {}", x) } }
    fn target(&mut self) -> SymlinkTarget { match self.next() { "norm" => SymlinkTarget::Normalized(self.string()), "notnorm" => SymlinkTarget::NotNormalized(self.string()), x => panic!("target {}", x) } }
    fn details_after(&mut self, t: &str) -> EntryDetails {
        match t {
            "file" => { let mt = time_of(self.next()); EntryDetails::File { modified_time: mt, size: self.u64() } }
            "folder" => EntryDetails::Folder,
            "symlink" => { let kind = self.kind(); EntryDetails::Symlink { kind, target: self.target() } }
            x => panic!("details {}", x),
        }
    }
    fn marker(&mut self) -> ProgressMarker {
        let completed_work = self.u64();
        let phase = match self.next() {
            "deleting" => ProgressPhase::Deleting { num_entries_deleted: self.u32() },
            "copying" => { let n = self.u32(); ProgressPhase::Copying { num_entries_copied: n, num_bytes_copied: self.u64() } }
            "done" => ProgressPhase::Done,
            x => panic!("phase {}", x),
        };
        ProgressMarker { completed_work, phase }
    }
    pub fn command(&mut self) -> Command {
        match self.next() {
            "SetRoot" => Command::SetRoot { root: self.string() },
            "GetEntries" => {
                let np: usize = self.next().parse().unwrap();
                let ps: Vec<String> = (0..np).map(|_| self.string()).collect();
                let nk: usize = self.next().parse().unwrap();
                let kinds: Vec<FilterKind> = (0..nk).map(|_| if self.next() == "I" { FilterKind::Include } else { FilterKind::Exclude }).collect();
                Command::GetEntries { filters: Filters { regex_set: regex::RegexSet::new(ps).unwrap(), kinds } }
            }
            "CreateRootAncestors" => Command::CreateRootAncestors,
            "GetFileContent" => Command::GetFileContent { path: self.path() },
            "CreateOrUpdateFile" => {
                let path = self.path(); let data = self.payload();
                let t = self.next();
                let set_modified_time = if t == "none" { None } else { Some(time_of(t)) };
                Command::CreateOrUpdateFile { path, data, set_modified_time, more_to_follow: self.boolean() }
            }
            "CreateSymlink" => { let path = self.path(); let kind = self.kind(); Command::CreateSymlink { path, kind, target: self.target() } }
            "CreateFolder" => Command::CreateFolder { path: self.path() },
            "DeleteFile" => Command::DeleteFile { path: self.path() },
            "DeleteFolder" => Command::DeleteFolder { path: self.path() },
            "DeleteSymlink" => { let path = self.path(); Command::DeleteSymlink { path, kind: self.kind() } }
            "ProfilingTimeSync" => Command::ProfilingTimeSync,
            "Marker" => Command::Marker(self.marker()),
            "Shutdown" => Command::Shutdown,
            x => panic!("command {}", x),
        }
    }
    pub fn response(&mut self) -> Response {
        match self.next() {
            "RootDetails" => {
                let root_details = match self.next() { "none" => None, _ => { let t = self.next(); Some(self.details_after(t)) } };
                let platform_differentiates_symlinks = self.boolean();
                let platform_dir_separator = self.string().chars().next().unwrap();
                Response::RootDetails { root_details, platform_differentiates_symlinks, platform_dir_separator }
            }
            "Entry" => { let p = self.path(); let t = self.next(); Response::Entry((p, self.details_after(t))) }
            "EndOfEntries" => Response::EndOfEntries,
            "FileContent" => { let data = self.payload(); Response::FileContent { data, more_to_follow: self.boolean() } }
            "ProfilingTimeSync" => Response::ProfilingTimeSync(self.duration()),
            "ProfilingDataDefault" => Response::ProfilingData(Default::default()),
            "Marker" => Response::Marker(self.marker()),
            "Error" => Response::Error(self.string()),
            x => panic!("response {}", x),
        }
    }
}
fn time_of(s: &str) -> SystemTime {
    let (a, b) = s.split_once(':').unwrap();
    let sec: i64 = a.parse().unwrap();
    let nsec: u32 = b.parse().unwrap();
    if sec >= 0 { UNIX_EPOCH + Duration::new(sec as u64, nsec) }
    else { UNIX_EPOCH - Duration::new(sec.unsigned_abs(), 0) + Duration::new(0, nsec) }
}

fn answer<T: serde::Serialize + serde::de::DeserializeOwned>(m: T) -> String {
    let ser = bincode::serialize(&m);
    let size = bincode::serialized_size(&m);
    // what memory_bound_channel::send does with it (it panics when serialized_size fails)
    let (s, r) = crate::memory_bound_channel::new::<T>(usize::MAX);
    let sent = std::panic::catch_unwind(std::panic::AssertUnwindSafe(|| s.send(m)));
    let send_txt = match sent {
        Err(_) => "PANIC".to_string(),
        Ok(Err(_)) => "SENDERR".to_string(),
        Ok(Ok(())) => {
            let usage = crate::memory_bound_channel::verif_hooks::sender_usage(&s);
            let back = r.recv().unwrap();
            let after = crate::memory_bound_channel::verif_hooks::sender_usage(&s);
            let same = match (&ser, bincode::serialize(&back)) { (Ok(a), Ok(b)) => *a == b, _ => false };
            if after == 0 && same { usage.to_string() } else { format!("BAD(after={},same={})", after, same) }
        }
    };
    match (ser, size) {
        (Ok(b), Ok(n)) => {
            let rt = match bincode::deserialize::<T>(&b) { Ok(m2) => bincode::serialize(&m2).map(|b2| b2 == b).unwrap_or(false), Err(_) => false };
            format!("OK size={} send={} rt={} {}", n, send_txt, if rt { 1 } else { 0 }, hex(&b))
        }
        (b, n) => format!("{} size={} send={}", if b.is_ok() { "OK" } else { "ERR" },
                          match n { Ok(n) => n.to_string(), Err(_) => "ERR".to_string() }, send_txt),
    }
}
fn decode<T: serde::Serialize + serde::de::DeserializeOwned>(b: &[u8]) -> String {
    match bincode::deserialize::<T>(b) {
        Ok(m) => match bincode::serialize(&m) { Ok(b2) => format!("OK {}", hex(&b2)), Err(_) => "OK unencodable".to_string() },
        Err(_) => "ERR".to_string(),
    }
}

pub fn run(_args: &[String]) -> i32 {
    std::panic::set_hook(Box::new(|_| {}));
    let stdin = std::io::stdin();
    for line in stdin.lock().lines() {
        let line = line.unwrap();
        let t: Vec<&str> = line.split_whitespace().collect();
        if t.is_empty() { continue; }
        let mut tk = Toks { t, i: 0 };
        let a = tk.next(); let b = tk.next();
        let out = match (a, b) {
            ("E", "C") => answer(tk.command()),
            ("E", "R") => answer(tk.response()),
            ("D", "C") => decode::<Command>(&unhex(tk.next())),
            ("D", "R") => decode::<Response>(&unhex(tk.next())),
            _ => "BADREQ".to_string(),
        };
        println!("{}", out);
    }
    0
}
