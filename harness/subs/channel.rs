// C14 (byte-accounted channel): operation sequences on the REAL memory_bound_channel.
// One scenario per stdin line, one answer line each.  args: [wait_ms]  (how long a send is observed
// before it is reported as blocked; a blocked send stays blocked until a recv, so a short wait can
// only err towards "blocked" - the python side re-runs disagreeing scenarios with a long wait).
//
//   S <cap> <op>...      single-threaded schedule; ops:
//        s<size>   send a message whose serialized size is exactly <size> (on a helper thread)
//                    -> "s:ok" | "s:blocked"
//        r         recv      -> "r:<id>"      t   try_recv -> "t:<id>" | "t:empty"
//                    with ",u" / ",b" appended when a blocked send got unblocked / is still blocked
//        u         counter   -> "u:<n>"       q   queue length -> "q:<n>"
//   T <cap> <seed> <n> <size>...   two threads: the sender sends n messages (sizes cycling through the
//        list), the receiver receives them with a seeded mix of recv / try_recv / yields
//        -> "T final=<counter after drain> max=<largest counter value sampled> recv=<id>:<size>,..."
use std::io::BufRead;
use std::sync::Arc;
use std::time::{Duration, Instant};
use crate::memory_bound_channel as mbc;

/// A message whose bincode size is exactly `size` bytes (a tuple of `size` u8: no length prefix).
pub struct Tok { pub id: u64, pub size: usize }
impl serde::Serialize for Tok {
    fn serialize<S: serde::Serializer>(&self, s: S) -> Result<S::Ok, S::Error> {
        use serde::ser::SerializeTuple;
        let mut t = s.serialize_tuple(self.size)?;
        for i in 0..self.size { t.serialize_element(&((self.id as usize).wrapping_add(i) as u8))?; }
        t.end()
    }
}

fn wait_finished<T>(h: &std::thread::JoinHandle<T>, wait: Duration) -> bool {
    let t0 = Instant::now();
    loop {
        if h.is_finished() { return true; }
        if t0.elapsed() >= wait { return false; }
        std::thread::yield_now();
    }
}

fn single(toks: &[&str], wait: Duration) -> String {
    let cap: usize = toks[1].parse().unwrap();
    let (s, r) = mbc::new::<Tok>(cap);
    let s = Arc::new(s);
    let mut pending: Option<std::thread::JoinHandle<()>> = None;
    let mut next_id: u64 = 1;
    let mut out: Vec<String> = vec![];
    // after a receive: did a blocked send get through?
    fn suffix(pending: &mut Option<std::thread::JoinHandle<()>>, wait: Duration) -> &'static str {
        match pending.take() {
            None => "",
            Some(h) => if wait_finished(&h, wait) { h.join().unwrap(); ",u" } else { *pending = Some(h); ",b" }
        }
    }
    for op in &toks[2..] {
        let c = op.as_bytes()[0] as char;
        match c {
            's' => {
                if pending.is_some() { out.push("s:BUSY".to_string()); continue; }
                let size: usize = op[1..].parse().unwrap();
                let id = next_id; next_id += 1;
                let s2 = s.clone();
                let before = mbc::verif_hooks::receiver_usage(&r);
                let h = std::thread::spawn(move || { s2.send(Tok { id, size }).unwrap(); });
                // computing the size of a big message takes a while: the observation window starts when
                // the counter has been incremented (visible for size > 0)
                let t0 = Instant::now();
                while size > 0 && !h.is_finished() && mbc::verif_hooks::receiver_usage(&r) == before
                      && t0.elapsed() < Duration::from_secs(30) { std::thread::yield_now(); }
                if wait_finished(&h, wait) { h.join().unwrap(); out.push("s:ok".to_string()); }
                else { pending = Some(h); out.push("s:blocked".to_string()); }
            }
            'r' => {
                // never block forever on an empty queue: poll with a deadline
                let t0 = Instant::now();
                let got = loop {
                    if mbc::verif_hooks::receiver_queue_len(&r) > 0 { break Some(r.recv().unwrap()); }
                    if t0.elapsed() > Duration::from_secs(2) { break None; }
                    std::thread::yield_now();
                };
                match got {
                    Some(m) => { let sfx = suffix(&mut pending, wait); out.push(format!("r:{}{}", m.id, sfx)); }
                    None => out.push("r:TIMEOUT".to_string()),
                }
            }
            't' => {
                match r.try_recv() {
                    Ok(m) => { let sfx = suffix(&mut pending, wait); out.push(format!("t:{}{}", m.id, sfx)); }
                    Err(_) => { let sfx = if pending.is_some() { ",b" } else { "" }; out.push(format!("t:empty{}", sfx)); }
                }
            }
            'u' => out.push(format!("u:{}", mbc::verif_hooks::receiver_usage(&r))),
            'q' => out.push(format!("q:{}", mbc::verif_hooks::receiver_queue_len(&r))),
            _ => out.push("BADOP".to_string()),
        }
    }
    // clean up: let a still blocked sender through; if it never gets through although the channel is
    // drained, the sender is deadlocked: report it (the thread is leaked, run() stops afterwards)
    if let Some(h) = pending.take() {
        let t0 = Instant::now();
        while !h.is_finished() && t0.elapsed() < Duration::from_secs(3) { let _ = r.try_recv(); std::thread::yield_now(); }
        if h.is_finished() { h.join().unwrap(); } else { out.push("HUNG".to_string()); }
    }
    out.join(" ")
}

fn two_threads(toks: &[&str]) -> String {
    let cap: usize = toks[1].parse().unwrap();
    let seed: u32 = toks[2].parse().unwrap();
    let n: usize = toks[3].parse().unwrap();
    let sizes: Vec<usize> = toks[4..].iter().map(|t| t.parse().unwrap()).collect();
    let (s, r) = mbc::new::<Tok>(cap);
    let sizes2 = sizes.clone();
    let sender = std::thread::spawn(move || {
        let mut x = seed ^ 0x9e3779b9;
        for i in 0..n {
            x = x.wrapping_mul(1664525).wrapping_add(1013904223);
            match (x >> 24) % 8 { 0 => std::thread::yield_now(), 1 => std::thread::sleep(Duration::from_micros(((x >> 16) % 50) as u64)), _ => {} }
            s.send(Tok { id: i as u64 + 1, size: sizes2[i % sizes2.len()] }).unwrap();
        }
        // the sender (and its counter handle) is dropped here
    });
    let receiver = std::thread::spawn(move || {
        let mut got: Vec<(u64, usize)> = Vec::with_capacity(n);
        let mut x = seed;
        let mut max_usage: usize = 0;
        while got.len() < n {
            x = x.wrapping_mul(1664525).wrapping_add(1013904223);
            let u = mbc::verif_hooks::receiver_usage(&r);
            if u > max_usage { max_usage = u; }
            match (x >> 24) % 8 {
                0 => std::thread::yield_now(),
                1 => std::thread::sleep(Duration::from_micros(((x >> 16) % 80) as u64)),
                2 | 3 | 4 => { if let Ok(m) = r.try_recv() { got.push((m.id, m.size)); } }
                _ => { match r.recv() { Ok(m) => got.push((m.id, m.size)), Err(_) => break } }
            }
        }
        // give the sender time to finish, then nothing may be left (no duplicates) and the counter must be 0
        let t0 = Instant::now();
        let mut extra = false;
        loop {
            match r.try_recv() {
                Ok(_) => { extra = true; break; }
                Err(crossbeam::channel::TryRecvError::Disconnected) => break,
                Err(crossbeam::channel::TryRecvError::Empty) => { if t0.elapsed() > Duration::from_secs(5) { break; } std::thread::yield_now(); }
            }
        }
        let fin = mbc::verif_hooks::receiver_usage(&r);
        let list: Vec<String> = got.iter().map(|(i, z)| format!("{}:{}", i, z)).collect();
        format!("T final={} max={} extra={} recv={}", fin, max_usage, if extra { 1 } else { 0 }, if list.is_empty() { "-".to_string() } else { list.join(",") })
    });
    // watchdog: a deadlocked pair must not hang the harness
    let t0 = Instant::now();
    while !(sender.is_finished() && receiver.is_finished()) {
        if t0.elapsed() > Duration::from_secs(120) { return "T HUNG".to_string(); }
        std::thread::sleep(Duration::from_millis(1));
    }
    sender.join().unwrap();
    receiver.join().unwrap()
}

pub fn run(args: &[String]) -> i32 {
    let wait = Duration::from_millis(args.get(0).and_then(|a| a.parse().ok()).unwrap_or(30));
    let stdin = std::io::stdin();
    for line in stdin.lock().lines() {
        let line = line.unwrap();
        let toks: Vec<&str> = line.split_whitespace().collect();
        if toks.is_empty() { continue; }
        let out = match toks[0] {
            "S" => single(&toks, wait),
            "T" => two_threads(&toks),
            _ => "BADREQ".to_string(),
        };
        let hung = out.ends_with("HUNG");
        println!("{}", out);
        if hung {
            // a leaked spinning thread is left behind: answer nothing more from this process
            use std::io::Write;
            std::io::stdout().flush().ok();
            std::process::exit(0);
        }
    }
    0
}
