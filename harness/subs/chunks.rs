// C11: one request per stdin line, one answer line each.
//   G <hexpath>
//        the REAL handle_get_file_contents on that file ->  OK <n> <size>:<more>:<crc32> ...   |  ERR <hexmsg>
//   R <listed> <mtime_ns> <hexdestpath> <seed> <end F|X> <size>:<more>,... | -  [Z<a>-<b>,<a>-<b>...]
//        the REAL sync() with a scripted source doer (a File root of `listed` bytes / `mtime_ns`, answering
//        GetFileContent with exactly the given chunk sequence; byte i of the stream is fill(seed, i), or 0 when
//        i lies in one of the optional half-open zero ranges [a, b) (sparse / zero-padded contents);
//        end X: the scripted doer hangs up after the last chunk) and the REAL doer as destination
//        ->  <Ok|Panic|Err:size|Err:lost|Err:other:hex> <absent | len:crc32:(mtime_ns|now)>
use std::io::BufRead;
use crate::boss_doer_interface::{Command, Response, EntryDetails};

fn unhex(s: &str) -> String {
    if s == "-" { return String::new(); }
    let b: Vec<u8> = (0..s.len() / 2).map(|i| u8::from_str_radix(&s[2 * i..2 * i + 2], 16).unwrap()).collect();
    String::from_utf8(b).unwrap()
}
fn hex(b: &[u8]) -> String { if b.is_empty() { "-".to_string() } else { b.iter().map(|x| format!("{:02x}", x)).collect() } }

fn crc32(data: &[u8]) -> u32 {
    let mut table = [0u32; 256];
    for i in 0..256u32 { let mut c = i; for _ in 0..8 { c = if c & 1 != 0 { 0xEDB88320 ^ (c >> 1) } else { c >> 1 }; } table[i as usize] = c; }
    let mut c = 0xFFFF_FFFFu32;
    for b in data { c = table[((c ^ (*b as u32)) & 0xff) as usize] ^ (c >> 8); }
    c ^ 0xFFFF_FFFF
}
pub fn fill(seed: u64, i: u64) -> u8 { ((i.wrapping_mul(131).wrapping_add(seed)) % 251) as u8 }

fn get(path: &str) -> String {
    let (chunks, r) = crate::doer::verif_hooks::chunks_get_file_contents(path);
    match r {
        Ok(()) => format!("OK {} {}", chunks.len(), chunks.iter().map(|(d, m)| format!("{}:{}:{:08x}", d.len(), if *m { 1 } else { 0 }, crc32(d))).collect::<Vec<_>>().join(" ")),
        Err(e) => format!("ERR {}", hex(e.as_bytes())),
    }
}

fn content(seed: u64, zeros: &[(u64, u64)], i: u64) -> u8 { if zeros.iter().any(|(a, b)| i >= *a && i < *b) { 0 } else { fill(seed, i) } }

fn relay(listed: u64, mtime_ns: u64, dest: &str, seed: u64, hang_up: bool, chunks: Vec<(usize, bool)>, zeros: Vec<(u64, u64)>) -> String {
    let mtime = std::time::UNIX_EPOCH + std::time::Duration::from_nanos(mtime_ns);
    let mut src = crate::boss_launch::verif_hooks::comms_with_doer("scripted src", move |rx, tx| {
        loop {
            match rx.recv() {
                Ok(Command::SetRoot { .. }) => {
                    let _ = tx.send(Response::RootDetails { root_details: Some(EntryDetails::File { modified_time: mtime, size: listed }),
                        platform_differentiates_symlinks: false, platform_dir_separator: '/' });
                }
                Ok(Command::GetFileContent { .. }) => {
                    let mut off = 0u64;
                    for (sz, more) in chunks.iter() {
                        let data: Vec<u8> = (0..*sz as u64).map(|i| content(seed, &zeros, off + i)).collect();
                        off += *sz as u64;
                        if tx.send(Response::FileContent { data, more_to_follow: *more }).is_err() { return Ok(()); }
                    }
                    if hang_up { return Ok(()); }
                }
                Ok(Command::Shutdown) | Err(_) => return Ok(()),
                Ok(_) => {}
            }
        }
    });
    let mut dst = crate::boss_launch::verif_hooks::comms_with_real_doer("real dest");
    let spec = crate::boss_frontend::SyncSpec {
        src: "scripted/source/file".to_string(), dest: dest.to_string(), filters: vec![],
        dest_file_newer_behaviour: crate::boss_frontend::DestFileUpdateBehaviour::Overwrite,
        dest_file_older_behaviour: crate::boss_frontend::DestFileUpdateBehaviour::Overwrite,
        files_same_time_behaviour: crate::boss_frontend::DestFileUpdateBehaviour::Overwrite,
        dest_entry_needs_deleting_behaviour: crate::boss_frontend::DestEntryNeedsDeletingBehaviour::Delete,
        dest_root_needs_deleting_behaviour: crate::boss_frontend::DestRootNeedsDeletingBehaviour::Delete,
    };
    let pb = indicatif::ProgressBar::hidden();
    // a panic inside sync() (e.g. the progress accounting assertion) is reported as "Panic", not as a harness crash
    let r = std::panic::catch_unwind(std::panic::AssertUnwindSafe(|| crate::boss_sync::sync(&spec, false, &pb, false, false, &mut src, &mut dst)));
    src.shutdown();
    // Barrier: wait until the real doer has executed every command sent to it.  Comms::shutdown drops the response
    // receiver before joining the doer, and a doer that then fails to echo a queued progress Marker stops without
    // executing the commands behind it - after a failed sync the destination state would depend on thread timing.
    let barrier = crate::boss_doer_interface::ProgressMarker { completed_work: u64::MAX, phase: crate::boss_doer_interface::ProgressPhase::Done };
    if dst.send_command(Command::Marker(barrier)).is_ok() {
        loop {
            match dst.receive_response() {
                Ok(Response::Marker(m)) if m.completed_work == u64::MAX => break,
                Ok(_) => {}
                Err(_) => break,
            }
        }
    }
    dst.shutdown();   // joins the real doer: every command sent before has been executed
    let res = match r {
        Err(_) => "Panic".to_string(),
        Ok(Ok(())) => "Ok".to_string(),
        Ok(Err(e)) => if e.contains("has changed during the sync") { "Err:size".to_string() }
                  else if e.contains("Lost communication") || e.contains("Unexpected response") { "Err:lost".to_string() }
                  else { format!("Err:other:{}", hex(e.as_bytes())) },
    };
    let st = match std::fs::symlink_metadata(dest) {
        Err(_) => "absent".to_string(),
        Ok(m) => {
            let data = std::fs::read(dest).unwrap_or_default();
            let mt = m.modified().ok().and_then(|t| t.duration_since(std::time::UNIX_EPOCH).ok()).map(|d| d.as_nanos());
            format!("{}:{:08x}:{}", data.len(), crc32(&data), if mt == Some(mtime_ns as u128) { mtime_ns.to_string() } else { "now".to_string() })
        }
    };
    format!("{} {}", res, st)
}

pub fn run(_args: &[String]) -> i32 {
    let stdin = std::io::stdin();
    for line in stdin.lock().lines() {
        let line = line.unwrap();
        let t: Vec<&str> = line.split_whitespace().collect();
        if t.is_empty() { continue; }
        match t[0] {
            "G" => println!("{}", get(&unhex(t[1]))),
            "R" => {
                let chunks: Vec<(usize, bool)> = if t[6] == "-" { vec![] } else {
                    t[6].split(',').map(|c| { let mut p = c.split(':'); (p.next().unwrap().parse().unwrap(), p.next().unwrap() == "1") }).collect() };
                let zeros: Vec<(u64, u64)> = match t.get(7) {
                    Some(z) if z.starts_with('Z') => z[1..].split(',').map(|r| { let mut p = r.split('-'); (p.next().unwrap().parse().unwrap(), p.next().unwrap().parse().unwrap()) }).collect(),
                    _ => vec![] };
                println!("{}", relay(t[1].parse().unwrap(), t[2].parse().unwrap(), &unhex(t[3]), t[4].parse().unwrap(), t[5] == "X", chunks, zeros));
            }
            _ => println!("BADREQ"),
        }
    }
    0
}
