// C07/C02/C12: arbitrary command sequences against the REAL local doer thread (doer_thread_running_on_boss), command by command.
// One request per line:  <hex root dir> <cmd> <cmd> ...
//   cmd := Mk:<hexpath> | RmF:<hexpath> | RmD:<hexpath> | RmL:<hexpath>:<f|d|u> | Lnk:<hexpath>:<f|d|u>:<N|U><hextext> |
//          W:<hexpath>:<hexdata>:<mtime ns|->:<more 0|1>            (hexpath `-` = the root)
// Answer: one token per command: `ok` or `err=<hex of the error text>`; the doer is synchronised after every command with a Marker.
use std::io::BufRead;
use std::time::{Duration, UNIX_EPOCH};
use crate::boss_doer_interface::*;
use crate::root_relative_path::verif_hooks::rrp_from_text;
fn unhex(t: &str) -> Vec<u8> { if t == "-" { vec![] } else { (0..t.len() / 2).map(|i| u8::from_str_radix(&t[2 * i..2 * i + 2], 16).unwrap()).collect() } }
fn hex(b: &[u8]) -> String { if b.is_empty() { "-".to_string() } else { b.iter().map(|x| format!("{:02x}", x)).collect() } }
fn s(t: &str) -> String { String::from_utf8_lossy(&unhex(t)).to_string() }
fn kind(k: &str) -> SymlinkKind { match k { "f" => SymlinkKind::File, "d" => SymlinkKind::Folder, _ => SymlinkKind::Unknown } }
pub fn run(_args: &[String]) -> i32 {
    let stdin = std::io::stdin();
    for line in stdin.lock().lines() {
        let line = line.unwrap();
        let toks: Vec<&str> = line.split_whitespace().collect();
        if toks.is_empty() { println!("BADREQ"); continue; }
        let comms = crate::boss_launch::verif_hooks::comms_with_real_doer("doerops");
        comms.send_command(Command::SetRoot { root: s(toks[0]) }).unwrap();
        let _ = comms.receive_response();
        let mut out: Vec<String> = vec![];
        let mut marker: u64 = 1;
        for t in &toks[1..] {
            let f: Vec<&str> = t.split(':').collect();
            let c = match f[0] {
                "Mk" => Command::CreateFolder { path: rrp_from_text(&s(f[1])) },
                "RmF" => Command::DeleteFile { path: rrp_from_text(&s(f[1])) },
                "RmD" => Command::DeleteFolder { path: rrp_from_text(&s(f[1])) },
                "RmL" => Command::DeleteSymlink { path: rrp_from_text(&s(f[1])), kind: kind(f[2]) },
                "Lnk" => {
                    let text = String::from_utf8_lossy(&unhex(&f[3][1..])).to_string();
                    let target = if f[3].starts_with('N') { SymlinkTarget::Normalized(text) } else { SymlinkTarget::NotNormalized(text) };
                    Command::CreateSymlink { path: rrp_from_text(&s(f[1])), kind: kind(f[2]), target }
                }
                "W" => Command::CreateOrUpdateFile { path: rrp_from_text(&s(f[1])), data: unhex(f[2]),
                    set_modified_time: if f[3] == "-" { None } else { Some(UNIX_EPOCH + Duration::from_nanos(f[3].parse::<u64>().unwrap())) },
                    more_to_follow: f[4] == "1" },
                _ => { out.push("BADCMD".to_string()); continue; }
            };
            if comms.send_command(c).is_err() { out.push("LOST".to_string()); break; }
            // synchronise: everything the doer answers before it echoes this marker belongs to the command just sent
            marker += 1;
            if comms.send_command(Command::Marker(ProgressMarker { completed_work: marker, phase: ProgressPhase::Done })).is_err() { out.push("LOST".to_string()); break; }
            let mut res = "ok".to_string();
            loop {
                match comms.receive_response() {
                    Ok(Response::Marker(m)) if m.completed_work == marker => break,
                    Ok(Response::Error(e)) => { res = format!("err={}", hex(e.as_bytes())); }
                    Ok(_) => {}
                    Err(_) => { res = "LOST".to_string(); break; }
                }
            }
            out.push(res);
        }
        comms.shutdown();
        println!("{}", out.join(" "));
    }
    0
}
