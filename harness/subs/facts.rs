// Prints facts about the running code, one `key value` per line, for Gen/Facts.v.
pub fn run(_args: &[String]) -> i32 {
    println!("channel_capacity {}", crate::boss_launch::BOSS_DOER_CHANNEL_MEMORY_CAPACITY);
    println!("version {}", crate::boss_doer_interface::get_version_string());
    println!("handshake_started {}", crate::boss_doer_interface::HANDSHAKE_STARTED_MSG);
    println!("handshake_completed {}", crate::boss_doer_interface::HANDSHAKE_COMPLETED_MSG);
    println!("section_name {}", crate::embedded_binaries::SECTION_NAME);
    println!("defaults {}", crate::boss_frontend::verif_hooks::defaults());
    0
}
