// C11 facts from the running code -> Gen/Facts_chunks.v
//   l_ladder            chunk sizes the real handle_get_file_contents produced for a 20 MiB file
//   n_first_chunk / n_max_chunk
//   n_overhead_file_content   bincode size of Response::FileContent with empty data
//   n_overhead_create_file    bincode size of Command::CreateOrUpdateFile with empty data, root path, Some(mtime)
//   n_frame_payload_max       largest FileContent data length the real AsyncEncryptedComms delivered
//   n_frame_buf               = n_frame_payload_max + overhead_file_content + 16 (tag) + 8 (length prefix)
//   b_create_file_fits        a CreateOrUpdateFile with a max chunk and a 4096-byte path got through
use crate::boss_doer_interface::{Command, Response};
pub fn run(_args: &[String]) -> i32 {
    let dir = std::env::temp_dir().join(format!("rjverif_facts_chunks_{}", std::process::id()));
    let _ = std::fs::create_dir_all(&dir);
    let f = dir.join("big");
    { let fh = std::fs::File::create(&f).unwrap(); fh.set_len(20 * 1024 * 1024).unwrap(); }
    let (chunks, r) = crate::doer::verif_hooks::chunks_get_file_contents(f.to_str().unwrap());
    let _ = std::fs::remove_dir_all(&dir);
    if r.is_err() { eprintln!("facts-chunks: {:?}", r); return 1; }
    let sizes: Vec<usize> = chunks.iter().map(|c| c.0.len()).collect();
    println!("l_ladder {}", sizes.iter().map(|s| s.to_string()).collect::<Vec<_>>().join(" "));
    println!("n_first_chunk {}", sizes[0]);
    let maxc = *sizes.iter().max().unwrap();
    println!("n_max_chunk {}", maxc);
    let ofc = bincode::serialized_size(&Response::FileContent { data: vec![], more_to_follow: true }).unwrap() as usize;
    let t = std::time::UNIX_EPOCH + std::time::Duration::new(1_600_000_000, 123_456_789);
    let ocf = bincode::serialized_size(&Command::CreateOrUpdateFile { path: crate::root_relative_path::RootRelativePath::root(),
        data: vec![], set_modified_time: Some(t), more_to_follow: false }).unwrap() as usize;
    println!("n_overhead_file_content {}", ofc);
    println!("n_overhead_create_file {}", ocf);
    // Largest payload the real comms deliver.  First try the boundary implied by an 8 MiB buffer
    // (one delivered message, one refused); if the code changed, fall back to a binary search.
    let probe = |n: usize| crate::encrypted_comms::verif_hooks::chunks_probe(0, n, 0).unwrap_or(false);
    let guess = 8192 * 1024 - 8 - 16 - ofc;
    let best = if probe(guess) && !probe(guess + 1) { guess } else {
        let (mut lo, mut hi) = (0usize, 64 * 1024 * 1024);   // invariant: probe(lo) ok (0 assumed), probe(hi) fails (assumed)
        while hi - lo > 1 { let mid = (lo + hi) / 2; if probe(mid) { lo = mid } else { hi = mid } }
        lo
    };
    println!("n_frame_payload_max {}", best);
    println!("n_frame_buf {}", best + ofc + 16 + 8);
    let fits = crate::encrypted_comms::verif_hooks::chunks_probe(1, maxc, 4096).unwrap_or(false);
    println!("b_create_file_fits {}", if fits { 1 } else { 0 });
    0
}
