// C18 facts -> Gen/Facts_exits.v: every exit status the source text hands to the operating system.
// Scans the source files of the crate being run (CARGO_MANIFEST_DIR/src/**/*.rs, comments and string literals
// removed) for  ExitCode::from(<x>)  /  process::exit(<x>)  /  ExitCode::SUCCESS  /  ExitCode::FAILURE.
//   l_exit_codes_doer   the literals found in doer.rs            l_exit_codes_boss   those of every other file
//   n_exit_nonliteral   number of sites whose argument is not an integer literal (must be 0 for the proof)
//   s_exit_sites        file:line=value for each site (for the reader)
fn strip(src: &str) -> String {
    // replaces comments and the inside of string / char literals by spaces, keeps line structure
    let b: Vec<char> = src.chars().collect();
    let mut out = String::with_capacity(src.len());
    let mut i = 0;
    while i < b.len() {
        let c = b[i];
        if c == '/' && i + 1 < b.len() && b[i + 1] == '/' {
            while i < b.len() && b[i] != '\n' { out.push(' '); i += 1; }
        } else if c == '/' && i + 1 < b.len() && b[i + 1] == '*' {
            let mut depth = 0;
            while i < b.len() {
                if b[i] == '/' && i + 1 < b.len() && b[i + 1] == '*' { depth += 1; out.push_str("  "); i += 2; }
                else if b[i] == '*' && i + 1 < b.len() && b[i + 1] == '/' { depth -= 1; out.push_str("  "); i += 2; if depth == 0 { break; } }
                else { out.push(if b[i] == '\n' { '\n' } else { ' ' }); i += 1; }
            }
        } else if c == 'r' && (i == 0 || !(b[i - 1].is_alphanumeric() || b[i - 1] == '_')) && {
            let mut j = i + 1; while j < b.len() && b[j] == '#' { j += 1; } j < b.len() && b[j] == '"' } {
            // raw string r"..." / r#"..."#: no escapes, ends at a quote followed by the same number of hashes
            let mut j = i + 1; let mut hashes = 0;
            while b[j] == '#' { hashes += 1; j += 1; }
            j += 1;                                              // the opening quote
            for _ in i..j { out.push(' '); }
            loop {
                if j >= b.len() { break; }
                if b[j] == '"' && (0..hashes).all(|k| j + 1 + k < b.len() && b[j + 1 + k] == '#') {
                    for _ in 0..=hashes { out.push(' '); }
                    j += 1 + hashes;
                    break;
                }
                out.push(if b[j] == '\n' { '\n' } else { ' ' });
                j += 1;
            }
            i = j;
        } else if c == '"' {
            out.push('"'); i += 1;
            while i < b.len() && b[i] != '"' {
                if b[i] == '\\' && i + 1 < b.len() { out.push_str("  "); i += 2; }
                else { out.push(if b[i] == '\n' { '\n' } else { ' ' }); i += 1; }
            }
            if i < b.len() { out.push('"'); i += 1; }
        } else if c == '\'' && i + 2 < b.len() && (b[i + 2] == '\'' || (b[i + 1] == '\\' && i + 3 < b.len() && b[i + 3] == '\'')) {
            // a char literal ('x' or '\x'); lifetimes ('a) are left alone
            let n = if b[i + 2] == '\'' { 3 } else { 4 };
            for _ in 0..n { out.push(' '); }
            i += n;
        } else { out.push(c); i += 1; }
    }
    out
}

fn scan(rel: &str, text: &str, sites: &mut Vec<(String, usize, Option<u64>)>) {
    let clean = strip(text);
    for (pat, fixed) in [("ExitCode::from(", None), ("process::exit(", None), ("ExitCode::SUCCESS", Some(0u64)), ("ExitCode::FAILURE", Some(1u64))] {
        let mut from = 0;
        while let Some(off) = clean[from..].find(pat) {
            let at = from + off;
            let line = clean[..at].matches('\n').count() + 1;
            let value = match fixed {
                Some(v) => Some(v),
                None => {
                    let rest = &clean[at + pat.len()..];
                    let arg: String = rest.chars().take_while(|c| *c != ')').collect();
                    let a = arg.trim().replace('_', "");
                    let digits: String = a.chars().take_while(|c| c.is_ascii_digit()).collect();
                    let suffix = &a[digits.len()..];
                    if !digits.is_empty() && (suffix.is_empty() || ["u8", "i32", "u32", "i64", "u64", "usize"].contains(&suffix)) { digits.parse::<u64>().ok() } else { None }
                }
            };
            sites.push((rel.to_string(), line, value));
            from = at + pat.len();
        }
    }
}

fn walk(dir: &std::path::Path, base: &std::path::Path, files: &mut Vec<(String, std::path::PathBuf)>) {
    if let Ok(rd) = std::fs::read_dir(dir) {
        for e in rd.flatten() {
            let p = e.path();
            if p.is_dir() { walk(&p, base, files); }
            else if p.extension().map(|x| x == "rs").unwrap_or(false) {
                files.push((p.strip_prefix(base).unwrap().to_string_lossy().to_string(), p));
            }
        }
    }
}

pub fn run(_args: &[String]) -> i32 {
    let base = std::path::Path::new(env!("CARGO_MANIFEST_DIR"));
    let mut files = vec![];
    walk(&base.join("src"), base, &mut files);
    files.sort();
    if files.is_empty() { eprintln!("facts-exits: no source files under {:?}", base); return 1; }
    let mut sites = vec![];
    for (rel, p) in &files {
        match std::fs::read_to_string(p) { Ok(t) => scan(rel, &t, &mut sites), Err(e) => { eprintln!("facts-exits: {:?}: {}", p, e); return 1; } }
    }
    sites.sort();
    let lit = |doer: bool| sites.iter().filter(|s| (s.0 == "src/doer.rs") == doer).filter_map(|s| s.2.map(|v| v.to_string())).collect::<Vec<_>>().join(" ");
    println!("l_exit_codes_boss {}", lit(false));
    println!("l_exit_codes_doer {}", lit(true));
    println!("n_exit_nonliteral {}", sites.iter().filter(|s| s.2.is_none()).count());
    println!("n_exit_files_scanned {}", files.len());
    println!("s_exit_sites {}", sites.iter().map(|s| format!("{}:{}={}", s.0, s.1, s.2.map(|v| v.to_string()).unwrap_or("?".to_string()))).collect::<Vec<_>>().join(","));
    0
}
