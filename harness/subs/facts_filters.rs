// C06 facts from the running code: the pattern text compile_filters hands to the regex crate for the filter "+X".
pub fn run(_args: &[String]) -> i32 {
    let f = crate::boss_sync::verif_hooks::filters_compile(&["+X".to_string()]).unwrap();
    println!("s_wrap_probe {}", crate::boss_sync::verif_hooks::filters_patterns(&f)[0]);
    0
}
