// Facts about the frame layer, observed on the running code (-> Gen/Facts_frames.v).
use crate::encrypted_comms::verif_hooks as h;

fn recv_class_for_len(len: u64) -> String {
    let (_, end, _) = h::fr_receive_direct([7u8; 16], 0, 0, vec![len.to_le_bytes().to_vec()]);
    end
}
pub fn run(_args: &[String]) -> i32 {
    std::panic::set_hook(Box::new(|_| {}));
    // largest length field the real `receive` takes without the slice-index panic
    let (mut lo, mut hi) = (0u64, 1u64 << 40);   // lo accepted, hi panics
    if recv_class_for_len(hi) != "panic-oversize" { println!("n_frames_buf 0"); return 0; }
    // the expected value first, then bisection if the code changed
    if recv_class_for_len(8388608) != "panic-oversize" && recv_class_for_len(8388609) == "panic-oversize" { lo = 8388608; hi = 8388609; }
    while hi - lo > 1 {
        let mid = lo + (hi - lo) / 2;
        if recv_class_for_len(mid) == "panic-oversize" { hi = mid } else { lo = mid }
    }
    let buf = lo;
    println!("n_frames_buf {}", buf);
    // ciphertext expansion and counter step
    let (end, ctr, wire) = h::fr_send_frames([7u8; 16], 0, 0, vec![
        h::FrOut::Msg(h::FrMsg { id: 1, payload: vec![1, 2, 3] }), h::FrOut::Msg(h::FrMsg { id: 2, payload: vec![] })]);
    let l0 = u64::from_le_bytes(wire[0..8].try_into().unwrap());
    println!("n_frames_tag {}", l0 - 15);
    println!("n_frames_ctr_after_two {}", if end == "ok" { ctr } else { 999 });
    println!("b_frames_counter_advances {}", if ctr == 4 { 1 } else { 0 });
    0
}
