// C18 facts from the running code -> Gen/Facts_progress.v: the constants of boss_progress.rs
pub fn run(_args: &[String]) -> i32 {
    let (min_file_size, delete_work, marker_threshold) = crate::boss_progress::verif_hooks::progress_consts();
    println!("n_min_file_size {}", min_file_size);
    println!("n_delete_work {}", delete_work);
    println!("n_marker_threshold {}", marker_threshold);
    0
}
