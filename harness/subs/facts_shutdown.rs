// Facts about the shutdown protocol, asked of the running code (C09).  -> Gen/Facts_shutdown.v
//   b_sender_wakes_on_receiver_drop   a sender waiting for capacity returns once its receiver is dropped
//   b_local_shutdown_drops_receiver   Comms::shutdown (local) returns although the doer thread is waiting
//                                     for capacity in the response channel
//   n_real_capacity                   BOSS_DOER_CHANNEL_MEMORY_CAPACITY
use std::sync::mpsc;
use std::time::Duration;
use crate::boss_doer_interface::Response;

fn within<F: FnOnce() + Send + 'static>(f: F, ms: u64) -> bool {
    let (tx, rx) = mpsc::channel::<()>();
    std::thread::spawn(move || { f(); let _ = tx.send(()); });
    rx.recv_timeout(Duration::from_millis(ms)).is_ok()
}

pub fn run(_args: &[String]) -> i32 {
    // every channel created below has capacity 0: any queued message puts it "above capacity"
    std::env::set_var("RJRSSYNC_VERIF_CAPACITY", "0");
    // (1) the channel itself
    let (s, r) = crate::memory_bound_channel::new::<Response>(0);
    s.send(Response::Error("first".to_string())).unwrap();          // no wait: the channel was empty
    let (started_tx, started_rx) = mpsc::channel::<()>();
    let wakes = {
        let h = move || { let _ = started_tx.send(()); let _ = s.send(Response::Error("second".to_string())); };
        let (tx, rx) = mpsc::channel::<()>();
        std::thread::spawn(move || { h(); let _ = tx.send(()); });
        let _ = started_rx.recv_timeout(Duration::from_millis(2000));
        std::thread::sleep(Duration::from_millis(50));               // let it enter the capacity wait
        drop(r);
        rx.recv_timeout(Duration::from_millis(3000)).is_ok()
    };
    println!("b_sender_wakes_on_receiver_drop {}", if wakes { 1 } else { 0 });
    // (2) local shutdown with the doer thread in the capacity wait of its response channel
    let comms = crate::boss_launch::verif_hooks::comms_with_doer("facts doer", |_r, s| {
        let _ = s.send(Response::Error("first".to_string()));
        let _ = s.send(Response::Error("second".to_string()));     // waits for capacity until the boss stops listening
        Ok(())
    });
    std::thread::sleep(Duration::from_millis(50));
    let ok = within(move || comms.shutdown(), 3000);
    println!("b_local_shutdown_drops_receiver {}", if ok { 1 } else { 0 });
    println!("n_real_capacity {}", crate::boss_launch::BOSS_DOER_CHANNEL_MEMORY_CAPACITY);
    let _ = std::io::Write::flush(&mut std::io::stdout());
    // threads that are still spinning must not keep the process alive
    std::process::exit(0);
}
