// Which Command kinds does the boss send to which doer?  Scanned from the source text that is being compiled
// (include_str! of boss_sync.rs), tolerant of whitespace and line breaks between receiver and call.
fn scan(src: &str, who: &str) -> Vec<String> {
    let mut out: Vec<String> = vec![];
    let key = "send_command(";
    let mut i = 0;
    while let Some(off) = src[i..].find(key) {
        let at = i + off;
        let before: String = src[at.saturating_sub(80)..at].chars().filter(|c| !c.is_whitespace()).collect();
        let after = &src[at + key.len()..];
        let after_trim = after.trim_start();
        if before.ends_with(&format!("{}.", who)) || before.ends_with(&format!("{}\n.", who)) {
            if let Some(rest) = after_trim.strip_prefix("Command::") {
                let ident: String = rest.chars().take_while(|c| c.is_alphanumeric() || *c == '_').collect();
                if !out.contains(&ident) { out.push(ident); }
            } else {
                let ident: String = after_trim.chars().take_while(|c| c.is_alphanumeric() || *c == '_').collect();
                let v = format!("?{}", ident);
                if !out.contains(&v) { out.push(v); }
            }
        }
        i = at + key.len();
    }
    out.sort();
    out
}
pub fn run(_args: &[String]) -> i32 {
    let src = include_str!(concat!(env!("CARGO_MANIFEST_DIR"), "/src/boss_sync.rs"));
    println!("s_src_sends {}", scan(src, "src_comms").join(","));
    println!("s_dest_sends {}", scan(src, "dest_comms").join(","));
    0
}
