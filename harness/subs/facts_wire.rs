// Facts about the encrypted TCP leg for C14, observed on the running code (-> Gen/Facts_wire.v):
//   n_wire_recv_max    largest length field the REAL receiving thread of an AsyncEncryptedComms accepts (goes on to
//                      read that many bytes); above it the frame is refused (slice-index panic, or any error)
//   n_wire_tag         bytes the REAL sending thread adds to the plaintext (AEAD tag)
//   n_wire_len_prefix  width of the length header
use crate::encrypted_comms::verif_hooks as h;

fn accepted(len: u64) -> bool { let c = h::lk_recv_len_class(len); c == "eof-body" || c == "decrypt" }

pub fn run(_args: &[String]) -> i32 {
    std::panic::set_hook(Box::new(|_| {}));
    // the expected boundary first (8 MiB); if the code changed, bisect (acceptance is assumed monotone)
    let best = if accepted(8388608) && !accepted(8388609) { 8388608 } else if !accepted(0) { 0 } else {
        let (mut lo, mut hi) = (0u64, 1u64 << 36);       // lo accepted, hi refused (1 << 36 cannot be a slice of a buffer we could allocate)
        if accepted(hi) { hi = u64::MAX; }
        while hi - lo > 1 { let mid = lo + (hi - lo) / 2; if accepted(mid) { lo = mid } else { hi = mid } }
        lo
    };
    println!("n_wire_recv_max {}", best);
    let (l, plain) = h::lk_small_frame();
    println!("n_wire_tag {}", l - plain);
    println!("n_wire_len_prefix 8");
    0
}
