// C06: one request per line:  F <nfilters> <hexfilter>... <npaths> <hexpath>...   ("-" = empty string)
// answer:  ERR sign | ERR regex | OK <I/E per path, boss-compiled set> <I/E per path, set after the
// bincode round trip that ships it to a doer> <hex of the pattern texts handed to the regex crate, comma separated>
use std::io::BufRead;
fn unhex(s: &str) -> String {
    if s == "-" { return String::new(); }
    let b: Vec<u8> = (0..s.len() / 2).map(|i| u8::from_str_radix(&s[2 * i..2 * i + 2], 16).unwrap()).collect();
    String::from_utf8(b).unwrap()
}
fn hex(b: &[u8]) -> String { if b.is_empty() { "-".to_string() } else { b.iter().map(|x| format!("{:02x}", x)).collect() } }
pub fn run(_args: &[String]) -> i32 {
    let stdin = std::io::stdin();
    for line in stdin.lock().lines() {
        let line = line.unwrap();
        let toks: Vec<&str> = line.split_whitespace().collect();
        if toks.len() < 3 || toks[0] != "F" { println!("BADREQ"); continue; }
        let nf: usize = toks[1].parse().unwrap();
        let filters: Vec<String> = toks[2..2 + nf].iter().map(|t| unhex(t)).collect();
        let np: usize = toks[2 + nf].parse().unwrap();
        let paths: Vec<String> = toks[3 + nf..3 + nf + np].iter().map(|t| unhex(t)).collect();
        match crate::boss_sync::verif_hooks::filters_compile(&filters) {
            Err(e) => {
                if e.starts_with("Invalid filter '") { println!("ERR sign"); } else { println!("ERR regex"); }
            }
            Ok(f) => {
                let shipped: crate::boss_doer_interface::Filters =
                    bincode::deserialize(&bincode::serialize(&f).unwrap()).unwrap();
                let mut a = String::new();
                let mut b = String::new();
                for p in &paths {
                    let rp = crate::root_relative_path::verif_hooks::filters_raw_path(p);
                    a.push(if crate::doer::verif_hooks::filters_apply(&rp, &f) { 'I' } else { 'E' });
                    b.push(if crate::doer::verif_hooks::filters_apply(&rp, &shipped) { 'I' } else { 'E' });
                }
                if paths.is_empty() { a.push('-'); b.push('-'); }
                let pats: Vec<String> = crate::boss_sync::verif_hooks::filters_patterns(&f).iter().map(|p| hex(p.as_bytes())).collect();
                println!("OK {} {} {}", a, b, if pats.is_empty() { "-".to_string() } else { pats.join(",") });
            }
        }
    }
    0
}
