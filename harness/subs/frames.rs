// C10 / C14: the real send / receive of encrypted_comms.rs over a localhost socket pair.
// One request per line, one answer line each (see tools/props/c10.py, tools/frames_lib.py).
//   S <key> <lsb> <start_ctr> <n> <spec>...              real `send` per message      -> S end=<class> ctr=<n> wire=<hex>
//   R <d|t> <key> <lsb> <start_ctr> <nseg> <seg>...      real `receive` loop (d: direct, t: the real thread) on the segments, then EOF
//                                                         -> R n=<k> ids=<..> end=<class> ctr=<n|->
//   F <key> <lsb> <n> <spec>... <lastspec>               real sending thread + shutdown_with_final_message_sent_after_threads_joined -> F wire=<hex>
//   N <key> <max> <ciphertext>                           which counter in 0..max opens it     -> N <ctr|none>
//   C <key> <roothex>                                   SetRoot{root}, CreateRootAncestors, Shutdown sealed under key -> C wire=<hex>
//   O <key> <ctr> <dir> <ciphertext>                     kind and length of the plaintext     -> O <kind> <len> | O none
// spec:  m:<id>:<payloadhex|->   z:<id>:<size>:<fillbyte>   s:<byte> (a message that does not deserialize)
use std::io::BufRead;
use crate::encrypted_comms::verif_hooks as h;

pub fn unhex(s: &str) -> Vec<u8> {
    if s == "-" { return vec![]; }
    (0..s.len() / 2).map(|i| u8::from_str_radix(&s[2 * i..2 * i + 2], 16).unwrap()).collect()
}
pub fn hex(b: &[u8]) -> String {
    if b.is_empty() { return "-".to_string(); }
    const D: &[u8; 16] = b"0123456789abcdef";
    let mut s = String::with_capacity(b.len() * 2);
    for x in b { s.push(D[(x >> 4) as usize] as char); s.push(D[(x & 15) as usize] as char); }
    s
}
fn key_of(s: &str) -> [u8; 16] { let v = unhex(s); let mut k = [0u8; 16]; k.copy_from_slice(&v); k }
fn spec(s: &str) -> h::FrOut {
    let p: Vec<&str> = s.split(':').collect();
    match p[0] {
        "m" => h::FrOut::Msg(h::FrMsg { id: p[1].parse().unwrap(), payload: unhex(p[2]) }),
        "z" => h::FrOut::Msg(h::FrMsg { id: p[1].parse().unwrap(), payload: vec![p[3].parse::<u8>().unwrap(); p[2].parse::<usize>().unwrap()] }),
        "s" => h::FrOut::Short(p[1].parse().unwrap()),
        _ => panic!("bad spec {}", s),
    }
}
fn msg_of(o: h::FrOut) -> h::FrMsg { match o { h::FrOut::Msg(m) => m, _ => panic!("need a message") } }
fn ids_text(ids: &[u32]) -> String {
    if ids.is_empty() { "-".to_string() } else { ids.iter().map(|x| x.to_string()).collect::<Vec<_>>().join(",") }
}

pub fn run(_args: &[String]) -> i32 {
    // panics of the probed threads are expected; keep stderr quiet
    std::panic::set_hook(Box::new(|_| {}));
    let stdin = std::io::stdin();
    for line in stdin.lock().lines() {
        let line = line.unwrap();
        let t: Vec<&str> = line.split_whitespace().collect();
        if t.is_empty() { continue; }
        match t[0] {
            "S" => {
                let n: usize = t[4].parse().unwrap();
                let msgs: Vec<h::FrOut> = t[5..5 + n].iter().map(|s| spec(s)).collect();
                let (end, ctr, wire) = h::fr_send_frames(key_of(t[1]), t[2].parse().unwrap(), t[3].parse().unwrap(), msgs);
                println!("S end={} ctr={} wire={}", end, ctr, hex(&wire));
            }
            "R" => {
                let n: usize = t[5].parse().unwrap();
                let segs: Vec<Vec<u8>> = t[6..6 + n].iter().map(|s| unhex(s)).collect();
                if t[1] == "t" {
                    let (ids, end) = h::fr_receive_thread(key_of(t[2]), t[3].parse().unwrap(), segs);
                    println!("R n={} ids={} end={} ctr=-", ids.len(), ids_text(&ids), end);
                } else {
                    let (ids, end, ctr) = h::fr_receive_direct(key_of(t[2]), t[3].parse().unwrap(), t[4].parse().unwrap(), segs);
                    println!("R n={} ids={} end={} ctr={}", ids.len(), ids_text(&ids), end, ctr);
                }
            }
            "F" => {
                let n: usize = t[3].parse().unwrap();
                let msgs: Vec<h::FrMsg> = t[4..4 + n].iter().map(|s| msg_of(spec(s))).collect();
                let last = msg_of(spec(t[4 + n]));
                let wire = h::fr_send_thread_with_final(key_of(t[1]), t[2].parse().unwrap(), msgs, last);
                println!("F wire={}", hex(&wire));
            }
            "N" => {
                match h::fr_find_nonce(key_of(t[1]), &unhex(t[3]), t[2].parse().unwrap()) {
                    Some(c) => println!("N {}", c),
                    None => println!("N none"),
                }
            }
            "O" => {
                match h::fr_open(key_of(t[1]), t[2].parse().unwrap(), &unhex(t[4])) {
                    Some(p) => println!("O {} {}", h::fr_describe_plain(t[3].parse().unwrap(), &p), p.len()),
                    None => println!("O none"),
                }
            }
            "C" => {
                let root = String::from_utf8(unhex(t[2])).unwrap();
                println!("C wire={}", hex(&h::fr_command_frames(key_of(t[1]), root)));
            }
            _ => println!("BADREQ"),
        }
    }
    0
}
