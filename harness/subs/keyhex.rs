// C15 key codec, through the real code on both sides.
//   F <hex16>              the boss-side formatting of the given key bytes (hex of the whole line, newline included)
//   D <hexline> <hexkey|-> starts a real `--doer` process, feeds it <line>\n as the key line on stdin.
//                          Answers  REJECT <exit code>            the doer refused the line
//                                   ACCEPT talk=1|0|-             the doer printed its port; with a key given, a
//                                   boss-side AsyncEncryptedComms keyed with <hexkey> exchanged a command with it (1) or failed to (0)
use std::io::{BufRead, BufReader, Read, Write};
use std::process::{Command as Proc, Stdio};
use aes_gcm::{Aes128Gcm, Key};
use crate::boss_doer_interface::{Command, Response, HANDSHAKE_COMPLETED_MSG, HANDSHAKE_STARTED_MSG};
use crate::encrypted_comms::AsyncEncryptedComms;

fn unhex(s: &str) -> Vec<u8> {
    if s == "-" { return vec![]; }
    (0..s.len() / 2).map(|i| u8::from_str_radix(&s[2 * i..2 * i + 2], 16).unwrap()).collect()
}
fn hex(b: &[u8]) -> String { if b.is_empty() { "-".to_string() } else { b.iter().map(|x| format!("{:02x}", x)).collect() } }

fn doer_roundtrip(line: &[u8], key: Option<Vec<u8>>) -> String {
    let exe = std::env::current_exe().unwrap();
    let mut child = Proc::new(exe).args(["--doer", "--log-filter", "off"])
        .stdin(Stdio::piped()).stdout(Stdio::piped()).stderr(Stdio::piped()).spawn().unwrap();
    let mut stdin = child.stdin.take().unwrap();
    let mut stdout = BufReader::new(child.stdout.take().unwrap());
    let mut stderr = child.stderr.take().unwrap();
    let drain = std::thread::spawn(move || { let mut v = Vec::new(); let _ = stderr.read_to_end(&mut v); });
    let mut l = String::new();
    let _ = stdout.read_line(&mut l);
    if !l.starts_with(HANDSHAKE_STARTED_MSG) { let _ = child.kill(); let _ = child.wait(); return format!("NOSTART {}", hex(l.as_bytes())); }
    let mut msg = line.to_vec(); msg.push(b'\n');
    let _ = stdin.write_all(&msg);
    let _ = stdin.flush();
    l.clear();
    let n = stdout.read_line(&mut l).unwrap_or(0);
    if n == 0 {
        drop(stdin);
        let st = child.wait().unwrap();
        let _ = drain.join();
        return format!("REJECT {}", st.code().unwrap_or(-1));
    }
    let l = l.trim_end().to_string();
    if !l.starts_with(HANDSHAKE_COMPLETED_MSG) { let _ = child.kill(); let _ = child.wait(); return format!("NOCOMPLETE {}", hex(l.as_bytes())); }
    let port: u16 = l[HANDSHAKE_COMPLETED_MSG.len()..].parse().unwrap();
    let talk = match key {
        None => "-".to_string(),
        Some(k) => {
            let tcp = std::net::TcpStream::connect(("127.0.0.1", port)).unwrap();
            let comms = AsyncEncryptedComms::<Command, Response>::new(tcp, *Key::<Aes128Gcm>::from_slice(&k), 0, 1, ("boss", "verif"));
            let _ = comms.sender.send(Command::ProfilingTimeSync);
            let ok = matches!(comms.receiver.recv(), Ok(Response::ProfilingTimeSync(_)));
            if ok {
                let _ = comms.sender.send(Command::Shutdown);
                let _ = comms.receiver.recv();     // final ProfilingData message
                comms.shutdown();
            }
            (if ok { "1" } else { "0" }).to_string()
        }
    };
    drop(stdin);
    let _ = child.wait();
    let _ = drain.join();
    format!("ACCEPT talk={}", talk)
}

pub fn run(_args: &[String]) -> i32 {
    let stdin = std::io::stdin();
    for line in stdin.lock().lines() {
        let line = line.unwrap();
        let toks: Vec<&str> = line.split_whitespace().collect();
        if toks.is_empty() { continue; }
        match toks[0] {
            "F" => println!("{}", hex(crate::boss_launch::verif_hooks::launch_format_key(&unhex(toks[1])).as_bytes())),
            "D" => {
                let key = if toks[2] == "-" { None } else { Some(unhex(toks[2])) };
                println!("{}", doer_roundtrip(&unhex(toks[1]), key));
            }
            _ => println!("BADREQ"),
        }
    }
    0
}
