// C15: one real launch_doer_via_ssh against whatever `ssh` is first on PATH (a scripted fake).
//   usage: --verif-harness launch <host> <user|->
// Prints  EVENT <kind> <stream> <hex text>   for every message the launch loop logged, in the order its
//         single receiver saw them (kinds: line started completed closed keywrite alldone), then
//         RESULT <class ...>.
// The events are recovered from the `log` records of boss_launch (captured in memory, nothing is
// printed by the logger itself).
use std::sync::Mutex;
static RECORDS: Mutex<Vec<(log::Level, String)>> = Mutex::new(Vec::new());
struct Capture;
impl log::Log for Capture {
    fn enabled(&self, _m: &log::Metadata) -> bool { true }
    fn log(&self, r: &log::Record) {
        if r.target().contains("boss_launch") { RECORDS.lock().unwrap().push((r.level(), format!("{}", r.args()))); }
    }
    fn flush(&self) {}
}
fn hex(b: &[u8]) -> String { if b.is_empty() { "-".to_string() } else { b.iter().map(|x| format!("{:02x}", x)).collect() } }

pub fn run(args: &[String]) -> i32 {
    let _ = log::set_boxed_logger(Box::new(Capture));
    log::set_max_level(log::LevelFilter::Debug);
    let host = args.get(0).cloned().unwrap_or_else(|| "fakehost".to_string());
    let user = match args.get(1).map(|s| s.as_str()) { None | Some("-") => String::new(), Some(u) => u.to_string() };
    let res = crate::boss_launch::verif_hooks::launch_describe(&host, &user, None);
    for (_lvl, m) in RECORDS.lock().unwrap().iter() {
        for s in ["stdout", "stderr"] {
            if let Some(t) = m.strip_prefix(&format!("ssh {}: ", s)) { println!("EVENT line {} {}", s, hex(t.as_bytes())); }
            if let Some(t) = m.strip_prefix(&format!("Handshake started on {}: ", s)) { println!("EVENT started {} {}", s, hex(t.as_bytes())); }
            if let Some(t) = m.strip_prefix(&format!("Handshake completed on {}: ", s)) { println!("EVENT completed {} {}", s, hex(t.as_bytes())); }
            if m == &format!("ssh {} closed", s) { println!("EVENT closed {} -", s); }
        }
        if m == "Sending secret key" { println!("EVENT keywrite - -"); }
        if m.starts_with("Both reader threads done") { println!("EVENT alldone - -"); }
    }
    println!("RESULT {}", res);
    0
}
