// C14 (encrypted TCP leg): real Command / Response values through a real pair of AsyncEncryptedComms objects.
// One request per stdin line, one answer line each.  argv[0] (optional): idle time-out in ms (default 20000).
//   X <kc> <command description>*kc <kr> <response description>*kr
//        the boss's object is handed the kc commands, the doer's object the kr responses (both at once); descriptions
//        as in the `bincode` sub, without the leading C / R (see ocaml/drv_wire.ml for the grammar)
//     -> X sc=<digests> rc=<digests> sr=<digests> rr=<digests> ends=<boss send>,<doer recv>,<doer send>,<boss recv> to=<0|1>
//        digests: <length>:<crc32 hex> of bincode::serialize of each message handed in (sc, sr) / taken out on the other
//        side (rc, rr), in order, comma separated, `-` when there is none; ends: state of the four private threads before
//        the tear-down (running | finished | returned | <error class>)
use std::io::BufRead;
use super::sub_bincode::Toks;
use crate::encrypted_comms::verif_hooks as h;

fn digests(v: &[(usize, u32)]) -> String {
    if v.is_empty() { return "-".to_string(); }
    v.iter().map(|(l, c)| format!("{}:{:08x}", l, c)).collect::<Vec<_>>().join(",")
}

pub fn run(args: &[String]) -> i32 {
    // panics of the probed threads are expected outcomes; keep stderr quiet
    std::panic::set_hook(Box::new(|_| {}));
    let idle_ms: u64 = args.get(0).and_then(|s| s.parse().ok()).unwrap_or(20000);
    let stdin = std::io::stdin();
    for line in stdin.lock().lines() {
        let line = line.unwrap();
        let t: Vec<&str> = line.split_whitespace().collect();
        if t.is_empty() { continue; }
        if t[0] != "X" { println!("BADREQ"); continue; }
        let mut tk = Toks { t, i: 1 };
        let kc: usize = tk.next().parse().unwrap();
        let cmds: Vec<_> = (0..kc).map(|_| tk.command()).collect();
        let kr: usize = tk.next().parse().unwrap();
        let resps: Vec<_> = (0..kr).map(|_| tk.response()).collect();
        let o = h::lk_exchange(cmds, resps, idle_ms);
        println!("X sc={} rc={} sr={} rr={} ends={} to={}", digests(&o.sent_c), digests(&o.recv_c), digests(&o.sent_r), digests(&o.recv_r),
                 o.ends.join(","), if o.timed_out { 1 } else { 0 });
    }
    0
}
