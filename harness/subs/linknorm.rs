// C12: one request per line: `<dir> <hextext>` - creates a symlink <dir>/l<n> with exactly these bytes as its text
// and reports how the real doer lists it (normalised / not normalised text, kind).
use std::io::BufRead;
use std::os::unix::ffi::OsStrExt;
pub fn run(_args: &[String]) -> i32 {
    let stdin = std::io::stdin();
    let mut n = 0;
    for line in stdin.lock().lines() {
        let line = line.unwrap();
        let toks: Vec<&str> = line.split_whitespace().collect();
        if toks.len() < 2 { println!("BADREQ"); continue; }
        let bytes: Vec<u8> = if toks[1] == "-" { vec![] } else { (0..toks[1].len() / 2).map(|i| u8::from_str_radix(&toks[1][2 * i..2 * i + 2], 16).unwrap()).collect() };
        n += 1;
        let p = std::path::Path::new(toks[0]).join(format!("l{}", n));
        let target = std::ffi::OsStr::from_bytes(&bytes);
        if std::os::unix::fs::symlink(target, &p).is_err() { println!("NOLINK"); continue; }
        println!("{}", crate::doer::verif_hooks::linknorm_of(&p));
    }
    0
}
