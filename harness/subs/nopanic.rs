// C18: one request per stdin line, one answer line each.
//   V <F<size>|D|L>            ProgressValues::for_copy            -> work,delete,copy,bytes
//   VD                         ProgressValues::for_delete
//   VP <start> <size> <fsize>  ProgressValues::for_copy_partial    -> work,delete,copy,bytes | PANIC
//   P <det01> D<e,..|-> C<e,..|-> O<total|->/<sent|->/<last|-> K <call> ...
//        the REAL Progress object: Progress::new on the plan, optional field overrides, then the calls
//        (l = get_progress_marker_limited, m = get_progress_marker, d = delete_sent, c<e> = copy_sent,
//         p<start>:<size>:<fsize> = copy_sent_partial, a = all_work_sent), each under catch_unwind
//        -> new=<total> ; <. | M<work>:<D<n>|C<n>:<b>|X> | PANIC> ... ; sent=<sent> last=<n>
//   B <det01> <dry01> D<e,..|-> C<e,..|-> A<n:m,n:m;..|->
//        the REAL sync() against two scripted doers: the destination lists one entry per D element (all to be
//        deleted), the source one per C element (all to be copied) and answers the k-th GetFileContent with the
//        k-th chunk list (length:more_to_follow) - or hangs up when there is none; det = visible progress bar
//        -> <ok|err|panic> ; <markers the destination doer received>
//   H <v> <v> ...              FileSizeHistogram::add for each value, then Display
//        -> idx=<bucket of each value> buckets=<counts> display=<lines separated by |>   | PANIC
//   M <hexpath>                entry_details_from_metadata(lstat(path)) and the send of the Entry message
use std::io::BufRead;
use std::sync::{Arc, Mutex};
use crate::boss_doer_interface::{Command, Response, EntryDetails, SymlinkKind, SymlinkTarget, ProgressMarker, ProgressPhase};
use crate::boss_progress::verif_hooks::{ProgressCall, ProgressOverride};

fn unhex(s: &str) -> Vec<u8> {
    if s == "-" { return vec![]; }
    (0..s.len() / 2).map(|i| u8::from_str_radix(&s[2 * i..2 * i + 2], 16).unwrap()).collect()
}

fn entry(s: &str) -> EntryDetails {
    match s.as_bytes()[0] {
        b'F' => EntryDetails::File { modified_time: std::time::UNIX_EPOCH, size: s[1..].parse().unwrap() },
        b'D' => EntryDetails::Folder,
        _ => EntryDetails::Symlink { kind: SymlinkKind::Unknown, target: SymlinkTarget::Normalized("t".to_string()) },
    }
}
fn entries(s: &str) -> Vec<EntryDetails> { if s == "-" { vec![] } else { s.split(',').map(entry).collect() } }
fn quad(s: &str) -> Option<(u64, u32, u32, u64)> {
    if s == "-" { return None; }
    let f: Vec<&str> = s.split(',').collect();
    Some((f[0].parse().unwrap(), f[1].parse().unwrap(), f[2].parse().unwrap(), f[3].parse().unwrap()))
}
fn marker_text(m: &ProgressMarker) -> String {
    match m.phase {
        ProgressPhase::Deleting { num_entries_deleted } => format!("M{}:D{}", m.completed_work, num_entries_deleted),
        ProgressPhase::Copying { num_entries_copied, num_bytes_copied } => format!("M{}:C{}:{}", m.completed_work, num_entries_copied, num_bytes_copied),
        ProgressPhase::Done => format!("M{}:X", m.completed_work),
    }
}

// a terminal that swallows everything: a progress bar drawing to it is not "hidden", so Progress::new keeps
// `detailed` and the marker limiter runs as it does on a real terminal
#[derive(Debug)]
struct Sink;
impl indicatif::TermLike for Sink {
    fn width(&self) -> u16 { 100 }
    fn move_cursor_up(&self, _n: usize) -> std::io::Result<()> { Ok(()) }
    fn move_cursor_down(&self, _n: usize) -> std::io::Result<()> { Ok(()) }
    fn move_cursor_right(&self, _n: usize) -> std::io::Result<()> { Ok(()) }
    fn move_cursor_left(&self, _n: usize) -> std::io::Result<()> { Ok(()) }
    fn write_line(&self, _s: &str) -> std::io::Result<()> { Ok(()) }
    fn write_str(&self, _s: &str) -> std::io::Result<()> { Ok(()) }
    fn clear_line(&self) -> std::io::Result<()> { Ok(()) }
    fn flush(&self) -> std::io::Result<()> { Ok(()) }
}

fn boss(detailed: bool, dry: bool, dels: Vec<EntryDetails>, copies: Vec<EntryDetails>, answers: Vec<Vec<(usize, bool)>>) -> String {
    let rrp = |s: String| crate::root_relative_path::verif_hooks::rrp_from_text(&s);
    let mut src = crate::boss_launch::verif_hooks::comms_with_doer("scripted src", move |rx, tx| {
        let mut k = 0usize;
        loop {
            match rx.recv() {
                Ok(Command::SetRoot { .. }) => { let _ = tx.send(Response::RootDetails { root_details: Some(EntryDetails::Folder), platform_differentiates_symlinks: false, platform_dir_separator: '/' }); }
                Ok(Command::GetEntries { .. }) => {
                    for (i, e) in copies.iter().enumerate() { let _ = tx.send(Response::Entry((rrp(format!("c{:05}", i)), e.clone()))); }
                    let _ = tx.send(Response::EndOfEntries);
                }
                Ok(Command::GetFileContent { .. }) => {
                    match answers.get(k) {
                        None => return Ok(()),          // hangs up: the boss's receive fails
                        Some(chunks) => {
                            for (sz, more) in chunks.iter() {
                                if tx.send(Response::FileContent { data: vec![0u8; *sz], more_to_follow: *more }).is_err() { return Ok(()); }
                            }
                            // a reply that never says "last chunk": the stream ends there (the doer hangs up)
                            if chunks.last().map(|c| c.1).unwrap_or(true) { return Ok(()); }
                        }
                    }
                    k += 1;
                }
                Ok(Command::Shutdown) | Err(_) => return Ok(()),
                Ok(_) => {}
            }
        }
    });
    let markers: Arc<Mutex<Vec<String>>> = Arc::new(Mutex::new(vec![]));
    let markers2 = markers.clone();
    let mut dst = crate::boss_launch::verif_hooks::comms_with_doer("scripted dest", move |rx, tx| {
        loop {
            match rx.recv() {
                Ok(Command::SetRoot { .. }) => { let _ = tx.send(Response::RootDetails { root_details: Some(EntryDetails::Folder), platform_differentiates_symlinks: false, platform_dir_separator: '/' }); }
                Ok(Command::GetEntries { .. }) => {
                    for (i, e) in dels.iter().enumerate() { let _ = tx.send(Response::Entry((rrp(format!("d{:05}", i)), e.clone()))); }
                    let _ = tx.send(Response::EndOfEntries);
                }
                Ok(Command::Marker(m)) => { markers2.lock().unwrap().push(marker_text(&m)); let _ = tx.send(Response::Marker(m)); }
                Ok(Command::Shutdown) | Err(_) => return Ok(()),
                Ok(_) => {}
            }
        }
    });
    let spec = crate::boss_frontend::SyncSpec {
        src: "SRC".to_string(), dest: "DEST".to_string(), filters: vec![],
        dest_file_newer_behaviour: crate::boss_frontend::DestFileUpdateBehaviour::Overwrite,
        dest_file_older_behaviour: crate::boss_frontend::DestFileUpdateBehaviour::Overwrite,
        files_same_time_behaviour: crate::boss_frontend::DestFileUpdateBehaviour::Overwrite,
        dest_entry_needs_deleting_behaviour: crate::boss_frontend::DestEntryNeedsDeletingBehaviour::Delete,
        dest_root_needs_deleting_behaviour: crate::boss_frontend::DestRootNeedsDeletingBehaviour::Delete,
    };
    let pb = if detailed { indicatif::ProgressBar::with_draw_target(None, indicatif::ProgressDrawTarget::term_like(Box::new(Sink))) }
             else { indicatif::ProgressBar::hidden() };
    let r = std::panic::catch_unwind(std::panic::AssertUnwindSafe(|| crate::boss_sync::sync(&spec, dry, &pb, detailed, false, &mut src, &mut dst)));
    pb.finish_and_clear();
    let res = match &r { Err(_) => "panic", Ok(Ok(())) => "ok", Ok(Err(_)) => "err" };
    // After a panic the comms are dropped without the orderly shutdown (that is what the unwinding boss does).
    if r.is_ok() { src.shutdown(); dst.shutdown(); } else { drop(src); drop(dst); }
    let ms = markers.lock().unwrap().join(" ");
    format!("{} ; {}", res, ms)
}

fn histogram(vals: &[u64]) -> String {
    let r = std::panic::catch_unwind(|| {
        let mut h = crate::histogram::FileSizeHistogram::default();
        let mut idx = vec![];
        for v in vals {
            let before = h.buckets.clone();
            h.add(*v);
            // which bucket was incremented
            let mut b = before; b.resize(h.buckets.len(), 0);
            let i = (0..h.buckets.len()).find(|i| h.buckets[*i] != b[*i]).unwrap();
            idx.push(i.to_string());
        }
        let text = format!("{}", h);
        let lines: Vec<&str> = text.split('\n').collect();
        // Display starts with an empty line and ends with a newline
        let body = &lines[1..lines.len() - 1];
        format!("idx={} buckets={} display={}", if idx.is_empty() { "-".to_string() } else { idx.join(",") },
            if h.buckets.is_empty() { "-".to_string() } else { h.buckets.iter().map(|b| b.to_string()).collect::<Vec<_>>().join(",") },
            body.join("|"))
    });
    r.unwrap_or("PANIC".to_string())
}

pub fn run(_args: &[String]) -> i32 {
    std::panic::set_hook(Box::new(|_| {}));      // panics are results here, not noise
    let stdin = std::io::stdin();
    for line in stdin.lock().lines() {
        let line = line.unwrap();
        let t: Vec<&str> = line.split_whitespace().collect();
        if t.is_empty() { continue; }
        match t[0] {
            "V" => println!("{}", crate::boss_progress::verif_hooks::progress_values(&entry(t[1]))),
            "VD" => println!("{}", crate::boss_progress::verif_hooks::progress_values_delete()),
            "VP" => println!("{}", crate::boss_progress::verif_hooks::progress_values_partial(t[1].parse().unwrap(), t[2].parse().unwrap(), t[3].parse().unwrap())),
            "P" => {
                let detailed = t[1] == "1";
                let dels = entries(&t[2][1..]);
                let copies = entries(&t[3][1..]);
                let o: Vec<&str> = t[4][1..].split('/').collect();
                let ov = ProgressOverride { total: quad(o[0]), sent: quad(o[1]), last: if o[2] == "-" { None } else { Some(o[2].parse().unwrap()) } };
                let calls: Vec<ProgressCall> = t[6..].iter().map(|c| match c.as_bytes()[0] {
                    b'l' => ProgressCall::Limited, b'm' => ProgressCall::Marker, b'd' => ProgressCall::Delete, b'a' => ProgressCall::AllSent,
                    b'c' => ProgressCall::Copy(entry(&c[1..])),
                    _ => { let f: Vec<u64> = c[1..].split(':').map(|x| x.parse().unwrap()).collect(); ProgressCall::Partial(f[0], f[1], f[2]) }
                }).collect();
                println!("{}", crate::boss_progress::verif_hooks::progress_script(detailed, &dels, &copies, &ov, &calls));
            }
            "B" => {
                let answers: Vec<Vec<(usize, bool)>> = if &t[5][1..] == "-" { vec![] } else {
                    t[5][1..].split(';').map(|a| if a == "e" { vec![] } else { a.split(',').map(|c| { let mut p = c.split(':'); (p.next().unwrap().parse().unwrap(), p.next().unwrap() == "1") }).collect() }).collect() };
                println!("{}", boss(t[1] == "1", t[2] == "1", entries(&t[3][1..]), entries(&t[4][1..]), answers));
            }
            "H" => { let vals: Vec<u64> = t[1..].iter().map(|x| x.parse().unwrap()).collect(); println!("{}", histogram(&vals)); }
            "M" => { let b = unhex(t[1]); println!("{}", crate::doer::verif_hooks::meta_probe(std::path::Path::new(<std::ffi::OsStr as std::os::unix::ffi::OsStrExt>::from_bytes(&b)))); }
            _ => println!("BADREQ"),
        }
    }
    0
}
