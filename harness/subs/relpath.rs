// C02/C12/C18: the real RootRelativePath::is_same_or_inside.  One request per line: `<hex self> <hex other>` (`-` = the root);
// answer `1` / `0`, or `PANIC` when the call panics (a slice off a character boundary), or `BADUTF8` for bytes that are no String.
use std::io::BufRead;
fn unhex(t: &str) -> Vec<u8> { if t == "-" { vec![] } else { (0..t.len() / 2).map(|i| u8::from_str_radix(&t[2 * i..2 * i + 2], 16).unwrap()).collect() } }
pub fn run(_args: &[String]) -> i32 {
    std::panic::set_hook(Box::new(|_| {}));
    let stdin = std::io::stdin();
    for line in stdin.lock().lines() {
        let line = line.unwrap();
        let toks: Vec<&str> = line.split_whitespace().collect();
        if toks.len() < 2 { println!("BADREQ"); continue; }
        let (a, b) = match (String::from_utf8(unhex(toks[0])), String::from_utf8(unhex(toks[1]))) {
            (Ok(a), Ok(b)) => (a, b),
            _ => { println!("BADUTF8"); continue; }
        };
        let r = std::panic::catch_unwind(|| {
            let pa = crate::root_relative_path::verif_hooks::rrp_from_text(&a);
            let pb = crate::root_relative_path::verif_hooks::rrp_from_text(&b);
            pa.is_same_or_inside(&pb)
        });
        match r { Ok(true) => println!("1"), Ok(false) => println!("0"), Err(_) => println!("PANIC") }
    }
    0
}
