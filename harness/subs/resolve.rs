// C16: reads one request per line on stdin, answers one line each.
//   A <n> <hexarg>...        resolve an argument vector ("-" is the empty string)
//   Y <path>                 parse a spec file: prints the YAML tree dump and the parse result
use std::io::BufRead;
fn unhex(s: &str) -> String {
    if s == "-" { return String::new(); }
    let b: Vec<u8> = (0..s.len() / 2).map(|i| u8::from_str_radix(&s[2 * i..2 * i + 2], 16).unwrap()).collect();
    String::from_utf8(b).unwrap()
}
pub fn run(_args: &[String]) -> i32 {
    let stdin = std::io::stdin();
    for line in stdin.lock().lines() {
        let line = line.unwrap();
        let toks: Vec<&str> = line.split_whitespace().collect();
        if toks.is_empty() { continue; }
        match toks[0] {
            "A" => {
                let argv: Vec<String> = toks[2..].iter().map(|t| unhex(t)).collect();
                println!("{}", crate::boss_frontend::verif_hooks::resolve_argv(&argv));
            }
            "Y" => {
                println!("{} ## {}", crate::boss_frontend::verif_hooks::yaml_tree_of_file(toks[1]),
                    crate::boss_frontend::verif_hooks::parse_spec_file_str(toks[1]));
            }
            _ => println!("BADREQ"),
        }
    }
    0
}
