// Runs the REAL boss (`boss_sync::sync`) against two SCRIPTED doers.  One request per stdin line:
//   cfg=<newer>,<older>,<same>,<entry>,<root>,<dry01> diff=<0|1> sroot=<entry> droot=<entry|none> sched=<SD..|->
//   errs=<k:j,..|->  srcfail=<k,..|->   S <hexpath> <entry> ... E   D <hexpath> <entry> ... E   C <hexpath> <hexdata> ... E
// entry := F:<mtime_ns>:<size> | D | L:<f|d|u>:<N|U><hextext>
// sched: order in which the boss receives the listed entries (S = next source entry, D = next destination entry);
// errs k:j: the k-th mutating destination command is answered with an Error, sent after j further commands arrived.
// Answer: RESULT <ok|err> | <dest commands, comma separated> | <src commands>
// Prompt answers come from RJRSSYNC_TEST_PROMPT_RESPONSE as usual (set per process: one request per process when prompts matter).
use std::io::BufRead;
use std::sync::{Arc, Mutex, Condvar};
use std::time::{Duration, UNIX_EPOCH};
use crate::boss_doer_interface::{Command, Response, EntryDetails, SymlinkKind, SymlinkTarget};
use crate::root_relative_path::RootRelativePath;
use crate::boss_frontend::{SyncSpec, DestFileUpdateBehaviour as FB, DestEntryNeedsDeletingBehaviour as EB, DestRootNeedsDeletingBehaviour as RB};
use crate::memory_bound_channel::{Sender, Receiver};

fn unhex(s: &str) -> Vec<u8> {
    if s == "-" { return vec![]; }
    (0..s.len() / 2).map(|i| u8::from_str_radix(&s[2 * i..2 * i + 2], 16).unwrap()).collect()
}
fn unhex_s(s: &str) -> String { String::from_utf8(unhex(s)).unwrap() }
fn parse_entry(s: &str) -> EntryDetails {
    let f: Vec<&str> = s.split(':').collect();
    match f[0] {
        "F" => EntryDetails::File { modified_time: UNIX_EPOCH + Duration::from_nanos(f[1].parse::<u64>().unwrap()), size: f[2].parse().unwrap() },
        "D" => EntryDetails::Folder,
        "L" => {
            let kind = match f[1] { "f" => SymlinkKind::File, "d" => SymlinkKind::Folder, _ => SymlinkKind::Unknown };
            let text = unhex_s(&f[2][1..]);
            let target = if f[2].starts_with('N') { SymlinkTarget::Normalized(text) } else { SymlinkTarget::NotNormalized(text) };
            EntryDetails::Symlink { kind, target }
        }
        _ => panic!("bad entry {}", s),
    }
}
fn fb(s: &str) -> FB { match s { "P" => FB::Prompt, "E" => FB::Error, "S" => FB::Skip, _ => FB::Overwrite } }
fn eb(s: &str) -> EB { match s { "P" => EB::Prompt, "E" => EB::Error, "S" => EB::Skip, _ => EB::Delete } }
fn rb(s: &str) -> RB { match s { "P" => RB::Prompt, "E" => RB::Error, "S" => RB::Skip, _ => RB::Delete } }

struct Gate { sched: Vec<u8>, pos: Mutex<usize>, cv: Condvar }
impl Gate {
    // waits until it is `who`'s turn (or the schedule is exhausted), runs f, then waits for `drained` and advances
    fn turn<F: FnOnce(), G: Fn() -> bool>(&self, who: u8, f: F, drained: G) {
        let mut p = self.pos.lock().unwrap();
        while *p < self.sched.len() && self.sched[*p] != who { p = self.cv.wait(p).unwrap(); }
        f();
        // wait until the boss has taken the message out of the channel (or has gone away: a boss that gives up
        // during the listing drops its receiver; 30 s is a backstop so that a stuck request cannot stall the batch)
        let t0 = std::time::Instant::now();
        while !drained() && t0.elapsed() < Duration::from_secs(30) { std::thread::yield_now(); }
        *p += 1;
        self.cv.notify_all();
    }
}

fn scripted_doer(side: u8, root: Option<EntryDetails>, diff: bool, entries: Vec<(String, EntryDetails)>,
    contents: Vec<(String, Vec<u8>)>, errs: Vec<(usize, usize)>, srcfail: Vec<usize>, gate: Arc<Gate>,
    log: Arc<Mutex<Vec<String>>>, r: Receiver<Command>, s: Sender<Response>) -> Result<(), String>
{
    let mut n_mut = 0usize; let mut n_get = 0usize;
    let mut pending: Vec<(usize, String)> = vec![]; // (commands still to arrive, message)
    loop {
        let c = match r.recv() { Ok(c) => c, Err(_) => return Ok(()) };
        let desc = crate::doer::verif_hooks::describe_command(&c);
        let is_mut = crate::doer::verif_hooks::is_mutating(&c);
        if !matches!(c, Command::Marker(_)) { log.lock().unwrap().push(desc.clone()); }
        // errors whose delay has elapsed are sent before this command is looked at
        for p in pending.iter_mut() { if p.0 > 0 { p.0 -= 1; } }
        let (ready, rest): (Vec<_>, Vec<_>) = pending.drain(..).partition(|p| p.0 == 0);
        pending = rest;
        for p in ready { let _ = s.send(Response::Error(p.1)); }
        match c {
            Command::SetRoot { .. } => { let _ = s.send(Response::RootDetails { root_details: root.clone(), platform_differentiates_symlinks: diff, platform_dir_separator: '/' }); }
            Command::GetEntries { .. } => {
                for (p, e) in entries.iter() {
                    let msg = Response::Entry((crate::root_relative_path::verif_hooks::rrp_from_text(p), e.clone()));
                    gate.turn(side, || { let _ = s.send(msg); }, || crate::memory_bound_channel::verif_hooks::sender_queue_len(&s) == 0 || !crate::memory_bound_channel::verif_hooks::sender_receiver_alive(&s));
                }
                let _ = s.send(Response::EndOfEntries);
            }
            Command::GetFileContent { path } => {
                let k = n_get; n_get += 1;
                let key = crate::root_relative_path::verif_hooks::rrp_text(&path);
                if srcfail.contains(&k) { let _ = s.send(Response::Error(format!("scripted source failure {}", k))); }
                else {
                    let data = contents.iter().find(|x| x.0 == key).map(|x| x.1.clone()).unwrap_or_default();
                    let _ = s.send(Response::FileContent { data, more_to_follow: false });
                }
            }
            Command::Marker(m) => {
                // a doer answers in order: by the time it echoes a marker every earlier reply has been sent
                for p in pending.drain(..) { let _ = s.send(Response::Error(p.1)); }
                let _ = s.send(Response::Marker(m));
            }
            Command::Shutdown => return Ok(()),
            _ => {
                if is_mut {
                    let k = n_mut; n_mut += 1;
                    if let Some(e) = errs.iter().find(|e| e.0 == k) {
                        if e.1 == 0 { let _ = s.send(Response::Error(format!("scripted failure at {}", k))); }
                        else { pending.push((e.1, format!("scripted failure at {}", k))); }
                    }
                }
            }
        }
    }
}

pub fn run(_args: &[String]) -> i32 {
    let stdin = std::io::stdin();
    for line in stdin.lock().lines() {
        let line = line.unwrap();
        let toks: Vec<&str> = line.split_whitespace().collect();
        if toks.is_empty() { continue; }
        let mut kv = std::collections::HashMap::new();
        let mut i = 0;
        while i < toks.len() && toks[i] != "S" { if let Some((k, v)) = toks[i].split_once('=') { kv.insert(k, v); } i += 1; }
        let mut lists: Vec<Vec<(String, String)>> = vec![];
        for tag in ["S", "D", "C"] {
            assert_eq!(toks[i], tag); i += 1;
            let mut l = vec![];
            while toks[i] != "E" { l.push((unhex_s(toks[i]), toks[i + 1].to_string())); i += 2; }
            i += 1;
            lists.push(l);
        }
        let cfg: Vec<&str> = kv["cfg"].split(',').collect();
        let diff = kv["diff"] == "1";
        let sroot = parse_entry(kv["sroot"]);
        let droot = if kv["droot"] == "none" { None } else { Some(parse_entry(kv["droot"])) };
        let sched: Vec<u8> = if kv["sched"] == "-" { vec![] } else { kv["sched"].bytes().collect() };
        let errs: Vec<(usize, usize)> = if kv["errs"] == "-" { vec![] } else { kv["errs"].split(',').map(|e| { let (a, b) = e.split_once(':').unwrap(); (a.parse().unwrap(), b.parse().unwrap()) }).collect() };
        let srcfail: Vec<usize> = if kv["srcfail"] == "-" { vec![] } else { kv["srcfail"].split(',').map(|e| e.parse().unwrap()).collect() };
        let s_entries: Vec<(String, EntryDetails)> = lists[0].iter().map(|(p, e)| (p.clone(), parse_entry(e))).collect();
        let d_entries: Vec<(String, EntryDetails)> = lists[1].iter().map(|(p, e)| (p.clone(), parse_entry(e))).collect();
        let contents: Vec<(String, Vec<u8>)> = lists[2].iter().map(|(p, d)| (p.clone(), unhex(d))).collect();
        let gate = Arc::new(Gate { sched, pos: Mutex::new(0), cv: Condvar::new() });
        let slog = Arc::new(Mutex::new(vec![])); let dlog = Arc::new(Mutex::new(vec![]));
        let (g1, g2, l1, l2) = (gate.clone(), gate.clone(), slog.clone(), dlog.clone());
        let mut src = crate::boss_launch::verif_hooks::comms_with_doer("scripted src doer", move |r, s|
            scripted_doer(b'S', Some(sroot), false, s_entries, contents, vec![], srcfail, g1, l1, r, s));
        let mut dest = crate::boss_launch::verif_hooks::comms_with_doer("scripted dest doer", move |r, s|
            scripted_doer(b'D', droot, diff, d_entries, vec![], errs, vec![], g2, l2, r, s));
        let spec = SyncSpec { src: "SRC".to_string(), dest: "DEST".to_string(), filters: vec![],
            dest_file_newer_behaviour: fb(cfg[0]), dest_file_older_behaviour: fb(cfg[1]), files_same_time_behaviour: fb(cfg[2]),
            dest_entry_needs_deleting_behaviour: eb(cfg[3]), dest_root_needs_deleting_behaviour: rb(cfg[4]) };
        let pb = indicatif::ProgressBar::hidden();
        let res = crate::boss_sync::sync(&spec, cfg[5] == "1", &pb, false, false, &mut src, &mut dest);
        src.shutdown(); dest.shutdown();
        println!("RESULT {} | {} | {}", if res.is_ok() { "ok".to_string() } else { format!("err") },
            dlog.lock().unwrap().join(","), slog.lock().unwrap().join(","));
    }
    0
}
