// C17: one request per line on stdin, one answer line each.
//   W <threads> <slow_every> <slow_us> <roothex>
//        parallel_walk_dir(root, filter) with RJRSSYNC_VERIF_WALK_THREADS=<threads>; the filter skips
//        names starting with "skip" and fails on names starting with "bad".  The consumer is the loop
//        of handle_get_entries (recv until disconnect, stop at the first Err and drop the receiver);
//        it sleeps <slow_us> microseconds every <slow_every> entries (0 = never).
//        answer:  <hex relpath>:<f|d|l|o> ... END | ERR | HANG
//   G <threads> <roothex> <excl-regex-hex>...
//        the real doer (SetRoot, GetEntries = handle_get_entries) behind a Comms::Local
//        answer:  <hex relpath>:<f|d|l> ... END|ERR LAST|TRAILING
use std::io::BufRead;
use std::os::unix::ffi::OsStrExt;
fn unhex_bytes(s: &str) -> Vec<u8> {
    if s == "-" { return vec![]; }
    (0..s.len() / 2).map(|i| u8::from_str_radix(&s[2 * i..2 * i + 2], 16).unwrap()).collect()
}
fn hex(b: &[u8]) -> String { if b.is_empty() { "-".to_string() } else { b.iter().map(|x| format!("{:02x}", x)).collect() } }

fn walk_direct(threads: &str, slow_every: usize, slow_us: u64, root: &std::path::Path) -> String {
    std::env::set_var("RJRSSYNC_VERIF_WALK_THREADS", threads);
    let rx = crate::parallel_walk_dir::parallel_walk_dir(root, |e: &std::fs::DirEntry| {
        let n = e.file_name();
        let b = n.as_bytes();
        if b.starts_with(b"bad") { return Err("verif: filter failure".to_string()); }
        Ok(crate::parallel_walk_dir::FilterResult::<()> { skip: b.starts_with(b"skip"), additional_data: () })
    });
    let mut out: Vec<String> = vec![];
    let mut count = 0usize;
    let verdict;
    loop {
        match rx.recv_timeout(std::time::Duration::from_secs(15)) {
            Ok(Ok(e)) => {
                count += 1;
                let p = e.dir_entry.path();
                let rel = p.strip_prefix(root).unwrap().as_os_str().as_bytes().to_vec();
                let k = if e.file_type.is_dir() { 'd' } else if e.file_type.is_symlink() { 'l' } else if e.file_type.is_file() { 'f' } else { 'o' };
                out.push(format!("{}:{}", hex(&rel), k));
                if slow_every > 0 && count % slow_every == 0 { std::thread::sleep(std::time::Duration::from_micros(slow_us)); }
            }
            Ok(Err(_)) => { verdict = "ERR"; break; }
            Err(crossbeam::channel::RecvTimeoutError::Disconnected) => { verdict = "END"; break; }
            Err(crossbeam::channel::RecvTimeoutError::Timeout) => { verdict = "HANG"; break; }
        }
    }
    drop(rx);
    out.push(verdict.to_string());
    out.join(" ")
}

pub fn run(_args: &[String]) -> i32 {
    let stdin = std::io::stdin();
    for line in stdin.lock().lines() {
        let line = line.unwrap();
        let toks: Vec<&str> = line.split_whitespace().collect();
        if toks.is_empty() { continue; }
        match toks[0] {
            "W" if toks.len() == 5 => {
                let root = std::path::PathBuf::from(std::ffi::OsStr::from_bytes(&unhex_bytes(toks[4])));
                println!("{}", walk_direct(toks[1], toks[2].parse().unwrap(), toks[3].parse().unwrap(), &root));
            }
            "G" if toks.len() >= 3 => {
                std::env::set_var("RJRSSYNC_VERIF_WALK_THREADS", toks[1]);
                let root = String::from_utf8(unhex_bytes(toks[2])).unwrap();
                let pats: Vec<String> = toks[3..].iter().map(|t| String::from_utf8(unhex_bytes(t)).unwrap()).collect();
                println!("{}", crate::boss_launch::verif_hooks::walk_get_entries(&root, &pats).join(" "));
            }
            _ => println!("BADREQ"),
        }
    }
    0
}
