(* Line driver around the extracted chunk model (C11).  Parsing/printing only.
     G <hexpath> [r1,r2,...]     read_chunks on the bytes of that file with the given short-read schedule
                                 ->  OK <n> <size>:<more>:<crc32> ...
     R <listed> <mtime_ns> <prev: absent|len> <seed> <end F|X> <size>:<more>,...|-  [U] [Z<a>-<b>,...]
                                 relay (U: relay_unfixed) of that chunk sequence, then the writer on the
                                 previous destination  ->  <Ok|Err:size|Err:lost> <absent|len:crc32:(mtime|now)>
                                 (Z: stream bytes in the half-open ranges [a,b) are zero instead of the fill)
     S <len> [r1,r2,...]         chunk sizes only (size_loop)  ->  OK <n> <size> ...                        *)
open Chunks

let unhex h = if h = "-" then "" else
  String.init (String.length h / 2) (fun i -> Char.chr (int_of_string ("0x" ^ String.sub h (2*i) 2)))

(* N / Z / nat <-> int *)
let rec pos_of_int i = if i = 1 then XH else if i land 1 = 1 then XI (pos_of_int (i lsr 1)) else XO (pos_of_int (i lsr 1))
let n_of_int i = if i = 0 then N0 else Npos (pos_of_int i)
let rec int_of_pos = function XH -> 1 | XO p -> 2 * int_of_pos p | XI p -> 2 * int_of_pos p + 1
let int_of_n = function N0 -> 0 | Npos p -> int_of_pos p
let z_of_int i = if i = 0 then Z0 else if i > 0 then Zpos (pos_of_int i) else Zneg (pos_of_int (-i))
let int_of_z = function Z0 -> 0 | Zpos p -> int_of_pos p | Zneg p -> - (int_of_pos p)
let rec nat_of_int i acc = if i = 0 then acc else nat_of_int (i - 1) (S acc)

(* char list <-> bytes, built without deep recursion *)
let list_of_string s = let r = ref [] in for i = String.length s - 1 downto 0 do r := s.[i] :: !r done; !r
let bytes_of_list l = let b = Buffer.create 4096 in List.iter (Buffer.add_char b) l; Buffer.contents b

let crc_table = Array.init 256 (fun i -> let c = ref i in for _ = 0 to 7 do
    c := if !c land 1 <> 0 then 0xEDB88320 lxor (!c lsr 1) else !c lsr 1 done; !c)
let crc32_list l =
  let c = ref 0xFFFFFFFF in
  List.iter (fun ch -> c := crc_table.((!c lxor Char.code ch) land 0xff) lxor (!c lsr 8)) l;
  !c lxor 0xFFFFFFFF

let fill seed i = Char.chr (((i * 131 + seed)) mod 251)

let read_file path = let ic = open_in_bin path in let n = in_channel_length ic in
  let s = really_input_string ic n in close_in ic; s

let sched_of = function None | Some "-" -> [] | Some s -> List.map (fun x -> n_of_int (int_of_string x)) (String.split_on_char ',' s)

let fmt_chunks cs = Printf.sprintf "OK %d %s" (List.length cs)
  (String.concat " " (List.map (fun (d, m) -> Printf.sprintf "%d:%d:%08x" (List.length d) (if m then 1 else 0) (crc32_list d)) cs))

let fmt_file f = Printf.sprintf "%d:%08x:%s" (List.length f.d_content) (crc32_list f.d_content)
  (match f.d_mtime with Some t -> string_of_int (int_of_z t) | None -> "now")
let fmt_state = function
  | WClosed None -> "absent"
  | WClosed (Some f) -> fmt_file f
  | WOpen f -> fmt_file f            (* the open handle is not visible in the file system *)
let fmt_res = function
  | Ok _ -> "Ok"
  | Err e -> if e = e_size_changed then "Err:size" else if e = e_lost then "Err:lost" else "Err:?"
  | Panic _ -> "Panic"

let () =
  try while true do
    let line = input_line stdin in
    let toks = List.filter (fun s -> s <> "") (String.split_on_char ' ' line) in
    (match toks with
     | "G" :: path :: rest ->
        let data = list_of_string (read_file (unhex path)) in
        (match read_chunks data (sched_of (match rest with [] -> None | s :: _ -> Some s)) with
         | Some cs -> print_endline (fmt_chunks cs)
         | None -> print_endline "OUT-OF-FUEL")
     | "S" :: len :: rest ->
        let len = int_of_string len in
        (match size_loop (nat_of_int (len + 1) O) first_buf first_buf N0 (n_of_int len) (sched_of (match rest with [] -> None | s :: _ -> Some s)) with
         | Some l -> print_endline (Printf.sprintf "OK %d %s" (List.length l) (String.concat " " (List.map (fun x -> string_of_int (int_of_n x)) l)))
         | None -> print_endline "OUT-OF-FUEL")
     | "R" :: listed :: mt :: prev :: seed :: _end :: chunks :: rest ->
        let seed = int_of_string seed in
        let specs = if chunks = "-" then [] else List.map (fun c -> match String.split_on_char ':' c with
            | [s; m] -> (int_of_string s, m = "1") | _ -> failwith "chunk spec") (String.split_on_char ',' chunks) in
        let zeros = List.concat_map (fun t -> if String.length t > 1 && t.[0] = 'Z' then
            List.map (fun r -> match String.split_on_char '-' r with
                | [a; b] -> (int_of_string a, int_of_string b) | _ -> failwith "zero range")
              (String.split_on_char ',' (String.sub t 1 (String.length t - 1))) else []) rest in
        let byte i = if List.exists (fun (a, b) -> i >= a && i < b) zeros then '\000' else fill seed i in
        let off = ref 0 in
        let cs = List.map (fun (sz, more) -> let o = !off in off := o + sz; (List.init sz (fun i -> byte (o + i)), more)) specs in
        let prevst = if prev = "absent" then None else
          Some { d_content = List.init (int_of_string prev) (fun i -> fill (seed + 1) i); d_mtime = None } in
        let f = if List.mem "U" rest then relay_unfixed else relay in
        let (cmds, r) = f (n_of_int (int_of_string listed)) (z_of_int (int_of_string mt)) cs in
        let st = write_cmds (WClosed prevst) cmds in
        print_endline (fmt_res r ^ " " ^ fmt_state st)
     | _ -> print_endline "BADREQ");
    flush stdout
  done with End_of_file -> ()
