(* Line driver around the extracted ELF/PE model (C19).  Parsing/printing only.
   Request:  <op> <fx:0|1> <mode:debug|release> <exe> <name-hex> <payload>
   with the same <exe>/<payload> syntax as harness/subs/exe.rs; answers in the same format
   (`OK <len> <hex>`, `ERR notfound|other`, `PANIC <site>`). *)
open Exe

let unhex h = if h = "-" then [] else begin
  let n = String.length h / 2 in
  let r = ref [] in
  for i = n - 1 downto 0 do
    r := Char.chr (int_of_string ("0x" ^ String.sub h (2*i) 2)) :: !r
  done; !r end
let hex l = if l = [] then "-" else begin
  let b = Buffer.create 4096 in
  List.iter (fun c -> Buffer.add_string b (Printf.sprintf "%02x" (Char.code c))) l;
  Buffer.contents b end
let implode l = let b = Buffer.create 16 in List.iter (Buffer.add_char b) l; Buffer.contents b

let gen_payload len seed =
  let r = ref [] in
  for i = len - 1 downto 0 do
    r := Char.chr ((i * 7 + seed * 13 + (i lsr 8) * 31 + (i lsr 16) * 17) land 0xFF) :: !r
  done; !r

let read_file p =
  let ic = open_in_bin p in
  let n = in_channel_length ic in
  let s = really_input_string ic n in
  close_in ic;
  let r = ref [] in
  for i = n - 1 downto 0 do r := s.[i] :: !r done; !r

let bytes_arg t =
  let n = String.length t in
  if n >= 2 && String.sub t 0 2 = "H:" then unhex (String.sub t 2 (n - 2))
  else if n >= 2 && String.sub t 0 2 = "F:" then read_file (String.sub t 2 (n - 2))
  else if n >= 2 && String.sub t 0 2 = "G:" then
    (match String.split_on_char ':' t with
     | [_; l; s] -> gen_payload (int_of_string l) (int_of_string s)
     | _ -> failwith "G")
  else []

let () =
  try while true do
    let line = input_line stdin in
    let toks = List.filter (fun s -> s <> "") (String.split_on_char ' ' line) in
    (match toks with
     | op :: fx :: md :: exe :: name :: payload :: _ ->
        let fx = (fx = "1") in
        let md = if md = "release" then Release else Debug in
        let exe = bytes_arg exe and name = unhex name and payload = bytes_arg payload in
        let r = match op with
          | "add-elf" -> add_elf_gen fx md exe name payload
          | "extract-elf" -> extract_elf_gen fx md exe name
          | "add-pe" -> add_pe_gen fx md exe name payload
          | "extract-pe" -> extract_pe_gen fx md exe name
          | _ -> Err ['b';'a';'d';'o';'p'] in
        (match r with
         | Ok b -> Printf.printf "OK %d %s\n" (List.length b) (hex b)
         | Err e -> Printf.printf "ERR %s\n" (implode e)
         | Panic s -> Printf.printf "PANIC %s\n" (implode s))
     | _ -> print_endline "BADREQ");
    flush stdout
  done with End_of_file -> ()
