(* Line driver around the extracted ELF/PE model (C19).  Parsing/printing only.
   Request:  <op> <fx:0|1> <mode:debug|release> <exe> <name-hex> <payload>
   with the same <exe>/<payload> syntax as harness/subs/exe.rs; answers in the same format
   (`OK <len> <hex>`, `ERR notfound|other`, `PANIC <site>`).
   Request:  deploy <windows:0|1> <native:0|1> <root:0|1> <self_mode> <boss umask> <remote umask> <existing mode | ->
   (decimal numbers) answers the mode trace of Model/DeployFile.v deploy_trace:
   `STEPS staged=<m> scp=<m> [chmod=<m>] launch=<0|1>`  (m = `-` when there is no remote file). *)
open Exe

let unhex h = if h = "-" then [] else begin
  let n = String.length h / 2 in
  let r = ref [] in
  for i = n - 1 downto 0 do
    r := Char.chr (int_of_string ("0x" ^ String.sub h (2*i) 2)) :: !r
  done; !r end
let hex l = if l = [] then "-" else begin
  let b = Buffer.create 4096 in
  List.iter (fun c -> Buffer.add_string b (Printf.sprintf "%02x" (Char.code c))) l;
  Buffer.contents b end
let implode l = let b = Buffer.create 16 in List.iter (Buffer.add_char b) l; Buffer.contents b

let rec pos_of_int i = if i = 1 then XH else if i land 1 = 1 then XI (pos_of_int (i lsr 1)) else XO (pos_of_int (i lsr 1))
let n_of_int i = if i = 0 then N0 else Npos (pos_of_int i)
let rec int_of_pos = function XH -> 1 | XO p -> 2 * int_of_pos p | XI p -> 2 * int_of_pos p + 1
let int_of_n = function N0 -> 0 | Npos p -> int_of_pos p
let mode_str = function None -> "-" | Some m -> string_of_int (int_of_n m)

let deploy_line w nat root self bu ru ex =
  let ex = if ex = "-" then None else Some (n_of_int (int_of_string ex)) in
  let (staged, tr) = deploy_trace (w = "1") (nat = "1") (root = "1") (n_of_int (int_of_string self))
                       (n_of_int (int_of_string bu)) (n_of_int (int_of_string ru)) ex in
  let item (s, wd) = match s with
    | SScp -> "scp=" ^ mode_str wd.w_remote
    | SChmod -> "chmod=" ^ mode_str wd.w_remote
    | SLaunch -> "launch=" ^ (match wd.w_started with Some true -> "1" | Some false -> "0" | None -> "?") in
  Printf.sprintf "STEPS staged=%d %s" (int_of_n staged) (String.concat " " (List.map item tr))

let gen_payload len seed =
  let r = ref [] in
  for i = len - 1 downto 0 do
    r := Char.chr ((i * 7 + seed * 13 + (i lsr 8) * 31 + (i lsr 16) * 17) land 0xFF) :: !r
  done; !r

let read_file p =
  let ic = open_in_bin p in
  let n = in_channel_length ic in
  let s = really_input_string ic n in
  close_in ic;
  let r = ref [] in
  for i = n - 1 downto 0 do r := s.[i] :: !r done; !r

let bytes_arg t =
  let n = String.length t in
  if n >= 2 && String.sub t 0 2 = "H:" then unhex (String.sub t 2 (n - 2))
  else if n >= 2 && String.sub t 0 2 = "F:" then read_file (String.sub t 2 (n - 2))
  else if n >= 2 && String.sub t 0 2 = "G:" then
    (match String.split_on_char ':' t with
     | [_; l; s] -> gen_payload (int_of_string l) (int_of_string s)
     | _ -> failwith "G")
  else []

let () =
  try while true do
    let line = input_line stdin in
    let toks = List.filter (fun s -> s <> "") (String.split_on_char ' ' line) in
    (match toks with
     | ["deploy"; w; nat; root; self; bu; ru; ex] -> print_endline (deploy_line w nat root self bu ru ex)
     | op :: fx :: md :: exe :: name :: payload :: _ ->
        let fx = (fx = "1") in
        let md = if md = "release" then Release else Debug in
        let exe = bytes_arg exe and name = unhex name and payload = bytes_arg payload in
        let r = match op with
          | "add-elf" -> add_elf_gen fx md exe name payload
          | "extract-elf" -> extract_elf_gen fx md exe name
          | "add-pe" -> add_pe_gen fx md exe name payload
          | "extract-pe" -> extract_pe_gen fx md exe name
          | _ -> Err ['b';'a';'d';'o';'p'] in
        (match r with
         | Ok b -> Printf.printf "OK %d %s\n" (List.length b) (hex b)
         | Err e -> Printf.printf "ERR %s\n" (implode e)
         | Panic s -> Printf.printf "PANIC %s\n" (implode s))
     | _ -> print_endline "BADREQ");
    flush stdout
  done with End_of_file -> ()
