(* Line driver around the extracted filters model (C06).  Parsing/printing only.
   F <nfilters> <hexfilter>... <npaths> <hexpath>...   -> the answer format of harness/subs/filters.rs:
        ERR sign | ERR regex | OK <I/E per path, boss> <I/E per path, doer after shipping> <hex pattern texts>
   S <same arguments>  -> the documented rule on each pattern's own AST:  OK <I/E per path> | NOTSUBSET
   W <nfilters> <hexfilter>... <nentries> (<hexpath> d|f)...   (entries in pre-order, parents first)
        -> LISTED <hexpath>,...  : the model's walk of that tree under the filters *)
open Filters

let unhex h = if h = "-" then [] else
  List.init (String.length h / 2) (fun i -> Char.chr (int_of_string ("0x" ^ String.sub h (2*i) 2)))
let hex l = if l = [] then "-" else String.concat "" (List.map (fun c -> Printf.sprintf "%02x" (Char.code c)) l)
let implode l = String.init (List.length l) (List.nth l)

let rec take n l = if n = 0 then [] else match l with [] -> failwith "short" | x :: r -> x :: take (n-1) r
let rec drop n l = if n = 0 then l else match l with [] -> failwith "short" | _ :: r -> drop (n-1) r

let verdict_char = function Ok Inc -> "I" | Ok Exc -> "E" | Err _ -> "R" | Panic _ -> "P"

let split_args toks =
  match toks with
  | nf :: rest ->
    let nf = int_of_string nf in
    let filters = List.map unhex (take nf rest) in
    (match drop nf rest with
     | np :: rest2 -> (filters, int_of_string np, rest2)
     | [] -> failwith "args")
  | [] -> failwith "args"

(* build a tree from pre-order (path, kind) entries *)
let split_path p = List.map (fun s -> List.init (String.length s) (String.get s)) (String.split_on_char '/' (implode p))
let rec insert t comps kind = match t, comps with
  | Dir ch, [nm] -> Dir (ch @ [(nm, (if kind = "d" then Dir [] else File))])
  | Dir ch, nm :: rest -> Dir (List.map (fun (n, c) -> if n = nm then (n, insert c rest kind) else (n, c)) ch)
  | _ -> failwith "tree"

let () =
  try while true do
    let line = input_line stdin in
    let toks = List.filter (fun s -> s <> "") (String.split_on_char ' ' line) in
    (match toks with
     | "F" :: rest ->
        let (filters, np, r) = split_args rest in
        let paths = List.map unhex (take np r) in
        (match compile_filters filters with
         | Err e -> print_endline ("ERR " ^ implode e)
         | Panic e -> print_endline ("PANIC " ^ implode e)
         | Ok fl ->
            let a = String.concat "" (List.map (fun p -> verdict_char (boss_verdict filters p)) paths) in
            let b = String.concat "" (List.map (fun p -> verdict_char (doer_verdict fl p)) paths) in
            let a = if paths = [] then "-" else a and b = if paths = [] then "-" else b in
            let pats = if fl.fl_patterns = [] then "-" else String.concat "," (List.map hex fl.fl_patterns) in
            print_endline (Printf.sprintf "OK %s %s %s" a b pats))
     | "S" :: rest ->
        let (filters, np, r) = split_args rest in
        let paths = List.map unhex (take np r) in
        let asts = List.map own_ast filters in
        if List.exists (fun x -> x = None) asts then print_endline "NOTSUBSET" else
        let asts = List.map (function Some x -> x | None -> assert false) asts in
        let a = String.concat "" (List.map (fun p -> match spec_verdict asts p with Inc -> "I" | Exc -> "E") paths) in
        print_endline ("OK " ^ (if paths = [] then "-" else a))
     | "W" :: rest ->
        let (filters, ne, r) = split_args rest in
        let rec ents n r = if n = 0 then [] else match r with p :: k :: r' -> (unhex p, k) :: ents (n-1) r' | _ -> failwith "entries" in
        let es = ents ne r in
        let t = List.fold_left (fun t (p, k) -> insert t (split_path p) k) (Dir []) es in
        (match compile_filters filters with
         | Ok fl -> print_endline ("LISTED " ^ String.concat "," (List.map hex (walk (included fl) [] t)))
         | _ -> print_endline "ERR")
     | _ -> print_endline "BADREQ");
    Stdlib.flush Stdlib.stdout
  done with End_of_file -> ()
