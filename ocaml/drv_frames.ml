(* Line driver around the extracted frame model (C10 / C14).  Parsing/printing only.
   S <bump> <key> <dir> <start_ctr> <n> <msghex>...
        -> S end=<ok|serialize|panic-..> ctr=<n> lens=<l,l,..> wire=<hex>
   R <bump> <key> <dir> <start_ctr> <c0> <c1> <n0> <sent0 hex>... <n1> <sent1 hex>... <nseg> <seg hex>...
        (the log of honest seals is what both directions sealed from counters c0 / c1; the
         segments are fed one by one, then the connection is closed)
        -> R n=<k> ids=<..> end=<finished|class> ctr=<n>
   L <nframes> <framehex>... <wirehex>     -> L <number of leading honest frames> *)
open Frames

let unhex h = if h = "-" then [] else
  List.init (String.length h / 2) (fun i -> Char.chr (int_of_string ("0x" ^ String.sub h (2*i) 2)))
let hex l = if l = [] then "-" else begin
  let b = Buffer.create (2 * List.length l) in
  List.iter (fun c -> Buffer.add_string b (Printf.sprintf "%02x" (Char.code c))) l; Buffer.contents b end
let implode l = String.concat "" (List.map (String.make 1) l)

let rec n_of_int i = if i = 0 then N0 else N.add (N.double (n_of_int (i / 2))) (if i land 1 = 1 then Npos XH else N0)
let ten = n_of_int 10
let n_of_string s =
  let r = ref N0 in
  String.iter (fun c -> r := N.add (N.mul !r ten) (n_of_int (Char.code c - 48))) s; !r
let rec pos_to_int = function XH -> 1 | XO p -> 2 * pos_to_int p | XI p -> 2 * pos_to_int p + 1
let small = function N0 -> 0 | Npos p -> pos_to_int p
let string_of_n x =
  if x = N0 then "0" else begin
    let r = ref x and s = ref "" in
    while !r <> N0 do
      s := string_of_int (small (N.modulo !r ten)) ^ !s;
      r := N.div !r ten
    done; !s end
let rec int_of_nat = function O -> 0 | S k -> 1 + int_of_nat k

let dir_of = function "0" -> BossToDoer | "1" -> DoerToBoss | s -> failwith ("dir " ^ s)
let bump_of = function "1" -> true | "0" -> false | s -> failwith ("bump " ^ s)

let class_of_site site =
  let s = implode site in
  if s = "Error serializing command" then "serialize"
  else if s = "assert nonce parity" then "panic-parity"
  else if s = "checked_add(2).unwrap()" then "panic-overflow"
  else if s = "SliceBuffer::extend_from_slice" then "panic-oversize"
  else "other:" ^ s

let id_of m = match m with
  | a :: b :: c :: d :: _ -> Char.code a + 256 * Char.code b + 65536 * Char.code c + 16777216 * Char.code d
  | _ -> -1

let take n l = List.filteri (fun i _ -> i < n) l
let drop n l = List.filteri (fun i _ -> i >= n) l

let () =
  try while true do
    let line = input_line stdin in
    let t = Array.of_list (List.filter (fun s -> s <> "") (String.split_on_char ' ' line)) in
    (if Array.length t = 0 then print_endline "BADREQ" else
    match t.(0) with
    | "S" ->
        let n = int_of_string t.(5) in
        let ms = List.init n (fun i -> unhex t.(6 + i)) in
        (match toy_send (bump_of t.(1)) (unhex t.(2)) (dir_of t.(3)) (n_of_string t.(4)) ms with
         | Ok (ctr, frames) ->
             Printf.printf "S end=ok ctr=%s lens=%s wire=%s\n" (string_of_n ctr)
               (String.concat "," (List.map (fun f -> string_of_int (List.length f)) frames))
               (hex (List.concat frames))
         | Err e -> Printf.printf "S end=%s ctr=- lens=- wire=-\n" (class_of_site e)
         | Panic e -> Printf.printf "S end=%s ctr=- lens=- wire=-\n" (class_of_site e))
    | "R" ->
        let bump = bump_of t.(1) and key = unhex t.(2) and d = dir_of t.(3) in
        let start = n_of_string t.(4) and c0 = n_of_string t.(5) and c1 = n_of_string t.(6) in
        let p = ref 7 in
        let group () = let n = int_of_string t.(!p) in
          let l = List.init n (fun i -> unhex t.(!p + 1 + i)) in p := !p + 1 + n; l in
        let sent0 = group () in let sent1 = group () in let segs = group () in
        let log = toy_log bump key c0 sent0 c1 sent1 in
        let st = ref { r_ctr = start; r_st = (r_init d).r_st } and out = ref [] in
        List.iter (fun seg -> let (st', del) = toy_recv bump log d !st seg in st := st'; out := !out @ del) segs;
        let fin = recv_eof !st in
        let cls = match fin.r_st with
          | RFinished -> "finished" | RFailed f -> implode (fail_name f) | RRun _ -> "waiting" in
        let ids = List.map id_of !out in
        Printf.printf "R n=%d ids=%s end=%s ctr=%s\n" (List.length ids)
          (if ids = [] then "-" else String.concat "," (List.map string_of_int ids)) cls (string_of_n fin.r_ctr)
    | "L" ->
        let n = int_of_string t.(1) in
        let fs = List.init n (fun i -> unhex t.(2 + i)) in
        Printf.printf "L %d\n" (int_of_nat (lead fs (unhex t.(2 + n))))
    | _ -> print_endline "BADREQ");
    flush stdout
  done with End_of_file -> ()
