(* Line driver around the extracted launch model (C15).  Parsing/printing only. *)
open Launch

let unhex h = if h = "-" then [] else
  List.init (String.length h / 2) (fun i -> Char.chr (int_of_string ("0x" ^ String.sub h (2*i) 2)))
let hex l = if l = [] then "-" else String.concat "" (List.map (fun c -> Printf.sprintf "%02x" (Char.code c)) l)

let rec pos_of_int i = if i = 1 then XH else if i land 1 = 1 then XI (pos_of_int (i lsr 1)) else XO (pos_of_int (i lsr 1))
let n_of_int i = if i = 0 then N0 else Npos (pos_of_int i)
let rec int_of_pos = function XH -> 1 | XO p -> 2 * int_of_pos p | XI p -> 2 * int_of_pos p + 1
let int_of_n = function N0 -> 0 | Npos p -> int_of_pos p
let rec int_of_nat = function O -> 0 | S n -> 1 + int_of_nat n

let bytes_of_hex h = List.map (fun c -> n_of_int (Char.code c)) (unhex h)
let hex_of_bytes l = if l = [] then "-" else String.concat "" (List.map (fun b -> Printf.sprintf "%02x" (int_of_n b)) l)

let cfg = ref { own_version = []; started_prefix = []; completed_prefix = [] }

let msg_str = function
  | MLine l -> "line:" ^ hex l | MStarted l -> "started:" ^ hex l | MCompleted l -> "completed:" ^ hex l
  | MClosed -> "closed:-" | MError -> "error:-"
let msg_of kind text = match kind with
  | "line" -> MLine (unhex text) | "started" -> MStarted (unhex text) | "completed" -> MCompleted (unhex text)
  | "closed" -> MClosed | "error" -> MError | s -> failwith ("msg kind " ^ s)
let ev_of tok = match String.split_on_char ':' tok with
  | [s; k; t] -> ((match s with "o" -> Stdout | "e" -> Stderr | _ -> failwith "stream"), msg_of k t)
  | _ -> failwith ("event " ^ tok)
let read_of tok =
  if tok = "EOF" then REof else if tok = "ERR" then RErr
  else if String.length tok >= 1 && tok.[0] = 'L' then RLine (unhex (String.sub tok 1 (String.length tok - 1)))
  else failwith ("read " ^ tok)

let lres_str = function
  | LSuccess (p, k) -> Printf.sprintf "SUCCESS %d %d" (int_of_n p) (int_of_nat k)
  | LIncompat v -> "INCOMPAT " ^ hex v
  | LNotPresent -> "NOTPRESENT" | LCommErr -> "COMMERR" | LExited -> "EXITED" | LBlocked -> "BLOCKED" | LFailedSsh -> "FAILEDSSH"
let lres_of = function
  | "S" -> LSuccess (n_of_int 1, O) | "I" -> LIncompat [] | "N" -> LNotPresent | "C" -> LCommErr | "X" -> LExited
  | "B" -> LBlocked | "F" -> LFailedSsh | s -> failwith ("lres " ^ s)
let beh_of = function "Prompt" -> DbPrompt | "Error" -> DbError | "Ok" -> DbOk | "Force" -> DbForce | s -> failwith ("beh " ^ s)
let act_str = function ALaunch -> "L" | AOsTest -> "O" | APrompt -> "P" | AUpload -> "U" | AChmod -> "M" | AConnect -> "C"
let acts l = if l = [] then "-" else String.concat "," (List.map act_str l)
let sres_str = function SConnected n -> Printf.sprintf "CONNECTED%d" (int_of_nat n) | SErr -> "ERR" | SPanic -> "PANIC" | SHang -> "HANG"
let b01 = function "1" -> true | "0" -> false | s -> failwith ("bool " ^ s)
let os_of = function "fail" -> OsFail | "unix1" -> OsOk (false, true) | "unix0" -> OsOk (false, false)
  | "win1" -> OsOk (true, true) | "win0" -> OsOk (true, false) | s -> failwith ("os " ^ s)

(* beh l1 l2 c1 c2 os staging ans scp chmod *)
let setup toks = match toks with
  | ["local"] -> ([], SConnected O)
  | [b; l1; l2; c1; c2; os; st; ans; scp; chm] ->
      let e = { d_os = os_of os; d_staging_ok = b01 st; d_answer = (match ans with "Deploy" -> AnsDeploy | "Cancel" -> AnsCancel | s -> failwith ("ans " ^ s));
                d_scp_ok = b01 scp; d_chmod_ok = b01 chm } in
      setup_comms_r (beh_of b) (lres_of l1) (lres_of l2) (b01 c1) (b01 c2) e
  | _ -> failwith "setup args"

let rec split_on sep acc = function
  | [] -> (List.rev acc, [])
  | t :: r when t = sep -> (List.rev acc, r)
  | t :: r -> split_on sep (t :: acc) r

let () =
  try while true do
    let line = input_line stdin in
    let toks = List.filter (fun s -> s <> "") (String.split_on_char ' ' line) in
    (try (match toks with
     | ["CFG"; v; sp; cp] -> cfg := { own_version = unhex v; started_prefix = unhex sp; completed_prefix = unhex cp }; print_endline "OK"
     | ["K"; h] -> print_endline (hex (key_line (bytes_of_hex h)))
     | ["P"; h] -> (match parse_hex_u128_be (unhex h) with None -> print_endline "REJECT" | Some k -> print_endline ("ACCEPT " ^ hex_of_bytes k))
     | ["C"; h] -> print_endline (msg_str (classify !cfg (unhex h)))
     | "R" :: rs -> print_endline (String.concat " " (List.map msg_str (reader !cfg (List.map read_of rs))))
     | "H" :: wok :: evs ->
         let evs = List.map ev_of evs in
         let (r, ws) = run !cfg (b01 wok) evs in
         Printf.printf "%s ; w=%s ; causal=%d\n" (lres_str r)
           (if ws = [] then "-" else String.concat "," (List.map (fun i -> string_of_int (int_of_nat i)) ws))
           (if causal evs then 1 else 0)
     | ["N"; h] -> print_endline (if is_noise !cfg (unhex h) then "1" else "0")
     | ["U"; h] -> (match parse_u16 (unhex h) with None -> print_endline "NONE" | Some p -> print_endline (string_of_int (int_of_n p)))
     | ["L"; p] -> print_endline (hex (completed_line !cfg (n_of_int (int_of_string p))))
     | "S" :: rest -> let (a, r) = setup rest in Printf.printf "actions=%s result=%s\n" (acts a) (sres_str r)
     | "B" :: rest ->
         let (s, d) = split_on "/" [] rest in
         let (a, r) = connect_both (setup s) (setup d) in
         Printf.printf "actions=%s result=%s\n" (acts a)
           (match r with BothConnected -> "CONNECTED" | BothExit c -> Printf.sprintf "EXIT %d" (int_of_n c) | BothPanic -> "PANIC" | BothHang -> "HANG")
     | _ -> print_endline "BADREQ")
    with Failure m -> print_endline ("BADREQ " ^ m));
    flush stdout
  done with End_of_file -> ()
