(* Line driver around the extracted C18 models (Model/Progress.v, Histogram.v, Meta.v).
   Parsing/printing only; the same request lines as harness/subs/nopanic.rs, the same answer text.
     V <e> | VD | VP <start> <size> <fsize>
     P <det01> D<e,..|-> C<e,..|-> O<total|->/<sent|->/<last|-> K <call> ...
     B <det01> <dry01> D<e,..|-> C<e,..|-> A<n:m,n:m;..|->
     H <v> ...                    with the ideal bucket index floor(log10 v)
     HX <i> ...                   the same adds with the given bucket indices (those the real code used)
     M F <sec> <nsec> <size> | M D | M L <f|d|u> | M O      (what lstat said)
     M0 ...                       the same with the decision before the repair of F8                     *)
open Progress

(* decimal strings <-> N without going through OCaml's 63-bit int *)
let rec pos_of_int i = if i = 1 then XH else if i land 1 = 1 then XI (pos_of_int (i lsr 1)) else XO (pos_of_int (i lsr 1))
let n_of_int i = if i = 0 then N0 else Npos (pos_of_int i)
let ten = n_of_int 10
let n_of_dec s =
  let r = ref N0 in
  String.iter (fun c -> r := N.add (N.mul !r ten) (n_of_int (Char.code c - 48))) s; !r
let str_of_list l = let b = Buffer.create 32 in List.iter (Buffer.add_char b) l; Buffer.contents b
let dec_of_n v = str_of_list (decimal v)
let z_of_dec s = if String.length s > 0 && s.[0] = '-' then
    (match n_of_dec (String.sub s 1 (String.length s - 1)) with N0 -> Z0 | Npos p -> Zneg p)
  else (match n_of_dec s with N0 -> Z0 | Npos p -> Zpos p)
let dec_of_z = function Z0 -> "0" | Zpos p -> dec_of_n (Npos p) | Zneg p -> "-" ^ dec_of_n (Npos p)

let t0 = { t_sec = Z0; t_nsec = N0 }
let entry s = match s.[0] with
  | 'F' -> EDFile (t0, n_of_dec (String.sub s 1 (String.length s - 1)))
  | 'D' -> EDFolder
  | _ -> EDSymlink (SKUnknown, STNormalized ['t'])
let entries s = if s = "-" then [] else List.map entry (String.split_on_char ',' s)
let tail s = String.sub s 1 (String.length s - 1)

let pv_text v = Printf.sprintf "%s,%s,%s,%s" (dec_of_n v.pv_work) (dec_of_n v.pv_delete) (dec_of_n v.pv_copy) (dec_of_n v.pv_bytes)
let marker_text m = match m.pm_phase with
  | PDeleting n -> Printf.sprintf "M%s:D%s" (dec_of_n m.pm_completed_work) (dec_of_n n)
  | PCopying (n, b) -> Printf.sprintf "M%s:C%s:%s" (dec_of_n m.pm_completed_work) (dec_of_n n) (dec_of_n b)
  | PDone -> Printf.sprintf "M%s:X" (dec_of_n m.pm_completed_work)

let quad s = if s = "-" then None else
  match String.split_on_char ',' s with
  | [a; b; c; d] -> Some { pv_work = n_of_dec a; pv_delete = n_of_dec b; pv_copy = n_of_dec c; pv_bytes = n_of_dec d }
  | _ -> failwith "quad"

let call_of c = match c.[0] with
  | 'l' -> KLimited | 'm' -> KMarker | 'd' -> KDelete | 'a' -> KAllSent
  | 'c' -> KCopy (entry (tail c))
  | _ -> (match String.split_on_char ':' (tail c) with
          | [a; b; c] -> KPartial (n_of_dec a, n_of_dec b, n_of_dec c) | _ -> failwith "partial")

(* executes the calls one by one; returns the tokens and the final state (None after a panic) *)
let run_calls s calls =
  let rec go s acc = function
    | [] -> (List.rev acc, Some s)
    | c :: t -> (match exec_call Saturating s c with
                 | Ok (s', None) -> go s' ("." :: acc) t
                 | Ok (s', Some m) -> go s' (marker_text m :: acc) t
                 | _ -> (List.rev ("PANIC" :: acc), None)) in
  go s [] calls

let answers_of s = if s = "-" then [] else
  List.map (fun a -> if a = "e" then [] else List.map (fun c -> match String.split_on_char ':' c with
      | [n; m] -> (n_of_dec n, m = "1") | _ -> failwith "chunk") (String.split_on_char ',' a)) (String.split_on_char ';' s)

let hist_text idx h =
  let b = if h = [] then "-" else String.concat "," (List.map dec_of_n h) in
  match hist_display h with
  | Ok lines -> Printf.sprintf "idx=%s buckets=%s display=%s" idx b (String.concat "|" (List.map str_of_list lines))
  | _ -> "PANIC"

let meta_text fixed m =
  let send = match send_listed fixed [] m, send_root fixed m false ['/'] with
    | Ok _, Ok _ -> "ok" | _ -> "PANIC" in
  match entry_of_meta fixed m with
  | Ok (EDFile (t, sz)) -> Printf.sprintf "F %s %s %s send=%s" (dec_of_z t.t_sec) (dec_of_n t.t_nsec) (dec_of_n sz) send
  | Ok EDFolder -> "D send=" ^ send
  | Ok (EDSymlink (k, _)) -> Printf.sprintf "L %s send=%s" (match k with SKFile -> "f" | SKFolder -> "d" | SKUnknown -> "u") send
  | Err e -> "ERR " ^ (if e = e_pre_epoch then "pre1970" else if e = e_file_type then "filetype"
                       else if e = e_read_link then "readlink" else if e = e_no_mtime then "mtime" else "other")
  | Panic _ -> "PANIC"

let () =
  try while true do
    let line = input_line stdin in
    let toks = List.filter (fun s -> s <> "") (String.split_on_char ' ' line) in
    (match toks with
     | ["V"; e] -> print_endline (pv_text (for_copy (entry e)))
     | ["VD"] -> print_endline (pv_text for_delete)
     | ["VP"; a; b; c] -> print_endline (match for_copy_partial (n_of_dec a) (n_of_dec b) (n_of_dec c) with Ok v -> pv_text v | _ -> "PANIC")
     | "P" :: det :: d :: c :: o :: "K" :: calls ->
        (match progress_new Saturating false (entries (tail d)) (entries (tail c)) with
         | Ok s ->
            let s = { s with ps_detailed = (det = "1") } in
            let s = (match String.split_on_char '/' (tail o) with
              | [t; v; l] ->
                 let s = (match quad t with Some x -> { s with ps_total = x } | None -> s) in
                 let s = (match quad v with Some x -> { s with ps_sent = x } | None -> s) in
                 if l = "-" then s else { s with ps_last = n_of_dec l }
              | _ -> failwith "override") in
            let (toks, fin) = run_calls s (List.map call_of calls) in
            let body = String.concat "" (List.map (fun t -> " " ^ t) toks) in
            (match fin with
             | Some s' -> Printf.printf "new=%s ;%s ; sent=%s last=%s\n" (pv_text s.ps_total) body (pv_text s'.ps_sent) (dec_of_n s'.ps_last)
             | None -> Printf.printf "new=%s ;%s ;\n" (pv_text s.ps_total) body)
         | _ -> print_endline "new=PANIC ; ; ")
     | ["B"; det; dry; d; c; a] ->
        let dels = entries (tail d) and copies = entries (tail c) and answers = answers_of (tail a) in
        let detailed = det = "1" and dry = dry = "1" in
        (match progress_new Saturating detailed dels copies with
         | Ok s ->
            let (calls, o) = boss_calls dry dels copies answers in
            let (toks, fin) = run_calls s calls in
            let ms = String.concat " " (List.filter (fun t -> t <> "." && t <> "PANIC") toks) in
            let cls = (match fin, o with None, _ -> "panic" | _, Ok _ -> "ok" | _, Err _ -> "err" | _, Panic _ -> "panic") in
            (* cross-check with the one-piece definition *)
            let cls2 = (match boss_run Saturating detailed dry dels copies answers with Ok _ -> "ok" | Err _ -> "err" | Panic _ -> "panic") in
            if cls <> cls2 then print_endline "MODEL-INCONSISTENT" else Printf.printf "%s ; %s\n" cls ms
         | _ -> print_endline "panic ; ")
     | "H" :: vals ->
        let vs = List.map n_of_dec vals in
        let idx = if vs = [] then "-" else String.concat "," (List.map (fun v -> dec_of_n (bucket_ideal v)) vs) in
        print_endline (match hist_adds bucket_ideal [] vs with Ok h -> hist_text idx h | _ -> "PANIC")
     | "HX" :: idxs ->
        let is = List.map n_of_dec idxs in
        let idx = if is = [] then "-" else String.concat "," (List.map dec_of_n is) in
        print_endline (match hist_adds (fun i -> i) [] is with Ok h -> hist_text idx h | _ -> "PANIC")
     | m :: rest when m = "M" || m = "M0" ->
        let fixed = m = "M" in
        let md = (match rest with
          | ["F"; sec; nsec; size] -> { m_type = FTFile; m_mtime = Some { t_sec = z_of_dec sec; t_nsec = n_of_dec nsec }; m_size = n_of_dec size; m_link = None }
          | ["D"] -> { m_type = FTDir; m_mtime = None; m_size = N0; m_link = None }
          | ["L"; k] -> { m_type = FTSymlink; m_mtime = None; m_size = N0;
                          m_link = Some ((match k with "f" -> SKFile | "d" -> SKFolder | _ -> SKUnknown), STNormalized []) }
          | ["O"] -> { m_type = FTOther; m_mtime = None; m_size = N0; m_link = None }
          | _ -> failwith "meta") in
        print_endline (meta_text fixed md)
     | _ -> print_endline "BADREQ");
    flush stdout
  done with End_of_file -> ()
