(* Line driver around the extracted remote-session model (C09 / C14, Model/RemoteSession.v).  Parsing/printing only.
   request:  R cap=<bytes> sck=<frames-1> ops=<op>,<op>,... eplan=<01..|-> plan=<trig>/<act>;...|-
               op   = S<id>:<k>:<csize>:<rsize>   send command <id> (accounted size csize) whose execution emits k responses of size rsize
                    | R (blocking receive) | T (polling receive)
               trig = f0:<n> (>= n frames written boss->doer) | f1:<n> (doer->boss) | x:<n> (>= n commands executed) | s:<n> (after n steps)
               act  = cut | kill | stdin | bad0 | bad1
   answer:   M outs=<b>:<d>:<n>;...  stuck=0|1 steps=<mu init> runs=<number of schedules>
             one triple per distinct end state over the built-in priority schedules:
             b = boss exit status, d = doer exit status (- if none), n = commands the doer executed *)
open Remote

let rec pos_of_int i = if i = 1 then XH else if i land 1 = 0 then XO (pos_of_int (i lsr 1)) else XI (pos_of_int (i lsr 1))
let n_of_int i = if i = 0 then N0 else Npos (pos_of_int i)
let rec int_of_pos = function XH -> 1 | XO p -> 2 * int_of_pos p | XI p -> 2 * int_of_pos p + 1
let int_of_n = function N0 -> 0 | Npos p -> int_of_pos p
let rec int_of_nat = function O -> 0 | S k -> 1 + int_of_nat k
let rec nat_of_int i = if i <= 0 then O else S (nat_of_int (i - 1))

let kv toks = List.map (fun t -> match String.index_opt t '=' with
  | Some i -> (String.sub t 0 i, String.sub t (i+1) (String.length t - i - 1)) | None -> (t, "")) toks
let geti k l = int_of_string (List.assoc k l)
let bools s = if s = "-" then [] else List.init (String.length s) (fun i -> s.[i] = '1')
let split c s = if s = "-" || s = "" then [] else String.split_on_char c s

let base = [ABoss; ABSnd; ABRcv; ADoer; ADSnd; ADRcv; AWatch]
let rotations l =
  let n = List.length l in
  List.init n (fun k -> List.init n (fun i -> List.nth l ((i + k) mod n)))
let shuffles =
  (* fixed pseudo-random permutations (LCG), so that the answer is a function of the request *)
  let st = ref 12345 in
  let rnd m = st := (!st * 1103515245 + 12345) land 0x3fffffff; (!st lsr 8) mod m in
  List.init 40 (fun _ ->
    let a = Array.of_list base in
    for i = Array.length a - 1 downto 1 do let j = rnd (i + 1) in let t = a.(i) in a.(i) <- a.(j); a.(j) <- t done;
    Array.to_list a)
let orders = rotations base @ rotations (List.rev base) @ shuffles

let () =
  try while true do
    let line = input_line stdin in
    let toks = List.filter (fun s -> s <> "") (String.split_on_char ' ' line) in
    (match toks with
     | "R" :: rest ->
        let l = kv rest in
        let csz = Hashtbl.create 16 and rsz = Hashtbl.create 16 in
        let ops = List.map (fun t ->
            if t = "R" then ORecv else if t = "T" then OTry else
            match String.split_on_char ':' (String.sub t 1 (String.length t - 1)) with
            | [id; k; cs; rs] ->
                let id = int_of_string id and k = int_of_string k in
                Hashtbl.replace csz id (int_of_string cs); Hashtbl.replace rsz id (int_of_string rs);
                OSend (n_of_int id, List.init k (fun j -> n_of_int (id * 1000 + j)))
            | _ -> failwith "op") (split ',' (List.assoc "ops" l)) in
        let find h k = try Hashtbl.find h k with Not_found -> 0 in
        let weight = function
          | MCmd (id, _) -> n_of_int (find csz (int_of_n id))
          | MShut -> n_of_int 4
          | MResp r -> n_of_int (find rsz (int_of_n r / 1000))
          | MErr _ -> n_of_int 100
          | MFinal -> n_of_int 12
          | MGarb -> N0 in
        let cfg = { cap = n_of_int (geti "cap" l); sck = nat_of_int (geti "sck" l); w = weight } in
        let plan = List.map (fun t ->
            match String.split_on_char '/' t with
            | [tr; ac] ->
                let tr = (match String.split_on_char ':' tr with
                  | ["f0"; n] -> TFrames (false, n_of_int (int_of_string n))
                  | ["f1"; n] -> TFrames (true, n_of_int (int_of_string n))
                  | ["x"; n] -> TExec (nat_of_int (int_of_string n))
                  | ["s"; n] -> TSteps (nat_of_int (int_of_string n))
                  | _ -> failwith "trig") in
                let ac = (match ac with "cut" -> FCut | "kill" -> FKill | "stdin" -> FStdin
                                        | "bad0" -> FBad false | "bad1" -> FBad true | _ -> failwith "act") in
                (tr, ac)
            | _ -> failwith "plan") (split ';' (List.assoc "plan" l)) in
        let has a = List.exists (fun (_, x) -> x = a) plan in
        let nbad = List.length (List.filter (fun (_, x) -> match x with FBad _ -> true | _ -> false) plan) in
        let sc = { sc_ops = ops; sc_eplan = bools (List.assoc "eplan" l);
                   sc_cut = has FCut; sc_kill = has FKill; sc_stdin = has FStdin; sc_bad = nat_of_int nbad } in
        let s0 = init sc in
        let ends = List.map (fun ord -> run_plan_to_end cfg ord plan s0) orders in
        let outs = List.sort_uniq compare (List.filter_map (fun s ->
            if final s then Some (Printf.sprintf "%d:%s:%d" (int_of_n (bexit s.bm))
                                    (match s.ev.dstat with Some d -> string_of_int (int_of_n d) | None -> "-")
                                    (List.length s.dm.dexec)) else None) ends) in
        let stuck_any = List.exists (fun s -> not (final s)) ends in
        Printf.printf "M outs=%s stuck=%d steps=%d runs=%d\n" (String.concat ";" outs)
          (if stuck_any then 1 else 0) (int_of_nat (mu s0)) (List.length orders)
     | _ -> print_endline "BADREQ");
    flush stdout
  done with End_of_file -> ()
