(* Line driver around the extracted settings model (C16).  Parsing/printing only. *)
open Settings

let explode s = List.init (String.length s) (String.get s)
let implode l = String.init (List.length l) (List.nth l)
let unhex h = if h = "-" then [] else
  List.init (String.length h / 2) (fun i -> Char.chr (int_of_string ("0x" ^ String.sub h (2*i) 2)))
let hex l = if l = [] then "-" else String.concat "" (List.map (fun c -> Printf.sprintf "%02x" (Char.code c)) l)

let beh_name act = function BPrompt -> "Prompt" | BError -> "Error" | BSkip -> "Skip" | BAct -> act
let dep_name = function DPrompt -> "Prompt" | DError -> "Error" | DOk -> "Ok" | DForce -> "Force"
let beh_of = function "Prompt" -> Some BPrompt | "Error" -> Some BError | "Skip" -> Some BSkip
  | "Overwrite" | "Delete" -> Some BAct | "none" -> None | s -> failwith ("beh " ^ s)
let dep_of = function "Prompt" -> Some DPrompt | "Error" -> Some DError | "Ok" -> Some DOk | "Force" -> Some DForce
  | "none" -> None | s -> failwith ("dep " ^ s)
let all_of = function "Prompt" -> Some APrompt | "Error" -> Some AError | "Skip" -> Some ASkip | "Proceed" -> Some AProceed
  | "none" -> None | s -> failwith ("all " ^ s)

let fmt_sync s =
  Printf.sprintf "src=%s dest=%s filters=%d[%s] newer=%s older=%s same=%s entry=%s root=%s"
    (hex s.s_src) (hex s.s_dest) (List.length s.s_filters) (String.concat "," (List.map hex s.s_filters))
    (beh_name "Overwrite" s.s_newer) (beh_name "Overwrite" s.s_older) (beh_name "Overwrite" s.s_same)
    (beh_name "Delete" s.s_entry) (beh_name "Delete" s.s_root)
let fmt_spec s =
  Printf.sprintf "deploy=%s sh=%s su=%s dh=%s du=%s nsyncs=%d%s" (dep_name s.sp_deploy)
    (hex s.sp_src_host) (hex s.sp_src_user) (hex s.sp_dest_host) (hex s.sp_dest_user) (List.length s.sp_syncs)
    (String.concat "" (List.map (fun y -> " | " ^ fmt_sync y) s.sp_syncs))

(* YAML token stream -> yaml *)
let rec parse_yaml toks = match toks with
  | "H" :: n :: r ->
      let n = int_of_string n in
      let rec go i r acc = if i = 0 then (List.rev acc, r) else
        let (k, r) = parse_yaml r in let (v, r) = parse_yaml r in go (i-1) r ((k, v) :: acc) in
      let (kvs, r) = go n r [] in (YHash kvs, r)
  | "A" :: n :: r ->
      let n = int_of_string n in
      let rec go i r acc = if i = 0 then (List.rev acc, r) else
        let (e, r) = parse_yaml r in go (i-1) r (e :: acc) in
      let (es, r) = go n r [] in (YArray es, r)
  | "S" :: h :: r -> (YString (unhex h), r)
  | ("I" | "R" | "B" | "N" | "X") :: r -> (YOther, r)
  | _ -> failwith "yaml tokens"

let get k kv = List.assoc k kv

let () =
  try while true do
    let line = input_line stdin in
    let toks = List.filter (fun s -> s <> "") (String.split_on_char ' ' line) in
    (match toks with
     | "R" :: rest ->
        (* key=value tokens until "spec=", then the remainder *)
        let rec split acc = function
          | [] -> (List.rev acc, [])
          | t :: r when String.length t >= 5 && String.sub t 0 5 = "spec=" -> (List.rev acc, (String.sub t 5 (String.length t - 5)) :: r)
          | t :: r -> split (t :: acc) r in
        let (kvt, spect) = split [] rest in
        let kv = List.map (fun t -> match String.index_opt t '=' with
            | Some i -> (String.sub t 0 i, String.sub t (i+1) (String.length t - i - 1)) | None -> (t, "")) kvt in
        let path k = match get k kv with "none" -> Some None | h -> (match parse_remote_path (unhex h) with None -> None | Some x -> Some (Some x)) in
        let filters = match String.split_on_char ';' (get "filters" kv) with [""] -> [] | l -> List.map unhex l in
        (match path "src", path "dest" with
         | None, _ | _, None -> print_endline "CLAPERR"
         | Some src, Some dest ->
           let c = { c_src = src; c_dest = dest; c_filters = filters; c_deploy = dep_of (get "deploy" kv);
                     c_newer = beh_of (get "newer" kv); c_older = beh_of (get "older" kv); c_same = beh_of (get "same" kv);
                     c_entry = beh_of (get "entry" kv); c_root = beh_of (get "root" kv); c_all = all_of (get "all" kv) } in
           let specdoc = match spect with
             | "none" :: _ -> None
             | ("unreadable" | "READERR" | "SCANERR" | "NODOC") :: _ -> Some None
             | "DOC" :: r -> let (y, _) = parse_yaml r in Some (Some y)
             | _ -> failwith "spec tokens" in
           (match resolve_spec c specdoc with
            | Some s -> print_endline ("OK " ^ fmt_spec s)
            | None -> print_endline "ERR"))
     | "D" :: _ -> print_endline (fmt_spec default_spec ^ " | " ^ fmt_sync default_sync)
     | _ -> print_endline "BADREQ");
    flush stdout
  done with End_of_file -> ()
