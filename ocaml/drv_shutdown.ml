(* Line driver around the extracted shutdown-protocol model (C09).  Parsing/printing only.
   request:  S fixed=0|1 cap=<bytes> rovh=<n> covh=<n> pre=<k> files=<exp>:<c1>,<c2>,...;<exp>:... dplan=<01..> gplan=<01..>
             (files may be "-" for none; chunk lists are never empty)
   answer:   M exits=<sorted distinct exit codes over the six priority schedules> stuck=0|1 steps=<mu init> *)
open Shutdown

let rec pos_of_int i = if i = 1 then XH else if i land 1 = 0 then XO (pos_of_int (i lsr 1)) else XI (pos_of_int (i lsr 1))
let n_of_int i = if i = 0 then N0 else Npos (pos_of_int i)
let rec int_of_pos = function XH -> 1 | XO p -> 2 * int_of_pos p | XI p -> 2 * int_of_pos p + 1
let int_of_n = function N0 -> 0 | Npos p -> int_of_pos p
let rec int_of_nat = function O -> 0 | S k -> 1 + int_of_nat k

let kv toks = List.map (fun t -> match String.index_opt t '=' with
  | Some i -> (String.sub t 0 i, String.sub t (i+1) (String.length t - i - 1)) | None -> (t, "")) toks
let geti k l = int_of_string (List.assoc k l)
let bools s = List.init (String.length s) (fun i -> s.[i] = '1')

let add a b = n_of_int (int_of_n a + b)

let perms = [ [ABoss; ASrc; ADest]; [ABoss; ADest; ASrc]; [ASrc; ABoss; ADest]; [ASrc; ADest; ABoss];
              [ADest; ABoss; ASrc]; [ADest; ASrc; ABoss] ]

let () =
  try while true do
    let line = input_line stdin in
    let toks = List.filter (fun s -> s <> "") (String.split_on_char ' ' line) in
    (match toks with
     | "S" :: rest ->
        let l = kv rest in
        let rovh = geti "rovh" l and covh = geti "covh" l in
        let cfg = { fixed = (geti "fixed" l = 1); cap = n_of_int (geti "cap" l);
                    wsc = (function SGet -> n_of_int 40 | SShut -> n_of_int 4);
                    wsr = (function SChunk (len, _) -> add len rovh | SErr -> n_of_int 60);
                    wdc = (function DData len -> add len covh | DDone -> n_of_int 40 | DShut -> n_of_int 4);
                    wdr = (function DErr -> n_of_int 100 | DEcho -> n_of_int 40) } in
        let files = match List.assoc "files" l with
          | "-" | "" -> []
          | fs -> List.map (fun f -> match String.split_on_char ':' f with
              | [e; cs] -> (match List.map int_of_string (String.split_on_char ',' cs) with
                  | h :: t -> { fexp = n_of_int (int_of_string e); fhd = n_of_int h; ftl = List.map n_of_int t }
                  | [] -> failwith "empty chunk list")
              | _ -> failwith "file") (String.split_on_char ';' fs) in
        let sc = { sc_pre = List.init (geti "pre" l) (fun _ -> N0); sc_files = files;
                   sc_gplan = bools (List.assoc "gplan" l); sc_dplan = bools (List.assoc "dplan" l);
                   sc_skill = false; sc_dkill = false } in
        let s0 = init sc in
        let ends = List.map (fun ord -> run_to_end cfg ord s0) perms in
        let exits = List.sort_uniq compare (List.filter_map (fun s -> if final s then Some (int_of_n s.bo.bexit) else None) ends) in
        let stuck_any = List.exists (fun s -> not (final s)) ends in
        Printf.printf "M exits=%s stuck=%d steps=%d\n" (String.concat "," (List.map string_of_int exits))
          (if stuck_any then 1 else 0) (int_of_nat (mu s0))
     | _ -> print_endline "BADREQ");
    flush stdout
  done with End_of_file -> ()
