(* Line driver around the extracted sync model.  Parsing/printing only.
   Request:  RUN cfg=<diff>,<fl>,<newer>,<older>,<same>,<entry>,<root>,<dry> anc=<ok|missing|blocked>
                 ans=<o1|o0|a1|a0|c , ...|-> bits=<0101..|-> ex=<hexpath;...|-> fd=<n,..|-> fsrc=<n,..|-> lag=<n>
                 S <nodes> E D <nodes> E [LS <hexpath...> E LD <hexpath...> E]
   nodes:    F <hexpath> <mtime_ns> <hexdata> | D <hexpath> | L <hexpath> <hextext> <f|d|u>
   Answer:   one line of key=value tokens (see print_result). *)
open Sync

let unhex h = if h = "-" then [] else
  List.init (String.length h / 2) (fun i -> Char.chr (int_of_string ("0x" ^ String.sub h (2*i) 2)))
let hex l = if l = [] then "-" else String.concat "" (List.map (fun c -> Printf.sprintf "%02x" (Char.code c)) l)

let rec pos_of_int i = if i = 1 then XH else if i land 1 = 0 then XO (pos_of_int (i lsr 1)) else XI (pos_of_int (i lsr 1))
let n_of_int i = if i = 0 then N0 else Npos (pos_of_int i)
let z_of_int i = if i = 0 then Z0 else if i > 0 then Zpos (pos_of_int i) else Zneg (pos_of_int (-i))
let rec int_of_pos = function XH -> 1 | XO p -> 2 * int_of_pos p | XI p -> 2 * int_of_pos p + 1
let int_of_n = function N0 -> 0 | Npos p -> int_of_pos p
let int_of_z = function Z0 -> 0 | Zpos p -> int_of_pos p | Zneg p -> - (int_of_pos p)
(* decimal text of any size -> Z (times far in the future exceed OCaml's 63-bit int) *)
let z_of_decimal (s : string) : z =
  let neg = String.length s > 0 && s.[0] = '-' in
  let digits = ref (List.map (fun c -> Char.code c - 48) (List.filter (fun c -> c >= '0' && c <= '9') (List.init (String.length s) (String.get s)))) in
  (* repeated division by two of the digit list: least significant bit first *)
  let bits = ref [] in
  let is_zero l = List.for_all (fun d -> d = 0) l in
  while not (is_zero !digits) do
    let carry = ref 0 in
    let q = List.map (fun d -> let v = !carry * 10 + d in carry := v land 1; v / 2) !digits in
    bits := !carry :: !bits;
    digits := q
  done;
  (* !bits is most significant first *)
  match !bits with
  | [] -> Z0
  | _ :: rest ->
      let p = List.fold_left (fun acc b -> if b = 1 then XI acc else XO acc) XH rest in
      if neg then Zneg p else Zpos p
let decimal_of_z (z : z) : string =
  let rec bits = function XH -> [1] | XO p -> 0 :: bits p | XI p -> 1 :: bits p in      (* least significant first *)
  let dec_of_pos p =
    let msb_first = List.rev (bits p) in
    (* digits least significant first *)
    let step digits b =
      let carry = ref b in
      let d2 = List.map (fun d -> let v = 2 * d + !carry in carry := v / 10; v mod 10) digits in
      if !carry > 0 then d2 @ [!carry] else d2 in
    let digits = List.fold_left step [0] msb_first in
    let str = String.concat "" (List.rev_map string_of_int digits) in
    (* strip leading zeros *)
    let n = String.length str in
    let i = ref 0 in
    while !i < n - 1 && str.[!i] = '0' do incr i done;
    String.sub str !i (n - !i) in
  match z with Z0 -> "0" | Zpos p -> dec_of_pos p | Zneg p -> "-" ^ dec_of_pos p
let rec nat_of_int i = if i <= 0 then O else S (nat_of_int (i - 1))

(* path <-> "a/b" text *)
let split_slash (s : char list) : char list list =
  let rec go cur acc = function
    | [] -> List.rev (List.rev cur :: acc)
    | '/' :: r -> go [] (List.rev cur :: acc) r
    | c :: r -> go (c :: cur) acc r in
  if s = [] then [] else go [] [] s
let path_of_hex h : path = split_slash (unhex h)
let hex_of_path (p : path) = if p = [] then "-" else hex (List.concat (List.mapi (fun i c -> if i = 0 then c else '/' :: c) p))

let beh_of = function "P" -> BPrompt | "E" -> BError | "S" -> BSkip | "A" -> BAct | s -> failwith ("beh " ^ s)
let kind_of = function "f" -> SKFile | "d" -> SKFolder | "u" -> SKUnknown | s -> failwith ("kind " ^ s)
let kind_s = function SKFile -> "f" | SKFolder -> "d" | SKUnknown -> "u"
let split c s = if s = "-" || s = "" then [] else String.split_on_char c s

let rec parse_nodes toks acc = match toks with
  | "E" :: r -> (List.rev acc, r)
  | "F" :: p :: mt :: d :: r -> parse_nodes r ((path_of_hex p, NFile (TSet (z_of_decimal mt), unhex d)) :: acc)
  | "D" :: p :: r -> parse_nodes r ((path_of_hex p, NFolder) :: acc)
  | "L" :: p :: t :: k :: r -> parse_nodes r ((path_of_hex p, NLink (unhex t, kind_of k)) :: acc)
  | _ -> failwith "nodes"
let rec parse_paths toks acc = match toks with
  | "E" :: r -> (List.rev acc, r)
  | p :: r -> parse_paths r (path_of_hex p :: acc)
  | [] -> failwith "paths"

let target_s = function TNorm s -> "N" ^ hex s | TRaw s -> "U" ^ hex s
let cmd_s = function
  | CSetRoot -> "SetRoot" | CGetEntries -> "GetEntries" | CCreateRootAncestors -> "Anc"
  | CGetFileContent p -> "Get:" ^ hex_of_path p
  | CCreateOrUpdateFile (p, d, mt, more) -> Printf.sprintf "W:%s:%d:%s:%d" (hex_of_path p) (List.length d)
      (match mt with None -> "-" | Some t -> decimal_of_z t) (if more then 1 else 0)
  | CCreateSymlink (p, k, t) -> Printf.sprintf "Lnk:%s:%s:%s" (hex_of_path p) (kind_s k) (target_s t)
  | CCreateFolder p -> "Mk:" ^ hex_of_path p
  | CDeleteFile p -> "RmF:" ^ hex_of_path p
  | CDeleteFolder p -> "RmD:" ^ hex_of_path p
  | CDeleteSymlink (p, k) -> Printf.sprintf "RmL:%s:%s" (hex_of_path p) (kind_s k)
  | CMarker -> "Marker" | CShutdown -> "Shutdown"
let err_s = function EExist -> "EEXIST" | ENoEnt -> "ENOENT" | ENotDir -> "ENOTDIR" | EIsDir -> "EISDIR"
  | ENotEmpty -> "ENOTEMPTY" | EUnexpectedContinue -> "ECONT" | EUnknownKind -> "EKIND" | EInjected -> "EINJ" | ERefused -> "EREFUSED" | EWrite -> "EWRITE" | EKilled -> "EKILLED"
let reason_s = function NotOnDest -> "notondest" | DestNewer -> "newer" | DestOlder -> "older" | SameTime -> "same"
let prompt_s = function PRoot -> "R" | PDelete p -> "D:" ^ hex_of_path p | PCopy (p, r) -> "C:" ^ hex_of_path p ^ ":" ^ reason_s r
let event_s = function Through q -> "T:" ^ hex_of_path q | CreatedAncestors -> "A"
let entry_s = function
  | EFile (mt, sz) -> Printf.sprintf "F:%s:%d" (decimal_of_z mt) (int_of_n sz)
  | EFolder -> "D"
  | ESymlink (k, t) -> Printf.sprintf "L:%s:%s" (kind_s k) (target_s t)
let would_s = function
  | WDelete (p, e) -> "del:" ^ hex_of_path p ^ ":" ^ (match e with EFile _ -> "file" | EFolder -> "folder" | ESymlink _ -> "symlink")
  | WCopyFile p -> "copy:" ^ hex_of_path p | WCreateFolder p -> "mkdir:" ^ hex_of_path p | WCreateSymlink p -> "mklink:" ^ hex_of_path p
let node_s (p, n) = match n with
  | NFile (TSet t, d) -> Printf.sprintf "F:%s:set:%s:%s" (hex_of_path p) (decimal_of_z t) (hex d)
  | NFile (TNow k, d) -> Printf.sprintf "F:%s:now:%d:%s" (hex_of_path p) (int_of_n k) (hex d)
  | NFolder -> "D:" ^ hex_of_path p
  | NLink (t, k) -> Printf.sprintf "L:%s:%s:%s" (hex_of_path p) (hex t) (kind_s k)
let cat sep l = if l = [] then "-" else String.concat sep l

let print_result (r : result) =
  let st = r.r_stats in
  let ni = int_of_n in
  Printf.printf "ok=%d cf=%d rootskip=%d panic=%d srcfail=%d errs=%s prompts=%s skipped=%s stats=%d,%d,%d,%d,%d,%d,%d,%d events=%s anc=%s would=%s src=%s dest=%s fs=%s\n"
    (if r.r_ok then 1 else 0) (if r.r_confirm_failed then 1 else 0) (if r.r_root_skipped then 1 else 0)
    (if r.r_panic then 1 else 0) (if r.r_src_failed then 1 else 0)
    (cat "," (List.map err_s r.r_errs)) (cat "," (List.map prompt_s r.r_prompts)) (cat "," (List.map hex_of_path r.r_skipped))
    (ni st.st_files_deleted) (ni st.st_bytes_deleted) (ni st.st_folders_deleted) (ni st.st_symlinks_deleted)
    (ni st.st_files_copied) (ni st.st_bytes_copied) (ni st.st_folders_created) (ni st.st_symlinks_copied)
    (cat "," (List.map event_s r.r_dest.d_events))
    (match r.r_dest.d_anc with AncOk -> "ok" | AncMissing -> "missing" | AncBlocked -> "blocked")
    (cat "," (List.map would_s r.r_would))
    (cat "," (List.map cmd_s r.r_src_trace)) (cat "," (List.map cmd_s r.r_dest_trace))
    (cat ";" (List.sort compare (List.map node_s r.r_dest.d_fs)))

let kv toks = List.filter_map (fun t -> match String.index_opt t '=' with
  | Some i -> Some (String.sub t 0 i, String.sub t (i+1) (String.length t - i - 1)) | None -> None) toks

let () =
  try while true do
    let line = input_line stdin in
    let toks = List.filter (fun s -> s <> "") (String.split_on_char ' ' line) in
    (match toks with
     | "RUN" :: rest ->
        let rec upto_s acc = function "S" :: r -> (List.rev acc, r) | t :: r -> upto_s (t :: acc) r | [] -> failwith "no S" in
        let (head, r) = upto_s [] rest in
        let kvs = kv head in
        let get k = List.assoc k kvs in
        let (s_nodes, r) = parse_nodes r [] in
        let r = (match r with "D" :: r -> r | _ -> failwith "no D") in
        let (d_nodes, r) = parse_nodes r [] in
        let cfgl = Array.of_list (String.split_on_char ',' (get "cfg")) in
        let cfg = { cf_diff = cfgl.(0) = "1"; cf_fl = (if cfgl.(1) = "W" then Windows else Unix);
                    cf_b = { b_newer = beh_of cfgl.(2); b_older = beh_of cfgl.(3); b_same = beh_of cfgl.(4); b_entry = beh_of cfgl.(5) };
                    cf_root = beh_of cfgl.(6); cf_dry = cfgl.(7) = "1" } in
        let anc = (match get "anc" with "ok" -> AncOk | "missing" -> AncMissing | _ -> AncBlocked) in
        let ans = List.map (function "o1" -> AnsOnce true | "o0" -> AnsOnce false | "a1" -> AnsAll true | "a0" -> AnsAll false | _ -> AnsCancel) (split ',' (get "ans")) in
        let bits = (match get "bits" with "-" -> [] | s -> List.init (String.length s) (fun i -> s.[i] = '1')) in
        let ex = List.map path_of_hex (split ';' (get "ex")) in
        let ft = { ft_dest = List.map (fun s -> nat_of_int (int_of_string s)) (split ',' (get "fd"));
                   ft_src = List.map (fun s -> nat_of_int (int_of_string s)) (split ',' (get "fsrc"));
                   ft_lag = nat_of_int (int_of_string (get "lag"));
                   ft_stop = (match List.assoc_opt "stop" kvs with Some "-" | None -> None | Some s -> Some (nat_of_int (int_of_string s))) } in
        (match r with
         | "LS" :: r ->
            let (lsp, r) = parse_paths r [] in
            let r = (match r with "LD" :: r -> r | _ -> failwith "no LD") in
            let (ldp, _) = parse_paths r [] in
            let full_s = listing_top ex s_nodes and full_d = listing_top ex d_nodes in
            let pick full ps = List.filter_map (fun p -> match List.assoc_opt p full with Some e -> Some (p, e) | None -> None) ps in
            let fw = (match List.assoc_opt "fw" kvs with Some s -> List.map (fun x -> n_of_int (int_of_string x)) (split ',' s) | None -> []) in
            print_result (run_orders_w cfg s_nodes d_nodes anc fw ans bits (pick full_s lsp) (pick full_d ldp) ft)
         | _ -> print_result (run_top cfg s_nodes d_nodes anc ans bits ex ft))
     | "SPEC" :: rest ->
        (* SPEC R <nodes> E R <nodes> E ... J src=<i> dst=<j> cfg=.. anc=.. ans=.. ex=.. J ... *)
        let rec roots i acc = function
          | "R" :: r -> let (nodes, r) = parse_nodes r [] in roots (i + 1) ((nat_of_int i, nodes) :: acc) r
          | r -> (List.rev acc, r) in
        let (st, r) = roots 0 [] rest in
        let rec jobs acc cur = function
          | [] -> List.rev (match cur with None -> acc | Some c -> List.rev c :: acc)
          | "J" :: r -> jobs (match cur with None -> acc | Some c -> List.rev c :: acc) (Some []) r
          | t :: r -> jobs acc (match cur with None -> None | Some c -> Some (t :: c)) r in
        let mk toks =
          let kvs = kv toks in
          let get k = List.assoc k kvs in
          let cfgl = Array.of_list (String.split_on_char ',' (get "cfg")) in
          { j_src = nat_of_int (int_of_string (get "src")); j_dst = nat_of_int (int_of_string (get "dst"));
            j_cfg = { cf_diff = cfgl.(0) = "1"; cf_fl = (if cfgl.(1) = "W" then Windows else Unix);
                      cf_b = { b_newer = beh_of cfgl.(2); b_older = beh_of cfgl.(3); b_same = beh_of cfgl.(4); b_entry = beh_of cfgl.(5) };
                      cf_root = beh_of cfgl.(6); cf_dry = cfgl.(7) = "1" };
            j_anc = (match get "anc" with "ok" -> AncOk | "missing" -> AncMissing | _ -> AncBlocked);
            j_ans = List.map (function "o1" -> AnsOnce true | "o0" -> AnsOnce false | "a1" -> AnsAll true | "a0" -> AnsAll false | _ -> AnsCancel) (split ',' (get "ans"));
            j_bits = []; j_ex = List.map path_of_hex (split ';' (get "ex"));
            j_ft = { ft_dest = []; ft_src = []; ft_lag = O; ft_stop = None } } in
        let js = List.map mk (jobs [] None r) in
        let sr = run_spec js st in
        Printf.printf "ok=%d ran=%d oks=%s nerrs=%s skips=%s stats=%s" (if sr.sp_ok then 1 else 0) (List.length sr.sp_runs)
          (cat "," (List.map (fun r -> if r.r_ok then "1" else "0") sr.sp_runs))
          (cat "," (List.map (fun r -> string_of_int (List.length r.r_errs)) sr.sp_runs))
          (cat "," (List.map (fun r -> string_of_int (List.length r.r_skipped)) sr.sp_runs))
          (cat "/" (List.map (fun r -> let st = r.r_stats in String.concat "," (List.map (fun n -> string_of_int (int_of_n n))
              [st.st_files_deleted; st.st_folders_deleted; st.st_symlinks_deleted; st.st_files_copied; st.st_folders_created; st.st_symlinks_copied])) sr.sp_runs));
        List.iteri (fun i _ -> Printf.printf " fs%d=%s" i (cat ";" (List.sort compare (List.map node_s (sget sr.sp_store (nat_of_int i)))))) st;
        print_newline ()
     | "LIST" :: rest ->
        let kvs = kv rest in
        let rec drop = function "S" :: r -> r | _ :: r -> drop r | [] -> failwith "no S" in
        let (nodes, _) = parse_nodes (drop rest) [] in
        let ex = List.map path_of_hex (split ';' (List.assoc "ex" kvs)) in
        print_endline (cat "," (List.map (fun (p, e) -> hex_of_path p ^ "=" ^ entry_s e) (listing_top ex nodes)))
     | "OPS" :: rest ->
        (* OPS S <nodes> E C <cmd> <cmd> ... E    cmd := Mk:<hexpath> | RmF:<hexpath> | RmD:<hexpath> | RmL:<hexpath>:<k> |
           Lnk:<hexpath>:<k>:<N|U><hextext> | W:<hexpath>:<hexdata>:<mtime|->:<more01>          answer: res=ok,EEXIST,... events=.. fs=.. *)
        let rec drop = function "S" :: r -> r | _ :: r -> drop r | [] -> failwith "no S" in
        let (nodes, r) = parse_nodes (drop rest) [] in
        let r = (match r with "C" :: r -> r | _ -> failwith "no C") in
        let target_of s = let h = String.sub s 1 (String.length s - 1) in if s.[0] = 'N' then TNorm (unhex h) else TRaw (unhex h) in
        let cmd_of tok = match String.split_on_char ':' tok with
          | ["Mk"; p] -> CCreateFolder (path_of_hex p)
          | ["RmF"; p] -> CDeleteFile (path_of_hex p)
          | ["RmD"; p] -> CDeleteFolder (path_of_hex p)
          | ["RmL"; p; k] -> CDeleteSymlink (path_of_hex p, kind_of k)
          | ["Lnk"; p; k; t] -> CCreateSymlink (path_of_hex p, kind_of k, target_of t)
          | ["W"; p; d; mt; more] -> CCreateOrUpdateFile (path_of_hex p, unhex d, (if mt = "-" then None else Some (z_of_decimal mt)), more = "1")
          | _ -> failwith ("cmd " ^ tok) in
        let cmds = List.map cmd_of (List.filter (fun t -> t <> "E") r) in
        let (st, res) = doer_ops nodes cmds in
        Printf.printf "res=%s events=%s fs=%s\n" (cat "," (List.map (function None -> "ok" | Some e -> err_s e) res))
          (cat "," (List.map event_s st.d_events)) (cat ";" (List.sort compare (List.map node_s st.d_fs)))
     | "NORM" :: h :: _ -> print_endline (target_s (normalize_unix (unhex h)))
     | "SAMETEXT" :: a :: b :: _ -> print_endline (if same_path_text (unhex a) (unhex b) then "1" else "0")
     | _ -> print_endline "BADREQ");
    flush stdout
  done with End_of_file -> ()
