(* Line driver around the extracted walker model (C17).  Parsing/printing only.
   Request:  J <END|ERR> <k> <pathhex:kind>{k} T <tree tokens>
     tree tokens:  F | L | O | B | D <readable 0|1> <n> { <namehex> <skip 0|1> <tree> }{n}
     path = hex of the '/'-joined relative path; kind = f|l|d|o
   Answer:   admits=<0|1> expect=<END n|ERR> *)
open Walker

let unhex h = if h = "-" then [] else
  List.init (String.length h / 2) (fun i -> Char.chr (int_of_string ("0x" ^ String.sub h (2*i) 2)))
let rec split_slash (cur : char list) (acc : char list list) = function
  | [] -> List.rev (List.rev cur :: acc)
  | '/' :: r -> split_slash [] (List.rev cur :: acc) r
  | c :: r -> split_slash (c :: cur) acc r
let path_of h = split_slash [] [] (unhex h)
let kind_of = function "f" -> KFile | "l" -> KLink | "d" -> KDir | "o" -> KOther | s -> failwith ("kind " ^ s)

let rec parse_tree toks = match toks with
  | "F" :: r -> (Leaf LFile, r) | "L" :: r -> (Leaf LLink, r) | "O" :: r -> (Leaf LOther, r) | "B" :: r -> (Leaf LBad, r)
  | "D" :: rd :: n :: r ->
      let n = int_of_string n in
      let rec go i r acc = if i = 0 then (List.rev acc, r) else
        (match r with
         | nm :: sk :: r' -> let (t, r'') = parse_tree r' in go (i-1) r'' ((unhex nm, (sk = "1", t)) :: acc)
         | _ -> failwith "tree tokens") in
      let (ch, r) = go n r [] in (Dir (rd = "1", ch), r)
  | _ -> failwith "tree tokens"

let rec take k l acc = if k = 0 then (List.rev acc, l) else match l with x :: r -> take (k-1) r (x :: acc) | [] -> failwith "short"

let () =
  try while true do
    let line = input_line stdin in
    let toks = List.filter (fun s -> s <> "") (String.split_on_char ' ' line) in
    (match toks with
     | "J" :: outcome :: k :: rest ->
        let (ents, rest) = take (int_of_string k) rest [] in
        let ents = List.map (fun t -> match String.index_opt t ':' with
            | Some i -> (path_of (String.sub t 0 i), kind_of (String.sub t (i+1) (String.length t - i - 1)))
            | None -> failwith "entry") ents in
        (match rest with
         | "T" :: tt ->
            let (t, _) = parse_tree tt in
            let ok = admits t (outcome = "END") ents in
            let expect = if has_error t then "ERR" else Printf.sprintf "END %d" (List.length (walk_spec [] t)) in
            Printf.printf "admits=%d expect=%s\n" (if ok then 1 else 0) expect
         | _ -> print_endline "BADREQ")
     | _ -> print_endline "BADREQ");
    flush stdout
  done with End_of_file -> ()
