(* Line driver around the extracted wire model (C14): message codec and byte-accounted channel.
   Parsing/printing only.  Request lines (same lines the Rust harness subs `bincode` / `channel` read):
     E C <command description>      encode a Command        E R <response description>
     D C <hex> / D R <hex>          decode bytes as a Command / Response, print the re-encoding
     K C <command description>      what the encrypted link does with it (Model/WireLink.v): size, crc32 of the
     K R <response description>     encoding (printing only: zlib's CRC-32 of the model's bytes), delivery class
     (channel requests: see below) *)
open Wire

(* ---- numbers *)
let rec pos_of_int i = if i = 1 then XH else if i land 1 = 0 then XO (pos_of_int (i lsr 1)) else XI (pos_of_int (i lsr 1))
let n_of_int i = if i = 0 then N0 else Npos (pos_of_int i)
let ten = n_of_int 10
let n_of_string s =
  let acc = ref N0 in
  String.iter (fun c -> if c < '0' || c > '9' then failwith ("number " ^ s);
                acc := N.add (N.mul !acc ten) (n_of_int (Char.code c - 48))) s;
  if s = "" then failwith "empty number"; !acc
let rec int_of_pos = function XH -> 1 | XO p -> 2 * int_of_pos p | XI p -> 2 * int_of_pos p + 1
let int_of_n = function N0 -> 0 | Npos p -> int_of_pos p
let string_of_n v =
  if v = N0 then "0" else begin
    let b = Buffer.create 20 and v = ref v in
    let digits = ref [] in
    while !v <> N0 do digits := int_of_n (N.modulo !v ten) :: !digits; v := N.div !v ten done;
    List.iter (fun d -> Buffer.add_char b (Char.chr (48 + d))) !digits; Buffer.contents b end
let z_of_string s =
  if s <> "" && s.[0] = '-' then (match n_of_string (String.sub s 1 (String.length s - 1)) with N0 -> Z0 | Npos p -> Zneg p)
  else (match n_of_string s with N0 -> Z0 | Npos p -> Zpos p)

(* ---- bytes *)
let unhex h = if h = "-" then [] else begin
  let n = String.length h / 2 in
  let acc = ref [] in
  for i = n - 1 downto 0 do acc := Char.chr (int_of_string ("0x" ^ String.sub h (2*i) 2)) :: !acc done; !acc end
let hex (l : char list) = if l = [] then "-" else begin
  let b = Buffer.create 4096 in
  let hx = "0123456789abcdef" in
  List.iter (fun c -> let k = Char.code c in Buffer.add_char b hx.[k lsr 4]; Buffer.add_char b hx.[k land 15]) l;
  Buffer.contents b end
(* payload of a given length from a seed: the same generator as the Rust harness *)
let payload len seed =
  let buf = Bytes.create len in
  let x = ref (seed land 0xFFFFFFFF) in
  for i = 0 to len - 1 do
    x := (!x * 1664525 + 1013904223) land 0xFFFFFFFF;
    Bytes.set buf i (Char.chr (!x lsr 24))
  done;
  let acc = ref [] in
  for i = len - 1 downto 0 do acc := Bytes.get buf i :: !acc done; !acc

(* ---- message descriptions *)
let toks = ref []
let next () = match !toks with t :: r -> toks := r; t | [] -> failwith "missing token"
let split2 s = match String.index_opt s ':' with
  | Some i -> (String.sub s 0 i, String.sub s (i+1) (String.length s - i - 1)) | None -> failwith ("pair " ^ s)
let p_str () = unhex (next ())
let p_n () = n_of_string (next ())
let p_bool () = match next () with "0" -> false | "1" -> true | s -> failwith ("bool " ^ s)
let p_payload () = let (a, b) = split2 (next ()) in payload (int_of_string a) (int_of_string b)
let time_of s = let (a, b) = split2 s in { t_sec = z_of_string a; t_nsec = n_of_string b }
let p_dur () = let (a, b) = split2 (next ()) in { d_sec = n_of_string a; d_nsec = n_of_string b }
let p_kind () = match next () with "File" -> SKFile | "Folder" -> SKFolder | "Unknown" -> SKUnknown | s -> failwith ("kind " ^ s)
let p_target () = match next () with
  | "norm" -> STNormalized (p_str ()) | "notnorm" -> STNotNormalized (p_str ()) | s -> failwith ("target " ^ s)
let p_details_after = function
  | "file" -> let t = time_of (next ()) in let sz = p_n () in EDFile (t, sz)
  | "folder" -> EDFolder
  | "symlink" -> let k = p_kind () in let t = p_target () in EDSymlink (k, t)
  | s -> failwith ("details " ^ s)
let p_marker () =
  let w = p_n () in
  let ph = match next () with
    | "deleting" -> PDeleting (p_n ())
    | "copying" -> let n = p_n () in let b = p_n () in PCopying (n, b)
    | "done" -> PDone
    | s -> failwith ("phase " ^ s) in
  { pm_completed_work = w; pm_phase = ph }
let rec times n f = if n = 0 then [] else let x = f () in x :: times (n - 1) f

let p_command () = match next () with
  | "SetRoot" -> CSetRoot (p_str ())
  | "GetEntries" ->
      let np = int_of_string (next ()) in let ps = times np p_str in
      let nk = int_of_string (next ()) in
      let ks = times nk (fun () -> match next () with "I" -> FInclude | "E" -> FExclude | s -> failwith ("fk " ^ s)) in
      CGetEntries { f_patterns = ps; f_kinds = ks }
  | "CreateRootAncestors" -> CCreateRootAncestors
  | "GetFileContent" -> CGetFileContent (p_str ())
  | "CreateOrUpdateFile" ->
      let p = p_str () in let d = p_payload () in
      let mt = (match next () with "none" -> None | s -> Some (time_of s)) in
      let more = p_bool () in CCreateOrUpdateFile (p, d, mt, more)
  | "CreateSymlink" -> let p = p_str () in let k = p_kind () in let t = p_target () in CCreateSymlink (p, k, t)
  | "CreateFolder" -> CCreateFolder (p_str ())
  | "DeleteFile" -> CDeleteFile (p_str ())
  | "DeleteFolder" -> CDeleteFolder (p_str ())
  | "DeleteSymlink" -> let p = p_str () in let k = p_kind () in CDeleteSymlink (p, k)
  | "ProfilingTimeSync" -> CProfilingTimeSync
  | "Marker" -> CMarker (p_marker ())
  | "Shutdown" -> CShutdown
  | s -> failwith ("command " ^ s)

let p_response () = match next () with
  | "RootDetails" ->
      let d = (match next () with "none" -> None | "some" -> Some (p_details_after (next ())) | s -> failwith ("opt " ^ s)) in
      let diff = p_bool () in let c = p_str () in RRootDetails (d, diff, c)
  | "Entry" -> let p = p_str () in let d = p_details_after (next ()) in REntry (p, d)
  | "EndOfEntries" -> REndOfEntries
  | "FileContent" -> let d = p_payload () in let more = p_bool () in RFileContent (d, more)
  | "ProfilingTimeSync" -> RProfilingTimeSync (p_dur ())
  | "ProfilingDataDefault" -> RProfilingData { pd_offset = { d_sec = N0; d_nsec = N0 }; pd_threads = [] }
  | "Marker" -> RMarker (p_marker ())
  | "Error" -> RError (p_str ())
  | s -> failwith ("response " ^ s)

let show_enc enc size send rt =
  match enc, size, send with
  | Ok b, Ok n, Ok m -> Printf.sprintf "OK size=%s send=%s rt=%d %s" (string_of_n n) (string_of_n m) (if rt b then 1 else 0) (hex b)
  | e, s, p ->
    Printf.sprintf "%s size=%s send=%s" (match e with Ok _ -> "OK" | Err _ -> "ERR" | Panic _ -> "PANIC")
      (match s with Ok n -> string_of_n n | Err _ -> "ERR" | Panic _ -> "PANIC")
      (match p with Ok n -> string_of_n n | Err _ -> "ERR" | Panic _ -> "PANIC")

(* ---- the encrypted link: size / digest of the model's encoding and the class of Model/WireLink.v *)
let crc_table = Array.init 256 (fun i ->
  let c = ref i in
  for _ = 0 to 7 do c := if !c land 1 <> 0 then 0xEDB88320 lxor (!c lsr 1) else !c lsr 1 done; !c)
let crc32 (l : char list) =
  let c = ref 0xFFFFFFFF in
  List.iter (fun ch -> c := crc_table.((!c lxor Char.code ch) land 0xff) lxor (!c lsr 8)) l;
  (!c lxor 0xFFFFFFFF) land 0xFFFFFFFF
let string_of_chars (l : char list) = String.concat "" (List.map (String.make 1) l)
let show_link enc cls =
  match enc with
  | Ok b -> Printf.sprintf "size=%d crc=%08x class=%s" (List.length b) (crc32 b) (string_of_chars (link_class_name cls))
  | _ -> Printf.sprintf "size=ERR crc=- class=%s" (string_of_chars (link_class_name cls))

(* ---- channel: the same single-threaded schedules as harness/subs/channel.rs, as atomic steps of the model *)
let chan_single () =
  let cap = p_n () in
  let st = ref (chan_init cap) in
  let next_id = ref 1 in
  let out = ref [] in
  let emit s = out := s :: !out in
  let step o = match chan_step !st o with Some s' -> st := s'; true | None -> false in
  (* the blocked sender runs one iteration of its wait loop after every receive *)
  let suffix () = match !st.c_spc with
    | SWaiting (_, _) ->
        ignore (step OLoad);
        (match !st.c_spc with SPush (_, _) -> ignore (step OPush); ",u" | _ -> ",b")
    | _ -> "" in
  let recv tag =
    if step OPop then begin
      ignore (step OFetchSub);
      let id = List.nth !st.c_delivered (List.length !st.c_delivered - 1) in
      let sfx = suffix () in emit (Printf.sprintf "%s:%d%s" tag id sfx) end
    else if tag = "t" then begin
      ignore (step OTryEmpty);
      emit ("t:empty" ^ (match !st.c_spc with SWaiting (_, _) -> ",b" | _ -> "")) end
    else emit "r:TIMEOUT" in
  List.iter (fun op ->
    match op.[0] with
    | 's' ->
        let size = n_of_string (String.sub op 1 (String.length op - 1)) in
        (match !st.c_spc with
         | SIdle ->
            let id = !next_id in incr next_id;
            ignore (step (OFetchAdd (id, size)));
            (match !st.c_spc with SWaiting (_, _) -> ignore (step OLoad) | _ -> ());
            (match !st.c_spc with
             | SPush (_, _) -> ignore (step OPush); emit "s:ok"
             | SWaiting (_, _) -> emit "s:blocked"
             | _ -> emit "s:UNDERFLOW")
         | _ -> emit "s:BUSY")
    | 'r' -> recv "r"
    | 't' -> recv "t"
    | 'u' -> emit ("u:" ^ string_of_n !st.c_usage)
    | 'q' -> emit (Printf.sprintf "q:%d" (List.length !st.c_queue))
    | _ -> emit "BADOP") !toks;
  String.concat " " (List.rev !out)

let handle line =
  toks := List.filter (fun s -> s <> "") (String.split_on_char ' ' line);
  match next () with
  | "E" -> (match next () with
      | "C" -> let c = p_command () in
          show_enc (encode_command c) (serialized_size_command c) (send_size_command c)
            (fun b -> decode_command b = Some (c, []))
      | "R" -> let r = p_response () in
          show_enc (encode_response r) (serialized_size_response r) (send_size_response r)
            (fun b -> decode_response b = Some (r, []))
      | s -> failwith ("E " ^ s))
  | "D" -> (match next () with
      | "C" -> (match decode_command (p_str ()) with
          | Some (c, _) -> (match encode_command c with Ok b -> "OK " ^ hex b | _ -> "OK unencodable")
          | None -> "ERR")
      | "R" -> (match decode_response (p_str ()) with
          | Some (r, _) -> (match encode_response r with Ok b -> "OK " ^ hex b | _ -> "OK unencodable")
          | None -> "ERR")
      | s -> failwith ("D " ^ s))
  | "K" -> (match next () with
      | "C" -> let c = p_command () in show_link (encode_command c) (link_class_command c)
      | "R" -> let r = p_response () in show_link (encode_response r) (link_class_response r)
      | s -> failwith ("K " ^ s))
  | "S" -> chan_single ()
  | _ -> "BADREQ"

let () =
  try while true do
    let line = input_line stdin in
    (try print_endline (handle line) with Failure m -> print_endline ("BADREQ " ^ m));
    flush stdout
  done with End_of_file -> ()
