#!/usr/bin/env python3
"""Assemble MANIFEST.json from manifest.d/CNN.json fragments (one check object each) and
known_findings.json from known_findings.d/*.json (one finding object each).  Run after adding a fragment."""
import json, glob, os, subprocess, sys
V = os.path.dirname(os.path.dirname(os.path.abspath(__file__)))
ALL = ['C%02d' % i for i in range(1, 20)]

def main():
    checks = []
    for f in sorted(glob.glob(os.path.join(V, 'manifest.d', 'C*.json'))):
        checks.append(json.load(open(f)))
    claimed = [c['property_id'] for c in checks]
    try:
        na = json.load(open(os.path.join(V, 'manifest.d', '_not_applicable.json')))
    except OSError:
        na = {}
    hooks = [l.split()[0] for l in subprocess.check_output(
        ['git', '-C', '/repo', 'log', '--format=%H %s'], text=True).splitlines() if ' verif hook' in l]
    m = {
        "version": 1,
        "setup_cmd": "python3 tools/setup.py",
        "hooks": {
            "guard": "rjrssync_verif",
            "enable": "RUSTFLAGS='--cfg rjrssync_verif' RJRSSYNC_VERIF_HARNESS=/verif/.cache/harness_gen cargo build --offline --target-dir /verif/.cache/target (harness sources live in /verif/harness; /repo only has add-only include/hook lines under the cfg; two later hook commits edit earlier HOOK lines - cfg-guarded ones - never a line of the original source)",
            "baseline_off_cmd": "cd /repo && cargo nextest run --workspace --no-fail-fast --test-threads 8 --offline || cargo test --workspace --no-fail-fast --offline",
            "source_commits": hooks[::-1],
            "add_only": True
        },
        "engines": [
            {"name": "coq-model", "path": "coq/", "serves_properties": claimed, "kind_free_text": "hand-written executable Gallina model + theorems (Coq 8.16.1); Gen/Facts*.v regenerated from the running code on every run"},
            {"name": "rust-harness", "path": "harness/", "serves_properties": claimed, "kind_free_text": "in-crate harness compiled into rjrssync under cfg rjrssync_verif; calls the real crate-private functions"},
            {"name": "ocaml-judges", "path": "ocaml/", "serves_properties": claimed, "kind_free_text": "extracted model (ExtrOcamlBasic/ExtrOcamlString) + line drivers, run side by side with the implementation"},
            {"name": "e2e-sandbox", "path": "tools/", "serves_properties": claimed, "kind_free_text": "python orchestrator running the real CLI (local and fake-ssh remote placements) in generated sandboxes"}
        ],
        "checks": checks,
        "not_applicable": [{"property_id": p, "reason": na.get(p, "check under construction in this session (see DESIGN.md section 9 build order); not claimed until its check is registered")} for p in ALL if p not in claimed],
        "notes": "One check per property: ./check CNN.  See DESIGN.md."
    }
    json.dump(m, open(os.path.join(V, 'MANIFEST.json'), 'w'), indent=1)
    findings = []
    for f in sorted(glob.glob(os.path.join(V, 'known_findings.d', '*.json'))):
        findings.append(json.load(open(f)))
    json.dump({"findings": findings}, open(os.path.join(V, 'known_findings.json'), 'w'), indent=1)
    print('MANIFEST.json: %d checks; known_findings.json: %d entries' % (len(checks), len(findings)))

if __name__ == '__main__':
    main()
