"""Helpers of the C11 check (chunked file transfer): the length families, the deterministic fill the
Rust harness / OCaml judge / python agree on, a judge runner that gives the extracted model the
stack it needs for 4 MiB chunks (the extracted list functions are not tail recursive), the relay
case generator and the python property oracles."""
import os, subprocess, resource, zlib, threading
import vlib

FIRST = 4096
MAXC = 4 * 1024 * 1024


def ladder_sums():
    """Partial sums of the chunk-size ladder 4 KiB, 8 KiB, ..., 4 MiB, 4 MiB."""
    out, s, c = [], 0, FIRST
    while c < MAXC:
        s += c; out.append(s); c *= 2
    s += MAXC; out.append(s)          # ... + first 4 MiB chunk   (8 MiB - 4 KiB)
    s += MAXC; out.append(s)          # ... + second 4 MiB chunk  (12 MiB - 4 KiB)
    return out


def boundary_lengths(limit=None):
    """Every ladder partial sum +-2 and 2^k +-2 for k = 12..22, plus the small lengths around the 32-byte buffer."""
    ls = {0, 1, 2, 3, 31, 32, 33, 63, 64, 65, 100, 1000}
    for s in ladder_sums():
        ls.update(range(s - 2, s + 3))
    for k in range(12, 23):
        ls.update(range(2 ** k - 2, 2 ** k + 3))
    return sorted(x for x in ls if limit is None or x <= limit)


def expected_full_read_sizes(n):
    """Chunk sizes the documented scheme gives for an n-byte file read with full reads (python oracle,
    written from the comment in the property text / code anchors, not from the model)."""
    if n == 0:
        return [0]
    out, c = [], FIRST
    while n > 0:
        t = min(c, n); out.append(t); n -= t
        c = min(c * 2, MAXC)
    return out


# ------------------------------------------------------------------------------------------------
def fill_bytes(seed, off, n):
    """byte i of the stream is (i*131 + seed) % 251  (period 251)."""
    if n == 0:
        return b''
    pat = bytes(((i * 131 + seed) % 251) for i in range(251))
    start = off % 251
    reps = (n + start) // 251 + 2
    return (pat * reps)[start:start + n]


def content_bytes(seed, off, n, zeros=()):
    """fill_bytes with the stream positions inside the half-open ranges `zeros` = [(a, b), ...] set to 0:
    sparse / pre-allocated / zero-padded contents (the harness and the judge build the same bytes)."""
    b = fill_bytes(seed, off, n)
    if not zeros or n == 0:
        return b
    ba = bytearray(b)
    for a, e in zeros:
        lo, hi = max(a, off) - off, min(e, off + n) - off
        if lo < hi:
            ba[lo:hi] = bytes(hi - lo)
    return bytes(ba)


def zero_layouts(n):
    """Content families for an n-byte file as (family name, zero ranges): all zero, random prefix + zero
    tail, zero prefix + random tail, a zero run in the middle; the cuts are the chunk boundaries of the
    full-read ladder (so whole chunks are zero), one byte off them, and the middle of the last chunk."""
    if n == 0:
        return []
    sums, s = [0], 0
    for t in expected_full_read_sizes(n):
        s += t; sums.append(s)
    cuts = sorted({c for x in sums for c in (x - 1, x, x + 1) if 0 < c < n} | {(sums[-2] + n) // 2} - {0, n})
    out = [('all-zero', [(0, n)])]
    for c in cuts:
        out.append(('zero-tail@%d' % c, [(c, n)]))
        out.append(('zero-head@%d' % c, [(0, c)]))
    for a, b in zip(sums[1:], sums[2:-1]):
        out.append(('zero-middle@%d-%d' % (a, b), [(a, b)]))
    if len(sums) >= 5:
        out.append(('zero-middle@%d-%d' % (sums[1], sums[-2]), [(sums[1], sums[-2])]))
    return out


def crc(b):
    return '%08x' % (zlib.crc32(b) & 0xffffffff)


def hexs(s):
    return s.encode().hex() if s else '-'


# ------------------------------------------------------------------------------------------------
def _limits():
    resource.setrlimit(resource.RLIMIT_STACK, (resource.RLIM_INFINITY, resource.RLIM_INFINITY))


def run_judge(jbin, lines, timeout=1500):
    """Like vlib.judge but with an unlimited stack and a large minor heap (deep non-tail recursion on
    4 MiB lists: the OCaml GC scans the stack at every minor collection)."""
    if not lines:
        return []
    env = dict(os.environ, OCAMLRUNPARAM='s=32M')
    p = subprocess.run([jbin], input='\n'.join(lines) + '\n', text=True, timeout=timeout,
                       stdout=subprocess.PIPE, stderr=subprocess.PIPE, preexec_fn=_limits, env=env)
    if p.returncode != 0:
        raise vlib.BrokenTie('judge %s failed (rc %d): %s' % (os.path.basename(jbin), p.returncode, p.stderr[-2000:]))
    out = p.stdout.splitlines()
    if len(out) != len(lines):
        raise vlib.BrokenTie('judge answered %d lines for %d requests' % (len(out), len(lines)))
    return out


def run_judge_parallel(jbin, lines, weights=None, workers=8):
    """Distributes request lines over `workers` judge processes (heaviest first, round robin)."""
    n = len(lines)
    if n == 0:
        return []
    order = sorted(range(n), key=lambda i: -(weights[i] if weights else 0))
    buckets = [[] for _ in range(min(workers, n))]
    for k, i in enumerate(order):
        buckets[k % len(buckets)].append(i)
    res, errs = [None] * n, []

    def work(idx):
        try:
            out = run_judge(jbin, [lines[i] for i in idx])
            for i, o in zip(idx, out):
                res[i] = o
        except Exception as e:       # re-raised in the caller's thread
            errs.append(e)
    ts = [threading.Thread(target=work, args=(b,)) for b in buckets]
    for t in ts:
        t.start()
    for t in ts:
        t.join()
    if errs:
        raise errs[0]
    return res


# ------------------------------------------------------------------------------------------------
# unit chunks: oracle on what the implementation answered for a file with bytes `data`
def parse_chunks(line):
    """'OK n size:more:crc ...' -> [(size, more, crc)] or None"""
    t = line.split()
    if not t or t[0] != 'OK':
        return None
    out = []
    for c in t[2:]:
        s, m, h = c.split(':')
        out.append((int(s), m == '1', h))
    if len(out) != int(t[1]):
        return None
    return out


def chunks_oracle(data, impl_line):
    """The property, on the implementation's chunk list: the chunks are, in order, exactly the bytes of
    the file (so a receiver that concatenates them gets the file), only the last one says 'no more'."""
    cs = parse_chunks(impl_line)
    if cs is None:
        return 'the reader failed on a readable file: ' + impl_line[:100]
    if not cs:
        return 'no chunk at all (the receiver would never finish the file)'
    if sum(c[0] for c in cs) != len(data):
        return 'chunk sizes sum to %d, file has %d bytes' % (sum(c[0] for c in cs), len(data))
    off = 0
    for s, more, h in cs:
        if crc(data[off:off + s]) != h:
            return 'chunk at offset %d (%d bytes) does not carry the file bytes' % (off, s)
        off += s
    flags = [c[1] for c in cs]
    if flags != [True] * (len(cs) - 1) + [False]:
        return 'more_to_follow flags are %r' % flags
    return None


# ------------------------------------------------------------------------------------------------
# relay cases
class RelayCase:
    """listed size, the chunk sequence the (scripted) source doer answers, previous destination."""

    def __init__(self, listed, chunks, prev=None, end='F', seed=7, kind='', mtime_ns=1600000000123456789, prev_newer=False, zeros=()):
        self.listed, self.chunks, self.prev, self.end, self.seed, self.kind = listed, [(int(s), bool(m)) for s, m in chunks], prev, end, seed, kind
        self.mtime_ns, self.prev_newer = mtime_ns, prev_newer
        self.zeros = [(int(a), int(b)) for a, b in (zeros or ()) if int(a) < int(b)]   # stream positions that are zero bytes
        if all(m for _, m in self.chunks):
            self.end = 'X'     # without a final chunk a patient source would leave the boss waiting forever: it hangs up instead

    def spec(self):
        return ','.join('%d:%d' % (s, 1 if m else 0) for s, m in self.chunks) or '-'

    def zspec(self):
        return (' Z' + ','.join('%d-%d' % z for z in self.zeros)) if self.zeros else ''

    def harness_line(self, dest):
        return 'R %d %d %s %d %s %s%s' % (self.listed, self.mtime_ns, hexs(dest), self.seed, self.end, self.spec(), self.zspec())

    def judge_line(self, unfixed=False):
        return 'R %d %d %s %d %s %s%s%s' % (self.listed, self.mtime_ns, 'absent' if self.prev is None else str(self.prev),
                                            self.seed, self.end, self.spec(), ' U' if unfixed else '', self.zspec())

    def prepare(self, dest):
        if self.prev is not None:
            with open(dest, 'wb') as f:
                f.write(fill_bytes(self.seed + 1, 0, self.prev))
            t = self.mtime_ns + (5 if self.prev_newer else -5) * 10 ** 9
            os.utime(dest, ns=(t, t))

    def well_flagged(self):
        f = [m for _, m in self.chunks]
        return self.end == 'F' and len(f) > 0 and f == [True] * (len(f) - 1) + [False]

    def actual(self):
        """bytes of the source file at copy time (what the reader sent), for a well-flagged sequence"""
        return content_bytes(self.seed, 0, sum(s for s, _ in self.chunks), self.zeros)

    def to_json(self):
        return {'driver': 'scripted-relay', 'listed': self.listed, 'chunks': [[s, 1 if m else 0] for s, m in self.chunks],
                'prev': self.prev, 'end': self.end, 'seed': self.seed, 'kind': self.kind, 'mtime_ns': self.mtime_ns,
                'prev_newer': self.prev_newer, 'zero_ranges': [list(z) for z in self.zeros]}

    @staticmethod
    def from_json(j):
        return RelayCase(j['listed'], j['chunks'], j.get('prev'), j.get('end', 'F'), j.get('seed', 7), j.get('kind', 'replay'),
                         j.get('mtime_ns', 1600000000123456789), j.get('prev_newer', False), j.get('zero_ranges') or ())

    def canonical(self):
        return (self.listed, tuple(self.chunks), self.prev, self.end, self.prev_newer, tuple(self.zeros))


def full_read_chunks(n):
    sizes = expected_full_read_sizes(n)
    return [(s, i < len(sizes) - 1) for i, s in enumerate(sizes)]


def relay_oracle(case, impl_line):
    """C11 on one relayed file: success => the destination holds exactly the source bytes (with the
    source's mtime) and the size seen at listing time equals the size at copy time; a different size
    => the sync must not report success.  Returns a failure text or None."""
    res, _, st = impl_line.partition(' ')
    if not case.well_flagged():
        return None            # a source doer that breaks the protocol: correspondence only
    data = case.actual()
    if res == 'Ok':
        if len(data) != case.listed:
            return ('sync reported success although the source file had %d bytes when it was listed and %d bytes when it was copied; destination is %s'
                    % (case.listed, len(data), st))
        want = '%d:%s:%d' % (len(data), crc(data), case.mtime_ns)
        if st != want:
            return 'sync reported success but the destination is %s, the source is %s' % (st, want)
    elif len(data) == case.listed:
        return 'sync did not succeed (%s) although the file did not change between listing and copy' % res
    return None
