#!/bin/sh
# Re-checks every compiled Props module, the two translator-equality modules, and all they depend on with Coq's independent checker
# and prints the axioms.
cd "$(dirname "$0")/../coq" || exit 2
exec coqchk -silent -o -Q theories RJ $(ls theories/Props/*.v | sed 's|theories/Props/\(.*\)\.v|RJ.Props.\1|' | tr '\n' ' ') RJ.Proofs.TransPlanEq RJ.Proofs.TransPathEq
