#!/bin/sh
# Re-checks every compiled Props module and all it depends on with Coq's independent checker and prints the axioms.
cd "$(dirname "$0")/../coq" || exit 2
exec coqchk -silent -o -Q theories RJ $(ls theories/Props/*.v | sed 's|theories/Props/\(.*\)\.v|RJ.Props.\1|' | tr '\n' ' ')
