#!/bin/sh
# regenerate _CoqProject/Makefile from the glob and make the given targets
cd "$(dirname "$0")/../coq" || exit 1
(echo "-Q theories RJ"; find theories -name '*.v' | sort) > _CoqProject.new
if ! cmp -s _CoqProject.new _CoqProject || [ ! -f Makefile ]; then mv _CoqProject.new _CoqProject; coq_makefile -f _CoqProject -o Makefile >/dev/null; else rm _CoqProject.new; fi
mkdir -p extracted
exec timeout 1500 make -j16 "$@"
